"""C19 -- Stream I/O round-trips and reports positions consistently."""
import json, os, re, shutil
from concurrent.futures import ThreadPoolExecutor
from vlib import core

META = {
    "level": "proof",
    "text": ("Coq theorems over a reference model of a file stream (bytes, read position, past-end flag, eof_action, type, line count): "
             "write_then_read (whatever put_char/put_code/put_byte/nl/write/format append is read back unit by unit, then end of file), "
             "peek_does_not_consume, at_end_iff_next_is_eof, position_is_consumed_count, line_count_is_newlines_consumed, eof_action_semantics, "
             "for ALL contents and ALL operation scripts. The model is tied to the code by a differential run: payloads are written to a scratch "
             "file by the real output predicates, the file is reopened (text/binary, each eof_action, reposition on/off) and scripts of up to 30 "
             "get/peek/get_n_chars/at_end_of_stream/stream_property/set_stream_position operations are executed; every returned value, error formal, "
             "position(position_and_lines_read(P,L)) and end_of_stream(E) is compared with the model inside Coq."),
    "note": ("Trusted: Coq kernel + vm_compute; the UTF-8 decoder is V.C18.Model.decode1 (proved there to invert the encoder); the Python generator; "
             "harness vrun; the OS file system. Modelled, not verified: the Rust stream zoo (only file streams are reachable from Prolog in this build: "
             "in-memory byte streams exist only as the embedding's user_input and are not covered). Text content that is not valid UTF-8 is outside the "
             "model (EInvalid). get_n_chars/3 is modelled as the code does (it ignores past-end/eof_action). read_term round trips are not modelled. "
             "Deviations of the implementation are kept as switchable `quirks` of the model only to classify failures; all theorems are about `strict`. No axioms."),
    "technique": ("Coq proof (write_then_read, peek_does_not_consume, at_end_iff_next_is_eof, position_is_consumed_count, line_count_is_newlines_consumed, "
                  "eof_action_semantics) over a reference model + differential correspondence evaluated in Coq"),
    "design_ref": "DESIGN.md section 8, C19",
    "coq_targets": ["C19/Props.vo"], "coq_dirs": ["C19"], "props": "C19/Props.v",
    "trusted_base": ["Coq 8.16.1 kernel, vm_compute", "harness vrun + tools/vlib", "V.C18.Model decode1/encode_utf8", "OS file system"],
    "assumptions": ["text streams are read over valid UTF-8 only", "files are not modified while open for reading"],
}

IMPORTS = "From V Require Import C18.Model C19.Model."

DRIVER = r"""
:- use_module(library(lists)).
:- use_module(library(format)).
:- use_module(library(charsio)).
c19_case(File, WT, WOps, ROpts, Script, WR, RR) :-
    open(File, write, W, [type(WT)]),
    c19_ws(WOps, W, WR),
    close(W),
    open(File, read, S, ROpts),
    c19_rs(Script, S, none, RR),
    close(S).
c19_ws([], _, []).
c19_ws([O|Os], W, [R|Rs]) :-
    catch(( c19_w(O, W) -> R = ok ; R = failed ), error(E, _), c19_err(E, W, R)),
    c19_ws(Os, W, Rs).
c19_w(pc(X), W) :- char_code(C, X), put_char(W, C).
c19_w(pco(X), W) :- put_code(W, X).
c19_w(pb(X), W) :- put_byte(W, X).
c19_w(nl, W) :- nl(W).
c19_w(tx(0, Cs), W) :- atom_codes(A, Cs), write(W, A).
c19_w(tx(1, Cs), W) :- atom_codes(A, Cs), format(W, "~a", [A]).
c19_w(tx(2, Cs), W) :- atom_codes(A, Cs), atom_chars(A, Chs), format(W, "~s", [Chs]).
c19_w(tx(3, Cs), W) :- atom_codes(A, Cs), format(W, "~w~n", [A]).
c19_err(permission_error(A, B, S0), S, R) :- !, ( S0 == S -> R = err(A, B) ; R = err_other_stream(A, B) ).
c19_err(E, _, other(E)).
c19_rs([], _, _, []).
c19_rs([O|Os], S, Sv0, [R|Rs]) :-
    catch(( c19_r(O, S, Sv0, Sv, R) -> true ; R = failed, Sv = Sv0 ), error(E, _), ( c19_err(E, S, R), Sv = Sv0 )),
    c19_rs(Os, S, Sv, Rs).
c19_r(gc, S, V, V, v(X)) :- get_char(S, X).
c19_r(pk, S, V, V, v(X)) :- peek_char(S, X).
c19_r(gco, S, V, V, v(X)) :- get_code(S, X).
c19_r(pco, S, V, V, v(X)) :- peek_code(S, X).
c19_r(gb, S, V, V, v(X)) :- get_byte(S, X).
c19_r(pb, S, V, V, v(X)) :- peek_byte(S, X).
c19_r(gn(K), S, V, V, n(Cs)) :- get_n_chars(S, K, Cs).
c19_r(ae, S, V, V, b(B)) :- ( at_end_of_stream(S) -> B = true ; B = false ).
c19_r(pe, S, V, V, e(E)) :- stream_property(S, end_of_stream(E)).
c19_r(pp, S, V, V, p(P, L)) :- stream_property(S, position(position_and_lines_read(P, L))).
c19_r(sv, S, _, Pos, p(P, L)) :- stream_property(S, position(Pos)), Pos = position_and_lines_read(P, L).
c19_r(rs, S, V, V, ok) :- set_stream_position(S, V).
"""

CHARS = ["a", "b", "z", " ", "\n", "\n", "\r", "\x00", "\x7f", "é", "ü", "€", "日", "本", "😀", "𝄞", "﻿"]
PLAIN = ["a", "b", "c", "x", "y", " ", "é", "日", "😀", "\n", "0", "_"]
QUIRK_KEYS = {0: "eof_code:get_code-past-end-gives-end_of_file-atom", 1: "line-count:not-advanced-by-char-input",
              2: "bom:get-drops-U+FEFF-at-start", 3: "bom:get-drops-U+FEFF-mid-stream"}
QUIRK_WHAT = {
    0: "get_code/2 and peek_code/2 on a text stream that is past its end (eof_action(eof_code)) return the atom end_of_file instead of -1",
    1: "the line count L of position(position_and_lines_read(P,L)) is not advanced by newlines consumed through get_char/get_code/get_byte/get_n_chars",
    2: "get_char/get_code/get_n_chars silently drop a U+FEFF character written at the start of the file (peek_char shows it)",
    3: "get_char/get_code silently drop a U+FEFF character in the middle of the text (peek_char shows it, the next get_char returns the character after it)",
}


def gen_text(rng, n, pool=CHARS):
    cs = [rng.choice(pool) for _ in range(n)]
    while cs and cs[-1] == "﻿":      # never the last character (the model of the BOM deviation does not cover BOM-then-end)
        cs.pop()
    return cs


def gen_case(rng):
    wt = "text" if rng.random() < 0.75 else "binary"
    ws = []
    if wt == "text":
        for _ in range(rng.choice([0, 1, 1, 2, 3, 4, 6, 9])):
            r = rng.random()
            if r < 0.35: ws.append(("pc", ord(rng.choice(CHARS))))
            elif r < 0.5: ws.append(("pco", ord(rng.choice(CHARS))))
            elif r < 0.62: ws.append(("nl",))
            elif r < 0.95: ws.append(("tx", rng.randrange(4), [ord(c) for c in gen_text(rng, rng.choice([0, 1, 2, 3, 5]), PLAIN)]))
            else: ws.append(("pb", rng.randrange(256)))
        last = None            # the last character actually written must not be U+FEFF (BOM-then-end is outside the deviation model)
        for w in ws:
            if w[0] in ("pc", "pco"): last = w[1]
            elif w[0] == "nl" or (w[0] == "tx" and w[1] == 3): last = 10
            elif w[0] == "tx" and w[2]: last = w[2][-1]
        if last == 0xFEFF:
            ws.append(("pc", 97))
        rt = "text" if rng.random() < 0.8 else "binary"
    else:
        if rng.random() < 0.5:
            rt = "text"
            for b in "".join(gen_text(rng, rng.choice([0, 1, 2, 4, 7]))).encode("utf-8"):
                ws.append(("pb", b))
        else:
            rt = "binary"
            for _ in range(rng.choice([0, 1, 2, 3, 5, 8, 12])):
                ws.append(("pb", rng.choice([0, 10, 13, 255, 128, 0xC3, 97, rng.randrange(256)])))
        if rng.random() < 0.15:
            ws.insert(rng.randrange(len(ws) + 1), rng.choice([("pc", 97), ("nl",), ("pco", 98), ("tx", 0, [97])]))
    ea = rng.choice(["error", "eof_code", "reset"])
    rp = rng.random() < 0.5
    # script
    n_units = 0
    for w in ws:
        n_units += {"pc": 1, "pco": 1, "nl": 1, "pb": 1}.get(w[0], 0) + (len(w[2]) + (1 if w[1] == 3 else 0) if w[0] == "tx" else 0)
    length = min(30, rng.choice([n_units + 3, n_units + 5, rng.randrange(1, 31), 2 * n_units + 4]))
    own = ["gc", "pk", "gco", "pco"] if rt == "text" else ["gb", "pb"]
    other = ["gb", "pb"] if rt == "text" else ["gc", "pk", "gco", "pco"]
    script, saved = [], False
    heavy_read = rng.random() < 0.5
    for _ in range(length):
        r = rng.random()
        if r < (0.6 if heavy_read else 0.4):
            o = rng.choice(own) if rng.random() < 0.75 else rng.choice([x for x in own if x[0] == "g"])
        elif r < 0.63: o = rng.choice(other)
        elif r < 0.70: o = "gn(%d)" % rng.choice([0, 1, 2, 3, 5, 40])
        elif r < 0.78: o = "ae"
        elif r < 0.86: o = "pe"
        elif r < 0.92: o = "pp"
        elif r < 0.96: o = "sv"; saved = True
        else: o = "rs" if saved else "pp"
        script.append(o)
    return (wt, tuple(ws), rt, ea, rp, tuple(script))


def pl_wop(w):
    if w[0] == "nl": return "nl"
    if w[0] == "tx": return "tx(%d,[%s])" % (w[1], ",".join(map(str, w[2])))
    return "%s(%d)" % (w[0], w[1])


def coq_wop(w):
    if w[0] == "nl": return "WNl"
    if w[0] == "tx": return "WText %d [%s]" % (w[1], "; ".join(map(str, w[2])))
    return {"pc": "WPutChar", "pco": "WPutCode", "pb": "WPutByte"}[w[0]] + " %d" % w[1]


COQ_OP = {"gc": "OGetChar", "pk": "OPeekChar", "gco": "OGetCode", "pco": "OPeekCode", "gb": "OGetByte", "pb": "OPeekByte",
          "ae": "OAtEnd", "pe": "OPropEnd", "pp": "OPropPos", "sv": "OSave", "rs": "ORestore"}


def coq_op(o):
    if o.startswith("gn("): return "OGetN %s" % o[3:-1]
    return COQ_OP[o]


ERRS = {("input", "past_end_of_stream"): "EPastEnd", ("input", "binary_stream"): "EInBinary", ("input", "text_stream"): "EInText",
        ("output", "binary_stream"): "EOutBinary", ("output", "text_stream"): "EOutText", ("reposition", "stream"): "EReposition"}


def chars_of(t):
    """JSON term for a character list (string, list, or cons cells ending in a string) -> list of code points or None"""
    out = []
    while True:
        if "s" in t:
            out.extend(ord(c) for c in t["s"]); return out
        if "l" in t:
            for x in t["l"]:
                if "a" in x and len(x["a"]) == 1: out.append(ord(x["a"]))
                else: return None
            return out
        if "c" in t and t["c"][0] == "." and len(t["c"]) == 3 and "a" in t["c"][1] and len(t["c"][1]["a"]) == 1:
            out.append(ord(t["c"][1]["a"])); t = t["c"][2]; continue
        return None


def coq_res(t):
    if "a" in t:
        return "ROk" if t["a"] == "ok" else "ROther"
    if "c" not in t: return "ROther"
    f, args = t["c"][0], t["c"][1:]
    if f == "v" and len(args) == 1:
        x = args[0]
        if "a" in x:
            if x["a"] == "end_of_file": return "REof"
            if len(x["a"]) == 1: return "RChar %d" % ord(x["a"])
        if "i" in x: return "RInt (%s)" % x["i"]
        return "ROther"
    if f == "n" and len(args) == 1:
        cs = chars_of(args[0])
        return "ROther" if cs is None else "RChars [%s]" % "; ".join(map(str, cs))
    if f == "b" and "a" in args[0]: return "RBool %s" % args[0]["a"]
    if f == "e" and "a" in args[0] and args[0]["a"] in ("not", "at", "past"): return "REnd End%s" % args[0]["a"].capitalize()
    if f == "p" and len(args) == 2 and "i" in args[0] and "i" in args[1]: return "RPos %s %s" % (args[0]["i"], args[1]["i"])
    if f == "err" and len(args) == 2 and "a" in args[0] and "a" in args[1]:
        e = ERRS.get((args[0]["a"], args[1]["a"]))
        return "RErr %s" % e if e else "ROther"
    return "ROther"


def coq_args(case, wobs, robs):
    wt, ws, rt, ea, rp, script = case
    return "%s [%s] %s %s %s [%s] [%s] [%s]" % (
        wt.capitalize(), "; ".join(coq_wop(w) for w in ws), rt.capitalize(),
        {"error": "EError", "eof_code": "EEofCode", "reset": "EReset"}[ea], "true" if rp else "false",
        "; ".join(coq_op(o) for o in script), "; ".join(wobs), "; ".join(robs))


def query_of(case, path):
    wt, ws, rt, ea, rp, script = case
    return "c19_case('%s', %s, [%s], [type(%s),eof_action(%s),reposition(%s)], [%s], WR, RR)." % (
        path, wt, ",".join(pl_wop(w) for w in ws), rt, ea, "true" if rp else "false", ",".join(script))


def coq_eval_many(prop, exprs, tag="show"):
    """one coqc run printing the value of every expression; returns the printed values"""
    d = os.path.join(core.WORK, prop, tag)
    shutil.rmtree(d, ignore_errors=True)
    os.makedirs(d)
    path = os.path.join(d, "many.v")
    with open(path, "w") as f:
        f.write("From Coq Require Import List ZArith NArith String Ascii.\nImport ListNotations.\n" + IMPORTS + "\n")
        for i, e in enumerate(exprs):
            f.write("Eval vm_compute in (%s).\n" % e)
    rc, out = core.sh(["coqc", "-noglob", "-Q", core.COQ, "V", "-o", path + "o", path], timeout=900)
    parts = re.split(r"(?m)^\s*= ", out)
    vals = [re.sub(r"\s+", " ", p).strip() for p in parts[1:]]
    return vals + ["(no value: %s)" % out[-300:]] * (len(exprs) - len(vals))


def coq_eval_ns(prop, exprs, chunk=400, tag="cases"):
    """exprs of type N, evaluated by vm_compute in sharded coqc runs; returns (values or None, errors)"""
    d = os.path.join(core.WORK, prop, tag)
    shutil.rmtree(d, ignore_errors=True)
    os.makedirs(d)
    groups = [list(range(i, min(i + chunk, len(exprs)))) for i in range(0, len(exprs), chunk)]
    out = [None] * len(exprs)
    errors = []

    def one(k):
        idx = groups[k]
        path = os.path.join(d, "s%d.v" % k)
        with open(path, "w") as f:
            f.write("From Coq Require Import List ZArith NArith String Ascii.\nImport ListNotations.\n" + IMPORTS + "\n")
            for j, i in enumerate(idx):
                f.write("Definition c%d : N := %s.\n" % (j, exprs[i]))
            f.write("Definition all : list N := [%s].\nEval vm_compute in all.\n" % "; ".join("c%d" % j for j in range(len(idx))))
        rc, txt = core.sh(["coqc", "-noglob", "-Q", core.COQ, "V", "-o", path + "o", path], timeout=900)
        m = re.search(r"=\s*\[(.*?)\]\s*:\s*list N", txt, re.S)
        if rc != 0 or not m:
            return k, None, txt[-1500:]
        return k, [int(x) for x in re.findall(r"\d+", m.group(1))], None
    with ThreadPoolExecutor(max_workers=max(1, core.NPROC)) as ex:
        for k, vals, e in ex.map(one, range(len(groups))):
            if vals is None or len(vals) != len(groups[k]):
                errors.append((k, e or "wrong count"))
            else:
                for i, v in zip(groups[k], vals): out[i] = v
    return out, errors


CORPUS = [
    ("text", (("pc", 97), ("nl",), ("pc", 233), ("pc", 98)), "text", "eof_code", False,
     ("gc", "pp", "gc", "pp", "pk", "gc", "pp", "pe", "gc", "pe", "pp", "gc", "pe", "gc", "gco", "pco", "pk")),
    ("text", (("pc", 97), ("pc", 0xFEFF), ("pc", 98)), "text", "eof_code", False, ("gc", "pk", "pp", "gc", "pp", "gc", "gc")),
    ("text", (("pc", 0xFEFF), ("pc", 98)), "text", "error", False, ("pk", "gc", "pp", "gc", "gc")),
    ("text", (("tx", 3, (97, 98)),), "text", "reset", True, ("gc", "sv", "gc", "gc", "gc", "pe", "gc", "pp", "rs", "gc", "pp")),
    ("binary", (("pb", 0), ("pb", 255), ("pb", 10)), "binary", "error", False, ("gb", "pb", "gb", "gb", "pe", "gb", "pe", "gb", "pb", "gc")),
    ("text", (), "text", "reset", False, ("pe", "ae", "pk", "gc", "pe", "gc", "gc", "pp")),
]


def run(ctx):
    rng = ctx.rng
    n = ctx.scale(4000, 60000)
    cases, seen = [], set()
    for c in CORPUS:
        c = (c[0], tuple((w[0], w[1], list(w[2])) if w[0] == "tx" else w for w in c[1]), c[2], c[3], c[4], c[5])
        cases.append(c)
    while len(cases) < n:
        c = gen_case(rng)
        k = repr(c)
        if k in seen: continue
        seen.add(k); cases.append(c)
    d = "/var/tmp/verif_C19_%d" % os.getpid()
    shutil.rmtree(d, ignore_errors=True)
    os.makedirs(d)
    failures, tie_breaks = [], []
    try:
        jobs, per = [], 60
        for j in range(0, len(cases), per):
            jobs.append({"id": "j%d" % j, "consult": DRIVER, "fresh": True, "timeout_ms": 20000, "max_answers": 2,
                         "queries": [query_of(cases[i], os.path.join(d, "c%d.dat" % i)) for i in range(j, min(j + per, len(cases)))]})
        res = core.vrun_query(ctx.prop, jobs, tag="q")
    finally:
        shutil.rmtree(d, ignore_errors=True)
    exprs, idx = [], []
    dist = {"read_type": {}, "eof_action": {}, "reaches_end": 0, "multibyte": 0, "bom": 0, "type_mismatch_ops": 0, "reposition_used": 0}
    nontriv = 0
    obs = {}
    for j in range(0, len(cases), per):
        rec = res.get("j%d" % j, {})
        rs = rec.get("results") or []
        for off, i in enumerate(range(j, min(j + per, len(cases)))):
            case = cases[i]
            q = query_of(case, "<scratch>/c%d.dat" % i)
            ans = rs[off] if off < len(rs) else None
            if not ans or not isinstance(ans[0], dict) or "b" not in ans[0]:
                failures.append({"key": "stream:no-answer", "what": "the case did not produce an answer (crash, hang, uncaught error)", "input": q,
                                 "impl": json.dumps(ans if ans is not None else rec)[:400], "spec": "one answer", "property_fails": True})
                continue
            b = ans[0]["b"]
            wr, rr = b.get("WR", {}), b.get("RR", {})
            wobs = [coq_res(t) for t in wr.get("l", [])] if "l" in wr else ["ROther"]
            robs = [coq_res(t) for t in rr.get("l", [])] if "l" in rr else ["ROther"]
            obs[i] = (wr, rr)
            exprs.append(coq_args(case, wobs, robs)); idx.append(i)
            wt, ws, rt, ea, rp, script = case
            dist["read_type"][rt] = dist["read_type"].get(rt, 0) + 1
            dist["eof_action"][ea] = dist["eof_action"].get(ea, 0) + 1
            ends = any(x in ("REof", "RInt (-1)", "RErr EPastEnd", "REnd EndAt", "REnd EndPast", "RBool true") for x in robs)
            mb = any((w[0] in ("pc", "pco") and w[1] > 127) or (w[0] == "tx" and any(c > 127 for c in w[2])) or (w[0] == "pb" and w[1] > 127) for w in ws)
            if ends: dist["reaches_end"] += 1
            if mb: dist["multibyte"] += 1
            if any(w[0] in ("pc", "pco") and w[1] == 0xFEFF for w in ws) or "239" in repr([w[1] for w in ws if w[0] == "pb"]): dist["bom"] += 1
            if any(x in ("RErr EInText", "RErr EInBinary") for x in robs): dist["type_mismatch_ops"] += 1
            if "ROk" in robs: dist["reposition_used"] += 1
            if ends: nontriv += 1
    masks, errs = coq_eval_ns(ctx.prop, ["explain " + e for e in exprs], chunk=400)
    for _, t in errs:
        tie_breaks.append({"kind": "coq-eval", "what": "model evaluation shard failed", "detail": t[-1500:]})
    explained, per_key, pending = {}, {}, []
    for j, m in enumerate(masks):
        if m is None or m == 0:
            explained[0] = explained.get(0, 0) + (1 if m == 0 else 0)
            continue
        i = idx[j]
        q = query_of(cases[i], "<scratch>/c%d.dat" % i)
        impl = "WR=%s RR=%s" % (core.term_text(obs[i][0]), core.term_text(obs[i][1]))
        explained[m] = explained.get(m, 0) + 1
        if m == 99:
            if per_key.get("x", 0) < 8:
                per_key["x"] = per_key.get("x", 0) + 1
                pending.append(({"key": "stream:mismatch", "what": "results of the script differ from the stream model (not explained by a listed deviation)",
                                 "input": q, "impl": impl[:1500], "spec": "", "property_fails": True}, exprs[j]))
            continue
        for bit in range(4):
            if m >> bit & 1 and per_key.get(bit, 0) < 2:
                per_key[bit] = per_key.get(bit, 0) + 1
                pending.append(({"key": QUIRK_KEYS[bit], "what": QUIRK_WHAT[bit], "input": q, "impl": impl[:1500], "spec": "", "property_fails": True}, exprs[j]))
    if pending:
        vals = coq_eval_many(ctx.prop, ["run_case " + e for _, e in pending])
        for (f, _), v in zip(pending, vals):
            f["spec"] = "(reference model: write results, script results) " + v[:1500]
            failures.append(f)
    dist["explained_by_mask"] = {str(k): v for k, v in sorted(explained.items())}
    samples = [{"query": query_of(cases[i], "<scratch>/c%d.dat" % i), "impl": "RR=%s" % core.term_text(obs[i][1])[:300]} for i in list(obs)[:2] + list(obs)[6:9]]
    return {"evaluations": len(exprs), "distinct_nontrivial": nontriv,
            "rule": ("a case = (type of the output stream, up to 9 write operations put_char/put_code/put_byte/nl/write/format over a pool of ASCII, NUL, CR, LF, "
                     "2-4 byte characters and U+FEFF; type, eof_action and reposition option of the input stream; script of <= 30 get_char/peek_char/get_code/"
                     "peek_code/get_byte/peek_byte/get_n_chars/at_end_of_stream/stream_property(end_of_stream|position)/set_stream_position operations, some on the "
                     "wrong stream type); distinct cases only. Non-trivial = the script reaches the end of the stream (an end_of_file/-1 result, a past-end "
                     "error, or at/past reported), so that eof_action, at_end and the past flag are exercised."),
            "samples": samples, "distribution": dist, "failures": failures, "tie_breaks": tie_breaks}
