"""C14 -- Sorting builtins and collection libraries match their models."""
import json, re
from vlib import core, terms
from vlib.terms import NIL, mklist, mkstring, flt
from checks import C13 as c13

META = {
    "level": "proof",
    "text": ("Coq theorems, generic in any comparison that is a total preorder and instantiated with C13's proved standard order tcompare: the "
             "reference stable sort is a permutation, ascending and stable (every ==-class keeps its input order); sort = duplicate removal of it is "
             "strictly ascending with the same elements; keysort is a stable permutation ascending on keys; ordset union/subtract/intersection/symdiff "
             "results are strictly ascending with the set-theoretic membership; list_to_set keeps exactly the first occurrences; the finite-map model "
             "satisfies the put/get/del laws and keeps its keys strictly ascending over every history. library(assoc) is additionally covered by an "
             "impl-mirror (coq/C14/Avl.v follows assoc.pl clause by clause: insert/adjust/table, delete/del_min/del_max/deladjust/deltable, "
             "rebalance/avl_geq/table2, get_assoc, list_to_assoc, assoc_to_list/keys/values) proved, for ALL trees satisfying the AVL invariant and all "
             "keys/values, to succeed, to refine the finite-map model (avl_put_refines, avl_get_refines, avl_del_refines, avl_list_to_assoc_refines, "
             "avl_views, avl_history_refines) and to preserve search-tree order and balance (stored symbol = sign of height(R)-height(L), |difference| <= 1), "
             "with the height bound fib(height+2) <= entries+1 (avl_height_fib). The implementation (sort/2, keysort/2 in dispatch.rs; lists.pl, ordsets.pl, "
             "pairs.pl, assoc.pl) is tied to these models differentially on generated lists of mixed terms in every heap representation and on "
             "histories of put_assoc/del_assoc/get_assoc, where the tree term returned by the implementation must equal the mirror's tree exactly "
             "(shape, balance symbols, keys, values); all results are compared in Coq."),
    "note": ("Trusted: Coq kernel + vm_compute. The sort/ordset/list models are reference (specification) models, not mirrors: the sort model is a stable "
             "insertion sort (the result of a stable sort is unique, so this fixes Rust's sort_by/sort_unstable_by+dedup results up to ==). The library(assoc) "
             "mirror is hand-written from src/lib/assoc.pl (no translator); a Prolog failure is None, cuts are mirrored by clause order; keysort inside "
             "list_to_assoc is the reference stable sort (tied to the builtin by the keysort cases); head unification of the searched key with the stored key in "
             "delete(=,...) is taken to succeed when compare/3 says = (keys for which == and unification differ are not generated); the domain_error of "
             "list_to_assoc on duplicate keys is None and is not exercised; is_assoc/1, gen_assoc/3, get_assoc/5, map_assoc, min/max_assoc, del_min/del_max_assoc "
             "as exported predicates and ord_list_to_assoc are not mirrored. avl_height_fib is the Fibonacci form of height <= 1.4405 log2(n+2); the real-number "
             "logarithm statement is not proved. The invariant checker avl_ok (proved <-> invariant, avl_ok_spec) of C14.Avl replaces the earlier term-level "
             "checker of C14.Model in the correspondence. msort/2, predsort/3, subtract/3, max_list/2 do not exist in this scryer-prolog; sorting without "
             "duplicate removal is observed through keysort of X-X pairs, list_max/list_min replace max_list/min_list. Results are compared up to == (the harness "
             "cannot distinguish -0.0 from 0.0). No axioms."),
    "technique": ("Coq proof (stable_sort_generic, sort_strictly_sorted, sort_same_elements, keysort_stable, ord_*_spec, list_to_set_spec, assoc_* laws over "
                  "reference models; avl_put_refines, avl_get_refines, avl_del_refines, avl_list_to_assoc_refines, avl_ok_spec, avl_history_refines over an "
                  "impl-mirror of library(assoc)) + differential correspondence evaluated in Coq"),
    "design_ref": "DESIGN.md section 8, C14",
    "coq_targets": ["C14/Props.vo"],
    "coq_dirs": ["C13", "C14"],
    "props": "C14/Props.v",
    "trusted_base": ["Coq 8.16.1 kernel, vm_compute (no native_compute)", "harness/vrun + tools/vlib (correspondence)",
                     "Python generator/renderer of checks/C13.py and checks/C14.py", "C13's reference order tcompare (proved a total preorder, tied to compare/3 by C13)",
                     "the hand-written transcription of src/lib/assoc.pl into coq/C14/Avl.v (tied to the code by exact tree comparison on generated histories)"],
    "assumptions": ["the Prolog reader builds the term the text denotes",
                    "library(assoc) is observed through put_assoc/del_assoc/get_assoc/list_to_assoc results, assoc_to_list/keys/values and the returned tree term"],
}

IMPORTS = "From V Require Import Base.Term C13.Model C14.Model C14.Avl."
HEAD = (":- use_module(library(iso_ext)).\n:- use_module(library(lists)).\n:- use_module(library(ordsets)).\n"
        ":- use_module(library(pairs)).\n:- use_module(library(assoc)).\n")


# ------------------------------------------------------------------ element pool (ground, no improper lists)
def safe(t):
    if t[0] == "var":
        return False
    if t[0] == "cmp":
        if t[1] == "." and len(t[2]) == 2:
            items, tail = terms.list_view(t)
            return tail == NIL and all(safe(x) for x in items)
        return all(safe(x) for x in t[2])
    return True


def build_pool(rng):
    p = c13.build_pool(rng)
    pool = {k: [t for t in v if safe(t)] for k, v in p.items() if k != "var"}
    pool["list"] = [t for t in pool["list"] if len(terms.list_view(t)[0]) <= 12]
    return pool


CATS = ["flt", "num", "atom", "list", "cmp"]


def rand_elem(rng, pool, small=None):
    if small is not None and rng.random() < 0.75:
        return rng.choice(small)
    return rng.choice(pool[rng.choice(CATS)])


def rand_list(rng, pool, maxlen=40, dup=True):
    n = rng.choice([0, 1, 2, 3, 5, 8, 12, 20, 30, maxlen]) if maxlen >= 40 else rng.randint(0, maxlen)
    small = [rng.choice(pool[rng.choice(CATS)]) for _ in range(rng.choice([2, 3, 5, 8]))] if dup else None
    return [rand_elem(rng, pool, small) for _ in range(n)]


def pair(k, v):
    return ("cmp", "-", [k, v])


class Q:
    """one query under construction"""
    def __init__(self, rng):
        self.st = c13.Render(rng, "W")

    def elem(self, t):
        return c13.render(t, self.st)

    def lst(self, items):
        return "[%s]" % ",".join(self.elem(x) for x in items)

    def text(self, goals):
        return ", ".join(self.st.setup + goals) + "."


def cl(items):
    return "[%s]" % "; ".join(terms.to_coq(x) for x in items)


def coq_opt(t):
    return "None" if t is None else "(Some %s)" % terms.to_coq(t)


def as_list(t):
    items, tail = terms.list_view(t)
    if tail != NIL:
        raise ValueError("not a proper list")
    return items


def char_prefix(items):
    """the reader stores a leading run of one-character atoms as a partial string; true when the list then continues with something else"""
    return bool(items) and c13.is_char(items[0]) and not all(c13.is_char(x) for x in items)


# ------------------------------------------------------------------ case generators: each returns dict(kind, query, check(bindings)->coq bool text, ...)
def gen_sort(rng, pool):
    items = rand_list(rng, pool)
    q = Q(rng)
    query = q.text(["sort(%s, S)" % q.lst(items)])
    return {"kind": "sort", "query": query, "vars": ["S"], "inputs": [items],
            "coq": lambda b: "check_sort %s %s" % (cl(items), cl(as_list(b["S"])))}


def keyed_list(rng, pool):
    n = rng.choice([0, 1, 2, 3, 5, 8, 12, 20, 30, 40, 64])
    nk = rng.choice([1, 2, 3, 4, 6])
    keys = [rng.choice(pool[rng.choice(CATS)]) for _ in range(nk)]
    # keys that are == but written differently
    if rng.random() < 0.4:
        keys += [flt(0.0), flt(-0.0)]
    if rng.random() < 0.3:
        keys += [("int", 1), ("rat", 1, 1), flt(1.0)]
    if rng.random() < 0.3:
        keys += [mkstring("ab"), mkstring("ab"), mkstring("abc")]
    return [pair(rng.choice(keys), ("int", i)) for i in range(n)]


def gen_keysort(rng, pool):
    items = keyed_list(rng, pool)
    q = Q(rng)
    query = q.text(["keysort(%s, S)" % q.lst(items)])
    return {"kind": "keysort", "query": query, "vars": ["S"], "inputs": [items],
            "coq": lambda b: "check_keysort %s %s" % (cl(items), cl(as_list(b["S"])))}


def gen_msort(rng, pool):
    items = rand_list(rng, pool, 20)
    q = Q(rng)
    # every element twice in the pair, rendered independently (possibly in two representations)
    prs = "[%s]" % ",".join("%s-%s" % (q.elem(x), q.elem(x)) for x in items)
    query = q.text(["keysort(%s, S)" % prs])
    return {"kind": "keysort", "query": query, "vars": ["S"], "inputs": [[pair(x, x) for x in items]],
            "coq": lambda b: "check_msort_via_keysort %s %s" % (cl(items), cl(as_list(b["S"])))}


def gen_list_to_set(rng, pool):
    items = rand_list(rng, pool, 20)
    q = Q(rng)
    query = q.text(["list_to_set(%s, S)" % q.lst(items)])
    return {"kind": "list_to_set", "query": query, "vars": ["S"], "inputs": [items],
            "coq": lambda b: "check_list_to_set %s %s" % (cl(items), cl(as_list(b["S"])))}


def gen_ordsets(rng, pool):
    small = [rng.choice(pool[rng.choice(CATS)]) for _ in range(rng.choice([3, 6, 10, 16]))]
    l1 = [rng.choice(small) if rng.random() < 0.85 else rand_elem(rng, pool) for _ in range(rng.choice([0, 1, 2, 4, 8, 14]))]
    l2 = [rng.choice(small) if rng.random() < 0.85 else rand_elem(rng, pool) for _ in range(rng.choice([0, 1, 2, 4, 8, 14]))]
    x = rng.choice(small)
    q = Q(rng)
    goals = ["sort(%s, A)" % q.lst(l1), "sort(%s, B)" % q.lst(l2), "X = %s" % q.elem(x),
             "ord_union(A, B, U)", "ord_subtract(A, B, D)", "ord_intersection(A, B, I)", "ord_symdiff(A, B, Y)",
             "(ord_memberchk(X, A) -> M = y ; M = n)", "(ord_subset(A, B) -> Sub = y ; Sub = n)", "(ord_subset(I, A) -> Sub2 = y ; Sub2 = n)",
             "ord_add_element(A, X, Add)", "ord_del_element(A, X, Del)", "list_to_ord_set(%s, A2)" % q.lst(l1)]

    def coq(b):
        A, B = cl(as_list(b["A"])), cl(as_list(b["B"]))
        yn = lambda v: "true" if b[v] == ("atom", "y") else "false"
        parts = ["check_sort %s %s" % (cl(l1), A), "check_sort %s %s" % (cl(l2), B), "check_sort %s %s" % (cl(l1), cl(as_list(b["A2"]))),
                 "check_union %s %s %s" % (A, B, cl(as_list(b["U"]))), "check_subtract %s %s %s" % (A, B, cl(as_list(b["D"]))),
                 "check_inter %s %s %s" % (A, B, cl(as_list(b["I"]))), "check_symdiff %s %s %s" % (A, B, cl(as_list(b["Y"]))),
                 "check_memberchk %s %s %s" % (terms.to_coq(x), A, yn("M")), "check_subset %s %s %s" % (A, B, yn("Sub")),
                 "check_subset %s %s %s" % (cl(as_list(b["I"])), A, yn("Sub2")),
                 "check_add %s %s %s" % (A, terms.to_coq(x), cl(as_list(b["Add"]))), "check_del %s %s %s" % (A, terms.to_coq(x), cl(as_list(b["Del"])))]
        return parts
    return {"kind": "ordsets", "query": q.text(goals), "vars": ["A", "B", "A2", "U", "D", "I", "Y", "M", "Sub", "Sub2", "Add", "Del"], "inputs": [l1, l2],
            "coq": coq, "parts": ["sort", "sort", "list_to_ord_set", "ord_union", "ord_subtract", "ord_intersection", "ord_symdiff", "ord_memberchk",
                                  "ord_subset", "ord_subset", "ord_add_element", "ord_del_element"]}


def unif_safe(t):
    """terms for which unification and == coincide and that the answer channel returns exactly"""
    if t[0] == "flt": return t[1] not in (0, 1 << 63)
    if t[0] == "rat": return t[2] > 1
    if t[0] == "cmp": return all(unif_safe(x) for x in t[2])
    return True


def gen_lists(rng, pool):
    a = rand_list(rng, pool, 8, dup=True)
    b = rand_list(rng, pool, 8, dup=True)
    c = rand_list(rng, pool, 4)
    i0 = rng.randint(0, len(a) + 1)
    i1 = rng.randint(0, len(a) + 1)
    q = Q(rng)
    goals = ["A = %s" % q.lst(a), "B = %s" % q.lst(b), "append(A, B, AB)", "append([A, %s, B], ABC)" % q.lst(c), "reverse(A, R)", "length(AB, N)",
             "(nth0(%d, A, E0) -> N0 = y(E0) ; N0 = n)" % i0, "(nth1(%d, A, E1) -> N1 = y(E1) ; N1 = n)" % i1]

    def opt(t):
        if t == ("atom", "n"): return None
        assert t[0] == "cmp" and t[1] == "y"
        return t[2][0]

    def coq(b_):
        return ["check_append %s %s %s" % (cl(a), cl(b), cl(as_list(b_["AB"]))),
                "check_append_lists [%s; %s; %s] %s" % (cl(a), cl(c), cl(b), cl(as_list(b_["ABC"]))),
                "check_reverse %s %s" % (cl(a), cl(as_list(b_["R"]))),
                "check_length %s (%d)%%Z" % (cl(a + b), b_["N"][1]),
                "check_nth0 (%d)%%Z %s %s" % (i0, cl(a), coq_opt(opt(b_["N0"]))),
                "check_nth1 (%d)%%Z %s %s" % (i1, cl(a), coq_opt(opt(b_["N1"])))]
    return {"kind": "lists", "query": q.text(goals), "vars": ["AB", "ABC", "R", "N", "N0", "N1"], "inputs": [a, b], "coq": coq,
            "parts": ["append/3", "append/2", "reverse", "length", "nth0", "nth1"]}


INT_POOL = [0, 1, -1, 2, -3, 7, 100, (1 << 55) - 1, 1 << 55, -(1 << 55) - 1, 1 << 62, (1 << 63) - 1, 1 << 63, -(1 << 63), 1 << 64, 1 << 70, -(1 << 70), 10 ** 30]


def gen_numlists(rng, pool):
    n = rng.choice([1, 2, 3, 5, 10, 25])
    xs = [rng.choice(INT_POOL) if rng.random() < 0.7 else rng.randint(-1000, 1000) for _ in range(n)]
    q = Q(rng)
    L = q.lst([("int", x) for x in xs])
    goals = ["L = %s" % L, "sum_list(L, S)", "list_max(L, Mx)", "list_min(L, Mn)"]
    zl = "[%s]" % "; ".join("(%d)%%Z" % x for x in xs)
    ztl = "[%s]" % "; ".join("(%d)%%Z" % x for x in xs[1:])

    def coq(b):
        for v in ("S", "Mx", "Mn"):
            if b[v][0] != "int": raise ValueError("non-integer result %r" % (b[v],))
        return ["check_sum %s (%d)%%Z" % (zl, b["S"][1]), "check_max (%d)%%Z %s (%d)%%Z" % (xs[0], ztl, b["Mx"][1]),
                "check_min (%d)%%Z %s (%d)%%Z" % (xs[0], ztl, b["Mn"][1])]
    return {"kind": "numlists", "query": q.text(goals), "vars": ["S", "Mx", "Mn"], "inputs": [[("int", x) for x in xs]], "coq": coq,
            "parts": ["sum_list", "list_max", "list_min"]}


def gen_select(rng, pool):
    upool = [t for c in CATS for t in pool[c] if unif_safe(t)]
    small = [rng.choice(upool) for _ in range(rng.choice([2, 3, 4]))]
    l = [rng.choice(small) for _ in range(rng.randint(0, 7))]
    x = rng.choice(small)
    q = Q(rng)
    query = q.text(["select(%s, %s, R)" % (q.elem(x), q.lst(l))])
    return {"kind": "select", "query": query, "vars": ["R"], "all": True, "inputs": [l],
            "coq": lambda outs: "check_select %s %s [%s]" % (terms.to_coq(x), cl(l), "; ".join(cl(as_list(o["R"])) for o in outs))}


def gen_pairs(rng, pool):
    n = rng.choice([0, 1, 2, 5, 9])
    ks = [rand_elem(rng, pool) for _ in range(n)]
    vs = [rand_elem(rng, pool) for _ in range(n)]
    q = Q(rng)
    prs = "[%s]" % ",".join("%s-%s" % (q.elem(k), q.elem(v)) for k, v in zip(ks, vs))
    goals = ["P = %s" % prs, "pairs_keys_values(P, K, V)", "pairs_keys(P, K2)", "pairs_values(P, V2)", "pairs_keys_values(P3, K, V)"]
    pl = [pair(k, v) for k, v in zip(ks, vs)]

    def coq(b):
        return ["check_pairs_kv %s %s %s" % (cl(pl), cl(as_list(b["K"])), cl(as_list(b["V"]))),
                "check_pairs_kv %s %s %s" % (cl(pl), cl(as_list(b["K2"])), cl(as_list(b["V2"]))),
                "check_pairs_zip %s %s %s" % (cl(ks), cl(vs), cl(as_list(b["P3"])))]
    return {"kind": "pairs", "query": q.text(goals), "vars": ["K", "V", "K2", "V2", "P3"], "inputs": [pl], "coq": coq,
            "parts": ["pairs_keys_values(+,-,-)", "pairs_keys/pairs_values", "pairs_keys_values(-,+,+)"]}


def distinct_keys(rng, pool, n):
    """n keys, pairwise not == (decided by the text of their canonical Coq term, with the number identifications removed)"""
    out, seen = [], set()
    tries = 0
    while len(out) < n and tries < 20 * n:
        tries += 1
        t = rng.choice(pool[rng.choice(CATS)]) if rng.random() < 0.5 else ("int", rng.randint(0, 30))
        if not unif_safe(t):
            continue
        k = terms.to_coq(t)
        if k not in seen:
            seen.add(k); out.append(t)
    return out


def gen_assoc(rng, pool, thorough):
    nk = rng.choice([2, 4, 8, 14, 20, 32])
    keys = distinct_keys(rng, pool, nk)
    order = rng.choice(["random", "asc", "desc", "zigzag"])
    if order != "random":
        ints = [("int", i) for i in range(nk)]
        keys = ints if order == "asc" else (ints[::-1] if order == "desc" else [ints[i // 2] if i % 2 == 0 else ints[-1 - i // 2] for i in range(nk)])
    # "mixed": puts, dels and gets interleaved; "drain": every key is put (in the order above), then keys are deleted in a random
    # order (deletions from a full tree reach the rotations of deladjust/avl_geq that insertions never produce)
    mode = rng.choice(["mixed", "mixed", "drain"])
    n_init = rng.choice([0, 0, 1, 3, len(keys) // 2, len(keys)])
    init_keys = rng.sample(keys, min(n_init, len(keys)))
    val = [0]

    def newval():
        val[0] += 1
        return ("int", val[0])
    init = [pair(k, newval()) for k in init_keys]
    ops = []
    if mode == "mixed":
        nops = rng.choice([1, 3, 8, 20, 40, 60])
        seq = list(keys)
        for j in range(nops):
            r = rng.random()
            k = seq[j % len(seq)] if (order != "random" and r < 0.6) else rng.choice(keys)
            if r < 0.6: ops.append(("put", k, newval()))
            elif r < 0.8: ops.append(("del", k))
            else: ops.append(("get", k))
    else:
        ops = [("put", k, newval()) for k in keys]
        dels = list(keys) + ([rng.choice(keys)] if rng.random() < 0.5 else [])
        rng.shuffle(dels)
        dels = dels[:rng.choice([len(dels), len(dels), max(1, len(dels) // 2)])]
        for k in dels:
            ops.append(("del", k))
            if rng.random() < 0.15: ops.append(("get", rng.choice(keys)))
        nops = len(ops)
    q = Q(rng)
    goals = ["list_to_assoc(%s, A0)" % ("[%s]" % ",".join("%s-%s" % (q.elem(p[2][0]), q.elem(p[2][1])) for p in init))]
    cur, res = 0, []
    for j, op in enumerate(ops):
        if op[0] == "put":
            goals.append("put_assoc(%s, A%d, %s, A%d)" % (q.elem(op[1]), cur, q.elem(op[2]), cur + 1)); cur += 1
        elif op[0] == "del":
            goals.append("(del_assoc(%s, A%d, D%d, A%d) -> R%d = y(D%d) ; R%d = n, A%d = A%d)" % (q.elem(op[1]), cur, j, cur + 1, j, j, j, cur + 1, cur))
            cur += 1; res.append("R%d" % j)
        else:
            goals.append("(get_assoc(%s, A%d, G%d) -> R%d = y(G%d) ; R%d = n)" % (q.elem(op[1]), cur, j, j, j, j)); res.append("R%d" % j)
    goals += ["assoc_to_list(A%d, L)" % cur, "assoc_to_keys(A%d, Ks)" % cur, "assoc_to_values(A%d, Vs)" % cur, "T = A%d" % cur,
              "Res = [%s]" % ",".join(res)]
    cops = "[%s]" % "; ".join(("APut %s %s" % (terms.to_coq(o[1]), terms.to_coq(o[2]))) if o[0] == "put" else
                              ("ADel %s" % terms.to_coq(o[1])) if o[0] == "del" else ("AGet %s" % terms.to_coq(o[1])) for o in ops)

    def coq(b):
        rs = []
        for t in as_list(b["Res"]):
            rs.append("None" if t == ("atom", "n") else "(Some %s)" % terms.to_coq(t[2][0]))
        # results, assoc_to_list/keys/values and the returned tree itself (shape and balance symbols) against the library(assoc) mirror,
        # results and content against the finite-map reference model, the tree against the invariant checker
        return "check_assoc_tree %s %s [%s] %s %s %s %s" % (cl(init), cops, "; ".join(rs), cl(as_list(b["L"])), cl(as_list(b["Ks"])),
                                                           cl(as_list(b["Vs"])), terms.to_coq(b["T"]))
    return {"kind": "assoc", "query": q.text(goals), "vars": ["Res", "L", "Ks", "Vs", "T"], "inputs": [], "coq": coq, "order": order, "nops": nops,
            "nkeys": len(keys), "mode": mode, "ndel": sum(1 for o in ops if o[0] == "del"),
            "spec_expr": ("match list_to_assoc tcompare (pairs_of_terms %s) with Some t0 => run_tree %s t0 | None => None end" % (cl(init), cops))}


GENS = [("sort", gen_sort, 0.22), ("keysort", gen_keysort, 0.16), ("msort", gen_msort, 0.06), ("list_to_set", gen_list_to_set, 0.08),
        ("ordsets", gen_ordsets, 0.14), ("lists", gen_lists, 0.10), ("numlists", gen_numlists, 0.04), ("select", gen_select, 0.04),
        ("pairs", gen_pairs, 0.04), ("assoc", None, 0.12)]


def error_key(case, ans):
    """key for a query that raised an error / panicked instead of answering"""
    txt = json.dumps(ans, ensure_ascii=False)
    m = re.search(r'"err": \{"c": \["error", \{"c": \["([a-z_]+)", \{"a": "([a-z_]+)"\}', txt)
    kind = "%s(%s)" % (m.group(1), m.group(2)) if m else ("panic" if '"panic"' in txt else "no-answer")
    # the predicate named in the error context is used only to label the finding
    c = re.search(r'\{"c": \["/", \{"a": "([a-z_]+)"\}, \{"i": "\d+"\}\]\}\]\}\}\]$', json.dumps(ans)) if m else None
    key = "%s:%s" % (c.group(1) if c else case["kind"], kind)
    if kind == "type_error(list)" and any(char_prefix(l) for l in case["inputs"]):
        key += ":char-prefix"
    return key, txt[:400]


def run(ctx):
    rng = ctx.rng
    pool = build_pool(rng)
    n_cases = ctx.scale(2400, 36000)
    cases = []
    names = [g[0] for g in GENS]
    weights = [g[2] for g in GENS]
    for _ in range(n_cases):
        name = rng.choices(names, weights)[0]
        if name == "assoc":
            cases.append(gen_assoc(rng, pool, ctx.thorough))
        else:
            cases.append(dict(GENS[names.index(name)][1](rng, pool), gen=name))
        cases[-1].setdefault("gen", name)
    B = 25
    jobs = []
    for base in range(0, n_cases, B):
        jobs.append({"id": str(base), "consult": HEAD, "queries": [c["query"] for c in cases[base:base + B]], "timeout_ms": 30000,
                     "max_answers": 60, "fresh": base % (B * 20) == 0})
    res = core.vrun_query(ctx.prop, jobs, tag="impl")
    answers, retry = {}, []
    for base in range(0, n_cases, B):
        rec = res.get(str(base))
        idxs = list(range(base, min(base + B, n_cases)))
        if rec is not None and isinstance(rec.get("results"), list) and len(rec["results"]) == len(idxs):
            for idx, a in zip(idxs, rec["results"]):
                answers[idx] = a
        else:
            retry += idxs
    failures, tie_breaks = [], []
    if retry:
        jobs2 = [{"id": "r%d" % i, "consult": HEAD, "queries": [cases[i]["query"]], "timeout_ms": 30000, "max_answers": 60, "fresh": True} for i in retry]
        res2 = core.vrun_query(ctx.prop, jobs2, tag="retry")
        for i in retry:
            rec = res2.get("r%d" % i)
            if rec is not None and isinstance(rec.get("results"), list) and len(rec["results"]) == 1:
                answers[i] = rec["results"][0]
            else:
                how = "hang" if (rec or {}).get("hang") else "rc%s" % (rec or {}).get("crash")
                failures.append({"key": "%s:crash:%s" % (cases[i]["kind"], how), "what": "the process dies (or hangs) in a %s query" % cases[i]["kind"],
                                 "input": cases[i]["query"], "impl": json.dumps(rec)[:300], "spec": "an answer", "property_fails": True})

    bools, bmeta = [], []
    dist = {"cases": {}, "input_lengths": {}, "assoc_orders": {}, "assoc_modes": {}, "assoc_ops": 0, "assoc_dels": 0, "assoc_trees_compared": 0, "char_prefixed_inputs": 0, "batches_rerun_after_process_death": len(retry) // B}
    nontrivial = set()
    err_seen = {}
    for idx, case in enumerate(cases):
        if idx not in answers:
            continue
        ans = answers[idx]
        sols = [a["b"] for a in ans if isinstance(a, dict) and "b" in a]
        bad_ans = [a for a in ans if isinstance(a, dict) and ("err" in a or "exc" in a or "panic" in a)] or ("more" in ans)
        if bad_ans or (not case.get("all") and len(sols) != 1):
            key, txt = error_key(case, ans)
            err_seen[key] = err_seen.get(key, 0) + 1
            if err_seen[key] <= 3:
                failures.append({"key": key, "what": "%s query raised an error or gave no (single) answer" % case["kind"], "input": case["query"],
                                 "impl": txt, "spec": "exactly the model's result", "property_fails": True})
            continue
        try:
            if case.get("all"):
                outs = [{v: terms.from_json(s[v]) for v in case["vars"]} for s in sols]
                parts = case["coq"](outs)
            else:
                b = {v: terms.from_json(sols[0][v]) for v in case["vars"]}
                parts = case["coq"](b)
        except Exception as e:   # an output of an unexpected shape (partial list, unbound variable, ...)
            failures.append({"key": "%s:malformed-result" % case["kind"], "what": "result is not of the expected shape (%s)" % e, "input": case["query"],
                             "impl": json.dumps(ans, ensure_ascii=False)[:400], "spec": "a proper list / ground result", "property_fails": True})
            continue
        if isinstance(parts, str):
            parts = [parts]
        bools.append(" && ".join("(%s)" % p for p in parts))
        bmeta.append((idx, parts, ans))
        dist["cases"][case["gen"]] = dist["cases"].get(case["gen"], 0) + 1
        for l in case["inputs"]:
            bucket = min(len(l) // 10 * 10, 60)
            dist["input_lengths"][str(bucket)] = dist["input_lengths"].get(str(bucket), 0) + 1
            if char_prefix(l): dist["char_prefixed_inputs"] += 1
        if case["kind"] == "assoc":
            dist["assoc_orders"][case["order"]] = dist["assoc_orders"].get(case["order"], 0) + 1
            dist["assoc_ops"] += case["nops"]
            dist["assoc_modes"][case["mode"]] = dist["assoc_modes"].get(case["mode"], 0) + 1
            dist["assoc_dels"] += case["ndel"]
            dist["assoc_trees_compared"] += 1
            if case["nops"] >= 3: nontrivial.add(case["query"])
        elif any(len(l) >= 2 for l in case["inputs"]):
            nontrivial.add(case["query"])

    bad, errs = core.coq_eval_bools(ctx.prop, IMPORTS, bools, chunk=300)
    tie_breaks += [{"kind": "coq-eval", "what": "model evaluation shard failed", "detail": t} for _, t in errs]
    # attribute every failing case to the predicate(s) whose result differs
    seen = {}
    sub, submeta = [], []
    for i in bad[:60]:
        idx, parts, ans = bmeta[i]
        for k, p in enumerate(parts):
            sub.append(p); submeta.append((idx, k, ans))
    if sub:
        sbad, _ = core.coq_eval_bools(ctx.prop, IMPORTS, sub, chunk=300, tag="attribute")
        for j in sbad:
            idx, k, ans = submeta[j]
            case = cases[idx]
            pred = case["parts"][k] if "parts" in case else case["gen"]
            key = "%s:wrong-result" % pred
            seen[key] = seen.get(key, 0) + 1
            if seen[key] > 2:
                continue
            spec = ""
            m = re.match(r"check_(sort|keysort|list_to_set) (\[.*?\]) \[", sub[j])
            if m:
                fn = {"sort": "tsort", "keysort": "tkeysort", "list_to_set": "first_occ tcompare []"}[m.group(1)]
                spec = core.coq_eval_show(ctx.prop, IMPORTS, "%s %s" % (fn, m.group(2)))[:600]
            if case.get("spec_expr"):
                spec = "mirror (results, final tree): " + core.coq_eval_show(ctx.prop, IMPORTS, case["spec_expr"])[:1500]
            failures.append({"key": key, "what": "%s returns something else than the model (compared up to ==)" % pred, "input": case["query"],
                             "impl": json.dumps(ans, ensure_ascii=False)[:600], "spec": spec or ("model check: " + sub[j][:600]), "property_fails": True})
    samples = []
    for (idx, parts, ans) in bmeta[:: max(1, len(bmeta) // 8)][:8]:
        samples.append({"query": cases[idx]["query"][:300], "impl": json.dumps(ans, ensure_ascii=False)[:200]})
    return {
        "evaluations": sum(len(p) for _, p, _ in bmeta),
        "distinct_nontrivial": len(nontrivial),
        "rule": ("cases: sort/2 and keysort/2 on lists (length 0..40) of mixed ground terms drawn with heavy duplication from C13's pool in random heap "
                 "representations, keysort with few keys incl. ==-equal keys written differently (0.0/-0.0, 1/(7 rdiv 7), \"ab\"/[a,b]) and distinct values; "
                 "sorting without duplicate removal via keysort of X-X; list_to_set; a battery of 12 ordset results per pair of sets; append/reverse/length/"
                 "nth0/nth1; sum_list/list_max/list_min over small and big integers; select/3 answer sequences; pairs_keys_values in both modes; histories of "
                 "put_assoc/del_assoc/get_assoc (1..60 mixed operations, or all of 2..32 keys put in random/ascending/descending/zig-zag order and then deleted in "
                 "random order) starting from list_to_assoc of 0..all keys, observed through the results, assoc_to_list/keys/values and the returned tree, which "
                 "must be the mirror's tree exactly (shape, balance symbols, keys, values). evaluations = number of predicate results compared in Coq; non-trivial = distinct query whose input list "
                 "has >= 2 elements (assoc: >= 3 operations)"),
        "samples": samples,
        "distribution": dist,
        "failures": failures,
        "tie_breaks": tie_breaks,
    }
