"""C52 -- random number predicates are in range and reproducible."""
import json
from vlib import core, terms

META = {
    "level": "proof",
    "text": ("Coq theorems over a mirror of src/lib/random.pl with the generator as a parameter (any `next` whose draw below a positive bound is "
             "below the bound): random_integer_in_range / random_integer_succeeds (L =< X < H for all integers, bignums included), "
             "fails_on_empty_range, errors (instantiation_error, type_error(integer, Culprit), Lower before Upper), "
             "random_float_is_k_over_2_50 + random_float_in_unit_interval (K/2^50 with 0 =< K < 2^50 is in [0,1) and a binary64 number), "
             "reproducible (after set_random(seed(S)) the outputs depend on S and the call sequence only), interleaving_irrelevant, "
             "check_run_sound / check_complete_int (the comparison accepts exactly the model's behaviours). Tied to the code differentially: "
             "boundary-biased bound pairs, ill-typed arguments, random/1 draws decoded bit-exactly, and two-run hyper-properties (same machine, "
             "fresh machines, non-random goals interleaved) evaluated in Coq (check_call, check_repro)."),
    "note": ("Trusted: Coq kernel + vm_compute; harness vrun; the Python generator. NOT modelled: the stream of rand::StdRng / gen_range "
             "(a parameter with gen_range's contract as the only hypothesis; uniformity is not part of the property), the arithmetic of "
             "`S mod 2^64` and `K/N` (properties C01/C02). Reproducibility of the implementation is a differential (two-run) observation; "
             "the theorem says the model's outputs are a function of seed and call sequence. No axioms."),
    "technique": "Coq proof (random_integer_in_range, fails_on_empty_range, errors, random_float_in_unit_interval, reproducible) over an impl-mirror model with an abstract generator + differential correspondence evaluated in Coq",
    "design_ref": "DESIGN.md section 8, C52",
    "coq_targets": ["C52/Props.vo"],
    "coq_dirs": ["C52"],
    "props": "C52/Props.v",
    "trusted_base": ["Coq 8.16.1 kernel, vm_compute (no native_compute)", "harness/vrun + tools/vlib (correspondence)",
                     "rand::StdRng / gen_range assumed to honour the range contract (not verified)", "Python generator (checks/C52.py)"],
    "assumptions": ["gen_range(l..u) returns a value in [l,u) (the hypothesis next_lt of the theorems)",
                    "an integral rational (2 rdiv 1, which integer/1 accepts in this system) is treated as the integer it equals"],
}

IMPORTS = "From V Require Import Base.Term C52.Model.\nOpen Scope Z_scope."
LIMIT_PER_KEY = 3


def zc(n):
    if abs(n) < (1 << 62): return "(%d)" % n
    m, limbs = abs(n), []
    while m:
        limbs.append(m & ((1 << 60) - 1)); m >>= 60
    return "(bigz %s [%s])" % ("true" if n < 0 else "false", "; ".join("%d" % x for x in limbs))


def ctxt(t):
    k = t[0]
    if k == "var": return "(Var 0%N)"
    if k == "int": return "(Int %s)" % zc(t[1])
    if k == "rat": return "(Rat (%d) (%d))" % (t[1], t[2])
    if k == "flt": return "(Flt %d)" % t[1]
    if k == "atom": return "(Atom %s)" % terms.coq_name(t[1])
    return "(Cmp %s [%s])" % (terms.coq_name(t[1]), "; ".join(ctxt(x) for x in t[2]))


V = ("var", "_")


def ptxt(t):
    if t[0] == "var": return "_"
    return terms.to_prolog(t)


def norm(t):
    """an integral rational is the integer it equals (integer/1 accepts it here)"""
    if t[0] == "rat" and t[2] == 1: return ("int", t[1])
    return t


def call_coq(c):
    k = c[0]
    if k == "ri": return "(CRandInt %s %s %s)" % (ctxt(norm(c[1])), ctxt(norm(c[2])), ctxt(c[3]))
    if k == "rnd": return "(CRandom %s)" % ctxt(c[1])
    if k == "set":
        a = c[1]
        if a[0] == "cmp" and a[1] == "seed" and len(a[2]) == 1: a = ("cmp", "seed", [norm(a[2][0])])
        return "(CSetRandom %s)" % ctxt(a)
    if k == "maybe": return "CMaybe"
    return "COther"


def call_text(c):
    """(setup goals, goal text). Rationals are computed at run time (no literal syntax)."""
    k = c[0]
    setup, n = [], [0]

    def arg(t):
        if t[0] == "rat":
            n[0] += 1
            setup.append("Q%d is %d rdiv %d" % (n[0], t[1] * 2 if t[2] == 1 else t[1], t[2] * 2 if t[2] == 1 else t[2]))
            return "Q%d" % n[0]
        if t[0] == "cmp" and t[1] == "seed" and len(t[2]) == 1:
            return "seed(%s)" % arg(t[2][0])
        return ptxt(t)
    if k == "ri":
        r = "X" if c[3][0] == "var" else ptxt(c[3])
        g = "random_integer(%s,%s,%s)" % (arg(c[1]), arg(c[2]), r)
    elif k == "rnd":
        g = "random(%s)" % ("X" if c[1][0] == "var" else ptxt(c[1]))
    elif k == "set":
        g = "set_random(%s)" % arg(c[1])
    elif k == "maybe":
        g = "maybe"
    else:
        g = c[1]
    return ", ".join(setup + [g]) + "."


def observe(ans):
    """-> (coq obs, python obs tuple)"""
    if not ans: return "BOther", ("other", "no answer")
    a = ans[0]
    if a == "true": return "BTrue", ("true",)
    if a == "false": return "BFail", ("fail",)
    if isinstance(a, dict) and "b" in a:
        if "X" in a["b"]:
            t = a["b"]["X"]
            if "i" in t: return "(BInt %s)" % zc(int(t["i"])), ("int", int(t["i"]))
            if "f" in t: return "(BFlt %d)" % int(t["f"], 16), ("flt", int(t["f"], 16))
            return "BOther", ("other", json.dumps(t)[:80])
        return "BTrue", ("true",)
    if isinstance(a, dict) and "panic" in a: return "BOther", ("panic", a["panic"][:120])
    f = core.error_formal(a)
    if f is not None:
        if f.get("a") == "instantiation_error": return "BErrInst", ("inst",)
        if "c" in f and f["c"][0] == "type_error" and f["c"][1].get("a") == "integer":
            t = terms.from_json(f["c"][2])
            return "(BErrType %s)" % ctxt(t), ("type", t)
        return "BOther", ("other", core.term_text(f)[:120])
    return "BOther", ("other", json.dumps(a)[:120])


def expected(c):
    """python mirror of the model's outcome class (for keys and non-triviality only)"""
    k = c[0]
    if k == "ri":
        l, h, r = norm(c[1]), norm(c[2]), c[3]
        if r[0] != "var": return ("fail",)
        if l[0] == "var" or h[0] == "var": return ("inst",)
        if l[0] != "int": return ("type", l)
        if h[0] != "int": return ("type", h)
        return ("range", l[1], h[1]) if l[1] < h[1] else ("fail",)
    if k == "rnd": return ("unit",) if c[1][0] == "var" else ("fail",)
    if k == "set":
        a = c[1]
        if a[0] == "var": return ("inst",)
        if a[0] == "cmp" and a[1] == "seed" and len(a[2]) == 1:
            x = norm(a[2][0])
            if x[0] == "var": return ("inst",)
            return ("true",) if x[0] == "int" else ("type", x)
        return ("fail",)
    if k == "maybe": return ("coin",)
    return ("true",)


def key_for(c, ob):
    e = expected(c)
    has_irat = any(isinstance(t, tuple) and t[0] == "rat" and t[2] == 1 for t in c[1:] if isinstance(t, tuple)) or \
        (c[0] == "set" and c[1][0] == "cmp" and c[1][2] and c[1][2][0][0] == "rat" and c[1][2][0][2] == 1)
    if ob[0] == "panic":
        return "random:set_random-seed-out-of-u64-panics" if c[0] == "set" else "random:%s-panics" % c[0]
    if has_irat:
        return "random:integral-rational-%s" % ("seed-rejected" if c[0] == "set" else "bound-rejected")
    if c[0] == "ri":
        if e[0] == "range": return "random:random_integer-out-of-range" if ob[0] == "int" else "random:random_integer-nonempty-range-no-integer"
        if e[0] == "fail": return "random:random_integer-empty-range-or-bound-result-does-not-fail"
        return "random:random_integer-error-mismatch"
    if c[0] == "rnd": return "random:random-float-not-k-over-2^50-in-unit-interval" if e[0] == "unit" else "random:random-bound-argument-does-not-fail"
    if c[0] == "set": return "random:set_random-outcome-mismatch"
    return "random:%s-outcome-mismatch" % c[0]


def bound_pool():
    p = [0, 1, -1, 2, -2, 3, 7, 10, 100]
    for k in (31, 55, 62, 63, 64, 70, 200):
        for d in (-1, 0, 1):
            p += [(1 << k) + d, -(1 << k) + d]
    return p


def run(ctx):
    rng = ctx.rng
    pool = bound_pool()
    I = lambda n: ("int", n)
    singles = []   # (call, repetitions)
    # boundary pairs: narrow ranges at every magnitude (an inclusive upper bound or an off-by-one shows up at once), wide, empty, reversed
    for l in pool:
        for w in (1, 2, 3):
            singles.append((("ri", I(l), I(l + w), V), 6))
        singles.append((("ri", I(l), I(l), V), 1))
        singles.append((("ri", I(l), I(l - 1), V), 1))
    for _ in range(ctx.scale(500, 8000)):
        l, h = rng.choice(pool), rng.choice(pool)
        singles.append((("ri", I(l), I(h), V), 2))
    bad = [V, ("atom", "foo"), terms.flt(1.5), terms.flt(2.0), terms.mkstring("ab"), ("cmp", "f", [("atom", "x")]), ("atom", "[]"), ("rat", 1, 3)]
    for b in bad:
        for g in (I(0), I(5), I(1 << 70), rng.choice(bad)):
            singles.append((("ri", b, g, V), 1)); singles.append((("ri", g, b, V), 1))
    for r in (I(3), ("atom", "foo"), terms.flt(0.5)):
        singles.append((("ri", I(0), I(10), r), 1)); singles.append((("ri", V, I(10), r), 1)); singles.append((("rnd", r), 1))
    singles.append((("ri", ("rat", 2, 1), I(5), V), 3)); singles.append((("ri", I(0), ("rat", 2, 1), V), 3))
    singles.append((("rnd", V), ctx.scale(300, 5000)))
    singles.append((("maybe",), 40))
    seeds_ok = [0, 1, 42, 1 << 63, (1 << 64) - 1, 1 << 64, -1, -(1 << 64) - 5, 1 << 200]
    for s in seeds_ok:
        singles.append((("set", ("cmp", "seed", [I(s)])), 1))
    for a in (("atom", "foo"), V, ("cmp", "seed", [V]), ("cmp", "seed", [("atom", "foo")]), ("cmp", "seed", [terms.flt(1.0)]),
              ("cmp", "seed", [("rat", 1, 3)]), ("cmp", "seed", [("rat", 2, 1)]), ("cmp", "seed", [I(1), I(2)]), ("cmp", "sed", [I(1)]), I(7)):
        singles.append((("set", a), 1))

    jobs, jmeta = [], []
    flat = [c for c, k in singles for _ in range(k)]
    B = 60
    for i in range(0, len(flat), B):
        chunk = flat[i:i + B]
        jobs.append({"id": "c%d" % i, "consult": ":- use_module(library(random)).\n", "queries": [call_text(c) for c in chunk],
                     "max_answers": 2, "timeout_ms": 10000, "fresh": i % (B * 8) == 0})
        jmeta.append(("single", chunk))

    # reproducibility: the same seed and call sequence, (A) then again on the same machine (C), on another fresh machine (B),
    # and on a fresh machine with non-random goals interleaved (D)
    others = ["Z is 2+3", "atom_length(abc, _)", "findall(Q, (Q = 1 ; Q = 2), _)", "catch(atom_length(_, _), _, true)", "Z = f(_), functor(Z, _, _)", "\\+ fail"]

    def rand_call():
        r = rng.random()
        if r < 0.55:
            l, h = rng.choice(pool), rng.choice(pool)
            if rng.random() < 0.7 and l > h: l, h = h, l
            return ("ri", I(l), I(h), V)
        if r < 0.8: return ("rnd", V)
        if r < 0.9: return ("maybe",)
        if r < 0.95: return ("ri", rng.choice(bad), I(5), V)
        return ("ri", I(3), I(3), V)
    nseq = ctx.scale(100, 1500)
    seqs = []
    for n in range(nseq):
        s = rng.choice(seeds_ok)
        calls = [("set", ("cmp", "seed", [I(s)]))] + [rand_call() for _ in range(rng.choice([4, 8, 12, 16]))]
        inter = []
        for c in calls:
            while rng.random() < 0.4: inter.append(("other", rng.choice(others)))
            inter.append(c)
        pre = [rand_call() for _ in range(rng.choice([0, 1, 3]))]     # history before the seeding (must not matter)
        seqs.append((s, calls, inter, pre))
        qa = [call_text(c) for c in pre + calls + calls]
        jobs.append({"id": "ra%d" % n, "consult": ":- use_module(library(random)).\n", "queries": qa, "max_answers": 2, "timeout_ms": 10000, "fresh": True})
        jmeta.append(("seqA", n))
        jobs.append({"id": "rb%d" % n, "consult": ":- use_module(library(random)).\n", "queries": [call_text(c) for c in calls], "max_answers": 2, "timeout_ms": 10000, "fresh": True})
        jmeta.append(("seqB", n))
        jobs.append({"id": "rd%d" % n, "consult": ":- use_module(library(random)).\n", "queries": [call_text(c) for c in inter], "max_answers": 2, "timeout_ms": 10000, "fresh": True})
        jmeta.append(("seqD", n))

    res = core.vrun_query(ctx.prop, jobs, tag="impl")

    failures, tie_breaks, reported = [], [], {}
    bools, bmeta = [], []
    evaluations = 0
    nontrivial = set()
    dist = {"single_calls": len(flat), "sequences": nseq, "by_class": {}, "bignum_bound_cases": 0, "narrow_range_cases": 0, "float_draws": 0}
    samples = []

    def report(key, what, q, impl, spec):
        reported[key] = reported.get(key, 0) + 1
        if reported[key] > LIMIT_PER_KEY: return
        failures.append({"key": key, "what": what, "input": q, "impl": impl, "spec": spec, "property_fails": True})

    def results_of(job):
        r = res.get(job["id"])
        if r is None or "results" not in r:
            tie_breaks.append({"kind": "harness", "what": "job gave no results", "detail": json.dumps(r)[:300]})
            return None
        return r["results"]

    seqobs = {}
    for job, meta in zip(jobs, jmeta):
        rs = results_of(job)
        if rs is None: continue
        if meta[0] == "single":
            for c, a, q in zip(meta[1], rs, job["queries"]):
                cb, ob = observe(a)
                e = expected(c)
                evaluations += 1
                dist["by_class"][e[0]] = dist["by_class"].get(e[0], 0) + 1
                if e[0] == "range":
                    if abs(e[1]) >= (1 << 55) or abs(e[2]) >= (1 << 55): dist["bignum_bound_cases"] += 1
                    if e[2] - e[1] <= 3: dist["narrow_range_cases"] += 1
                if e[0] == "unit": dist["float_draws"] += 1
                if e[0] != "range" or abs(e[1]) >= (1 << 55) or abs(e[2]) >= (1 << 55) or e[2] - e[1] <= 3:
                    nontrivial.add(q)
                bools.append("check_call %s %s" % (call_coq(c), cb))
                bmeta.append(("single", c, ob, q))
                if len(samples) < 8 and evaluations % 211 == 0:
                    samples.append({"query": q, "impl": json.dumps(a)[:100], "model": str(e)})
        else:
            seqobs[(meta[0], meta[1])] = [observe(a) for a in rs]

    def rand_obs(calls, obs):
        return [o[1] for c, o in zip(calls, obs) if c[0] != "other"]

    for n, (s, calls, inter, pre) in enumerate(seqs):
        A, Bo, D = seqobs.get(("seqA", n)), seqobs.get(("seqB", n)), seqobs.get(("seqD", n))
        if A is None or Bo is None or D is None: continue
        k, m = len(pre), len(calls)
        A1, A2 = A[k:k + m], A[k + m:k + 2 * m]
        evaluations += 3
        nontrivial.add("seq%d" % n)
        ctext = " ".join(call_text(c) for c in calls)
        cs = "[%s]" % "; ".join(call_coq(c) for c in calls)
        csd = "[%s]" % "; ".join(call_coq(c) for c in inter)
        for name, o1, c2, o2, key, what in (
                ("same-machine", A1, cs, A2, "random:not-reproducible-same-machine", "the same seed and call sequence give other values when repeated on the same machine"),
                ("fresh-machines", A1, cs, Bo, "random:not-reproducible-across-machines", "the same seed and call sequence give other values on another machine (the history before set_random matters)"),
                ("interleaved", A1, csd, D, "random:interleaving-changes-values", "non-random goals interleaved between the calls change the random values")):
            bools.append("check_repro %s [%s] %s [%s]" % (cs, "; ".join(o[0] for o in o1), c2, "; ".join(o[0] for o in o2)))
            calls2 = inter if name == "interleaved" else calls
            same = rand_obs(calls, o1) == rand_obs(calls2, o2)
            bmeta.append(("seq", name, key, what, ctext, same, [o[1] for o in o1], [o[1] for o in o2], calls, calls2))

    bad, errs = core.coq_eval_bools(ctx.prop, IMPORTS, bools, chunk=500)
    tie_breaks += [{"kind": "coq-eval", "what": "model evaluation shard failed", "detail": t} for _, t in errs]
    for i in bad:
        m = bmeta[i]
        if m[0] == "single":
            _, c, ob, q = m
            report(key_for(c, ob), "the outcome is not one the model of library(random) admits", q, str(ob), str(expected(c)))
        else:
            _, name, key, what, ctext, same, o1, o2, calls, calls2 = m
            if not same:
                report(key, what, "(%s) %s" % (name, ctext), str(o2)[:400], str(o1)[:400])
            else:
                # the two runs agree with each other; some single outcome is inadmissible: localise it
                hit = False
                for cl, obs in ((calls, o1), (calls2, o2)):
                    for c, ob in zip(cl, obs):
                        if c[0] == "other": continue
                        e = expected(c)
                        okk = (e[0] == "range" and ob[0] == "int" and e[1] <= ob[1] < e[2]) or (e[0] == "unit" and ob[0] == "flt") or \
                              (e[0] == "coin" and ob[0] in ("true", "fail")) or (e[0] in ("fail", "true", "inst") and ob[0] == e[0]) or \
                              (e[0] == "type" and ob[0] == "type" and ob[1] == e[1])
                        if not okk:
                            hit = True
                            report(key_for(c, ob), "the outcome is not one the model of library(random) admits (inside a call sequence)", call_text(c), str(ob), str(e))
                if not hit:
                    tie_breaks.append({"kind": "coq-eval", "what": "Coq rejects a sequence pair the Python localiser accepts", "detail": bools[i][:1200]})
    dist["failures_by_key"] = dict(reported)
    return {
        "evaluations": evaluations,
        "distinct_nontrivial": len(nontrivial),
        "rule": ("single calls: random_integer(L,H,X) for L from the boundary pool {0,+-1,+-2,3,7,10,100, +-2^k+d for k in 31,55,62,63,64,70,200, "
                 "d in -1..1} with H = L+1, L+2, L+3 (six draws each), H = L, H = L-1, and random pairs from pool^2 (two draws each); every "
                 "ill-typed bound (unbound, atom, float, string, compound, [], 1 rdiv 3) on either side; bound third argument; integral "
                 "rationals as bounds; random/1 draws decoded from the binary64 bits; maybe/0; set_random with seeds "
                 "{0,1,42,2^63,2^64-1,2^64,-1,-2^64-5,2^200} and ill-formed arguments. Sequences: set_random(seed(S)) followed by 4-16 random "
                 "calls, run after an arbitrary history and repeated on the same machine, on another fresh machine, and on a fresh machine with "
                 "non-random goals interleaved; all compared in Coq (check_call, check_repro). Non-trivial = distinct single queries with a bignum "
                 "bound, a range of width <= 3, an empty range, an error or a float draw, plus every sequence."),
        "samples": samples,
        "distribution": dist,
        "failures": failures,
        "tie_breaks": tie_breaks,
    }
