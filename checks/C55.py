"""C55 -- writeq and print quote and space exactly as ISO requires."""
import importlib.util, json, os, shutil
from vlib import core, terms

META = {
    "level": "proof",
    "text": ("Coq theorem unquoted_iff_iso: the mirror of heap_print.rs non_quoted_token/non_quoted_graphic_token, over the character classes "
             "REGENERATED from src/parser/macros.rs, leaves an atom unquoted exactly when its text is an ISO 6.4.2 letter-digit token starting "
             "with a small letter, a graphic token that is neither the end token nor a comment opener, or a solo atom ([] {} ! ;), for every "
             "string over the modelled alphabet; quoted_text_escapes: the quoted form (mirror of char_to_string) is inverted by a reference "
             "unescaper for EVERY code point string; atom_text_reads_back / atom_text_injective: the writeq text of an atom always denotes that "
             "atom and only it; write_never_quotes; canonical_has_no_operators (the functional-notation text is read back by a reader that knows "
             "no operators). Tie (textual, differential): writeq/2 to a file, write_term(quoted(true)), format ~q and write of every atom of "
             "length <= 2 over a 43-character alphabet covering each class, all atoms of length 3 over 12 characters and random longer ones must "
             "equal the model's text; the class tables are compared with char_type/2 for every modelled code point; write_canonical / "
             "ignore_ops output of generated terms must equal the model's functional-notation writer; token spacing of operator notation is "
             "checked by reading the implementation's writeq text back (round trip, see C15)."),
    "note": ("Trusted: Coq kernel + vm_compute; gen/char_class.py; harness vrun + tools/vlib; the Python generator. Rust's Unicode tables "
             "(char::is_alphabetic/is_uppercase/is_numeric/is_whitespace/is_control) are modelled exactly for ASCII and only for the 16 listed "
             "non-ASCII code points (each verified through char_type/2 on every run); all theorems with an alphabet hypothesis speak about "
             "ASCII + that table. print/1 does not exist in this scryer-prolog (writeq/1, write_term/2, format ~q are compared). The spacing "
             "between tokens of operator notation is NOT proved (HCPrinter is not mirrored): it is differential (round trip through the "
             "implementation's own reader)."),
    "technique": ("Coq proof (unquoted_iff_iso, quoted_text_escapes, atom_text_reads_back, atom_text_injective, write_never_quotes, "
                  "canonical_has_no_operators) over an impl-mirror model with regenerated character classes + an independent ISO grammar; "
                  "textual differential correspondence evaluated in Coq"),
    "coq_targets": ["C55/Props.vo"], "coq_dirs": ["C55", "C15", "Gen"], "props": "C55/Props.v",
    "trusted_base": ["Coq 8.16.1 kernel, vm_compute", "gen/char_class.py translator", "harness vrun + tools/vlib",
                     "Rust Unicode tables modelled for ASCII + 16 listed code points only"],
    "assumptions": ["atoms over ASCII and the 16 tabulated non-ASCII code points; other code points are not modelled",
                    "operator-notation spacing is checked differentially only"],
}

IMPORTS = "From V Require Import Base.Term Gen.CharClass C55.Model."
PRELUDE = (":- use_module(library(charsio)).\n:- use_module(library(format)).\n:- use_module(library(lists)).\n")


def _load(name):
    spec = importlib.util.spec_from_file_location("gen_" + name, os.path.join(core.ROOT, "gen", name + ".py"))
    m = importlib.util.module_from_spec(spec)
    spec.loader.exec_module(m)
    return m


def gen(ctx):
    _load("char_class").generate(core.REPO, os.path.join(core.COQ, "Gen", "CharClass.v"))


# ------------------------------------------------------------------ helpers
def nlist(codes):
    """Coq expression of type list N"""
    return "[" + ";".join(str(c) for c in codes) + "]%N"


def to_coq(t):
    k = t[0]
    if k == "var": return "(Var %d%%N)" % t[1]
    if k == "int": return "(Int (%d)%%Z)" % t[1]
    if k == "atom": return "(Atom %s)" % nlist([ord(c) for c in t[1]])
    if k == "cmp": return "(Cmp %s [%s])" % (nlist([ord(c) for c in t[1]]), "; ".join(to_coq(x) for x in t[2]))
    raise ValueError(t)


def codes_of(t):
    """a Python term that is a list of integers -> [int] (or None)"""
    items, tail = terms.list_view(t)
    if tail != terms.NIL or any(x[0] != "int" for x in items):
        return None
    return [x[1] for x in items]


def pl_codes(codes):
    return "[" + ",".join(str(c) for c in codes) + "]"


def text(codes):
    return "".join(chr(c) for c in codes)


UNICODE_TABLE = None


def modelled_alphabet():
    global UNICODE_TABLE
    if UNICODE_TABLE is None:
        UNICODE_TABLE = [t[0] for t in _load("char_class").UNICODE_TABLE]
    return list(range(128)) + UNICODE_TABLE


# 43 characters: every class of macros.rs is represented
ALPH2 = [ord(c) for c in "azAZ_09"] + [0xE9, 0xC9, 0x65E5, 0x3BB, 0x2116, 0xB2] + [ord(c) for c in "+-*/\\.:="] + \
        [ord(c) for c in "!;,|[]{}()%"] + [ord(c) for c in "'\"`"] + [32, 10, 9] + [1, 127, 0] + [0xA0, 0x85]
ALPH3 = [ord(c) for c in "aA_1/*.\\'[] "]

CLASS_TYPES = ["alphabetic", "upper", "numeric", "whitespace", "control", "alpha", "alnum", "graphic", "graphic_token", "layout",
               "meta", "solo", "decimal_digit", "symbolic_control", "hexadecimal_digit", "octal_digit", "binary_digit", "sign", "exponent"]

ATOM_PROG = PRELUDE + r"""
c55_cs(Cs, Codes) :- maplist(char_code, Cs, Codes).
c55_atom(Codes, r(W1, W2, W3, B)) :-
    atom_codes(A, Codes),
    write_term_to_chars(A, [quoted(true)], C1), c55_cs(C1, W1),
    phrase(format_("~q", [A]), C2), c55_cs(C2, W2),
    write_term_to_chars(A, [], C3), c55_cs(C3, W3),
    append(C1, " .", C4),
    catch(( read_term_from_chars(C4, T, []), ( atom(T) -> atom_codes(T, B) ; B = nonatom ) ), _, B = syntax_error).
c55_atoms([], []).
c55_atoms([C|Cs], [R|Rs]) :- c55_atom(C, R), c55_atoms(Cs, Rs).
c55_file(File, L) :- open(File, write, S), c55_wr(S, L), close(S).
c55_wr(_, []).
c55_wr(S, [C|Cs]) :- atom_codes(A, C), writeq(S, A), nl(S), c55_wr(S, Cs).
c55_class(Code, Bs) :- char_code(C, Code), c55_types(Ts), c55_cls(Ts, C, Bs).
c55_cls([], _, []).
c55_cls([T|Ts], C, [B|Bs]) :- ( char_type(C, T) -> B = 1 ; B = 0 ), c55_cls(Ts, C, Bs).
c55_classes([], []).
c55_classes([C|Cs], [B|Bs]) :- c55_class(C, B), c55_classes(Cs, Bs).
c55_wchars(Codes, r(W1, W2)) :-
    c55_mk(Codes, L), write_term_to_chars(L, [], C1), c55_cs(C1, W1),
    atom_codes(A, Codes), atom_chars(A, S), write_term_to_chars(S, [], C2), c55_cs(C2, W2).
c55_mk([], []).
c55_mk([C|Cs], [A|As]) :- atom_codes(A, [C]), c55_mk(Cs, As).
c55_wcharss([], []).
c55_wcharss([C|Cs], [R|Rs]) :- c55_wchars(C, R), c55_wcharss(Cs, Rs).
""" + "c55_types([%s]).\n" % ",".join(CLASS_TYPES)

TERM_PROG = PRELUDE + r"""
c55_cs(Cs, Codes) :- maplist(char_code, Cs, Codes).
c55_canon(T, Names, W) :- write_term_to_chars(T, [quoted(true), ignore_ops(true), variable_names(Names)], C), c55_cs(C, W).
c55_cfile(File, L) :- open(File, write, S), c55_cwr(S, L), close(S).
c55_cwr(_, []).
c55_cwr(S, [T|Ts]) :- write_canonical(S, T), nl(S), c55_cwr(S, Ts).
c55_rt(T, Opts, R) :-
    write_term_to_chars(T, Opts, C1), append(C1, " .", C2),
    catch(( read_term_from_chars(C2, T2, []) -> true ; T2 = '$read_failed' ), E, T2 = '$syntax_error'(E)),
    (  T2 == T -> R = ok
    ;  c55_cs(C1, W), catch(write_term_to_chars(T2, [quoted(true), ignore_ops(true)], C3), _, C3 = "?"), c55_cs(C3, W3), R = bad(W, W3) ).
c55_rts([], _, []).
c55_rts([T|Ts], O, [R|Rs]) :- c55_rt(T, O, R), c55_rts(Ts, O, Rs).
"""


def first_binding(rec, qi, var):
    if rec is None or "results" not in rec or qi >= len(rec["results"]):
        return None
    for a in rec["results"][qi]:
        if isinstance(a, dict) and "b" in a and var in a["b"]:
            return terms.from_json(a["b"][var])
    return None


def rec_problem(rec, qi):
    if rec is None:
        return "no record"
    if "results" not in rec:
        return json.dumps(rec)[:300]
    if qi >= len(rec["results"]):
        return "missing query result"
    return json.dumps(rec["results"][qi])[:300]


# ------------------------------------------------------------------ atoms
def gen_atoms(ctx):
    rng = ctx.rng
    atoms = [()]
    atoms += [(a,) for a in ALPH2]
    atoms += [(a, b) for a in ALPH2 for b in ALPH2]
    atoms += [(a, b, c) for a in ALPH3 for b in ALPH3 for c in ALPH3]
    full = modelled_alphabet()
    pools = [full, [ord(c) for c in "abcXYZ_019"], [ord(c) for c in "+-*/\\.:=<>#$&^~?@"], ALPH2,
             [ord(c) for c in "ab_1"] + [0xE9, 0xC9, 0x65E5, 0x672C, 0x3BB, 0x3A9, 0xDF, 0x2116, 0x1F600, 0xB2, 0x1C5, 0x2167, 0x200B],
             [ord(c) for c in "a'\\"] + [10, 9, 1, 0x85, 0xA0, 0x2028, 127, 11, 12, 8, 7, 13, 34, 96, 32]]
    for _ in range(ctx.scale(1200, 40000)):
        pool = rng.choice(pools)
        n = rng.choice([3, 3, 4, 4, 5, 6, 8, 12])
        atoms.append(tuple(rng.choice(pool) for _ in range(n)))
    fixed = ["[]", "{}", "!", ";", ",", "|", "''", "'", "/*", "/**/", "/", "//", "/*a", "*/", ".", "..", ".a", "a.", "=..", "-->", "[ ]", "[]a",
             "{}}", "{ }", "!!", ";;", "a b", "aB_1", "Ab", "_a", "_", "1a", "a1", "\\", "\\\\", "\\+", "日本", "é", "Éa", "aÉ", "λx", "Ωa",
             "a№", "№", "😀", "a😀", "a²", "²", "ǅa", "aǅ", "Ⅷ", "aⅧ", "a​", "​", "a\xa0", "\x85", " x", "\x7f", "a\x00b",
             "hello world", "don't", "\"", "`", "a\"b", "%", "a%", "(", ")", "()", "$VAR", "$", "#", "@", "end_of_file", "dynamic", "is", "mod"]
    atoms += [tuple(ord(c) for c in s) for s in fixed]
    seen, out = set(), []
    for a in atoms:
        if a not in seen:
            seen.add(a); out.append(a)
    return out


def atom_key(a):
    s = text(a)
    if s == "''":
        return "quote:two-single-quotes"
    cls = []
    for c in a[:6]:
        ch = chr(c)
        if ch == "'": cls.append("q")
        elif ch == "\\": cls.append("b")
        elif ch in "#$&*+-./:<=>?@^~": cls.append("g")
        elif ch in "!(),;[]{}|%": cls.append(ch)
        elif c < 32 or c == 127: cls.append("c")
        elif ch == " ": cls.append("s")
        elif "a" <= ch <= "z": cls.append("l")
        elif "A" <= ch <= "Z": cls.append("U")
        elif ch.isdigit() and c < 128: cls.append("d")
        elif ch == "_": cls.append("_")
        elif c < 128: cls.append("m")
        else: cls.append("u%x" % c)
    return "quote:atom:" + "".join(cls)


def run_atoms(ctx, res):
    atoms = gen_atoms(ctx)
    wdir = os.path.join(core.WORK, ctx.prop, "wq")
    shutil.rmtree(wdir, ignore_errors=True)
    os.makedirs(wdir)
    PER_Q, PER_JOB = 50, 500
    jobs = []
    for j in range(0, len(atoms), PER_JOB):
        chunk = atoms[j:j + PER_JOB]
        qs = []
        for i in range(0, len(chunk), PER_Q):
            qs.append("c55_atoms([%s], Rs)." % ",".join(pl_codes(a) for a in chunk[i:i + PER_Q]))
        qs.append("c55_file('%s', [%s])." % (os.path.join(wdir, "a%d.txt" % j), ",".join(pl_codes(a) for a in chunk)))
        jobs.append({"id": "a%d" % j, "consult": ATOM_PROG, "queries": qs, "timeout_ms": 60000, "fresh": True})
    out = core.vrun_query(ctx.prop, jobs, tag="atoms")
    bools, meta = [], []
    for j in range(0, len(atoms), PER_JOB):
        chunk = atoms[j:j + PER_JOB]
        rec = out.get("a%d" % j)
        path = os.path.join(wdir, "a%d.txt" % j)
        lines = None
        if os.path.exists(path):
            raw = open(path, "rb").read().decode("utf-8", errors="surrogateescape")
            lines = raw.split("\n")
            if lines and lines[-1] == "":
                lines.pop()
            if len(lines) != len(chunk):
                res["failures"].append({"key": "quote:file-lines", "what": "writeq/2 wrote a raw newline or the wrong number of lines",
                                        "input": "c55_file of job a%d" % j, "impl": "%d lines" % len(lines), "spec": "%d lines" % len(chunk),
                                        "property_fails": True})
                lines = None
        for i in range(0, len(chunk), PER_Q):
            rs = first_binding(rec, i // PER_Q, "Rs")
            items = terms.list_view(rs)[0] if rs is not None else None
            sub = chunk[i:i + PER_Q]
            if items is None or len(items) != len(sub):
                res["tie_breaks"].append({"kind": "harness", "what": "atom batch gave no result", "detail": rec_problem(rec, i // PER_Q)})
                continue
            for k, (a, r) in enumerate(zip(sub, items)):
                w1, w2, w3 = codes_of(r[2][0]), codes_of(r[2][1]), codes_of(r[2][2])
                back = codes_of(r[2][3])
                wq = [ord(ch) for ch in lines[i + k]] if lines is not None else w1
                if back is None:
                    back_c = nlist([0, 0, 0]) if tuple(a) != (0, 0, 0) else nlist([1])   # anything different from the atom
                    back_txt = terms.to_prolog(r[2][3])
                else:
                    back_c, back_txt = nlist(back), "the atom with text %r (codes %s)" % (text(back), pl_codes(back))
                bools.append("check_atom %s %s %s %s %s %s" % (nlist(a), nlist(wq), nlist(w1), nlist(w2), nlist(w3), back_c))
                meta.append((a, wq, w1, w2, w3, back_txt))
    bad, errs = yield bools
    for _, t in errs:
        res["tie_breaks"].append({"kind": "coq-eval", "what": "atom shard failed", "detail": t})
    if bad:
        shown = bad[:12]
        specs = core.coq_eval_show(ctx.prop, IMPORTS, "[%s]" % "; ".join("atom_text true %s" % nlist(meta[i][0]) for i in shown))
        seen = set()
        for i in bad:
            a, wq, w1, w2, w3, back = meta[i]
            k = atom_key(a)
            if k in seen:
                continue
            seen.add(k)
            res["failures"].append({"key": k, "what": "text written for an atom differs from the ISO quoting model, or does not read back as the atom",
                                    "input": "atom_codes(A, %s), writeq(A)  %% A = %r" % (pl_codes(a), text(a)),
                                    "impl": {"writeq": text(wq), "write_term_quoted": text(w1), "format_q": text(w2), "write": text(w3),
                                             "read_back": back},
                                    "spec": "model atom_text of the first failing atoms (code points): " + specs[:1500] if i in shown else "",
                                    "property_fails": True})
            if len(seen) >= 25:
                break
    nontriv = sum(1 for a in atoms if not (a and all(chr(c).isalnum() and c < 128 for c in a)))
    res["evaluations"] += len(bools)
    res["nontrivial"] += nontriv
    res["distribution"]["atoms"] = {"total": len(atoms), "exhaustive_len_le2": 1 + len(ALPH2) + len(ALPH2) ** 2, "len3": len(ALPH3) ** 3,
                                    "with_non_alnum_or_non_ascii": nontriv}
    res["samples"] += [{"atom": text(m[0]), "writeq": text(m[1]), "write": text(m[4])} for m in meta[:: max(1, len(meta) // 5)][:5]]


# ------------------------------------------------------------------ character classes
def run_classes(ctx, res):
    alph = modelled_alphabet()
    jobs = [{"id": "cls", "consult": ATOM_PROG, "queries": ["c55_classes(%s, Bs)." % pl_codes(alph)], "timeout_ms": 60000, "fresh": True}]
    out = core.vrun_query(ctx.prop, jobs, nproc=1, tag="classes")
    bs = first_binding(out.get("cls"), 0, "Bs")
    items = terms.list_view(bs)[0] if bs is not None else None
    if items is None or len(items) != len(alph):
        res["tie_breaks"].append({"kind": "harness", "what": "char_type sweep gave no result", "detail": rec_problem(out.get("cls"), 0)})
        yield []
        return
    bools = []
    obs = []
    for c, b in zip(alph, items):
        v = codes_of(b)
        obs.append(v)
        bools.append("check_class %d%%N [%s]" % (c, "; ".join("true" if x else "false" for x in v)))
    bad, errs = yield bools
    for _, t in errs:
        res["tie_breaks"].append({"kind": "coq-eval", "what": "class shard failed", "detail": t})
    for i in bad[:10]:
        res["tie_breaks"].append({"kind": "model-table", "key": "class:U+%04X" % alph[i],
                                  "what": "character class table of the model differs from char_type/2 for U+%04X" % alph[i],
                                  "detail": {"types": CLASS_TYPES, "impl": obs[i],
                                             "model": core.coq_eval_show(ctx.prop, IMPORTS, "class_vector %d%%N" % alph[i])}})
    res["evaluations"] += len(bools)
    res["nontrivial"] += len(bools)
    res["distribution"]["class_sweep"] = {"code_points": len(alph), "types": len(CLASS_TYPES)}


# ------------------------------------------------------------------ write/1 of character lists
def run_wchars(ctx, res):
    alph = [c for c in modelled_alphabet()]
    cases = [(c,) for c in alph] + [(97, c) for c in alph if c < 40 or c > 126] + [(c, 98) for c in alph if c < 40 or c > 126]
    jobs = []
    B = 100
    for j in range(0, len(cases), B):
        jobs.append({"id": "w%d" % j, "consult": ATOM_PROG, "queries": ["c55_wcharss([%s], Rs)." % ",".join(pl_codes(c) for c in cases[j:j + B])],
                     "timeout_ms": 60000, "fresh": j == 0})
    out = core.vrun_query(ctx.prop, jobs, tag="wchars")
    bools, meta = [], []
    for j in range(0, len(cases), B):
        rs = first_binding(out.get("w%d" % j), 0, "Rs")
        items = terms.list_view(rs)[0] if rs is not None else None
        sub = cases[j:j + B]
        if items is None or len(items) != len(sub):
            res["tie_breaks"].append({"kind": "harness", "what": "write-chars batch gave no result", "detail": rec_problem(out.get("w%d" % j), 0)})
            continue
        for c, r in zip(sub, items):
            w1, w2 = codes_of(r[2][0]), codes_of(r[2][1])
            bools.append("check_write_chars %s %s %s" % (nlist(c), nlist(w1), nlist(w2)))
            meta.append((c, w1, w2))
    bad, errs = yield bools
    for _, t in errs:
        res["tie_breaks"].append({"kind": "coq-eval", "what": "write-chars shard failed", "detail": t})
    seen = set()
    for i in bad:
        c, w1, w2 = meta[i]
        expect = "[" + ",".join(chr(x) for x in c) + "]"
        k = "write:string-char-escaped" if text(w1) == expect else "write:char-list-text"
        if k in seen:
            continue
        seen.add(k)
        res["failures"].append({"key": k, "what": "write/1 (quoted(false)) of a list of one-character atoms does not print the raw characters "
                                                  "(the same term prints differently as a string and as a list of atoms)",
                                "input": "atom_codes(A, %s), atom_chars(A, S), write(S)" % pl_codes(c),
                                "impl": {"as_list_of_atoms": text(w1), "as_string": text(w2)}, "spec": expect, "property_fails": True})
    res["evaluations"] += len(bools)
    res["nontrivial"] += len(bools)
    res["distribution"]["write_char_lists"] = len(bools)


# ------------------------------------------------------------------ terms (shared with C15)
PLAIN = ["a", "b", "foo", "f", "g", "x1", "aB_c"]
TRICKY = ["[]", "{}", "|", ",", "-", "+", "\\", "/*", ".", "\n", "", "é", "日本", "=..", "-->", ":-", "*", "**", "^", "=", "is", "mod", "dynamic",
          "\\+", ";", "!", "->", "'", "A", "_x", "a b", "$VAR", "?-", ":", "@", "#", "1", "e", "0'", "rdiv", "//", "<", "\t", "\x01", "a.b", "..", "~",
          # non-ASCII layout and format characters (written escaped inside quotes, or the text does not read back)
          "\u00a0", "a\u00a0b", "\u2028", "\u3000x", "\u1680", "\u0085", "\u200b", "x\u2003"]


def default_ops():
    ops = _load("default_ops").boot_table(core.REPO)
    d = {}
    for p, s, n in ops:
        d.setdefault(n, []).append((p, s))
    return d


def gen_term(rng, size, atoms, funcs, leaves_extra=(), allow_var=True, nvars=3):
    """random term with at most `size` nodes"""
    if size <= 1 or rng.random() < 0.15:
        r = rng.random()
        if r < 0.45:
            return ("atom", rng.choice(atoms))
        if r < 0.75:
            return ("int", rng.choice([0, 1, 2, 7, 10, 42, -1, -2, -10, 123456789, -987654321, 2 ** 55, -(2 ** 55), 2 ** 61 + 5]))
        if r < 0.87 and allow_var:
            return ("var", rng.randrange(nvars))
        if leaves_extra:
            return rng.choice(leaves_extra)
        return ("atom", rng.choice(atoms))
    r = rng.random()
    if r < 0.12:
        n = rng.choice([1, 2, 3])
        items = [gen_term(rng, max(1, (size - 1) // (n + 1)), atoms, funcs, leaves_extra, allow_var, nvars) for _ in range(n)]
        tail = terms.NIL if rng.random() < 0.7 else gen_term(rng, 1, atoms, funcs, leaves_extra, allow_var, nvars)
        return terms.mklist(items, tail)
    f, ar = rng.choice(funcs)
    if ar is None:
        ar = rng.choice([1, 1, 2, 2, 3])
    budget = size - 1
    args = []
    for i in range(ar):
        s = max(1, budget // (ar - i)) if i == ar - 1 else rng.randint(1, max(1, budget - (ar - i - 1)))
        args.append(gen_term(rng, s, atoms, funcs, leaves_extra, allow_var, nvars))
        budget = max(1, budget - terms.size(args[-1]))
    return ("cmp", f, args)


def shape(t, ops, depth=0):
    k = t[0]
    if k == "atom":
        return "'%s'" % t[1] if (t[1] in ops or not t[1].isalnum()) else "a"
    if k == "int":
        return "n" if t[1] >= 0 else "neg"
    if k == "flt":
        return "f" if not (t[1] >> 63) else "negf"
    if k == "var":
        return "V"
    if k == "rat":
        return "r"
    if depth > 3:
        return "..."
    return "%s(%s)" % (t[1], ",".join(shape(x, ops, depth + 1) for x in t[2]))


def has_no_rat_flt(t):
    if t[0] in ("rat", "flt"):
        return False
    if t[0] == "cmp":
        return all(has_no_rat_flt(x) for x in t[2])
    return True


def run_canonical(ctx, res):
    rng = ctx.rng
    atoms = PLAIN + TRICKY
    funcs = [(a, None) for a in PLAIN + ["-", "+", ",", "|", "[]", "{}", ".", "$VAR", ":-", "\\+", "=", "é", "a b", "", "A", "*", "1"]]
    n = ctx.scale(1000, 30000)
    cases, seen = [], set()
    fixed = ["f(+)", "f(:-)", "[-]", "- (1)", "-(-(1))", "1 - (-1)", "'$VAR'(1)", "'$VAR'(-1)", "{a,b}", "(a,b)", "[a|b]", "\"abc\"", "- 1", "-(1)",
             "-(a)", "1-2", "a:b:c", "\\+a", "f(',', '|', '[]', '{}')", "'[]'(x)", "'{}'(x)", "f((a:-b))", "- - a", "[a,b|c]", "f(- 1)", "f(-(1))",
             "-(-1)", "- (-(1))", "1 - 1", "'\\n'('\\t')", "''('')", "-(-(-(1)))", "'-'('-')", "2 ** -1", "f(;, '!', [])", "a= \\+b", "{}",
             "'{}'({})", "[[]]", "- {}", "1 = :- ", "* = *", "dynamic a", "a-->b,c", "\"\"", "'.'", "'.'(a)", "[a]", "a = \\+b", "a- (\\+b)"]
    # fixed cases are given in operator notation: the term the implementation read comes back through the answer channel
    fjobs = [{"id": "cf", "consult": TERM_PROG, "queries": ["T = (%s), c55_canon(T, [], W)." % f for f in fixed], "timeout_ms": 20000, "fresh": True}]
    fout = core.vrun_query(ctx.prop, fjobs, nproc=1, tag="canonfixed").get("cf")
    for i, f in enumerate(fixed):
        t = first_binding(fout, i, "T")
        if "Failed to parse query" in rec_problem(fout, i):
            continue          # not valid text for the implementation's reader (an operator atom as a bare operand): not a case
        if t is None or not has_no_rat_flt(t) or terms.term_vars(t):
            res["tie_breaks"].append({"kind": "harness", "what": "fixed canonical case gave no usable term", "detail": {"case": f, "result": rec_problem(fout, i)}})
            continue
        k = terms.to_prolog(t)
        if k not in seen:
            seen.add(k); cases.append(t)
    while len(cases) < n:
        t = gen_term(rng, rng.choice([1, 2, 3, 5, 8, 12]), atoms, funcs)
        k = terms.to_prolog(t)
        if k in seen:
            continue
        seen.add(k)
        cases.append(t)
    cdir = os.path.join(core.WORK, ctx.prop, "canon")
    shutil.rmtree(cdir, ignore_errors=True)
    os.makedirs(cdir)
    jobs = []
    B, PER_JOB = 25, 250
    for j in range(0, len(cases), PER_JOB):
        chunk = cases[j:j + PER_JOB]
        qs = []
        for t in chunk:
            vs = terms.term_vars(t)
            names = "[" + ",".join("'_G%d'=_G%d" % (v, v) for v in vs) + "]"
            qs.append("c55_canon(%s, %s, W)." % (terms.to_prolog(t), names))
        ground = [t for t in chunk if not terms.term_vars(t)]
        qs.append("c55_cfile('%s', [%s])." % (os.path.join(cdir, "c%d.txt" % j), ",".join(terms.to_prolog(t) for t in ground)))
        jobs.append({"id": "c%d" % j, "consult": TERM_PROG, "queries": qs, "timeout_ms": 60000, "fresh": j == 0})
    # the fixed cases are given in operator notation (read by the implementation); their model term comes back through '=..'-free JSON
    out = core.vrun_query(ctx.prop, jobs, tag="canon")
    bools, meta = [], []
    for j in range(0, len(cases), PER_JOB):
        chunk = cases[j:j + PER_JOB]
        rec = out.get("c%d" % j)
        ground = [t for t in chunk if not terms.term_vars(t)]
        path = os.path.join(cdir, "c%d.txt" % j)
        lines = None
        if os.path.exists(path):
            lines = open(path, "rb").read().decode("utf-8", errors="surrogateescape").split("\n")
            if lines and lines[-1] == "":
                lines.pop()
            if len(lines) != len(ground):
                res["failures"].append({"key": "canonical:file-lines", "what": "write_canonical/2 wrote a raw newline or the wrong number of lines",
                                        "input": "job c%d" % j, "impl": "%d lines" % len(lines), "spec": "%d" % len(ground), "property_fails": True})
                lines = None
        gi = 0
        for i, t in enumerate(chunk):
            w = first_binding(rec, i, "W")
            wc = codes_of(w) if w is not None else None
            is_ground = not terms.term_vars(t)
            if wc is None:
                res["tie_breaks"].append({"kind": "harness", "what": "canonical query gave no result",
                                          "detail": {"query": terms.to_prolog(t), "result": rec_problem(rec, i)}})
                if is_ground: gi += 1
                continue
            ct = to_coq(t)
            e = "check_canonical %s %s" % (ct, nlist(wc))
            fl = None
            if is_ground:
                if lines is not None:
                    fl = [ord(ch) for ch in lines[gi]]
                    e = "(%s && check_canonical %s %s)" % (e, ct, nlist(fl))
                gi += 1
            bools.append(e)
            meta.append((t, wc, fl))
    bad, errs = yield bools
    for _, t in errs:
        res["tie_breaks"].append({"kind": "coq-eval", "what": "canonical shard failed", "detail": t})
    if bad:
        ops = default_ops()
        shown = sorted(bad, key=lambda i: terms.size(meta[i][0]))[:8]
        specs = core.coq_eval_show(ctx.prop, IMPORTS, "[%s]" % "; ".join("write_canonical_ref %s" % to_coq(meta[i][0]) for i in shown))
        seen_k = set()
        for i in shown:
            t, wc, fl = meta[i]
            k = "canonical:" + shape(t, ops)[:60]
            if k in seen_k: continue
            seen_k.add(k)
            res["failures"].append({"key": k, "what": "write_canonical / write_term(ignore_ops(true),quoted(true)) text is not the functional notation of the term",
                                    "input": "write_canonical(%s)" % terms.to_prolog(t),
                                    "impl": {"write_term": text(wc), "write_canonical": text(fl) if fl is not None else None},
                                    "spec": "model texts (code points, smallest failing terms first): " + specs[:1500], "property_fails": True})
    res["evaluations"] += len(bools)
    res["nontrivial"] += sum(1 for (t, _, _) in meta if t[0] == "cmp")
    res["distribution"]["canonical_terms"] = {"total": len(meta), "compound": sum(1 for (t, _, _) in meta if t[0] == "cmp"),
                                              "ground_via_write_canonical_file": sum(1 for m in meta if m[2] is not None)}
    res["samples"] += [{"term": terms.to_prolog(m[0]), "write_canonical": text(m[1])} for m in meta[:: max(1, len(meta) // 3)][:3]]


# ------------------------------------------------------------------ token spacing (round trip of operator notation)
SPACING_FIXED = ["- - a", "a- -1", "1 - 2", "\\+a", "a:b:c", "- (1)", "-(-(1))", "1 - (-1)", "2- 1", "a= \\+b", "[-]", "f(:-)", "- - - a",
                 "- (-)", "\\+ (-)", "a- - -b", "2** -1", "- a", "-(-(a))", "-(2)^2", "(-2)^2", "1 - -1", "-(1)", "- 1", "f(+)", "(a,b)", "{a,b}",
                 "a=b", "a= =", "= = =", "[a|b]", "[(a,b)]", "f((a,b))", "f((:-))", "(a:-b):-c", "a:-(b:-c)", "(a,b),c", "a,(b,c)", "1-(2-3)",
                 "(1-2)-3", "2^3^4", "(2^3)^4", "- (2^3)", "(- 2)^3", "-(2)", "- (2.0)", "-(-(2.0))", "1.0e10", "-0.0", "a*(b+c)", "(a*b)+c",
                 "\\ (\\ a)", "\\ \\a", "- (- (1))", "1 = :- ", "f(a, -)", "[-,-]", "- - 1", "-(- 1)", "a rdiv b", "'\\n'-'\\n'", "''-''", "f(A)",
                 "* = *", "\\+ (a,b)", "\\+ [a]", "- [1]", "- {a}", "-(3)-(-(3))", "a+'B'", "'B'+a", "0'a + 0' ", "a:b:c:d", "(a:b):c",
                 "dynamic a", "dynamic (a,b)", "(dynamic a),b", ":- a", ":- :- a", "?- a", "a-->b", "(a-->b)-->c", "- (a-->b)", "(a;b)->c", "a->b;c",
                 "(a->b);c", "'|'(a,b)", "(a|b)", "[a|b]-c", "{-}", "{(:-)}", "{[]}", "- {}", "-[]", "- '[]'", "\\+ {}", "1 mod 2", "mod mod mod", "is is is",
                 "(is) is 1", "X is 1", "- (1) + 2", "(- 1) + 2", "- (1 + 2)", "-(1) ^ 2", "-(1)^(-(1))", "1 - (2)", "a- (-1)", "a-(- 1)", "a - (-(1))",
                 "-(-(-1))", "- - -1", "\\ -1", "\\ (-(1))", "\\ - 1", "1 + -2", "1 + (- 2)", "1 + (-(2))", "a = -", "- = a", "- - -", "\\ - \\",
                 "+ + +", "a+ +", "+ +a", "f(-, +)", "f(- , a)", "[-|-]", "-(-)", "-(-(-))", "(-)-(-)", "- (-) - (-)", "1 - (-)", "(-) - 1", "-(1,2)",
                 "-((1,2))", "+(1,2,3)", "','(a)", "','(a,b,c)", "'|'(a)", "'[]'(a)", "'{}'(a,b)", "'.'(a)", "'.'(a,b,c)", "'$VAR'(1)", "'$VAR'(27)",
                 "'$VAR'(-1)", "'$VAR'(a)", "'$VAR'('$VAR'(1))", "f('$VAR'(1), 'A')", "- '$VAR'(1)", "1 - '$VAR'(1)", "\"abc\"", "\"a'b\"", "\"a\\\"b\"",
                 "\"\"", "[a,b,c]", "[a,b|c]", "[[]]", "[[a]|b]", "'/*'", "'/*' + a", "a + '/*'", "/ * a", "a / * ", "(/) * a", "a rdiv (/)", "'.'", "'.' + a",
                 "a + '.'", "a = '.'", "'.' = a", "f('.')", "['.']", "- '.'", "e", "1.0e", "a e b", "0.1 e 2", "1 e", "'e' - 1", "1 - e", "x = 'E'"]


# ---- round-trip engine (also used by checks/C15.py) ---------------------------------------------------------------
RT_PROG = PRELUDE + r"""
c55_cs(Cs, Codes) :- maplist(char_code, Cs, Codes).
% -0.0 may be written as 0.0 (the property allows it): compare modulo the sign of zero
c55_norm(T, T) :- var(T), !.
c55_norm(T, N) :- float(T), !, ( T =:= 0.0 -> N = 0.0 ; N = T ).
c55_norm(T, T) :- atomic(T), !.
c55_norm(T, N) :- T =.. [F|As], c55_norms(As, Ns), N =.. [F|Ns].
c55_norms([], []).
c55_norms([A|As], [N|Ns]) :- c55_norm(A, N), c55_norms(As, Ns).
c55_variant(A0, B0) :- c55_norm(A0, A), c55_norm(B0, B), ( A == B -> true ; c55_variant_(A, B) ).
c55_variant_(A, B) :- term_variables(A, VA), term_variables(B, VB), length(VA, N), length(VB, N), \+ \+ ( VA = VB, A == B ).
% numbervars(true): the letters written for '$VAR'(N) come back as variables; name them back
c55_bind([]).
c55_bind([Name=V|Vs]) :- atom_chars(Name, [C|Ds]), ( C == '_' -> true ; char_code(C, CC), I is CC - 65,
      ( Ds == [] -> J = 0 ; number_chars(J, Ds) ), N is J*26 + I, V = '$VAR'(N) ), c55_bind(Vs).
c55_read(Cs, nv, T2) :- !, read_term_from_chars(Cs, T2, [variable_names(Vs)]), c55_bind(Vs).
c55_read(Cs, _, T2) :- read_term_from_chars(Cs, T2, []).
c55_rt(T, Opts, Names, Mode, R) :-
    catch(write_term_to_chars(T, [variable_names(Names)|Opts], C1), E0, C1 = write_error(E0)),
    (  C1 = write_error(_) -> R = bad([], [119,114,105,116,101,32,101,114,114,111,114])
    ;  append(C1, " .", C2),
       catch(( c55_read(C2, Mode, T2) -> true ; T2 = '$read_failed' ), E, T2 = '$syntax_error'(E)),
       (  c55_variant(T, T2) -> R = ok
       ;  c55_cs(C1, W), catch(write_term_to_chars(T2, [quoted(true), ignore_ops(true)], C3), _, C3 = "?"), c55_cs(C3, W3), R = bad(W, W3) ) ).
c55_rts([], _, _, _, []).
c55_rts([T|Ts], O, Ns, M, [R|Rs]) :- c55_rt(T, O, Ns, M, R), c55_rts(Ts, O, Ns, M, Rs).
% the stream predicates themselves: write all terms to a file, read them back
c55_wfile(File, Ts, How) :- open(File, write, S), c55_wf(Ts, How, S), close(S).
c55_wf([], _, _).
c55_wf([T|Ts], How, S) :- c55_w1(How, S, T), write(S, ' .'), nl(S), c55_wf(Ts, How, S).
c55_w1(writeq, S, T) :- writeq(S, T).
c55_w1(write_canonical, S, T) :- write_canonical(S, T).
c55_w1(write_term(O), S, T) :- write_term(S, T, O).
c55_rfile(File, Ts, Mode, Rs) :- open(File, read, S), c55_rf(Ts, S, Mode, Rs), close(S).
c55_rf([], _, _, []).
c55_rf([T|Ts], S, Mode, [R|Rs]) :-
    catch(( c55_sread(Mode, S, T2) -> true ; T2 = '$read_failed' ), _, T2 = '$syntax_error'),
    ( c55_variant(T, T2) -> R = ok ; R = bad ), c55_rf(Ts, S, Mode, Rs).
c55_sread(nv, S, T2) :- !, read_term(S, T2, [variable_names(Vs)]), c55_bind(Vs).
c55_sread(_, S, T2) :- read_term(S, T2, []).
"""

CURRENT_OPS = {}
_PLAIN_ATOM = None


def pl_atom(s):
    return terms.quote_atom(s)


def pl_text(t, arg=False):
    """Prolog text the implementation reads as exactly this term: functional notation, every operator atom bracketed.
    Extra leaf kind ("str", text): a double-quoted string literal (the partial-string representation of a character list)."""
    k = t[0]
    if k == "var":
        return "_G%d" % t[1] if isinstance(t[1], int) else t[1]
    if k == "int":
        return str(t[1]) if t[1] >= 0 else "(%d)" % t[1]
    if k == "flt":
        x = terms.flt_text(t[1])
        return "(%s)" % x if x.startswith("-") else x
    if k == "str":
        out = ['"']
        for ch in t[1]:
            o = ord(ch)
            if ch == '"': out.append('\\"')
            elif ch == "\\": out.append("\\\\")
            elif o < 32 or o == 127 or (o > 127 and not ch.isprintable()): out.append("\\x%x\\" % o)
            else: out.append(ch)
        return "".join(out) + '"'
    if k == "atom":
        q = pl_atom(t[1])
        plain = t[1].isascii() and t[1].isalnum() and t[1][:1].islower() and t[1] not in CURRENT_OPS
        return q if (plain or t[1] in ("[]", "{}")) else "(%s)" % q
    if k == "cmp":
        if t[1] == "." and len(t[2]) == 2:
            items, tail = terms.list_view(t)
            body = ",".join(pl_text(x) for x in items)
            return "[%s]" % body if tail == terms.NIL else "[%s|%s]" % (body, pl_text(tail))
        return "%s(%s)" % (pl_atom(t[1]), ",".join(pl_text(x) for x in t[2]))
    raise ValueError(t)


def tsize(t):
    return 1 + sum(tsize(x) for x in t[2]) if t[0] == "cmp" else 1


def tvars(t, acc=None):
    acc = [] if acc is None else acc
    if t[0] == "var":
        if t[1] not in acc: acc.append(t[1])
    elif t[0] == "cmp":
        for x in t[2]: tvars(x, acc)
    return acc


def from_json_str(j):
    """like terms.from_json but keeps strings as ("str", text) leaves"""
    if "s" in j: return ("str", j["s"]) if j["s"] else terms.NIL
    if "l" in j: return terms.mklist([from_json_str(x) for x in j["l"]])
    if "c" in j: return ("cmp", j["c"][0], [from_json_str(x) for x in j["c"][1:]])
    return terms.from_json(j)


def renumber_vars(t, m=None):
    """variables named by the answer channel (X, _123) -> integers (written _G<n>)"""
    m = {} if m is None else m
    if t[0] == "var":
        if t[1] not in m: m[t[1]] = len(m)
        return ("var", m[t[1]])
    if t[0] == "cmp":
        return ("cmp", t[1], [renumber_vars(x, m) for x in t[2]])
    return t


def parse_texts(ctx, texts, tag, consult=None):
    """Prolog texts (operator notation) -> Python terms, as read by the implementation (None where it rejects the text)."""
    qs = ["T = (%s)." % t for t in texts]
    rec = core.vrun_query(ctx.prop, [{"id": "p", "consult": consult or RT_PROG, "queries": qs, "timeout_ms": 30000, "fresh": True}], nproc=1, tag=tag).get("p")
    out = []
    for i in range(len(texts)):
        t = None
        if rec and "results" in rec and i < len(rec["results"]):
            for a in rec["results"][i]:
                if isinstance(a, dict) and "b" in a and "T" in a["b"]:
                    t = renumber_vars(from_json_str(a["b"]["T"]))
        out.append(t)
    return out


def _names(ts):
    vs = sorted({v for t in ts for v in tvars(t) if isinstance(v, int)})
    return "[" + ",".join("'_G%d'=_G%d" % (v, v) for v in vs) + "]"


def _bad(r):
    if r == ("atom", "ok"):
        return None
    if r[0] == "cmp" and r[1] == "bad":
        return (text(codes_of(r[2][0]) or []), text(codes_of(r[2][1]) or []))
    return ("?", str(r))


def rt_test(ctx, cases, opts, tag, groups, mode="plain"):
    """cases: list of (term, group index); groups: list of consult texts.  Each term is written with `opts`, the text read back and
    compared (variant).  Returns a list: None (ok) | (written, read_back) | ('?', problem)."""
    B, PER_JOB = 40, 400
    by_group = {}
    for i, (t, g) in enumerate(cases):
        by_group.setdefault(g, []).append(i)
    jobs, layout = [], {}
    for g, idxs in by_group.items():
        for j in range(0, len(idxs), PER_JOB):
            chunk = idxs[j:j + PER_JOB]
            qs, lay = [], []
            for i in range(0, len(chunk), B):
                sub = chunk[i:i + B]
                ts = [cases[x][0] for x in sub]
                qs.append("c55_rts([%s], %s, %s, %s, Rs)." % (",".join(pl_text(t) for t in ts), opts, _names(ts), mode))
                lay.append(sub)
            jid = "%s_%d_%d" % (tag, g, j)
            jobs.append({"id": jid, "consult": groups[g], "queries": qs, "timeout_ms": 60000, "fresh": ":- op(" in groups[g] or len(groups) > 1})
            layout[jid] = lay
    out = core.vrun_query(ctx.prop, jobs, tag=tag, nproc=(2 if len(cases) < 400 else None))
    result = [None] * len(cases)
    redo = []
    for jid, lay in layout.items():
        rec = out.get(jid)
        for qi, sub in enumerate(lay):
            rs = first_binding(rec, qi, "Rs")
            items = terms.list_view(rs)[0] if rs is not None else None
            if items is None or len(items) != len(sub):
                redo += sub
                continue
            for x, r in zip(sub, items):
                result[x] = _bad(r)
    if redo:
        jobs = [{"id": "%sx%d" % (tag, i), "consult": groups[cases[i][1]],
                 "queries": ["c55_rt(%s, %s, %s, %s, R)." % (pl_text(cases[i][0]), opts, _names([cases[i][0]]), mode)],
                 "timeout_ms": 20000, "fresh": True} for i in redo]
        out2 = core.vrun_query(ctx.prop, jobs, tag=tag + "x")
        for i in redo:
            rec = out2.get("%sx%d" % (tag, i))
            r = first_binding(rec, 0, "R")
            result[i] = ("?", "no answer: " + rec_problem(rec, 0)) if r is None else _bad(r)
    return result


def proper_subterms(t):
    if t[0] == "cmp":
        for x in t[2]:
            yield x
            yield from proper_subterms(x)


def replace_at(t, path, new):
    if not path:
        return new
    args = list(t[2])
    args[path[0]] = replace_at(args[path[0]], path[1:], new)
    return ("cmp", t[1], args)


def get_at(t, path):
    for i in path:
        t = t[2][i]
    return t


SPECIAL_NAMES = {"-", "+", ",", "|", ".", "{}", "[]", "$VAR"}


def abstract_shape(t, ops, depth=0):
    """stable abstract shape for failure keys: operators by fixity (P prefix, I infix, S postfix; - + , | kept by name), leaves by class"""
    k = t[0]
    if k == "atom":
        n = t[1]
        if n in SPECIAL_NAMES: return "'%s'" % n
        if n in ops: return "o"
        if n == "a": return "a"
        if n.isalnum() and n[0].islower() and n.isascii(): return "w"
        return "q"
    if k == "int":
        return ("n" if t[1] >= 0 else "neg") if abs(t[1]) < 2 ** 55 else ("big" if t[1] >= 0 else "negbig")
    if k == "flt":
        return "f" if not (t[1] >> 63) else "negf"
    if k == "var": return "V"
    if k == "rat": return "r"
    if k == "str": return "s"
    if depth > 4: return "..."
    n, ar = t[1], len(t[2])
    cls = None
    if n in SPECIAL_NAMES:
        cls = "'%s'" % n
    else:
        for (p, s) in ops.get(n, []):
            if ar == 1 and s in ("fy", "fx"): cls = "P"
            elif ar == 1 and s in ("xf", "yf") and cls is None: cls = "S"
            elif ar == 2 and s in ("xfx", "xfy", "yfx"): cls = "I"
        if cls is None:
            cls = "c"
    return "%s(%s)" % (cls, ",".join(abstract_shape(x, ops, depth + 1) for x in t[2]))


def classify_failures(ctx, res, failing, opts, label, tag, groups, group_ops, mode="plain", key_prefix="roundtrip", max_report=30):
    """failing: list of (term, group, (written, back)).  Shrinks to minimal failing subterms, generalises while the failure persists
    (subterms -> a, operator atoms -> *, the special functors - + , -> a generic operator), derives keys, reports."""
    failing = failing[:40]
    if not failing:
        return
    cands, owner = [], []
    for fi, (t, g, _) in enumerate(failing):
        seen = set()
        for s in proper_subterms(t):
            if s[0] == "cmp":
                k = pl_text(s)
                if k not in seen:
                    seen.add(k); cands.append((s, g)); owner.append(fi)
    minimal = {}
    best = {}
    if cands:
        r = rt_test(ctx, cands, opts, tag + "s", groups, mode)
        for (s, g), fi, x in zip(cands, owner, r):
            if x is not None and x[0] != "?":
                if fi not in best or tsize(s) < tsize(best[fi][0]):
                    best[fi] = (s, g, x)
    for fi, f in enumerate(failing):
        m = best.get(fi, f)
        minimal.setdefault((pl_text(m[0]), m[1]), m)
    cur = list(minimal.values())[:25]
    A, STAR = ("atom", "a"), ("atom", "*")

    def all_paths(t, path=()):
        if path:
            yield path
        if t[0] == "cmp":
            for i, x in enumerate(t[2]):
                yield from all_paths(x, path + (i,))

    def mutations(t, ops):
        out = []
        for pth in all_paths(t):
            sub = get_at(t, pth)
            if sub != A and not (sub[0] == "atom" and sub[1] in ops and sub != STAR):
                out.append(replace_at(t, pth, A))
        for pth in all_paths(t):
            sub = get_at(t, pth)
            if sub[0] == "atom" and sub != STAR and sub != A and (sub[1] in ops or sub[1] in SPECIAL_NAMES):
                out.append(replace_at(t, pth, STAR))
                out.append(replace_at(t, pth, A))
        for pth in [()] + list(all_paths(t)):
            sub = get_at(t, pth)
            if sub[0] == "cmp" and sub[1] in ("-", "+", ","):
                if len(sub[2]) == 2:
                    out.append(replace_at(t, pth, ("cmp", "*", sub[2])))
                elif len(sub[2]) == 1:
                    out.append(replace_at(t, pth, ("cmp", "\\", sub[2])))
        return out

    for _round in range(9):
        trial, idx = [], []
        for i, (t, g, x) in enumerate(cur):
            for m in mutations(t, group_ops[g])[:24]:
                trial.append((m, g)); idx.append(i)
        if not trial:
            break
        r = rt_test(ctx, trial, opts, tag + "g", groups, mode)
        changed = set()
        for (t2, g), i, x in zip(trial, idx, r):
            if i not in changed and x is not None and x[0] != "?":
                cur[i] = (t2, g, x); changed.add(i)
        if not changed:
            break
        uniq = {}
        for c in cur:
            uniq.setdefault((pl_text(c[0]), c[1]), c)
        cur = list(uniq.values())
    seen = set()
    for t, g, x in sorted(cur, key=lambda c: tsize(c[0])):
        k = "%s:%s:%s" % (key_prefix, label, abstract_shape(t, group_ops[g]))
        if k in seen:
            continue
        seen.add(k)
        if len(seen) > max_report:
            break
        extra = [l for l in groups[g].split("\n") if l.startswith(":- op(")]
        res["failures"].append({"key": k, "what": "the text written for a term does not read back as (a variant of) the term",
                                "input": "%sT = %s, write_term_to_chars(T, %s, Cs), append(Cs, \" .\", Cs1), read_term_from_chars(Cs1, T2, [])"
                                         % (" ".join(extra) + " " if extra else "", pl_text(t), opts),
                                "impl": {"written_text": x[0], "read_back_as": x[1]}, "spec": "T2 is a variant of T", "property_fails": True})


def roundtrip_cases(ctx, res, cases, opts, label, tag, groups, group_ops, mode="plain"):
    global CURRENT_OPS
    allops = {}
    for o in group_ops:
        allops.update(o)
    CURRENT_OPS = allops
    r = rt_test(ctx, cases, opts, tag, groups, mode)
    failing = []
    n = 0
    for (t, g), x in zip(cases, r):
        if x is not None and x[0] == "?":
            res["tie_breaks"].append({"kind": "harness", "what": "round-trip query gave no result",
                                      "detail": {"term": pl_text(t), "opts": opts, "result": x[1][:300]}})
            continue
        n += 1
        if x is not None:
            failing.append((t, g, x))
    if failing:
        classify_failures(ctx, res, failing, opts, label, tag, groups, group_ops, mode)
    res["evaluations"] += n
    return n, len(failing), r


def op_term_pool(rng, n, prefix, infix, operands, postfix=()):
    """terms of depth <= 2 in operator positions: every adjacency of operator and operand kinds"""
    out = []
    for p in prefix:
        for o in operands:
            out.append(("cmp", p, [o]))
    for i in infix:
        for o in operands:
            for o2 in rng.sample(operands, min(5, len(operands))):
                out.append(("cmp", i, [o, o2]))
    for _ in range(n):
        r = rng.random()
        o1, o2, o3 = (rng.choice(operands) for _ in range(3))
        p1, p2 = rng.choice(prefix), rng.choice(prefix)
        i1, i2 = rng.choice(infix), rng.choice(infix)
        if postfix and rng.random() < 0.2:
            s1 = rng.choice(postfix)
            c = rng.random()
            if c < 0.3: out.append(("cmp", s1, [("cmp", p1, [o1])]))
            elif c < 0.5: out.append(("cmp", p1, [("cmp", s1, [o1])]))
            elif c < 0.75: out.append(("cmp", i1, [("cmp", s1, [o1]), o2]))
            else: out.append(("cmp", i1, [o1, ("cmp", s1, [o2])]))
            continue
        if r < 0.15: out.append(("cmp", p1, [("cmp", p2, [o1])]))
        elif r < 0.35: out.append(("cmp", i1, [("cmp", p1, [o1]), o2]))
        elif r < 0.55: out.append(("cmp", i1, [o1, ("cmp", p1, [o2])]))
        elif r < 0.7: out.append(("cmp", p1, [("cmp", i1, [o1, o2])]))
        elif r < 0.85: out.append(("cmp", i1, [("cmp", i2, [o1, o2]), o3]))
        else: out.append(("cmp", i1, [o1, ("cmp", i2, [o2, o3])]))
    return out


def dedupe_terms(tl):
    seen, out = set(), []
    for t in tl:
        k = pl_text(t)
        if k not in seen:
            seen.add(k); out.append(t)
    return out


OPERAND_TEXTS = ["a", "1", "-1", "1.0", "-1.0", "'A b'", "[]", "{}", "\"s\"", "f(x)", "-", "+", ":-", "is", "'/*'", "'.'", "''", "'\\n'",
                 "','", "'|'", "[a]", "{a}", "é", "'B'", "\\", "0", "-(1)", "-a", "a-b", "(a,b)", "(a:-b)", "-(-(1))", "1.0e10", "dynamic",
                 "12345678901234567890123", "-12345678901234567890123", "'$VAR'(1)", "mod", "*", "=", "e", "'E'", "'0'", "x1", "\\+", "1 rdiv 2"]


def run_spacing(ctx, res):
    global CURRENT_OPS
    rng = ctx.rng
    ops = default_ops()
    CURRENT_OPS = ops
    prefix = ["-", "+", "\\", "\\+", ":-", "?-"]
    infix = ["+", "-", "*", "=", ":", ",", "=..", "-->", "is", "mod", "**", "^", "->", ";", "|", ":-", "rdiv", "<", "//", "/"]
    fixed = [t for t in parse_texts(ctx, SPACING_FIXED, "spfixed") if t is not None]
    operands = [t for t in parse_texts(ctx, OPERAND_TEXTS, "spoperands") if t is not None]
    ground = lambda t: not tvars(t)
    cases = [t for t in fixed if ground(t)] + op_term_pool(rng, ctx.scale(3000, 60000), prefix, infix, [o for o in operands if ground(o)])
    cases = [(t, 0) for t in dedupe_terms(cases)]
    n, nf, _ = roundtrip_cases(ctx, res, cases, "[quoted(true)]", "writeq", "sp", [RT_PROG], [ops])
    res["nontrivial"] += n
    res["distribution"]["spacing_roundtrip"] = {"terms": n, "fixed": len(fixed), "operands": len(operands), "failing_before_shrinking": nf}


def eval_deferred(ctx, res, gens, imports, tag="cases"):
    """each generator yields its list of Coq booleans and is resumed with (bad indices, shard errors): one sharded coqc run for all"""
    parts, allb = [], []
    for g in gens:
        b = next(g)
        parts.append((g, len(allb), len(b)))
        allb += b
    chunk = max(150, -(-len(allb) // max(1, core.NPROC)))
    bad, errs = core.coq_eval_bools(ctx.prop, imports, allb, chunk=min(chunk, 1200), tag=tag) if allb else ([], [])
    for k, (g, off, n) in enumerate(parts):
        try:
            g.send(([i - off for i in bad if off <= i < off + n], errs if k == 0 else []))
        except StopIteration:
            pass


def run(ctx):
    res = {"evaluations": 0, "nontrivial": 0, "failures": [], "tie_breaks": [], "samples": [], "distribution": {}}
    eval_deferred(ctx, res, [run_classes(ctx, res), run_atoms(ctx, res), run_wchars(ctx, res), run_canonical(ctx, res)], IMPORTS)
    run_spacing(ctx, res)
    return {
        "evaluations": res["evaluations"], "distinct_nontrivial": res["nontrivial"],
        "rule": ("(1) every modelled code point (ASCII + 16 non-ASCII) x 19 char_type classes against Gen/CharClass.v; (2) every atom of length <= 2 "
                 "over a 43-character alphabet covering each class, every atom of length 3 over 12 characters, random atoms of length 3..12 over the "
                 "modelled alphabet and a fixed list: writeq/2 (file), write_term quoted(true), format ~q, write, and the read-back of the quoted "
                 "text, all compared in Coq with atom_text; non-trivial = distinct atom that is not a plain ASCII alphanumeric word; (3) write/1 of "
                 "lists of one-character atoms (as list and as string); (4) generated terms <= 12 nodes over tricky atoms: write_canonical/2 and "
                 "write_term(ignore_ops,quoted) against write_canonical_ref (non-trivial = compound); (5) operator-notation terms: writeq text read "
                 "back == term"),
        "samples": res["samples"], "distribution": res["distribution"], "failures": res["failures"], "tie_breaks": res["tie_breaks"],
    }
