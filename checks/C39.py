"""C39 -- DCG translation preserves grammar semantics."""
import itertools, json
from vlib import core, terms

META = {
    "level": "proof",
    "text": ("Coq theorem translate_correct_partial: the goal-language program produced by the mirror of dcgs.pl's translation "
             "(threading of the two list arguments, a fresh variable per concatenation, S0=[t..|S] for terminals and strings, (G,S0=S) for {}, "
             "call(P,S0,S), pushback clause (Body, S=PB++S1)) has, for every grammar, input and fuel, exactly the ordered remainders of the "
             "denotational recogniser `denote`, which is itself proved to enumerate exactly the derivations of the grammar (denote_exact); "
             "steadfastness (phrase/2 = filtered phrase/3), mode safety, fuel monotonicity, string/list and pushback theorems. "
             "The mirror is tied to dcgs.pl by (a) comparing expand_term's clause with `translate_rule` as variants inside Coq and (b) comparing "
             "phrase/3 and phrase/2 answers of consulted grammars with the model on all inputs over {x,y,z} up to length 4 and longer ones. "
             "Grammars with non-terminal arguments, !, if-then-else, \\+, call//N with arguments and variable terminals are covered by "
             "differential testing only: the implementation's expansion against explicit reference clauses written by the generator "
             "following the DCG draft (7.14)."),
    "note": ("PARTIAL: the theorem covers argument-free grammars without !, ->, \\+ (translate_correct_partial); control constructs and arguments "
             "are differential only, and there both sides run on the same engine (only the translation differs). "
             "\\+ and if-then without else are rejected by this dcgs.pl with representation_error(dcg_body) (their existence is "
             "implementation defined in the draft): the check accepts either that error or draft semantics. "
             "Trusted: Coq kernel + vm_compute; the Python generator incl. its draft translation for the reference clauses and its "
             "termination analysis; the JSON->goal parser for expansions; harness vrun. Undefined non-terminals and {!} are not generated."),
    "technique": "Coq proof (translate_correct_partial, denote_exact, translation_steadfast, pushback_semantics) over an impl-mirror of dcgs.pl's translation + differential correspondence evaluated in Coq",
    "design_ref": "DESIGN.md section 8, C39",
    "coq_targets": ["C39/Props.vo"],
    "coq_dirs": ["C39"],
    "props": "C39/Props.v",
    "trusted_base": ["Coq 8.16.1 kernel, vm_compute (no native_compute)", "checks/C39.py generator, reference translation (DCG draft 7.14) and termination analysis",
                     "harness/vrun + tools/vlib (correspondence)"],
    "assumptions": ["grammars are within the generated space (<= 5 rules over 4 non-terminals, bodies of nesting <= 3, terminating by construction)",
                    "non-terminal arguments and control constructs are compared against reference clauses executed by the same engine"],
}

IMPORTS = "From V Require Import C39.Model."
FUEL = 60
TOK = {"x": 0, "y": 1, "z": 2, "q": 3}
NTS = ["s", "a", "b", "c"]


def inputs(rng, extra):
    ls = []
    for n in range(5):
        ls += [list(p) for p in itertools.product("xyz", repeat=n)]
    for _ in range(extra):
        n = rng.choice([5, 5, 6, 6, 7])
        ls.append([rng.choice("xyzxyzq") for _ in range(n)])
    return ls


# ====================================================================== grammar generator
class Gen:
    """Bodies are tuples:
       ("empty",) ("term", items, style) ("nt", name, arg) ("seq", a, b) ("alt", a, b, op) ("brace", goal_text, coq_bool|None)
       ("prim", kind, tok) ("cut",) ("ite", c, t, e) ("naf", b) ("ifthen", c, t) ("callp", name, args)
       items: ("tok", c) | ("var", V);  arg: None | text."""

    def __init__(self, rng, pfx, full):
        self.rng, self.pfx, self.full = rng, pfx, full
        self.flags = set()
        self.optional = full and rng.random() < 0.07      # \\+ and if-then (existence implementation defined; this dcgs.pl rejects them)

    # ---- minimal net consumption
    def mc(self, b):
        k = b[0]
        if k == "term": return len(b[1])
        if k == "seq": return self.mc(b[1]) + self.mc(b[2])
        if k == "alt": return min(self.mc(b[1]), self.mc(b[2]))
        if k == "ite": return min(self.mc(b[1]) + self.mc(b[2]), self.mc(b[3]))
        if k == "ifthen": return self.mc(b[1]) + self.mc(b[2])
        if k == "prim": return 1 if b[1] == "any" else 0
        return 0

    def terminals(self, vars_):
        rng = self.rng
        n = rng.choice([0, 1, 1, 1, 2, 2, 3])
        items = []
        for _ in range(n):
            if self.full and vars_ and rng.random() < 0.25:
                items.append(("var", rng.choice(vars_)))
            else:
                items.append(("tok", rng.choice("xyz")))
        style = "str" if n > 0 and all(i[0] == "tok" for i in items) and rng.random() < 0.4 else "list"
        if style == "str": self.flags.add("string")
        if any(i[0] == "var" for i in items): self.flags.add("var-terminal")
        return ("term", items, style)

    def arg(self, vars_):
        rng = self.rng
        r = rng.random()
        if r < 0.6: return rng.choice(vars_)
        if r < 0.75: return rng.choice(["k1", "k2", "x", "y"])
        if r < 0.85: return "0"
        return "f(%s)" % rng.choice(vars_)

    def brace(self, vars_):
        rng = self.rng
        if not self.full:
            t = rng.random() < 0.75
            return ("brace", "true" if t else "fail", t)
        v, w = rng.choice(vars_), rng.choice(vars_)
        g = rng.choice(["%s = k1" % v, "%s = x" % v, "%s = f(%s)" % (v, w), "%s == x" % v, "%s \\== y" % v, "%s = 0" % v,
                        "catch(%s is %s + 1, _, fail)" % (v, w), "%s is %s + 1" % (v, w) if rng.random() < 0.6 else "integer(%s)" % w,
                        "atom(%s)" % v, "var(%s)" % v, "nonvar(%s)" % v, "true", "fail", "%s = %s" % (v, w), "%s \\= %s" % (v, w)])
        self.flags.add("brace")
        return ("brace", g, None)

    def body(self, depth, pre, rank, defined, vars_, in_cond=False):
        """pre = tokens certainly consumed (net) since the rule was entered."""
        rng = self.rng
        choices = ["term"] * 5 + ["nt"] * 4 + ["brace", "prim", "empty"]
        if depth > 0:
            choices += ["seq"] * 7 + ["alt"] * 3
        if self.full:
            choices += ["callp"]
            if not in_cond: choices += ["cut"]
            if depth > 0: choices += ["ite", "ite"] + (["naf", "ifthen"] if self.optional else [])
        k = rng.choice(choices)
        if k == "term": return self.terminals(vars_)
        if k == "empty": return ("empty",)
        if k == "brace": return self.brace(vars_)
        if k == "cut":
            self.flags.add("cut")
            return ("cut",)
        if k == "prim":
            kind = rng.choice(["any", "peek", "eos"])
            self.flags.add("call//N")
            return ("prim", kind, rng.choice("xyz"))
        if k == "callp":
            self.flags.add("call//N")
            kind = rng.choice(["peekv", "anyv"])
            return ("callp", kind, [rng.choice(vars_)])
        if k == "nt":
            cand = [n for n in defined if pre >= 1 or NTS.index(n) > rank]
            if not cand: return self.terminals(vars_)
            n = rng.choice(cand)
            return ("nt", n, self.arg(vars_) if self.full else None)
        if k == "seq":
            a = self.body(depth - 1, pre, rank, defined, vars_, in_cond)
            b = self.body(depth - 1, pre + self.mc(a), rank, defined, vars_, in_cond)
            return ("seq", a, b)
        if k == "alt":
            a = self.body(depth - 1, pre, rank, defined, vars_, in_cond)
            b = self.body(depth - 1, pre, rank, defined, vars_, in_cond)
            op = rng.choice([";", "|"])
            self.flags.add("alt" + op)
            return ("alt", a, b, op)
        if k == "ite":
            c = self.body(depth - 1, pre, rank, defined, vars_, True)
            t = self.body(depth - 1, pre + self.mc(c), rank, defined, vars_, in_cond)
            e = self.body(depth - 1, pre, rank, defined, vars_, in_cond)
            self.flags.add("if-then-else")
            return ("ite", c, t, e)
        if k == "ifthen":
            c = self.body(depth - 1, pre, rank, defined, vars_, True)
            t = self.body(depth - 1, pre + self.mc(c), rank, defined, vars_, in_cond)
            self.flags.add("if-then")
            return ("ifthen", c, t)
        if k == "naf":
            self.flags.add("\\+")
            return ("naf", self.body(depth - 1, pre, rank, defined, vars_, True))
        raise AssertionError(k)

    def grammar(self):
        rng = self.rng
        nrules = rng.choice([2, 3, 3, 4, 4, 5, 5])
        heads = ["s"] + [rng.choice(NTS) for _ in range(nrules - 1)]
        heads.sort(key=NTS.index)
        defined = sorted(set(heads), key=NTS.index)
        rules = []
        for h in heads:
            vars_ = ["A", "B", "C"]
            harg = None
            if self.full:
                harg = rng.choice(["A", "A", "A", "A", "k1", "0", "f(A)", "x"])
            b = self.body(rng.choice([1, 2, 2, 3]), 0, NTS.index(h), defined, vars_)
            pb = None
            if rng.random() < 0.2:
                n = rng.choice([1, 1, 2])
                pbi = [("var", rng.choice(vars_)) if self.full and rng.random() < 0.3 else ("tok", rng.choice("xyz")) for _ in range(n)]
                pb = ("term", pbi, "str" if all(i[0] == "tok" for i in pbi) and rng.random() < 0.3 else "list")
                if self.mc(b) < n:
                    b = ("seq", ("term", [("tok", rng.choice("xyz")) for _ in range(n)], "list"), b)
                self.flags.add("pushback")
            rules.append((h, harg, pb, b))
        return rules, defined


# ---------------------------------------------------------------------- text of DCG rules
def term_text(t):
    items, style = t[1], t[2]
    if style == "str":
        return '"%s"' % "".join(i[1] for i in items)
    return "[%s]" % ",".join(i[1] for i in items)


def body_text(b, pfx):
    k = b[0]
    if k == "empty": return "[]"
    if k == "term": return term_text(b)
    if k == "nt": return "%s%s" % (pfx, b[1]) + ("(%s)" % b[2] if b[2] is not None else "")
    if k == "seq": return "( %s , %s )" % (body_text(b[1], pfx), body_text(b[2], pfx))
    if k == "alt": return "( %s %s %s )" % (body_text(b[1], pfx), b[3], body_text(b[2], pfx))
    if k == "brace": return "{ %s }" % b[1]
    if k == "prim":
        return {"any": "call(%sany)" % pfx, "peek": "call(%speek, %s)" % (pfx, b[2]), "eos": "call(%seos)" % pfx}[b[1]]
    if k == "callp":
        return "call(%s%s, %s)" % (pfx, {"peekv": "peek", "anyv": "tok"}[b[1]], ",".join(b[2]))
    if k == "cut": return "!"
    if k == "ite": return "( %s -> %s ; %s )" % (body_text(b[1], pfx), body_text(b[2], pfx), body_text(b[3], pfx))
    if k == "ifthen": return "( %s -> %s )" % (body_text(b[1], pfx), body_text(b[2], pfx))
    if k == "naf": return "\\+ %s" % body_text(b[1], pfx)
    raise AssertionError(k)


def rule_text(r, pfx):
    h, harg, pb, b = r
    head = pfx + h + ("(%s)" % harg if harg is not None else "")
    if pb is not None:
        head += ", " + term_text(pb)
    return "%s --> %s." % (head, body_text(b, pfx))


def helpers(pfx):
    return ("%sany([_|S], S).\n%speek(T, [T|S], [T|S]).\n%seos([], []).\n%stok(T, [T|S], S).\n" % (pfx, pfx, pfx, pfx))


# ---------------------------------------------------------------------- reference clauses (DCG draft 7.14)
class Ref:
    def __init__(self, pfx):
        self.pfx, self.n = pfx, 0

    def fresh(self):
        self.n += 1
        return "S%d" % self.n

    def plist(self, items, tail):
        if not items: return tail
        return "[%s|%s]" % (",".join(i[1] for i in items), tail)

    def tr(self, b, s0, s):
        k, pfx = b[0], self.pfx
        if k == "empty": return "%s = %s" % (s0, s)
        if k == "term": return "%s = %s" % (s0, self.plist(b[1], s))
        if k == "nt":
            return "%sr_%s(%s)" % (pfx, b[1], ", ".join(([b[2]] if b[2] is not None else []) + [s0, s]))
        if k == "seq":
            m = self.fresh()
            return "( %s , %s )" % (self.tr(b[1], s0, m), self.tr(b[2], m, s))
        if k == "alt": return "( %s ; %s )" % (self.tr(b[1], s0, s), self.tr(b[2], s0, s))
        if k == "brace": return "( call(( %s )) , %s = %s )" % (b[1], s0, s)
        if k == "prim":
            return {"any": "call(%sany, %s, %s)", "peek": "call(%speek, " + b[2] + ", %s, %s)", "eos": "call(%seos, %s, %s)"}[b[1]] % (pfx, s0, s)
        if k == "callp":
            return "call(%s%s, %s, %s, %s)" % (pfx, {"peekv": "peek", "anyv": "tok"}[b[1]], ",".join(b[2]), s0, s)
        if k == "cut": return "( ! , %s = %s )" % (s0, s)
        if k == "ite":
            m = self.fresh()
            return "( %s -> %s ; %s )" % (self.tr(b[1], s0, m), self.tr(b[2], m, s), self.tr(b[3], s0, s))
        if k == "ifthen":
            m = self.fresh()
            return "( %s -> %s )" % (self.tr(b[1], s0, m), self.tr(b[2], m, s))
        if k == "naf":
            return "( \\+ %s , %s = %s )" % (self.tr(b[1], s0, "_"), s0, s)
        raise AssertionError(k)

    def clause(self, r):
        h, harg, pb, b = r
        self.n = 0
        head = "%sr_%s(%s)" % (self.pfx, h, ", ".join(([harg] if harg is not None else []) + ["S0", "S"]))
        if pb is None:
            return "%s :- %s." % (head, self.tr(b, "S0", "S"))
        m = self.fresh()
        return "%s :- %s , S = %s." % (head, self.tr(b, "S0", m), self.plist(pb[1], m))


def has(b, kinds):
    if b[0] in kinds: return True
    k = b[0]
    if k in ("seq", "alt", "ifthen"): return has(b[1], kinds) or has(b[2], kinds)
    if k == "ite": return has(b[1], kinds) or has(b[2], kinds) or has(b[3], kinds)
    if k == "naf": return has(b[1], kinds)
    return False


# ---------------------------------------------------------------------- Coq side (part A)
def coq_body(b):
    k = b[0]
    if k == "empty": return "Empty"
    if k == "term":
        l = "[%s]" % ";".join(str(TOK[i[1]]) for i in b[1])
        return "(%s %s)" % ("Str" if b[2] == "str" else "Terminals", l)
    if k == "nt": return "(NonTerm %d)" % NTS.index(b[1])
    if k == "seq": return "(Seq %s %s)" % (coq_body(b[1]), coq_body(b[2]))
    if k == "alt": return "(%s %s %s)" % ("Alt" if b[3] == ";" else "AltBar", coq_body(b[1]), coq_body(b[2]))
    if k == "brace": return "(Brace %s)" % ("true" if b[2] else "false")
    if k == "prim": return "(CallP %s)" % {"any": "PAny", "peek": "(PPeek %d)" % TOK[b[2]], "eos": "PEos"}[b[1]]
    raise AssertionError(k)


def coq_rule(r):
    h, harg, pb, b = r
    pbs = "None" if pb is None else "(Some [%s])" % ";".join(str(TOK[i[1]]) for i in pb[1])
    return "(%d, %s, %s)" % (NTS.index(h), pbs, coq_body(b))


def coq_toks(l):
    return "[%s]" % ";".join(str(TOK.get(t, 9)) for t in l)


class ShapeError(Exception):
    pass


def parse_clause(j, pfx):
    """JSON term of the expanded clause -> (nt index, head var a, head var b, Coq goal text)."""
    vm = {}

    def var(t):
        if "v" not in t: raise ShapeError("variable expected: %s" % json.dumps(t))
        return vm.setdefault(t["v"], len(vm) + 10)

    def tok(t):
        if "a" in t and t["a"] in TOK: return TOK[t["a"]]
        raise ShapeError("token expected: %s" % json.dumps(t))

    def goal(t):
        if "a" in t and t["a"] in ("true", "fail"): return "(GTest %s)" % ("true" if t["a"] == "true" else "false")
        if "c" not in t: raise ShapeError("goal expected: %s" % json.dumps(t))
        f, args = t["c"][0], t["c"][1:]
        if f == "," and len(args) == 2: return "(GAnd %s %s)" % (goal(args[0]), goal(args[1]))
        if f == ";" and len(args) == 2: return "(GOr %s %s)" % (goal(args[0]), goal(args[1]))
        if f == "=" and len(args) == 2:
            a = var(args[0])
            pre, u = [], args[1]
            while "c" in u and u["c"][0] == "." and len(u["c"]) == 3:
                pre.append(tok(u["c"][1])); u = u["c"][2]
            return "(GUnif %d [%s] %d)" % (a, ";".join(map(str, pre)), var(u))
        if f == "call" and "a" in args[0] and args[0]["a"].startswith(pfx):
            p = args[0]["a"][len(pfx):]
            if p == "any" and len(args) == 3: return "(GPrim PAny %d %d)" % (var(args[1]), var(args[2]))
            if p == "eos" and len(args) == 3: return "(GPrim PEos %d %d)" % (var(args[1]), var(args[2]))
            if p == "peek" and len(args) == 4: return "(GPrim (PPeek %d) %d %d)" % (tok(args[1]), var(args[2]), var(args[3]))
        if f.startswith(pfx) and f[len(pfx):] in NTS and len(args) == 2:
            return "(GCall %d %d %d)" % (NTS.index(f[len(pfx):]), var(args[0]), var(args[1]))
        raise ShapeError("unexpected goal: %s" % json.dumps(t))

    if "c" not in j or j["c"][0] != ":-" or len(j["c"]) != 3: raise ShapeError("not a clause: %s" % json.dumps(j))
    h = j["c"][1]
    if "c" not in h or not h["c"][0].startswith(pfx) or len(h["c"]) != 3: raise ShapeError("head: %s" % json.dumps(h))
    nt = NTS.index(h["c"][0][len(pfx):])
    ha, hb = var(h["c"][1]), var(h["c"][2])
    return nt, ha, hb, goal(j["c"][2])


def plist(l):
    return "[%s]" % ",".join(l)


# ====================================================================== run
def run(ctx):
    rng = ctx.rng
    nA = ctx.scale(160, 480)
    nB = ctx.scale(420, 1260)
    ins = inputs(rng, ctx.scale(12, 20))
    ins_text = plist(plist(l) for l in ins)
    failures, tie_breaks = [], []
    dist = {"partA_grammars": nA, "partB_grammars": nB, "inputs_per_grammar": len(ins)}
    jobs, meta = [], {}

    # ---------------- part A: control-free, argument-free  (vs Coq model)
    for i in range(nA):
        pfx = "ga%d_" % i
        g = Gen(rng, pfx, False)
        rules, defined = g.grammar()
        start = rng.choice(defined) if rng.random() < 0.3 else "s"
        text = ":- use_module(library(dcgs)).\n:- use_module(library(lists)).\n" + helpers(pfx) + "".join(rule_text(r, pfx) + "\n" for r in rules)
        # compiled wrapper (goal expansion of phrase/2,3 at consult time) and direct toplevel calls
        text += ("%srun(L, Rs, N) :- findall(R, phrase(%s%s, L, R), Rs), findall(t, phrase(%s%s, L), Ts), length(Ts, N).\n" % (pfx, pfx, start, pfx, start))
        wrapper = rng.random() < 0.5
        if wrapper:
            q = "findall(r(L,Rs,N), (member(L, %s), %srun(L, Rs, N)), All)." % (ins_text, pfx)
        else:
            q = ("findall(r(L,Rs,N), (member(L, %s), findall(R, phrase(%s%s, L, R), Rs), findall(t, phrase(%s%s, L), Ts), length(Ts, N)), All)."
                 % (ins_text, pfx, start, pfx, start))
        qs = [q] + ["expand_term((%s), C)." % rule_text(r, pfx)[:-1] for r in rules]
        jid = "A%d" % i
        jobs.append({"id": jid, "consult": text, "queries": qs, "max_answers": 3, "timeout_ms": 8000})
        meta[jid] = ("A", pfx, rules, start, text, g.flags, q)

    # ---------------- part B: arguments + control constructs  (vs reference clauses)
    for i in range(nB):
        pfx = "gb%d_" % i
        g = Gen(rng, pfx, True)
        rules, defined = g.grammar()
        start = rng.choice(defined) if rng.random() < 0.3 else "s"
        ref = Ref(pfx)
        text = ":- use_module(library(dcgs)).\n:- use_module(library(lists)).\n" + helpers(pfx)
        text += "".join(rule_text(r, pfx) + "\n" for r in rules) + "".join(ref.clause(r) + "\n" for r in rules)
        q1 = ("findall(r(L,O3,O2), (member(L, %s), catch(findall(A-R, phrase(%s%s(A), L, R), O3), error(E3,_), O3 = err(E3)), "
              "catch(findall(A, phrase(%s%s(A), L), O2), error(E2,_), O2 = err(E2))), All)." % (ins_text, pfx, start, pfx, start))
        q2 = ("findall(r(L,O3,O2), (member(L, %s), catch(findall(A-R, %sr_%s(A, L, R), O3), error(E3,_), O3 = err(E3)), "
              "catch(findall(A, %sr_%s(A, L, []), O2), error(E2,_), O2 = err(E2))), All)." % (ins_text, pfx, start, pfx, start))
        opt = [k for k, r in enumerate(rules) if has(r[3], ("naf", "ifthen"))]
        qs = [q1, q2] + ["catch(dcgs:dcg_rule((%s), C), error(E, _), true)." % rule_text(rules[k], pfx)[:-1] for k in opt]
        jid = "B%d" % i
        jobs.append({"id": jid, "consult": text, "queries": qs, "max_answers": 3, "timeout_ms": 8000})
        meta[jid] = ("B", pfx, rules, start, text, g.flags, opt)

    obs = core.vrun_query(ctx.prop, jobs, tag="impl")

    # ---------------- evaluate part A in Coq
    exprs, info = [], []
    evaluations = 0
    nontrivial = set()
    feature_count = {}

    def first_binding(res, var):
        if not res or not isinstance(res[0], dict) or "b" not in res[0]:
            return None
        return res[0]["b"].get(var)

    def toklist(t):
        items, tail = terms.list_view(t)
        return [i[1] if i[0] == "atom" else "?" for i in items]

    for i in range(nA):
        jid = "A%d" % i
        _, pfx, rules, start, text, flags, q = meta[jid]
        rec = obs.get(jid, {})
        rs = rec.get("results")
        if not rs:
            tie_breaks.append({"kind": "harness", "what": "no result for a part-A job", "detail": json.dumps(rec)[:500]})
            continue
        allv = first_binding(rs[0], "All")
        if allv is None:
            failures.append({"key": "phrase-run-failed", "what": "phrase/3 over a terminating control-free grammar raised / did not answer",
                             "input": text + "?- " + q, "impl": json.dumps(rs[0])[:600], "spec": "a list of remainders per input", "property_fails": True})
            continue
        rows = terms.list_view(terms.from_json(allv))[0]
        cases = []
        for row in rows:
            l = toklist(row[2][0])
            o3 = [toklist(x) for x in terms.list_view(row[2][1])[0]]
            n2 = row[2][2][1]
            cases.append((l, o3, n2))
        G = "[%s]" % "; ".join(coq_rule(r) for r in rules)
        casestxt = "[%s]" % "; ".join("(%s, [%s], %d)" % (coq_toks(l), "; ".join(coq_toks(o) for o in o3), n2) for l, o3, n2 in cases)
        exprs.append("check_inputs %d %s %d %s" % (FUEL, G, NTS.index(start), casestxt))
        info.append(("inputs", jid, cases))
        # expansion variants
        cl = []
        shape_bad = None
        for k, r in enumerate(rules):
            cj = first_binding(rs[1 + k], "C")
            try:
                if cj is None: raise ShapeError("expand_term gave %s" % json.dumps(rs[1 + k])[:300])
                nt, ha, hb, gt = parse_clause(cj, pfx)
                cl.append("check_clause %s %d %d %d %s" % (coq_rule(r), nt, ha, hb, gt))
            except ShapeError as e:
                shape_bad = (k, str(e))
        if shape_bad:
            failures.append({"key": "expansion-shape", "what": "expand_term of a DCG rule is not of the shape dcgs.pl's translation produces",
                             "input": "?- expand_term((%s), C)." % rule_text(rules[shape_bad[0]], pfx)[:-1], "impl": shape_bad[1][:600],
                             "spec": "Head :- Body over =/2, ','/2, ;/2, call/N, non-terminal calls", "property_fails": False})
        else:
            exprs.append(" && ".join("(%s)" % c for c in cl))
            info.append(("clauses", jid, None))
    bad, errs = core.coq_eval_bools(ctx.prop, IMPORTS, exprs, chunk=ctx.scale(30, 60), tag="cases")
    for k, e in errs:
        tie_breaks.append({"kind": "coq-eval", "what": "model evaluation shard failed", "detail": str(e)[-1500:]})
    badset = set(bad)
    nA_ok = 0
    for idx, (kind, jid, cases) in enumerate(info):
        _, pfx, rules, start, text, flags, q = meta[jid]
        if kind == "inputs":
            evaluations += len(cases)
            if idx in badset:
                # locate the failing inputs
                G = "[%s]" % "; ".join(coq_rule(r) for r in rules)
                sub = ["check_input %d %s %d %s [%s] %d" % (FUEL, G, NTS.index(start), coq_toks(l), "; ".join(coq_toks(o) for o in o3), n2) for l, o3, n2 in cases]
                b2, _ = core.coq_eval_bools(ctx.prop, IMPORTS, sub, chunk=200, tag="locate")
                for bi in b2[:2]:
                    l, o3, n2 = cases[bi]
                    spec = core.coq_eval_show(ctx.prop, IMPORTS, "(denote %d %s %d %s, phrase2 %d %s %d %s)" % (FUEL, G, NTS.index(start), coq_toks(l), FUEL, G, NTS.index(start), coq_toks(l)))
                    failures.append({"key": "phrase-answers-differ", "what": "remainders of phrase/3 (in order) or the number of phrase/2 solutions differ from the recogniser",
                                     "input": text + "?- findall(R, phrase(%s%s, %s, R), Rs), findall(t, phrase(%s%s, %s), Ts)." % (pfx, start, plist(l), pfx, start, plist(l)),
                                     "impl": "Rs = %s, |Ts| = %d" % (o3, n2), "spec": spec[:1200] + "  (tokens x=0 y=1 z=2 q=3)", "property_fails": True})
            else:
                nA_ok += 1
                for l, o3, n2 in cases:
                    if o3:
                        nontrivial.add((jid, tuple(l)))
                for f in flags: feature_count[f] = feature_count.get(f, 0) + 1
        else:
            evaluations += len(rules)
            if idx in badset:
                failures.append({"key": "expansion-differs", "what": "expand_term's clause is not a variant of the model's translate_rule (diagnostic: the mirror no longer follows dcgs.pl)",
                                 "input": text, "impl": "see expand_term of each rule", "spec": "translate_rule", "property_fails": False})
    dist["partA_grammars_agreeing"] = nA_ok

    # ---------------- part B: compare in Python
    def norm(t):
        return terms.number_vars([t])[0]

    nB_ok = 0
    rejected = 0
    withsol = 0
    witherr = 0
    for i in range(nB):
        jid = "B%d" % i
        _, pfx, rules, start, text, flags, opt = meta[jid]
        rec = obs.get(jid, {})
        rs = rec.get("results")
        if not rs:
            tie_breaks.append({"kind": "harness", "what": "no result for a part-B job", "detail": json.dumps(rec)[:500]})
            continue
        # optional constructs: rejected with representation_error(dcg_body) or accepted
        rej = False
        odd = None
        for n, k in enumerate(opt):
            a = rs[2 + n]
            e = first_binding(a, "E")
            c = first_binding(a, "C")
            if e is not None and "c" in e and e["c"][0] == "representation_error":
                rej = True
            elif c is not None and "c" in c and c["c"][0] == ":-":
                pass
            else:
                odd = (k, a)
        if odd is not None:
            failures.append({"key": "optional-construct-expansion", "what": "\\+ / if-then in a DCG body neither rejected with representation_error(dcg_body) nor translated",
                             "input": "?- expand_term((%s), C)." % rule_text(rules[odd[0]], pfx)[:-1], "impl": json.dumps(odd[1])[:500],
                             "spec": "representation_error(dcg_body) or a clause", "property_fails": True})
            continue
        if rej:
            rejected += 1
            evaluations += 1
            continue
        a1, a2 = first_binding(rs[0], "All"), first_binding(rs[1], "All")
        if a1 is None or a2 is None:
            # both must fail in the same way (e.g. a timeout / resource error on both sides)
            if (a1 is None) != (a2 is None):
                failures.append({"key": "phrase-run-differs", "what": "phrase over DCG rules and the reference clauses: only one of the two runs completed",
                                 "input": text, "impl": json.dumps(rs[0])[:400], "spec": json.dumps(rs[1])[:400], "property_fails": True})
            else:
                dist["partB_both_incomplete"] = dist.get("partB_both_incomplete", 0) + 1
            continue
        r1 = terms.list_view(terms.from_json(a1))[0]
        r2 = terms.list_view(terms.from_json(a2))[0]
        okg = len(r1) == len(r2)
        for x, y in zip(r1, r2):
            evaluations += 1
            nx, ny = norm(x), norm(y)
            if nx != ny:
                okg = False
                l = toklist(x[2][0])
                failures.append({"key": "dcg-vs-reference-clauses", "what": "answers (Args-Rest in order, phrase/3 and phrase/2) of the DCG rules differ from the explicit reference clauses (DCG draft translation)",
                                 "input": text + "?- L = %s, findall(A-R, phrase(%s%s(A), L, R), O3), findall(A, phrase(%s%s(A), L), O2)." % (plist(l), pfx, start, pfx, start),
                                 "impl": terms.to_prolog(nx)[:600], "spec": terms.to_prolog(ny)[:600], "property_fails": True})
                break
            o3 = x[2][1]
            if o3[0] == "cmp" and o3[1] == "err":
                witherr += 1
                nontrivial.add((jid, tuple(toklist(x[2][0]))))
            elif o3 != terms.NIL:
                withsol += 1
                nontrivial.add((jid, tuple(toklist(x[2][0]))))
        if okg:
            nB_ok += 1
            for f in flags: feature_count[f] = feature_count.get(f, 0) + 1
    dist.update({"partB_grammars_agreeing": nB_ok, "partB_rejected_optional_constructs": rejected, "partB_inputs_with_solutions": withsol,
                 "partB_inputs_with_error": witherr, "features_in_agreeing_grammars": feature_count})
    # keep at most 3 failures per key
    seen, keep = {}, []
    for f in failures:
        seen[f["key"]] = seen.get(f["key"], 0) + 1
        if seen[f["key"]] <= 3: keep.append(f)
    dist["failures_by_key"] = seen
    samples = []
    for jid in ("A0", "A1", "B0", "B1"):
        if jid in meta:
            samples.append({"job": jid, "consulted": meta[jid][4], "start": meta[jid][3]})
    return {"evaluations": evaluations, "distinct_nontrivial": len(nontrivial),
            "rule": ("random grammars of 2-5 rules over non-terminals s,a,b,c (terminating by construction: a non-terminal of lower or equal rank is only "
                     "called after a certain net consumption, pushback never exceeds the body's certain consumption), terminals from {x,y,z} as lists and as "
                     "strings, {}//1, |, ;, call//N, pushback; part B adds one argument per non-terminal (variables, constants, f(V), counters via is/2), variable "
                     "terminals, !, if-then-else, \\+, if-then; every grammar is run on all 121 lists over {x,y,z} of length <= 4 plus longer random ones with "
                     "phrase/3 (open remainder) and phrase/2, half through a consulted wrapper clause (goal expansion) and half from the toplevel. Part A is "
                     "compared in Coq with denote and with the translated program (and expand_term's clauses with translate_rule as variants); part B with "
                     "reference clauses. evaluations = (grammar,input) pairs compared + expansions compared; non-trivial = distinct (grammar,input) pairs that "
                     "agree and have at least one solution or an error"),
            "samples": samples, "distribution": dist, "failures": keep, "tie_breaks": tie_breaks}
