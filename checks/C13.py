"""C13 -- compare/3 implements the standard order of terms."""
import json
from vlib import core, terms
from vlib.terms import NIL, mklist, mkstring, flt

META = {
    "level": "proof",
    "text": ("Coq theorems over the reference order tcompare (category Var < Float < Integer/Rational < Atom < Compound; floats by IEEE value "
             "with -0.0 = 0.0, integers/rationals exactly, atoms by code points, compounds by arity, name, arguments): reflexive, antisymmetric, "
             "transitive and total for ALL terms, Eq iff structurally identical (up to -0.0 = 0.0) for well-formed terms, the six operators are "
             "readings of the one order, strings order as their code-point lists. The implementation is tied to it differentially: triples of terms "
             "in every category and every heap representation (string literal / explicit list / partial string with tail / unaligned string suffix / "
             "'.'(H,T) / =.. and functor-built, small/big/computed integers, rationals, +-0.0, non-ASCII and astral atoms, shared variables) are "
             "compared by compare/3 in all orders and by ==, \\==, @<, @=<, @>, @>= (meta-call and compiled clause), and the answers are compared in Coq with tcompare. "
             "Representation level (Repr.v): rterm models the heap cells ParallelHeapIter distinguishes (Lis, PStrLoc byte segment + tail, Str, atoms, numbers, variables) "
             "with denote : rterm -> term, and rcompare mirrors compare_term_test over ParallelHeapIter::next arm by arm (order_category dispatch, the nine Lis/PStrLoc/Str arms, "
             "C20's compare_pstr_slices mirror for string/string with its TailIndex/PStrOffset continuations, last_str_char_and_tail for string/cons, Ord for Atom on UTF-8 bytes). "
             "Theorem rcompare_is_tcompare_partial: for all well-formed representations whose left operand holds no '.'/2 as a Str cell, rcompare a b = tcompare (denote a) (denote b) "
             "-- so 'strings and partial strings are ordered as the lists they denote' is a theorem about a mirror of the code; rcompare_heads_first_is_tcompare: with the Str-'.'/2 "
             "against Lis arm visiting heads first it holds for EVERY pair; rcompare_str_dot_against_lis_deviates: that arm as written (tail pair popped first) is not the standard order. "
             "The mirror is run in Coq on the representation every construction path of the differential check produces and must give the implementation's answers. "
             "A scan family guards the visited set (tabu_list) of ParallelHeapIter, which the tree-shaped mirror does not model: list pairs and string pairs must never share a key "
             "(cell index vs byte offset; repaired in /repo e6d801d, key tabu-collision:lis-cells-vs-pstr-byte-offsets)."),
    "note": ("Trusted: Coq kernel + vm_compute; tcompare is a reference model; rcompare (Repr.v) is a hand-written arm-by-arm mirror of ParallelHeapIter::next / "
             "compare_term_test over tree-shaped representation terms: addresses, sharing and cycles (the tabu list) and cells without an order category are not modelled, "
             "floats/integers/rationals/variables compare as in the reference; which representation a construction path produces is assumed (literal/suffix/atom_chars -> PStr "
             "segments with NULs as cons cells, partial_string/3 -> PStr + tail, '.'(H,T) / =.. / [..] -> Lis, other compounds -> Str), not observed on the heap. "
             "rcompare_is_tcompare_partial is PARTIAL: it excludes a left operand containing '.'/2 as a Str cell, because the code's Str-'.'/2 against Lis arm pushes the head pair "
             "before the tail pair (tails compared first; proved to deviate: rcompare_str_dot_against_lis_deviates); no path was found that builds such a cell (reader, =.., functor/3, "
             "copy_term/2, assertz/1, findall/3, clause/2 build Lis), so this is a latent defect without a failing query. The visited-set scan is purely differential and layout-driven: it was validated "
             "against a build of the tree before e6d801d (reports the key at paddings 19936..19968) and finds nothing after it. The variable order is not predicted: "
             "the order of the (at most three) variables of a query is observed by compare/3 in the same query, must be a strict total order, and the "
             "variables are numbered accordingly in the model. No axioms (all theorems closed under the global context)."),
    "technique": ("Coq proof (tcompare_refl/antisym/trans/le_trans/total, eq_iff_identical, six_operators_consistent, string_order_is_codepoint_lex) over a reference model, "
                  "refinement proof of an impl-mirror of ParallelHeapIter over heap representations to it (rcompare_is_tcompare_partial, rcompare_heads_first_is_tcompare, "
                  "compare_pstr_slices_continuations, utf8_preserves_order_with_rests, peel_char) + differential correspondence evaluated in Coq"),
    "design_ref": "DESIGN.md section 8, C13",
    "coq_targets": ["C13/Props.vo"],
    "coq_dirs": ["C13"],
    "props": "C13/Props.v",
    "trusted_base": ["Coq 8.16.1 kernel, vm_compute (no native_compute)", "harness/vrun + tools/vlib (correspondence)",
                     "Python generator and renderer of checks/C13.py (term -> Prolog text, term -> Coq term, construction path -> representation term)",
                     "C20's mirror cmp_slices of compare_pstr_slices, C18's UTF-8 decoder decode1 (imported models)"],
    "assumptions": ["the Prolog reader builds the term the text denotes (the reader is the subject of other properties)",
                    "variables are not moved between the comparisons of one query (no garbage collection inside a query)"],
}

IMPORTS = "From V Require Import Base.Term C13.Model C13.Repr."
VARS = ["A", "B", "C"]
BIGK = 1 << 100


# ------------------------------------------------------------------ term pool
def V(n): return ("var", n)
def I(n): return ("int", n)
def A(s): return ("atom", s)
def C(f, *args): return ("cmp", f, list(args))


ATOM_TEXTS = ["", "a", "b", "ab", "abc", "abd", "A", "z", "f", "g", "foo", "[]", "{}", ".", "a b", "[", "-", "+",
              "é", "ée", "éa", "eé", "日本", "日", "日本語", "日é",
              "\U0001F600", "a\U0001F600", "\U00010000", "ｚ", "￿", "\x7f", "\x80", "߿", "ࠀ", "aa", "bé", "0", "1"]
STRINGS = ["", "a", "b", "ab", "abc", "abd", "abcdefg", "abcdefgh", "abcdefghi", "abcdefghj", "abcdefgz", "abcdefghijklmnop", "abcdefghijklmnoq",
           "日本", "日é", "日本語", "é", "ée", "aé", "aê", "a\U0001F600", "a\U0001F601", "a\U0001F600b",
           "a\U00010000", "aｚ", "ab\x00c", "ab\x00d", "ab\x00", "\x00", "abé日\U0001F600x", "abé日\U0001F600y",
           "abcééé", "abcééê", "xx日日日日", "xx日日日本"]
STR_ALPHABET = ["a", "a", "b", "c", "é", "ê", "日", "本", "\U0001F600", "\U00010000", "ｚ", "\x00", "z", "\x7f", "\x80"]
FLOATS = [0.0, -0.0, 1.0, -1.0, 1.5, -1.5, 2.0, 3.0, 0.5, 0.25, 1.0e10, -1.0e10, 1.0e100, 1.0e-100, 1.0e-300, 1.7976931348623157e308,
          1180591620717411303424.0, 9007199254740992.0, 9007199254740994.0, -9007199254740992.0, 0.1, 0.3, 123456.789]
INTS = [0, 1, -1, 2, 3, -3, 7, 10, 100, (1 << 55) - 1, 1 << 55, (1 << 55) + 1, -(1 << 55), -(1 << 55) - 1, (1 << 56), (1 << 62), (1 << 63) - 1, 1 << 63,
        (1 << 63) + 1, -(1 << 63), -(1 << 63) - 1, 1 << 64, 1 << 70, (1 << 70) + 1, -(1 << 70), 10 ** 30, 10 ** 30 + 1, -(10 ** 30)]
RATS = [(1, 3), (2, 3), (-1, 3), (1, 2), (3, 2), (-3, 2), (1, 1), (7, 2), ((1 << 70), 3), ((1 << 70) + 1, 1 << 70), (1, 1 << 70), (-1, 1 << 70),
        ((1 << 63) + 1, 2), (10 ** 30 + 1, 10 ** 30), (-(10 ** 30) - 1, 10 ** 30), (1, 3 * (1 << 64)), (2, 3 * (1 << 64) + 1)]


def build_pool(rng):
    pool = {"var": [V(v) for v in VARS],
            "flt": [flt(x) for x in FLOATS],
            "num": [I(n) for n in INTS] + [("rat", n, d) for (n, d) in RATS],
            "atom": [A(s) for s in ATOM_TEXTS]}
    strings = list(STRINGS)
    for _ in range(40):
        base = [rng.choice(STR_ALPHABET) for _ in range(rng.choice([1, 2, 3, 5, 7, 8, 9, 12, 16, 20]))]
        strings.append("".join(base))
        for _ in range(2):
            m = list(base)
            k = rng.randrange(len(m))
            op = rng.random()
            if op < 0.5: m[k] = rng.choice(STR_ALPHABET)
            elif op < 0.75: m = m[:k]
            else: m = m + [rng.choice(STR_ALPHABET)]
            strings.append("".join(m))
    lists = [mkstring(s) for s in strings]
    a, b, c = A("a"), A("b"), A("c")
    lists += [mklist([a], b), mklist([a, b], c), mklist([a, b], V("A")), mklist([a, b], V("B")), mklist([a, b], I(1)), mklist([a, b], C("f", A("x"))),
              mklist([a, b], A("")), mklist([a, b], flt(1.0)), mklist([I(1), I(2)]), mklist([a, I(1)]), mklist([A("ab")]), mklist([A("ab"), c]),
              mklist([V("A")]), mklist([V("A"), V("B")]), mklist([V("B"), V("A")]), mklist([V("A")], V("A")), mklist([C("f", a)]), mklist([mklist([a])]),
              mklist([mkstring("ab"), mkstring("c")]), mklist([a, b, A("")]), mklist([a, A("bc")]), mklist([A("é"), I(0)]),
              mklist([A("日"), A("本")], V("C")), mklist([a, b, c], mkstring("")), mklist([flt(0.0)]), mklist([flt(-0.0)]),
              mklist([("rat", 1, 3)]), mklist([I(1 << 70)])]
    pool["list"] = lists
    cmps = [C("f", a), C("f", b), C("g", a), C("f", a, b), C("f", a, a), C("f", b, a), C("g", a, b), C("é", a), C("z", a), C("foo", a), C("fo", a, b),
            C("f", C("f", a)), C("f", V("A")), C("f", V("B")), C("f", V("A"), V("B")), C("f", V("B"), V("A")), C("f", V("A"), V("A")), C("-", a, b),
            C("-", I(1), a), C("-", I(1)), C(".", a), C(".", a, b, c), C("[]", a), C("{}", a), C("", a), C("f", mkstring("abc")), C("f", mkstring("abd")),
            C("f", I(1), flt(1.0)), C("f", flt(1.0), I(1)), C("f", flt(0.0)), C("f", flt(-0.0)), C("f", ("rat", 1, 3)), C("f", I(0)), C("f", I(1)),
            C("g", V("A"), a), C("f", a, b, c), C("a", a, b, c), C("zz", a), C("\U0001F600", a), C("ｚ", a), C("日本", a, b), C("f", A("")),
            C("f", NIL), C("f", mkstring("")), C(",", a, b), C("f", C("g", V("A")), V("B"))]
    pool["cmp"] = cmps
    return pool


CATS = ["var", "flt", "num", "atom", "list", "cmp"]
LEAF_CATS = ["var", "flt", "num", "atom"]


def category(t):
    if t[0] == "var": return "var"
    if t[0] == "flt": return "flt"
    if t[0] in ("int", "rat"): return "num"
    if t[0] == "atom": return "atom"
    return "list" if (t[1] == "." and len(t[2]) == 2) else "cmp"


def rand_term(rng, pool, depth=2):
    r = rng.random()
    if depth > 0 and r < 0.25:
        n = rng.choice([1, 1, 2, 2, 3])
        return ("cmp", rng.choice(["f", "g", "f", "é", ".", "foo", "-"]), [rand_term(rng, pool, depth - 1) for _ in range(n)])
    if depth > 0 and r < 0.35:
        items = [rand_term(rng, pool, depth - 1) for _ in range(rng.choice([1, 2, 3]))]
        return mklist(items, rng.choice([NIL, NIL, NIL, V(rng.choice(VARS)), A("t")]))
    return rng.choice(pool[rng.choice(CATS)])


def mutate(rng, pool, t):
    """a term that is likely in the same category as t and close to it (or t itself)"""
    r = rng.random()
    if r < 0.12:
        return t
    cat = category(t)
    if t[0] == "cmp" and r < 0.6:
        args = list(t[2])
        k = rng.randrange(len(args))
        r2 = rng.random()
        if r2 < 0.6:
            args[k] = mutate(rng, pool, args[k])
            return ("cmp", t[1], args)
        if r2 < 0.7:
            return ("cmp", rng.choice(["f", "g", "é", ".", "e", "fo"]), args)
        if r2 < 0.8:
            return ("cmp", t[1], args + [rng.choice(pool["atom"])])
        if r2 < 0.9 and len(args) > 1:
            return ("cmp", t[1], args[:-1])
        args[k] = rng.choice(pool[rng.choice(CATS)])
        return ("cmp", t[1], args)
    if r < 0.9:
        return rng.choice(pool[cat])
    return rand_term(rng, pool)


# ------------------------------------------------------------------ representation terms (coq/C13/Repr.v rterm)
# the heap representation each construction path produces: ("RVar", name) ("RInt", n) ("RRat", n, d) ("RFlt", bits) ("RAtom", text)
# ("RStr", name, [args]) ("RLis", head, tail) ("RPStr", utf-8 bytes of one NUL-free segment, tail)
class T(str):
    """Prolog text of a rendered term, carrying the representation term of what the text builds (.rt)"""
    pass


def mk(text, rt):
    t = T(text)
    t.rt = rt
    return t


R_NIL = ("RAtom", "[]")


def pstr_rt(s, tail):
    """allocate_pstr / push_pstr: NUL-free segments, each NUL as a cons cell holding the character '\\0'"""
    parts = s.split("\x00")
    rt = tail
    for i in reversed(range(len(parts))):
        if i < len(parts) - 1:
            rt = ("RLis", ("RAtom", "\x00"), rt)
        if parts[i]:
            rt = ("RPStr", parts[i].encode("utf-8"), rt)
    return rt


def lis_rt(heads, tail):
    rt = tail
    for h in reversed(heads):
        rt = ("RLis", h, rt)
    return rt


def rt_coq(rt, num):
    k = rt[0]
    if k == "RVar": return "(RVar %d%%N)" % num[rt[1]]
    if k == "RInt": return "(RInt (%d)%%Z)" % rt[1]
    if k == "RRat": return "(RRat (%d)%%Z (%d)%%Z)" % (rt[1], rt[2])
    if k == "RFlt": return "(RFlt (%d)%%Z)" % rt[1]
    if k == "RAtom": return "(RAtom %s)" % terms.coq_name(rt[1])
    if k == "RStr": return "(RStr %s [%s])" % (terms.coq_name(rt[1]), "; ".join(rt_coq(x, num) for x in rt[2]))
    if k == "RLis": return "(RLis %s %s)" % (rt_coq(rt[1], num), rt_coq(rt[2], num))
    if k == "RPStr": return "(RPStr [%s]%%N %s)" % (";".join("%d" % b for b in rt[1]), rt_coq(rt[2], num))
    raise ValueError(rt)


def rt_shape(rt):
    return {"RLis": "Lis", "RPStr": "PStr", "RStr": "Str"}.get(rt[0], "other")


# ------------------------------------------------------------------ rendering (term -> Prolog text in a chosen representation)
class Render:
    def __init__(self, rng, prefix):
        self.rng = rng
        self.setup = []
        self.n = 0
        self.prefix = prefix
        self.kinds = []

    def fresh(self):
        self.n += 1
        return "%s%d" % (self.prefix, self.n)


def fname(s):
    return s if terms._SIMPLE.match(s) else quote_any(s)


def quote_any(s):
    q = terms.quote_atom(s)
    if q in ("[]", "{}", "!", ";"):
        return "'%s'" % q
    return q


def atom_text(s):
    q = terms.quote_atom(s)
    if not terms._SIMPLE.match(s) and s not in ("[]", "{}"):
        return "(%s)" % q
    return q


def string_literal(s):
    out = ['"']
    for ch in s:
        o = ord(ch)
        if ch == '"': out.append('\\"')
        elif ch == "\\": out.append("\\\\")
        elif o < 32 or o == 127 or (o > 127 and not ch.isprintable()):
            out.append("\\x%x\\" % o)
        else: out.append(ch)
    out.append('"')
    return "".join(out)


def is_char(t):
    return t[0] == "atom" and len(t[1]) == 1


def render(t, st):
    rng = st.rng
    k = t[0]
    if k == "var":
        return mk(t[1], ("RVar", t[1]))
    if k == "int":
        n = t[1]
        if rng.random() < 0.25:
            w = st.fresh()
            st.setup.append("%s is (%d) + %d - %d" % (w, n, BIGK, BIGK))
            st.kinds.append("int-computed")
            return mk(w, ("RInt", n))
        st.kinds.append("int-big" if abs(n) >= (1 << 55) else "int-small")
        return mk("(%d)" % n if n < 0 else str(n), ("RInt", n))
    if k == "rat":
        w = st.fresh()
        m = rng.choice([1, 1, 2, 6])
        st.setup.append("%s is (%d) rdiv %d" % (w, t[1] * m, t[2] * m))
        st.kinds.append("rat")
        return mk(w, ("RRat", t[1], t[2]))
    if k == "flt":
        s = terms.flt_text(t[1])
        s = "(%s)" % s if s.startswith("-") else s
        if rng.random() < 0.25:
            w = st.fresh()
            st.setup.append("%s is %s * 1.0" % (w, s))
            st.kinds.append("flt-computed")
            return mk(w, ("RFlt", t[1]))
        st.kinds.append("flt")
        return mk(s, ("RFlt", t[1]))
    if k == "atom":
        if t[1] not in ("", "[]") and "\x00" not in t[1] and rng.random() < 0.15:
            w = st.fresh()
            st.setup.append("atom_codes(%s, [%s])" % (w, ",".join(str(ord(c)) for c in t[1])))
            st.kinds.append("atom-codes")
            return mk(w, ("RAtom", t[1]))
        st.kinds.append("atom")
        return mk(atom_text(t[1]), ("RAtom", t[1]))
    # compound
    if t[1] == "." and len(t[2]) == 2:
        return render_list(t, st)
    r = rng.random()
    args = [render(x, st) for x in t[2]]
    rt = ("RStr", t[1], [a.rt for a in args])          # a Str cell: functor cell + argument cells (name/arity is not './2 here)
    if r < 0.15:
        w = st.fresh()
        st.setup.append("%s =.. [%s]" % (w, ",".join([atom_text(t[1])] + args)))
        st.kinds.append("cmp-univ")
        return mk(w, rt)
    if r < 0.25:
        w = st.fresh()
        st.setup.append("functor(%s, %s, %d)" % (w, atom_text(t[1]), len(args)))
        for i, a in enumerate(args):
            st.setup.append("arg(%d, %s, %s)" % (i + 1, w, a))
        st.kinds.append("cmp-functor")
        return mk(w, rt)
    st.kinds.append("cmp")
    return mk("%s(%s)" % (fname(t[1]), ",".join(args)), rt)


def render_list(t, st):
    rng = st.rng
    items, tail = terms.list_view(t)
    p = 0
    while p < len(items) and is_char(items[p]):
        p += 1
    r = rng.random()
    if p == len(items) and tail == NIL:
        s = "".join(x[1] for x in items)
        if r < 0.35:
            st.kinds.append("str")
            return mk(string_literal(s), pstr_rt(s, R_NIL))              # literal string -> partial string cell(s), tail []
        if r < 0.45:
            w1, w2 = st.fresh(), st.fresh()
            pre = "".join(rng.choice("xyzé") for _ in range(rng.choice([1, 2, 3, 5, 8, 9])))
            st.setup.append("%s = %s" % (w1, string_literal(pre + s)))
            st.setup.append("%s = [%s|%s]" % (w1, ",".join("_" for _ in pre), w2))
            st.kinds.append("str-suffix")
            return mk(w2, pstr_rt(s, R_NIL))                               # PStrLoc into the middle of a segment: the suffix bytes
        if r < 0.5 and "\x00" not in s:
            w = st.fresh()
            st.setup.append("atom_chars(%s, %s)" % (terms.quote_atom(s), w))
            st.kinds.append("str-atom_chars")
            return mk(w, pstr_rt(s, R_NIL))
    if p >= 1 and r < 0.7:
        # partial string: a string prefix followed by the rest in any representation
        q = rng.randint(1, p)
        s = "".join(x[1] for x in items[:q])
        rest = mklist(items[q:], tail)
        w1, w2 = st.fresh(), st.fresh()
        st.setup.append("partial_string(%s, %s, %s)" % (string_literal(s), w1, w2))
        rt = render(rest, st)
        st.setup.append("%s = %s" % (w2, rt))
        st.kinds.append("pstr+tail")
        return mk(w1, pstr_rt(s, rt.rt))                                   # segment(s) whose tail cell is bound to the rest
    if r < 0.8:
        # '.'(H,T) in functional notation, tail rendered independently (the reader builds a cons cell)
        h = render(items[0], st)
        tl = render(mklist(items[1:], tail), st)
        st.kinds.append("dot(H,T)")
        return mk("'.'(%s,%s)" % (h, tl), ("RLis", h.rt, tl.rt))
    if r < 0.87:
        h = render(items[0], st)
        tl = render(mklist(items[1:], tail), st)
        w = st.fresh()
        st.setup.append("%s =.. ['.', %s, %s]" % (w, h, tl))
        st.kinds.append("dot-univ")
        return mk(w, ("RLis", h.rt, tl.rt))                                # =.. fabricates a Lis for './2
    if r < 0.93 and len(items) > 1:
        q = rng.randint(1, len(items) - 1)
        hs = [render(x, st) for x in items[:q]]
        tl = render(mklist(items[q:], tail), st)
        st.kinds.append("lis|rest")
        return mk("[%s|%s]" % (",".join(hs), tl), lis_rt([h.rt for h in hs], tl.rt))
    hs = [render(x, st) for x in items]
    st.kinds.append("lis")
    if tail == NIL:
        return mk("[%s]" % ",".join(hs), lis_rt([h.rt for h in hs], R_NIL))
    tl = render(tail, st)
    return mk("[%s|%s]" % (",".join(hs), tl), lis_rt([h.rt for h in hs], tl.rt))


# ------------------------------------------------------------------ cases
OBS_PAIRS = [(0, 1), (1, 0), (1, 2), (2, 1), (0, 2), (2, 0), (0, 0), (1, 1), (2, 2)]
OPS = ["==", "\\==", "@<", "@=<", "@>", "@>="]


def make_goal(case, rng):
    """returns {"prefix": goals building T1..T3, "obs": [(result var, goal)], "kinds": per-term representation kinds}"""
    goals, kinds, texts, rts = [], [], [], []
    for i, t in enumerate(case):
        st = Render(rng, "W%d_" % i)
        tx = render(t, st)
        goals += st.setup
        texts.append(tx)
        kinds.append(st.kinds)
        rts.append(tx.rt)
    for i, tx in enumerate(texts):
        goals.append("T%d = %s" % (i + 1, tx))
    obs = []
    for (i, j) in OBS_PAIRS:
        obs.append(("O%d%d" % (i + 1, j + 1), "compare(O%d%d, T%d, T%d)" % (i + 1, j + 1, i + 1, j + 1)))
    for k, op in enumerate(OPS):
        obs.append(("F%d" % k, "(T1 %s T2 -> F%d = y ; F%d = n)" % (op, k, k)))
    for (x, y) in (("A", "B"), ("A", "C"), ("B", "C")):
        obs.append(("V%s%s" % (x, y), "compare(V%s%s, %s, %s)" % (x, y, x, y)))
    return {"prefix": goals, "obs": obs, "kinds": kinds, "rts": rts}


def goal_text(g, only=None):
    obs = g["obs"] if only is None else [g["obs"][only]]
    return ", ".join(g["prefix"] + [o[1] for o in obs] + ["R = [%s]" % ",".join(o[0] for o in obs)])


def query_for(g, compiled, name, only=None):
    """-> (consult clause text or '', query text, human-readable text)"""
    goal = goal_text(g, only)
    if compiled:
        return "%s(R) :- %s.\n" % (name, goal), "%s(R)." % name, "%s(R) :- %s.  ?- %s(R)." % (name, goal, name)
    q = "findall(R, (%s), [R])." % goal
    return "", q, q


def make_case(rng, pool):
    r = rng.random()
    if r < 0.2:
        t1 = rand_term(rng, pool)
    else:
        t1 = rng.choice(pool[rng.choice(CATS)])
    t2 = mutate(rng, pool, t1) if rng.random() < 0.8 else rand_term(rng, pool)
    r = rng.random()
    t3 = mutate(rng, pool, t2) if r < 0.45 else (mutate(rng, pool, t1) if r < 0.8 else rand_term(rng, pool))
    return (t1, t2, t3)


def decode(ans):
    """one query's answers -> list of 18 one-character strings, or an error text"""
    if not ans or not isinstance(ans[0], dict) or "b" not in ans[0] or "R" not in ans[0]["b"]:
        return None, json.dumps(ans, ensure_ascii=False)[:300]
    t = terms.from_json(ans[0]["b"]["R"])
    items, tail = terms.list_view(t)
    if len(items) == 1 and tail == NIL and category(items[0]) == "list":   # findall wrapper: [[...]]
        items, tail = terms.list_view(items[0])
    if tail != NIL or len(items) != 18 or any(x[0] != "atom" for x in items):
        return None, json.dumps(ans, ensure_ascii=False)[:300]
    return [x[1] for x in items], None


def var_numbers(vab, vac, vbc):
    """strict total order on A,B,C from the observed comparisons -> {name: number} or None"""
    if any(x not in "<>" for x in (vab, vac, vbc)):
        return None
    less = {("A", "B"): vab == "<", ("A", "C"): vac == "<", ("B", "C"): vbc == "<"}
    def lt(x, y):
        return less[(x, y)] if (x, y) in less else not less[(y, x)]
    rank = {v: sum(1 for u in VARS if u != v and lt(u, v)) for v in VARS}
    if sorted(rank.values()) != [0, 1, 2]:
        return None
    return rank


CMPC = {"<": "Lt", "=": "Eq", ">": "Gt"}


def pair_key(case, i, j):
    return "/".join(sorted([category(case[i]), category(case[j])]))


def reprs(kinds):
    return [sorted(set(k)) for k in kinds]


HEAD = ":- use_module(library(iso_ext)).\n"


# ------------------------------------------------------------------ visited-set (tabu_list) key collisions
# ParallelHeapIter remembers visited pairs in tabu_list.  When Lis/Str arms recorded CELL indices and PStrLoc arms BYTE offsets, an equal
# Lis/Lis pair at cells (la+2m, lb+2m) made a later PStrLoc pair at byte offsets (la+2m, lb+2m) count as visited: two DIFFERENT strings
# compared equal (fixed in /repo e6d801d).  The collision needs la = 8*c + i - 2m (c = cell of the string, i = character offset), so the
# family scans the padding N allocated between the string and the two lists (la grows by 2 per N) over a range wide enough for any
# plausible heap base: self-calibrating, no address is assumed.  Sj is the suffix I+D of the string whose suffix I is Si; the string has
# pairwise different characters, so Si and Sj differ for every D > 0 and every answer must be the empty list.
TABU_S = "".join(chr(c) for c in range(35, 127) if chr(c) not in '"\\`')
TABU_KEY = "tabu-collision:lis-cells-vs-pstr-byte-offsets"
TABU_CONSULT = """
:- use_module(library(lists)).
:- use_module(library(between)).
c13suf(S, I, Si) :- length(P, I), append(P, Si, S).
c13eqx(x).
c13tabu(N, Hits) :-
  S = "%s",
  length(Pad, N),
  length(La, 8), length(Lb, 8), maplist(c13eqx, La), maplist(c13eqx, Lb),
  findall(I-D, (between(0,60,I), between(10,26,D), J is I+D, c13suf(S,I,Si), c13suf(S,J,Sj), compare(=, f(La,Si), f(Lb,Sj))), Hits),
  Pad = Pad.
c13tabe(N, Hits) :-
  S = "%s",
  length(Pad, N),
  length(La, 8), length(Lb, 8), maplist(c13eqx, La), maplist(c13eqx, Lb),
  findall(I-D, (between(0,60,I), between(10,26,D), J is I+D, c13suf(S,I,Si), c13suf(S,J,Sj), f(La,Si) == f(Lb,Sj)), Hits),
  Pad = Pad.
""" % (TABU_S, TABU_S)


def tabu_scan(ctx, failures, tie_breaks, dist):
    """every answer must be H = []; -> number of (query, offset pair) evaluations"""
    step, top = ctx.scale((16, 48000), (4, 100000))       # a collision shows for ~37 consecutive paddings
    ns = list(range(0, top, step))
    per_job = 40
    jobs = []
    for k in range(0, len(ns), per_job):
        qs = []
        for n in ns[k:k + per_job]:
            qs += ["c13tabu(%d, H)." % n, "c13tabe(%d, H)." % n]
        jobs.append({"id": "t%d" % k, "consult": TABU_CONSULT, "queries": qs, "timeout_ms": 60000, "fresh": True})
    res = core.vrun_query(ctx.prop, jobs, tag="tabu")
    hits, answered, broken = [], 0, []
    for k in range(0, len(ns), per_job):
        rec = res.get("t%d" % k) or {}
        rs = rec.get("results")
        chunk = ns[k:k + per_job]
        if not isinstance(rs, list) or len(rs) != 2 * len(chunk):
            broken.append(("t%d" % k, json.dumps(rec)[:300]))
            continue
        for j, a in enumerate(rs):
            n, pred = chunk[j // 2], ("c13tabu", "c13tabe")[j % 2]
            h = a[0]["b"].get("H") if a and isinstance(a[0], dict) and "b" in a[0] else None
            if h is None or "l" not in h:
                broken.append(("%s(%d, H)." % (pred, n), json.dumps(a)[:300]))
                continue
            answered += 1
            if h["l"]:
                hits.append((pred, n, h["l"]))
    for q, text in broken[:3]:
        tie_breaks.append({"kind": "harness", "what": "a query of the visited-set collision scan gave no answer list", "detail": {"query": q, "answer": text}})
    dist["tabu_scan"] = {"paddings": "0..%d step %d" % (top, step), "queries_answered": answered, "offset_pairs_per_query": 61 * 17,
                         "queries_with_wrong_answers": len(hits), "paddings_with_wrong_answers": sorted({n for _, n, _ in hits})[:40]}
    if hits:
        pred, n, l = hits[0]
        pairs = ["%s-%s" % (x["c"][1].get("i"), x["c"][2].get("i")) for x in l if "c" in x][:12]
        op = "compare(=, f(La,Si), f(Lb,Sj))" if pred == "c13tabu" else "f(La,Si) == f(Lb,Sj)"
        failures.append({"key": TABU_KEY,
                         "what": ("%s succeeds although Si and Sj are different suffixes (character offsets I and I+D) of one string with pairwise different characters: "
                                  "the string pair is skipped as already visited because its byte offsets equal the cell indices of an equal list pair compared just before "
                                  "(%d of %d scan queries affected)" % (op, len(hits), answered)),
                         "input": "fresh machine; consult: %s query: %s(%d, H)." % (TABU_CONSULT, pred, n),
                         "impl": "H = [%s%s]  (I-D pairs)" % (",".join(pairs), ",..." if len(l) > len(pairs) else ""), "spec": "H = []", "property_fails": True})
    return answered * 61 * 17


def run(ctx):
    import re
    rng = ctx.rng
    pool = build_pool(rng)
    n_cases = ctx.scale(6000, 120000)
    cases = [make_case(rng, pool) for _ in range(n_cases)]
    goals = [make_goal(case, rng) for case in cases]
    B = 40
    compiled_of = lambda idx: (idx // B) % 3 == 2
    jobs, texts = [], {}
    for base in range(0, n_cases, B):
        consult, qs = HEAD, []
        for idx in range(base, min(base + B, n_cases)):
            c, q, text = query_for(goals[idx], compiled_of(idx), "c13p%d" % idx)
            consult += c
            qs.append(q)
            texts[idx] = text
        jobs.append({"id": str(base), "consult": consult, "queries": qs, "timeout_ms": 20000, "fresh": base % (B * 25) == 0})
    res = core.vrun_query(ctx.prop, jobs, tag="impl")

    failures, tie_breaks = [], []
    answers, retry = {}, []
    for base in range(0, n_cases, B):
        rec = res.get(str(base))
        idxs = list(range(base, min(base + B, n_cases)))
        if rec is not None and isinstance(rec.get("results"), list) and len(rec["results"]) == len(idxs):
            for idx, a in zip(idxs, rec["results"]):
                answers[idx] = a
        else:
            retry += idxs
    # a batch whose process died or hung: every case of it again, alone in a new machine
    crashed = []
    if retry:
        jobs2 = []
        for idx in retry:
            c, q, _ = query_for(goals[idx], compiled_of(idx), "c13p%d" % idx)
            jobs2.append({"id": "r%d" % idx, "consult": HEAD + c, "queries": [q], "timeout_ms": 20000, "fresh": True})
        res2 = core.vrun_query(ctx.prop, jobs2, tag="retry")
        for idx in retry:
            rec = res2.get("r%d" % idx)
            if rec is not None and isinstance(rec.get("results"), list) and len(rec["results"]) == 1:
                answers[idx] = rec["results"][0]
            else:
                crashed.append((idx, rec))
    # pinpoint the observation that kills the process
    for idx, rec in crashed[:6]:
        g = goals[idx]
        jobs3 = []
        for k in range(len(g["obs"])):
            c, q, text = query_for(g, compiled_of(idx), "c13p%d" % idx, only=k)
            jobs3.append({"id": "p%d_%d" % (idx, k), "consult": HEAD + c, "queries": [q], "timeout_ms": 20000, "fresh": True, "_text": text})
        res3 = core.vrun_query(ctx.prop, [{k: v for k, v in j.items() if k != "_text"} for j in jobs3], tag="pinpoint")
        hit = None
        for k, j in enumerate(jobs3):
            r3 = res3.get(j["id"])
            if r3 is None or "results" not in r3:
                hit = (k, j["_text"], r3)
                break
        how = lambda r: ("hang" if (r or {}).get("hang") else "rc%s" % (r or {}).get("crash"))
        if hit is not None:
            k, text, r3 = hit
            pk = pair_key(cases[idx], *OBS_PAIRS[k]) if k < 9 else (pair_key(cases[idx], 0, 1) if k < 15 else "var/var")
            failures.append({"key": "crash:%s:%s" % (how(r3), pk), "what": "the process dies (or hangs) inside a term comparison",
                             "input": text, "representations": reprs(g["kinds"]), "impl": json.dumps(r3)[:300], "spec": "an order (<, = or >)", "property_fails": True})
        else:
            failures.append({"key": "crash:%s:%s" % (how(rec), pair_key(cases[idx], 0, 1)), "what": "the process dies (or hangs) in a query of term comparisons",
                             "input": texts[idx], "representations": reprs(g["kinds"]), "impl": json.dumps(rec)[:300], "spec": "an order for every pair", "property_fails": True})

    bools, bmeta = [], []
    dist = {"category_pairs": {}, "outcomes": {"<": 0, "=": 0, ">": 0}, "list_representation_pairs": {}, "paths": {"metacall": 0, "compiled": 0},
            "queries_by_observed_variable_order": {}, "batches_rerun_after_process_death": len(retry) // B, "cases_killing_the_process": len(crashed),
            "rcompare_top_cells": {}}
    nontrivial = set()
    rnontrivial = set()
    for idx in range(n_cases):
        if idx not in answers:
            continue
        case, g = cases[idx], goals[idx]
        path = "compiled" if compiled_of(idx) else "metacall"
        obs, err = decode(answers[idx])
        if obs is None:
            m = re.search(r'"err": \{"c": \["error", \{"(?:c|a)": \[?"([a-z_]+)"', err)
            failures.append({"key": "no-answer:%s:%s" % (m.group(1) if m else "other", pair_key(case, 0, 1)), "what": "the comparison query raised an error or gave no answer",
                             "input": texts[idx], "representations": reprs(g["kinds"]), "impl": err, "spec": "an order for every pair", "property_fails": True})
            continue
        num = var_numbers(*obs[15:18])
        if num is None:
            failures.append({"key": "variables-not-totally-ordered", "what": "the three distinct variables of the query are not strictly totally ordered by compare/3",
                             "input": texts[idx], "impl": "compare(A,B),(A,C),(B,C) = %s" % obs[15:18], "spec": "a strict total order", "property_fails": True})
            continue
        vo = "".join(sorted(VARS, key=lambda v: num[v]))
        dist["queries_by_observed_variable_order"][vo] = dist["queries_by_observed_variable_order"].get(vo, 0) + 1
        if any(o not in CMPC for o in obs[:9]) or any(f not in "yn" for f in obs[9:15]):
            failures.append({"key": "bad-order-atom", "what": "compare/3 returned something else than <, =, >", "input": texts[idx], "impl": str(obs),
                             "spec": "<, = or >", "property_fails": True})
            continue
        ct = [terms.to_coq(t, num) for t in case]
        cr = [rt_coq(r, num) for r in g["rts"]]
        # reference model AND representation-level mirror (rcompare on the representations the construction paths produce)
        bools.append("(let t1 := %s in let t2 := %s in let t3 := %s in let o := [%s] in "
                     "check3 t1 t2 t3 o [%s] && rcheck3 t1 t2 t3 %s %s %s o)"
                     % (ct[0], ct[1], ct[2], "; ".join(CMPC[o] for o in obs[:9]),
                        "; ".join("true" if f == "y" else "false" for f in obs[9:15]), cr[0], cr[1], cr[2]))
        bmeta.append((idx, obs, ct, cr))
        for (i, k) in OBS_PAIRS:
            key = "%s/%s" % (rt_shape(g["rts"][i]), rt_shape(g["rts"][k]))
            dist["rcompare_top_cells"][key] = dist["rcompare_top_cells"].get(key, 0) + 1
            if key != "other/other" and cr[i] != cr[k]:
                rnontrivial.add((cr[i], cr[k]))
        dist["paths"][path] += 1
        for (i, k), o in zip(OBS_PAIRS[:6], obs[:6]):
            ci, ck = category(case[i]), category(case[k])
            key = ci + "/" + ck
            dist["category_pairs"][key] = dist["category_pairs"].get(key, 0) + 1
            dist["outcomes"][o] += 1
            same = (ci == ck) or {ci, ck} == {"list", "cmp"}
            if same and i < k and ct[i] != ct[k]:
                nontrivial.add(tuple(sorted([ct[i], ct[k]])))
            if ci == "list" and ck == "list":
                ri = [x for x in g["kinds"][i] if x.startswith(("str", "pstr", "dot", "lis"))][-1:]
                rk = [x for x in g["kinds"][k] if x.startswith(("str", "pstr", "dot", "lis"))][-1:]
                key = "%s vs %s" % ((ri or ["?"])[0], (rk or ["?"])[0])
                dist["list_representation_pairs"][key] = dist["list_representation_pairs"].get(key, 0) + 1

    bad, errs = core.coq_eval_bools(ctx.prop, IMPORTS, bools, chunk=500)
    tie_breaks += [{"kind": "coq-eval", "what": "model evaluation shard failed", "detail": t} for _, t in errs]
    seen_keys = set()
    for i in bad[:40]:
        idx, obs, ct, cr = bmeta[i]
        case, g = cases[idx], goals[idx]
        spec = core.coq_eval_show(ctx.prop, IMPORTS, "(spec3 %s %s %s, ops %s %s)" % (ct[0], ct[1], ct[2], ct[0], ct[1]))
        sp = re.findall(r"\b(Lt|Eq|Gt|true|false)\b", spec)
        key = None
        if len(sp) == 15 and sp[:9] == [CMPC[o] for o in obs[:9]] and sp[9:] == ["true" if f == "y" else "false" for f in obs[9:15]]:
            # the reference agrees with the implementation: the representation-level part rejected the case
            rs = core.coq_eval_show(ctx.prop, IMPORTS, "(rspec3 %s %s %s, [%s])" % (
                cr[0], cr[1], cr[2], "; ".join(["rwfb %s && nodotb %s && term_eqb (denote %s) %s" % (r, r, r, t) for r, t in zip(cr, ct)])))
            rp = re.findall(r"\b(Lt|Eq|Gt|true|false)\b", rs)
            if len(rp) == 12 and rp[9:] == ["true"] * 3 and rp[:9] != sp[:9]:
                k = [j for j in range(9) if rp[j] != sp[j]][0]
                a, b = OBS_PAIRS[k]
                key = "mirror:%s/%s:%s-for-%s" % (rt_shape(g["rts"][a]), rt_shape(g["rts"][b]), sp[k], rp[k])
                what = ("compare(O, T%d, T%d) gives %s (as the reference order), the mirror of ParallelHeapIter gives %s on the representations "
                        "(impossible by rcompare_is_tcompare_partial: the Coq development is inconsistent with itself)" % (a + 1, b + 1, sp[k], rp[k]))
                tie_breaks.append({"kind": "model", "what": what, "detail": {"query": texts[idx], "rterms": cr, "coq": rs}})
            else:
                tie_breaks.append({"kind": "generator", "what": "checks/C13.py built a representation term that is ill-formed, contains a Str-'.'/2 or does not denote the case's term",
                                   "detail": {"query": texts[idx], "rterms": cr, "terms": ct, "coq": rs}})
            continue
        if len(sp) == 15:
            got = [CMPC[o] for o in obs[:9]]
            for (a, b), w, gt in zip(OBS_PAIRS, sp[:9], got):
                if w != gt:
                    key = "order:%s:%s-for-%s" % (pair_key(case, a, b), gt, w)
                    what = "compare(O, T%d, T%d) gives %s, the standard order gives %s" % (a + 1, b + 1, gt, w)
                    break
            if key is None:
                flags = ["true" if f == "y" else "false" for f in obs[9:15]]
                wrong = [OPS[k] for k in range(6) if flags[k] != sp[9 + k]]
                key = "operators:%s:%s" % (pair_key(case, 0, 1), ",".join(wrong))
                what = "T1 %s T2 disagrees with compare/3 and the order (operators give %s, the order gives %s)" % (" / ".join(wrong), flags, sp[9:])
        else:
            key, what = "order:unparsed-spec", "model/implementation disagree"
        if key in seen_keys:
            continue
        seen_keys.add(key)
        failures.append({"key": key, "what": what, "input": texts[idx], "representations": reprs(g["kinds"]), "path": "compiled" if compiled_of(idx) else "metacall",
                         "impl": "".join(obs[:9]) + " " + "".join(obs[9:15]), "spec": spec, "property_fails": True})
    tabu_evals = tabu_scan(ctx, failures, tie_breaks, dist)
    samples = []
    for (idx, obs, ct, cr) in bmeta[:: max(1, len(bmeta) // 8)][:8]:
        samples.append({"query": texts[idx][:400], "impl": "".join(obs[:9]) + " " + "".join(obs[9:15]) + " vars " + "".join(obs[15:18])})
    return {
        "evaluations": len(bools) * 24 + tabu_evals,
        "distinct_nontrivial": len(nontrivial),
        "rule": ("each case = a triple of terms (pool of every category x every heap representation; T2, T3 are mutations of T1/T2 so that most pairs "
                 "fall in the same category) built in one query (meta-call under findall/3, or a consulted clause for every third batch); observed: compare/3 for the "
                 "9 ordered pairs (1,2)(2,1)(2,3)(3,2)(1,3)(3,1)(1,1)(2,2)(3,3) and the six operators on (T1,T2) = 15 observations per case, all compared in Coq with "
                 "tcompare (variables numbered by their observed order). non-trivial = distinct unordered pair of different terms that lie in the same order "
                 "category (so the comparison is decided by value/structure, not by the category table). In addition the 9 compare/3 answers of every case are "
                 "compared with rcompare (Repr.v, the arm-by-arm mirror of ParallelHeapIter) run on the REPRESENTATIONS the construction paths produce "
                 "(string literal / suffix / atom_chars -> PStr segment(s), NUL characters as cons cells; partial_string/3 -> PStr with the bound tail; "
                 "'.'(H,T), =.., [..|..] -> Lis cells; other compounds -> Str), after checking in Coq that each representation is well-formed, free of Str-'.'/2 "
                 "and denotes the case's term (= 9 more evaluations per case; %d distinct ordered pairs of different representations with a Lis/PStr/Str cell on top)"
                 % len(rnontrivial)
                 + ". Visited-set family: on fresh machines, for every padding N of a scan (see distribution.tabu_scan) two equal 8-element lists are "
                 "allocated N cons cells after an 89-character string of pairwise different characters, and f(La,Si) / f(Lb,Sj) are compared by compare/3 and == for all "
                 "suffix offsets I in 0..60 and J = I+10..I+26: never equal (a visited-set key shared by a list pair and a string pair would make them equal; the scan "
                 "covers every alignment of list cell indices against string byte offsets for heap bases up to ~%d cells)" % (ctx.scale(48000, 100000) * 2 // 7)),
        "samples": samples,
        "distribution": dist,
        "failures": failures,
        "tie_breaks": tie_breaks,
    }
