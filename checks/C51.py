"""C51 -- library(csv): parsing and writing follow the documented format."""
import json, os, re, shutil, time
from vlib import core, terms

META = {
    "level": "proof",
    "text": ("Coq theorems over a model of src/lib/csv.pl: the parser model mirrors the DCG clause by clause (tokens, string_tokens, field, row, rows, "
             "parse_csv, end_token, with the choice points that survive the cuts) and types unquoted fields as the library does (number or text); the "
             "writer model is the documented one (strings quoted, quotes doubled). Proved: any text is read back from its quoted form "
             "(quoted_field_roundtrip), field, row and table level round trips for every separator / line separator / header option "
             "(csv_parse_write: first solution; csv_parse_write_all_solutions: every solution found on backtracking), integers print and re-read exactly. The model is tied to the implementation by cross round trips evaluated in Coq: "
             "the implementation parses the model's text to the model's rows, the model re-reads the text write_csv/3 produced, the implementation "
             "re-reads its own text, and both parse generator-written RFC 4180 texts (minimal / random quoting, mixed line ends) alike."),
    "note": ("Trusted: Coq kernel + vm_compute; the parser model is an impl-mirror tied to the clauses only by the differential run; number typing "
             "covers -?digits and -?digits.digits after leading blanks -- the other syntaxes number_chars/2 accepts (exponents, 0'c, 0x/0o/0b, "
             "'_' digit groups, '- 5') are not modelled and not generated; floats are compared by their shortest decimal text (only literals "
             "that are their own shortest form are generated); the writer model is the DOCUMENTED writer, not a mirror of "
             "write_field/3 (which prints strings with ~w). No axioms."),
    "technique": ("Coq proof (quoted_field_roundtrip, field_roundtrip, row_roundtrip, csv_parse_write, typing_of_numbers) over an impl-mirror parser "
                  "model and a reference writer model + differential correspondence (cross round trips) evaluated in Coq"),
    "design_ref": "DESIGN.md section 8, C51",
    "coq_targets": ["C51/Props.vo"],
    "coq_dirs": ["C51"],
    "props": "C51/Props.v",
    "trusted_base": ["Coq 8.16.1 kernel, vm_compute (no native_compute)", "harness/vrun + tools/vlib (correspondence)",
                     "checks/C51.py generator, its copy of the model writer (re-checked in Coq on every case) and the decoding of answers"],
    "assumptions": ["write_csv/3 output is observed by reading the written file back with phrase_from_file(seq(Cs), File) (library(pio))",
                    "unquoted fields in generated texts avoid the number syntaxes the model does not cover"],
}

IMPORTS = "From V Require Import C51.Model."
LIB = ":- use_module(library(csv)).\n:- use_module(library(dcgs)).\n:- use_module(library(pio)).\n:- use_module(library(lists)).\n"

# ---------------------------------------------------------------- field texts
STRINGS = ["a", "one", "three", "col1", "a,b", "x;y", "a\tb", ",", ";", "|", "\"", "a\"b", "\"\"", "\"quoted\"", "a\nb", "\r\n", "l1\r\nl2", "\r",
           "\n", " x", "x ", " x ", " ", "  ", "12", "-5", "1.5", "007", "1e3", "+1", "1.", ".5", "5 ", "12a", "--1", "1.5.2", " 7", "a\\b", "\\n",
           "\u00e9", "\u65e5\u672c", "\u00fc\n\u00df", "\u20ac,\u20ac", "\u0663", "[a,b]", "'q'", "a b c", "\"a\",\"b\"\n"]
INTS = [0, 2, -5, 12, 100, -1, 123456789012345678901234567890, -98765432109876543210]
FLOATS = ["1.5", "-2.0", "0.25", "10.0", "123456789.125", "0.1", "-0.5", "3.0"]
# unquoted texts for the RFC-style documents: what they must be read as is decided by the typing rule
UNQUOTED = ["a", "one", "col1", " x", "x ", " x ", " ", "a b", "12", "-5", "007", "-0", " 7", "\t8", " -3", "1.5", "-2.0", " 0.25", "1e3", "+1", "1.", ".5",
            "5 ", "12a", "--1", "1.5.2", "1 000", "a\"b", "it's", "\u00e9", "\u65e5\u672c", "\u0663", "a\\b", "-", ".", "-.", "1.-2", "x-1", "0.1"]


def esc_dq(s):
    """Prolog double-quoted string body"""
    out = []
    for ch in s:
        o = ord(ch)
        if ch == '"': out.append('\\"')
        elif ch == "\\": out.append("\\\\")
        elif ch == "\n": out.append("\\n")
        elif ch == "\r": out.append("\\r")
        elif ch == "\t": out.append("\\t")
        elif o < 32 or o == 127: out.append("\\x%x\\" % o)
        else: out.append(ch)
    return '"' + "".join(out) + '"'


def atom_text(s):
    return "'" + s.replace("\\", "\\\\").replace("'", "\\'").replace("\n", "\\n").replace("\r", "\\r").replace("\t", "\\t") + "'"


# a field is ("null",) | ("str", s) | ("int", n) | ("flt", literal)
def field_prolog(f):
    if f[0] == "null": return "[]"
    if f[0] == "str": return esc_dq(f[1])
    if f[0] == "int": return str(f[1])
    return f[1]


def frame_prolog(fr):
    h, rows = fr
    return "frame([%s],[%s])" % (",".join(field_prolog(f) for f in h), ",".join("[%s]" % ",".join(field_prolog(f) for f in r) for r in rows))


def codes(s):
    return "[" + ";".join(str(ord(c)) for c in s) + "]"


def field_coq(f):
    if f[0] == "null": return "FNull"
    if f[0] == "str": return "(FStr %s)" % codes(f[1])
    if f[0] == "int": return "(FInt (%d)%%Z)" % f[1]
    return "(FFlt %s)" % codes(f[1])


def frame_coq(fr):
    h, rows = fr
    return "([%s], [%s])" % ("; ".join(field_coq(f) for f in h), "; ".join("[%s]" % "; ".join(field_coq(f) for f in r) for r in rows))


def b(x):
    return "true" if x else "false"


# ---------------------------------------------------------------- Python copy of the model writer (checked against Coq's `write` on every case)
def w_field(f, null):
    if f[0] == "null": return null
    if f[0] == "str": return '"' + f[1].replace('"', '""') + '"'
    if f[0] == "int": return str(f[1])
    return f[1]


def w_text(hdr, sep, lsep, null, fr):
    h, rows = fr
    lines = ([sep.join(w_field(f, null) for f in h)] if hdr else []) + [sep.join(w_field(f, null) for f in r) for r in rows]
    return lsep.join(lines)


def typing_py(raw):
    u = raw.lstrip(" \t")
    if re.fullmatch(r"-?[0-9]+", u): return ("int", int(u))
    if re.fullmatch(r"-?[0-9]+\.[0-9]+", u): return ("flt", u)
    return ("str", raw)


# ---------------------------------------------------------------- decoding
def decode_field(t):
    if t[0] == "int": return ("int", t[1])
    if t[0] == "flt": return ("flt", repr(terms.flt_value(t[1])))
    items, tail = terms.list_view(t)
    if tail != terms.NIL: return ("str", "")          # impossible value: never equal to a model field
    if not items: return ("null",)
    if all(x[0] == "atom" and len(x[1]) == 1 for x in items): return ("str", "".join(x[1] for x in items))
    return ("str", "")


def decode_frame(t):
    if not (t[0] == "cmp" and t[1] == "frame" and len(t[2]) == 2):
        return None
    h, tl = terms.list_view(t[2][0])
    rows, tl2 = terms.list_view(t[2][1])
    if tl != terms.NIL or tl2 != terms.NIL:
        return None
    out = []
    for r in rows:
        fs, tl3 = terms.list_view(r)
        if tl3 != terms.NIL: return None
        out.append([decode_field(f) for f in fs])
    return ([decode_field(f) for f in h], out)


def decode_frames(t):
    items, tail = terms.list_view(t)
    if tail != terms.NIL: return None
    out = [decode_frame(x) for x in items]
    return None if any(x is None for x in out) else out


def text_of(t):
    items, tail = terms.list_view(t)
    if tail != terms.NIL or not all(x[0] == "atom" and len(x[1]) == 1 for x in items): return None
    return "".join(x[1] for x in items)


BADFRAME = ([("str", "")], [])     # a frame no model result equals


def frames_coq(frs):
    return "[" + "; ".join(frame_coq(f) for f in frs) + "]"


# ---------------------------------------------------------------- generators
SEPS = [",", ";", "\t", "|", " "]
LSEPS = ["\n", "\r\n", "\r"]
NULLS = [("empty", "empty", ""), ("atom", "'NULL'", "NULL"), ("atom", "'\\\\N'", "\\N"), ("int", "0", "0"), ("atom", "''", "")]


def rand_field(rng):
    r = rng.random()
    if r < 0.55: return ("str", rng.choice(STRINGS))
    if r < 0.72: return ("int", rng.choice(INTS))
    if r < 0.85: return ("flt", rng.choice(FLOATS))
    return ("null",)


def rand_row(rng, n, numeric_only):
    while True:
        row = []
        for _ in range(n):
            f = rand_field(rng)
            if numeric_only and f[0] == "str":
                f = ("int", rng.choice(INTS))
            row.append(f)
        if row != [("null",)]:
            return row


def rand_opts(rng, for_write):
    """-> (effective hdr, sep, lsep, null triple, option list text)"""
    hdr, sep, lsep, null = True, ",", "\n", NULLS[0]
    opts = []
    if rng.random() < 0.7:
        hdr = rng.random() < 0.5
        opts.append("with_header(%s)" % b(hdr))
    if rng.random() < 0.7:
        sep = rng.choice(SEPS)
        if rng.random() < 0.1:
            opts.append("token_separator(%s)" % atom_text(rng.choice(SEPS)))      # overridden by the later one
        opts.append("token_separator(%s)" % atom_text(sep))
    if for_write and rng.random() < 0.7:
        lsep = rng.choice(LSEPS)
        opts.append("line_separator(%s)" % atom_text(lsep))
    if for_write and rng.random() < 0.5:
        null = rng.choice(NULLS)
        opts.append("null_value(%s)" % null[1])
    rng.shuffle(opts)
    # two token_separator options: the later one wins (option_extends/3), so the effective one goes last
    idx = [i for i, o in enumerate(opts) if o.startswith("token_separator")]
    if len(idx) == 2:
        want = "token_separator(%s)" % atom_text(sep)
        other = [opts[i] for i in idx if opts[i] != want] or [want]
        opts[idx[0]], opts[idx[1]] = other[0], want
    return hdr, sep, lsep, null, opts


def parse_opts_text(hdr, sep, rng):
    o = []
    if not hdr or rng.random() < 0.5: o.append("with_header(%s)" % b(hdr))
    if sep != "," or rng.random() < 0.5: o.append("token_separator(%s)" % atom_text(sep))
    rng.shuffle(o)
    return "[" + ",".join(o) + "]"


def rfc_document(rng):
    """a generator-written RFC 4180 text with minimal or random quoting and mixed line ends, and its intended reading;
    a few single-column documents contain a record that is one empty field (an empty line, or "") before the last record"""
    hdr = rng.random() < 0.5
    sep = rng.choice(SEPS)
    ncols = rng.randint(1, 4)
    nbody = 0 if (hdr and rng.random() < 0.1) else rng.randint(1, 4)
    null_record = rng.random() < 0.06 and nbody >= 2
    if null_record:
        ncols = 1
    nrows = nbody + (1 if hdr else 0)
    null_at = rng.randrange(1 if hdr else 0, nrows - 1) if null_record else -1
    lines, frame_rows = [], []
    for k in range(nrows):
        if k == null_at:
            lines.append(rng.choice(["", '""'])); frame_rows.append([("null",)])
            continue
        while True:
            cells, fields = [], []
            for _ in range(ncols):
                r = rng.random()
                if r < 0.12:
                    cells.append(""); fields.append(("null",))
                elif r < 0.5:
                    raw = rng.choice(STRINGS + [""])
                    cells.append('"' + raw.replace('"', '""') + '"'); fields.append(("str", raw) if raw else ("null",))
                else:
                    raw = rng.choice(UNQUOTED)
                    if sep in raw or raw.startswith('"'):
                        cells.append('"' + raw.replace('"', '""') + '"'); fields.append(("str", raw))
                    else:
                        cells.append(raw); fields.append(typing_py(raw))
            if fields != [("null",)]:
                break
        lines.append(sep.join(cells)); frame_rows.append(fields)
    text = ""
    for i, ln in enumerate(lines):
        text += ln
        if i + 1 < len(lines): text += rng.choice(LSEPS)
        elif rng.random() < 0.5: text += rng.choice(LSEPS)
    fr = (frame_rows[0], frame_rows[1:]) if hdr else ([], frame_rows)
    return hdr, sep, text, fr, null_record


def has_string(fr):
    return any(f[0] == "str" for r in [fr[0]] + fr[1] for f in r)


def run(ctx):
    t0 = time.time()
    rng = ctx.rng
    tie_breaks, failures = [], []
    tmp = "/var/tmp/c51_%d_%d" % (os.getpid(), ctx.seed)
    shutil.rmtree(tmp, ignore_errors=True)
    os.makedirs(tmp)
    try:
        return _run(ctx, rng, tmp, t0, tie_breaks, failures)
    finally:
        shutil.rmtree(tmp, ignore_errors=True)


def _run(ctx, rng, tmp, t0, tie_breaks, failures):
    nlib = ctx.scale(450, 8000)
    nrfc = ctx.scale(450, 8000)
    dist = {"library_style_frames": nlib, "rfc_documents": nrfc, "with_header": 0, "separators": {}, "line_separators": {}, "null_values": {},
            "frames_with_strings": 0, "numeric_only_frames": 0, "cells": 0}

    # ---- library-style frames: written by the model writer and by write_csv/3
    lib = []
    for i in range(nlib):
        hdr, sep, lsep, null, opts = rand_opts(rng, True)
        numeric_only = rng.random() < 0.3
        ncols = rng.randint(1, 4)
        nrows = rng.randint(1, 4)
        header = rand_row(rng, ncols, numeric_only) if hdr else []
        rows = [rand_row(rng, ncols if rng.random() < 0.85 else rng.randint(1, 4), numeric_only) for _ in range(nrows)]
        fr = (header, rows)
        text = w_text(hdr, sep, lsep, null[2], fr)
        lib.append({"hdr": hdr, "sep": sep, "lsep": lsep, "null": null, "wopts": "[" + ",".join(opts) + "]",
                    "popts": parse_opts_text(hdr, sep, rng), "fr": fr, "text": text, "file": "%s/f%d.csv" % (tmp, i)})
        dist["with_header"] += hdr
        dist["separators"][sep] = dist["separators"].get(sep, 0) + 1
        dist["line_separators"][lsep] = dist["line_separators"].get(lsep, 0) + 1
        dist["null_values"][null[1]] = dist["null_values"].get(null[1], 0) + 1
        dist["frames_with_strings" if has_string(fr) else "numeric_only_frames"] += 1
        dist["cells"] += sum(len(r) for r in rows) + len(header)
    # ---- RFC-style documents
    rfc = []
    for i in range(nrfc):
        hdr, sep, text, fr, null_record = rfc_document(rng)
        rfc.append({"hdr": hdr, "sep": sep, "text": text, "fr": fr, "popts": parse_opts_text(hdr, sep, rng), "null_record": null_record})
        dist["rfc_documents_with_single_empty_field_record"] = dist.get("rfc_documents_with_single_empty_field_record", 0) + null_record
        dist["cells"] += sum(len(r) for r in fr[1]) + len(fr[0])

    # ---- implementation
    jobs = []
    B = 25
    for i in range(0, nlib, B):
        qs = []
        for c in lib[i:i + B]:
            qs.append("findall(D, phrase(parse_csv(D,%s), %s), Ds)." % (c["popts"], esc_dq(c["text"])))
            qs.append("write_csv(%s, %s, %s), phrase_from_file(seq(Cs), %s), findall(D, phrase(parse_csv(D,%s), Cs), Ds)."
                      % (atom_text(c["file"]), frame_prolog(c["fr"]), c["wopts"], atom_text(c["file"]), c["popts"]))
        jobs.append({"id": "L%d" % i, "consult": LIB, "queries": qs, "max_answers": 3, "timeout_ms": 20000, "fresh": False})
    for i in range(0, nrfc, B):
        qs = ["findall(D, phrase(parse_csv(D,%s), %s), Ds)." % (c["popts"], esc_dq(c["text"])) for c in rfc[i:i + B]]
        jobs.append({"id": "R%d" % i, "consult": LIB, "queries": qs, "max_answers": 3, "timeout_ms": 20000, "fresh": False})
    res = core.vrun_query(ctx.prop, jobs, tag="impl")

    def first_sol(rec, k):
        if rec is None or "results" not in rec or k >= len(rec["results"]):
            return None, "no result: " + json.dumps(rec)[:200]
        ans = terms.answers(rec["results"][k])
        if ans and ans[0][0] == "sol":
            return ans[0][1], None
        return None, json.dumps(rec["results"][k])[:300]

    exprs, info = [], []     # info: (kind, case, impl text, spec text)

    def hs(c):
        return "%s %d" % (b(c["hdr"]), ord(c["sep"]))

    for i, c in enumerate(lib):
        rec = res.get("L%d" % (i - i % B))
        k = (i % B) * 2
        # A: the Python copy of the writer is the model's writer
        exprs.append("(check_write %s %s %s %s %s)%%N" % (hs(c), codes(c["lsep"]), codes(c["null"][2]), frame_coq(c["fr"]), codes(c["text"])))
        info.append(("generator", c, None, None))
        # B: the implementation parses the model's text to the model's rows
        sol, err = first_sol(rec, k)
        frs = decode_frames(sol["Ds"]) if sol else None
        exprs.append("(check_parse %s %s %s)%%N" % (hs(c), codes(c["text"]), frames_coq(frs if frs is not None else [BADFRAME])))
        info.append(("parse:model-written-text", c, err or terms.to_prolog(sol["Ds"]), None))
        # C, D: write_csv/3's text re-read by the model and by the implementation
        sol, err = first_sol(rec, k + 1)
        wtext = text_of(sol["Cs"]) if sol else None
        frs = decode_frames(sol["Ds"]) if sol else None
        want = "(parse_all %s (write %s %s %s %s))" % (hs(c), hs(c), codes(c["lsep"]), codes(c["null"][2]), frame_coq(c["fr"]))
        if wtext is None:
            exprs.append("false"); exprs.append("false")
        else:
            exprs.append("(list_eqb frame_eqb (dedup (parse_all %s %s)) (dedup %s))%%N" % (hs(c), codes(wtext), want))
            exprs.append("(list_eqb frame_eqb (dedup %s) (dedup %s))%%N" % (frames_coq(frs if frs is not None else [BADFRAME]), want))
        shown = err or ("written text %s" % json.dumps(wtext, ensure_ascii=False))
        info.append(("write:model-rereads-written-text", c, shown, None))
        info.append(("write:implementation-round-trip", c, err or (shown + "; re-read as " + terms.to_prolog(sol["Ds"])), None))
    for i, c in enumerate(rfc):
        rec = res.get("R%d" % (i - i % B))
        sol, err = first_sol(rec, i % B)
        frs = decode_frames(sol["Ds"]) if sol else None
        exprs.append("(check_parse %s %s %s)%%N" % (hs(c), codes(c["text"]), frames_coq(frs if frs is not None else [BADFRAME])))
        info.append(("parse:rfc-text", c, err or terms.to_prolog(sol["Ds"]), None))
        exprs.append("(check_expected %s %s %s)%%N" % (hs(c), codes(c["text"]), frame_coq(c["fr"])))
        info.append(("model-vs-rfc-reading", c, None, None))
    t_impl = time.time() - t0

    chunk = max(60, -(-len(exprs) // (2 * core.NPROC)))
    bad, errs = core.coq_eval_bools(ctx.prop, IMPORTS, exprs, chunk=chunk)
    tie_breaks += [{"kind": "coq-eval", "what": "model evaluation shard failed", "detail": t} for _, t in errs]

    by_key = {}
    badset = set(bad)
    for i in bad:
        kind, c, impl, _ = info[i]
        if kind == "generator":
            tie_breaks.append({"kind": "harness", "what": "the generator's copy of the model writer disagrees with the Coq writer", "detail": exprs[i][:1500]})
            continue
        if kind == "model-vs-rfc-reading" and c["null_record"] and (i - 1) not in badset:
            # implementation and mirror agree with each other but not with the RFC reading of a record that is one empty field
            by_key.setdefault("parse:record-with-single-empty-field", []).append((c, info[i - 1][2]))
            continue
        if kind == "model-vs-rfc-reading":
            tie_breaks.append({"kind": "harness", "what": "the model parser reads a generator-written RFC 4180 text differently from the generator's intention",
                               "detail": {"text": c["text"], "intended": frame_prolog(c["fr"]), "expr": exprs[i][:1200]}})
            continue
        key = kind
        if kind.startswith("write:"):
            key += ":frame-with-string-fields" if has_string(c["fr"]) else ":numbers-and-nulls-only"
        by_key.setdefault(key, []).append((c, impl))
    dist["mismatches_by_key"] = {k: len(v) for k, v in by_key.items()}
    tie_breaks = tie_breaks[:12]
    for key, lst in sorted(by_key.items()):
        lst.sort(key=lambda ci: len(ci[0]["text"]))
        for c, impl in lst[:2]:
            if key.startswith("write:"):
                q = "write_csv(F, %s, %s), phrase_from_file(seq(Cs), F), findall(D, phrase(parse_csv(D,%s), Cs), Ds)." % (frame_prolog(c["fr"]), c["wopts"], c["popts"])
                spec = "text that parse_csv//2 reads back as the frame (model writer: %s)" % json.dumps(c["text"], ensure_ascii=False)
            else:
                q = "findall(D, phrase(parse_csv(D,%s), %s), Ds)." % (c["popts"], esc_dq(c["text"]))
                spec = "Ds = [%s] (up to duplicates)" % frame_prolog(c["fr"])
            failures.append({"key": key, "what": "%s (%d such cases in this run)" % (key, len(lst)), "input": q, "impl": impl, "spec": spec,
                             "property_fails": True})

    nontrivial = set()
    for c in lib + rfc:
        if any(ch in c["text"] for ch in '"\r') or "\n" in c["text"]:
            nontrivial.add((c["hdr"], c["sep"], c["text"]))
    samples = [{"options": c["wopts"], "frame": frame_prolog(c["fr"]), "model_text": c["text"]} for c in lib[:4]] + \
              [{"options": c["popts"], "rfc_text": c["text"], "intended": frame_prolog(c["fr"])} for c in rfc[:4]]
    return {
        "evaluations": len(exprs),
        "distinct_nontrivial": len(nontrivial),
        "rule": ("library-style cases: a random frame (<= 4x4; strings from an adversarial pool with separators, quotes, CR/LF, blanks, numeric-looking and "
                 "non-ASCII text, integers incl. bignums, floats, []) and random write options (with_header, token_separator in , ; TAB | SPACE, "
                 "line_separator in LF CRLF CR, null_value in empty/'NULL'/'\\N'/0/''): (A) the generator's writer copy = model writer, (B) the "
                 "implementation parses the model's text to the model's reading, (C) the model reads write_csv/3's text as it reads its own, (D) the "
                 "implementation re-reads write_csv/3's text to the same. RFC-style cases: generator-written documents with minimal/random quoting, mixed "
                 "line ends, optional final line end: implementation and model parse alike, and as the generator intended. All solutions are collected "
                 "with findall/3 and compared de-duplicated. Non-trivial = distinct (options, text) with a quote or a line break in the text."),
        "samples": samples,
        "notes": ["generation + implementation run %.1fs, Coq evaluation %.1fs" % (t_impl, time.time() - t0 - t_impl)],
        "distribution": dist,
        "failures": failures,
        "tie_breaks": tie_breaks,
    }
