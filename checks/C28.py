"""C28 -- Embedded queries return faithful answers across a query history."""
import json
from vlib import core, terms

META = {
    "level": "proof",
    "text": ("Coq theorems over an impl-mirror of the iterator of Machine::run_query (coq/C28/Iter.v: run_query with allocate_stub_choice_point and ball.reset(), QueryState::next "
             "with its `called && b <= stub_b` test, the ball test after dispatch_loop, the LIB_QUERY_SUCCESS / BREAK_FROM_DISPATCH_LOOP_LOC cases and backtrack(), Drop with the "
             "discard of frames above the stub and trust_me), over the registers it reads and writes (or-stack depth b, the ball, called). iterator_refines_stream: for EVERY machine "
             "state left by earlier queries (any or-stack depth, any stale ball), every query and every number of answers pulled, the iterator yields exactly the first answers of the "
             "specification's stream (solutions in order, then one exception, or the end with the false marker); mirror_history_is_spec_history: every history of queries with any "
             "prefix consumed observes, query by query, what a fresh machine gives; or_stack_restored: the or-stack is as before the history; plus the specification theorems "
             "(iterator_yields_solutions_in_order, exception_once_then_end, end_marker_rule, history_independence, partial_consumption_is_prefix) and two Examples showing that the two "
             "repairs made in /repo (ball.reset(), discard above the stub) are necessary in the mirror. The WAM below the iterator is an oracle: the script of what successive "
             "dispatch_loop runs do (wfb: solutions leaving choice points, then a last solution / failure / exception). Tie: histories on one Machine with partially consumed "
             "iterators are compared in Coq with the mirror run on the stream found on a fresh Machine and by findall/3 inside Prolog, and the real registers b, stack top and tr "
             "after every step (footprint hook) must be what or_stack_restored says."),
    "note": ("Trusted: Coq kernel + vm_compute; harness vrun (steps with \"take\": k pull k answers and drop the iterator; footprint after each step through the verif_hooks feature); "
             "the oracle assumption wfb about dispatch_loop (b > stub_b after a solution iff alternatives remain; failure and exceptions end at the stub) is NOT proved -- it is what the "
             "differential part exercises; Term::from_heapcell (answer rendering) and the parser are outside the mirror and are covered by the differential comparison only. "
             "Queries that fail to parse make run_query panic by design (expect) and are not generated."),
    "technique": "Coq refinement proof (impl-mirror of the run_query iterator state machine = answer-stream specification, for every history) + differential histories (same machine vs fresh machine vs findall/3) + register footprints through a hook",
    "coq_targets": ["C28/Props.vo"], "coq_dirs": ["C28"], "props": "C28/Props.v",
    "trusted_base": ["Coq 8.16.1 kernel, vm_compute", "harness vrun + tools/vlib", "src/machine/lib_machine/verif_footprint.rs (hook)"],
    "assumptions": ["a fresh Machine is the reference for what a query returns", "dispatch_loop behaves as a well-formed script (wfb) for every query"],
}
IMPORTS = "From V Require Import C28.Model C28.Iter."

PROG = ":- use_module(library(lists)).\n:- use_module(library(between)).\n:- dynamic(cnt/1).\nnd(1). nd(2). nd(3).\ndet(7).\np(a,1). p(b,2). p(c,3).\n"
# (query, variables to collect inside findall or None when the query throws / has side effects)
POOL = [
    ("X = 1.", "X"), ("member(X, [a,b,c]).", "X"), ("member(X, [a,b,c]), member(Y, [1,2]).", "X-Y"), ("nd(X).", "X"), ("det(X).", "X"), ("p(b, Y).", "Y"),
    ("p(K, V), V > 1.", "K-V"), ("fail.", ""), ("true.", ""), ("nd(X), X > 5.", "X"), ("between(1, 4, X), X mod 2 =:= 0.", "X"),
    ("X = f(Y, Z), Y = Z.", "X"), ("X = Y.", "X-Y"), ("_A = 1, X = 2.", "X"), ("X = \"abc\", Y = [a|T].", "X-Y"), ("X = [a|b].", "X"), ("X is 2^70, Y is 1 rdiv 3, Z is 1.5.", "X-Y-Z"),
    ("atom_length(L, N).", None), ("X is foo + 1.", None), ("throw(my_ball).", None), ("throw(ball(f(X), \"s\", 1.5)).", None), ("member(X, [1,2,a]), Y is X + 1.", None),
    ("nd(X), ( X =:= 2 -> throw(two) ; true ).", None), ("catch(atom_length(L, N), error(E, _), true).", "E"), ("length(L, N), N >= 2, !.", "N"),
    ("findall(X, nd(X), L).", "L"), ("nd(X), nd(Y), X < Y.", "X-Y"), ("call(nd, X).", "X"), ("\\+ nd(9).", ""), ("nd(X) ; det(X).", "X"), ("atom_length(abc, N).", "N"),
]
UPDATES = ["assertz(cnt(%d)).", "retract(cnt(%d)).", "asserta(cnt(%d))."]


def leaf_ids(ans, table):
    """map a vrun answer list to Coq leaves, interning answers by their canonical JSON"""
    out = []
    for a in ans:
        if a == "false": out.append("LFalse"); continue
        if a == "more": continue
        if a == "true": key = "sol:true"
        elif isinstance(a, dict) and "b" in a: key = "sol:" + json.dumps(a["b"], sort_keys=True)
        elif isinstance(a, dict) and ("err" in a or "exc" in a): key = "exc:" + json.dumps(a, sort_keys=True)
        else: return None
        i = table.setdefault(key, len(table))
        out.append(("LExc %d%%N" if key.startswith("exc:") else "LSol %d%%N") % i)
    return out


def run(ctx):
    rng = ctx.rng
    failures, tie_breaks = [], []
    # 1. reference: every pool query alone on a fresh machine, fully consumed; and its solutions inside Prolog
    refjobs = []
    for i, (q, vs) in enumerate(POOL):
        steps = [{"consult": PROG}, {"q": q, "take": 40}]
        if vs is not None:
            steps.append({"q": "findall(%s, (%s), Sols), length(Sols, Len)." % (vs or "t", q.rstrip(".")), "take": 2})
        refjobs.append({"id": "ref%d" % i, "fresh": True, "steps": steps, "timeout_ms": 20000})
    ref = core.vrun_query(ctx.prop, refjobs, tag="ref")
    full, table = {}, {}
    bools, bmeta = [], []
    for i, (q, vs) in enumerate(POOL):
        rec = ref.get("ref%d" % i, {})
        rs = rec.get("results") or []
        ans = rs[1] if len(rs) > 1 else None
        ids = leaf_ids(ans or [{"panic": 1}], table) if ans is not None else None
        if ids is None:
            failures.append({"key": "embed:panic-on-fresh-machine", "what": "a query panics or gives no result on a fresh Machine", "input": q, "impl": json.dumps(rec)[:300], "spec": "answers", "property_fails": True})
            continue
        full[i] = ids
        if vs is not None:
            inner = rs[2] if len(rs) > 2 else None
            n = None
            if inner and isinstance(inner[0], dict) and "b" in inner[0]:
                n = int(inner[0]["b"].get("Len", {}).get("i", "-1"))
            if n is None:
                failures.append({"key": "embed:findall-reference-failed", "what": "findall/3 of the query inside Prolog did not give a solution list", "input": q, "impl": json.dumps(inner)[:200], "spec": "", "property_fails": False})
                continue
            sols = [x for x in ids if x.startswith("LSol")]
            # the iterator must yield exactly as many solutions as findall/3 finds, then end (with the false marker when none)
            bools.append("check_full [%s] None [%s] && Nat.eqb %d%%nat %d%%nat" % ("; ".join(s.split()[1] for s in sols), "; ".join(ids), len(sols), n)); bmeta.append(("full", q))
        else:
            # throwing queries: solutions, then exactly one exception as the last item
            ok = ids and ids[-1].startswith("LExc") and all(x.startswith("LSol") for x in ids[:-1])
            if not ok:
                failures.append({"key": "embed:exception-shape", "what": "a throwing query does not yield its solutions followed by exactly one exception", "input": q, "impl": json.dumps(ans)[:300], "spec": "sols ++ [exception]", "property_fails": True})
    # 2. histories on one machine
    n_hist = ctx.scale(300, 6000)
    jobs, plans = [], {}
    for h in range(n_hist):
        steps, plan = [{"consult": PROG}], []
        db = []
        for _ in range(rng.choice([3, 5, 8])):
            if rng.random() < 0.2:
                v = rng.randrange(1, 5); u = rng.choice(UPDATES) % v
                take = rng.choice([0, 1, 2])
                steps.append({"q": u, "take": take}); plan.append(("upd", u, take))
                if take > 0:
                    if u.startswith("assertz"): db.append(v)
                    elif u.startswith("asserta"): db.insert(0, v)
                    else:
                        # retract/1 is re-entrant: every answer that is pulled removes one more matching clause
                        for _ in range(take):
                            if v in db: db.remove(v)
                steps.append({"q": "findall(X, cnt(X), L).", "take": 2}); plan.append(("db", list(db)))
            else:
                i = rng.randrange(len(POOL))
                if i not in full: continue
                take = rng.choice([0, 1, 1, 2, 3, 40])
                steps.append({"q": POOL[i][0], "take": take}); plan.append(("q", i, take))
        jobs.append({"id": "h%d" % h, "fresh": True, "steps": steps, "footprint": True, "timeout_ms": 30000}); plans["h%d" % h] = plan
    res = core.vrun_query(ctx.prop, jobs, tag="hist")
    nontriv = 0
    dist = {"partial_drops": 0, "queries": 0, "stack_top_after_history": {}}
    samples = []
    for jid, plan in plans.items():
        rec = res.get(jid, {})
        rs = rec.get("results") or []
        partial = False
        for k, st in enumerate(plan):
            ans = rs[k + 1] if len(rs) > k + 1 else None
            if ans is None or (ans and isinstance(ans[0], dict) and "panic" in ans[0]) or "crash" in rec or "hang" in rec:
                failures.append({"key": "embed:history-panic", "what": "a query of a history panicked / the process died", "input": "%s step %d: %r" % (jid, k, st), "impl": json.dumps(ans if ans is not None else rec)[:300],
                                 "spec": "as on a fresh machine", "property_fails": True})
                break
            if st[0] == "q":
                _, i, take = st
                ids = leaf_ids(ans, table)
                dist["queries"] += 1
                if take < len(full[i]): partial = True; dist["partial_drops"] += 1
                if ids is None:
                    failures.append({"key": "embed:history-panic", "what": "unreadable answer", "input": "%s step %d" % (jid, k), "impl": json.dumps(ans)[:200], "spec": "", "property_fails": True}); break
                fsols = [x.split()[1] for x in full[i] if x.startswith("LSol")]
                fexc = [x.split()[1] for x in full[i] if x.startswith("LExc")]
                lc = "true" if (full[i] and full[i][-1] == "LFalse" and fsols) else "false"
                bools.append("check_prefix [%s] %d%%nat [%s] && check_iter [%s] %s %s %d%%nat [%s]" % (
                    "; ".join(full[i]), take, "; ".join(ids), "; ".join(fsols), ("(Some %s)" % fexc[0]) if fexc else "None", lc, take, "; ".join(ids))); bmeta.append(("hist", jid, k, POOL[i][0], take, [s["q"] for s in jobs[int(jid[1:])]["steps"][1:k + 2]]))
            elif st[0] == "db":
                got = None
                if ans and isinstance(ans[0], dict) and "b" in ans[0]:
                    t = terms.from_json(ans[0]["b"]["L"]); items, _ = terms.list_view(t); got = [x[1] for x in items]
                if got != st[1]:
                    failures.append({"key": "embed:database-after-history", "what": "the database seen by a later query does not reflect the updates of earlier (possibly partially consumed) queries",
                                     "input": "%s step %d" % (jid, k), "impl": json.dumps(ans)[:200], "spec": str(st[1]), "property_fails": True})
        if partial: nontriv += 1
        fps = rec.get("footprints") or []
        # the registers the mirror's or_stack_restored speaks about: after every step they are what they were after the consult
        if fps and fps[0]:
            dist["register_footprints_compared"] = dist.get("register_footprints_compared", 0) + len(fps) - 1
            for k in range(1, len(fps)):
                diff = {r: (fps[0].get(r), fps[k].get(r)) for r in ("b", "stack_top", "tr") if fps[k] and fps[k].get(r) != fps[0].get(r)}
                if diff:
                    tie_breaks.append({"kind": "correspondence", "key": "embed:registers-not-restored",
                                       "what": "after a query (consumed fully or partially) the or-stack / trail registers are not what the mirror's or_stack_restored says (as before the query)",
                                       "detail": {"input": "%s step %d: %r" % (jid, k, jobs[int(jid[1:])]["steps"][k]), "impl": diff, "theorem": "or_stack_restored (coq/C28/Props.v)"}})
                    break
        if fps and fps[-1]:
            b = min(fps[-1].get("stack_top", 0) // 1000, 10)
            dist["stack_top_after_history"][b] = dist["stack_top_after_history"].get(b, 0) + 1
        if len(samples) < 4: samples.append({"history": [s.get("q") + " take=%s" % s.get("take") for s in jobs[int(jid[1:])]["steps"][1:]], "answers": json.dumps(rs[1:])[:300]})
    bad, errs = core.coq_eval_bools(ctx.prop, IMPORTS, bools, chunk=500)
    for _, t in errs: tie_breaks.append({"kind": "coq-eval", "what": "model evaluation shard failed", "detail": t})
    for j in bad[:10]:
        m = bmeta[j]
        if m[0] == "full":
            failures.append({"key": "embed:stream-shape", "what": "the answer stream is not 'the solutions findall/3 finds, in order, then the end marker'", "input": m[1], "impl": bools[j][:300], "spec": "check_full", "property_fails": True})
        else:
            failures.append({"key": "embed:history-dependence", "what": "a query on a Machine with a history answers differently from the same query on a fresh Machine",
                             "input": "history %s ; observed query %r take=%d" % (m[5], m[3], m[4]), "impl": bools[j][:300], "spec": "prefix of the fresh-machine stream", "property_fails": True})
    tie_breaks += [{"kind": "correspondence", "what": f["what"], "key": f["key"], "detail": f} for f in failures if not f.get("property_fails")]
    failures = [f for f in failures if f.get("property_fails")]
    return {"evaluations": len(bools), "distinct_nontrivial": nontriv,
            "rule": ("%d pool queries (deterministic, nondeterministic, failing, throwing error/2 and other balls, exceptions after some solutions, _-variables, variable-variable bindings, strings, improper lists, "
                     "bignums/rationals/floats) each run alone on a fresh Machine (reference stream, checked in Coq against findall/3's solution count and the stream shape), then random histories of 3-8 steps on one "
                     "Machine, each query pulled for 0,1,2,3 or all answers and dropped, interleaved with assertz/asserta/retract and database listings; every observed prefix must equal the prefix of the reference "
                     "stream. Non-trivial = history in which at least one iterator was dropped before its stream ended." % len(POOL)),
            "samples": samples, "distribution": dist, "failures": failures, "tie_breaks": tie_breaks}
