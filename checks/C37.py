"""C37 -- Hashes and encodings are byte-exact."""
import base64, hashlib, json
from vlib import core

META = {
    "level": "proof",
    "text": ("Coq theorems over ALL byte lists / code-point lists: hex, Base64 (4 option combinations) and UTF-8 round trips, output shapes and "
             "length formulas, 'the strict decoders accept exactly the encoder's output', output lengths of all 11 hash algorithms, SHA-2 / SHA-3 / "
             "RIPEMD-160 padding (whole blocks, 0x80 + bit length / 0x06..0x80), HMAC = RFC 2104 with a one-block key, ChaCha20-Poly1305 "
             "decrypt-after-encrypt = plaintext for every key/nonce/aad/plaintext. The primitives themselves (SHA-256/384/512/512-256, SHA3-224/256/"
             "384/512, BLAKE2s-256, BLAKE2b-512, RIPEMD-160, HMAC, ChaCha20, Poly1305) are reference definitions over N words (FIPS 180-4, FIPS 202, "
             "RFC 7693, RFC 2104, RFC 8439) validated inside Coq (C37/Vectors.v) by the published test vectors: the vectors are tests, not theorems. "
             "The model is tied to the code by running hex_bytes/2, chars_base64/3, chars_utf8bytes/2, crypto_data_hash/3 (every algorithm) and "
             "crypto_data_encrypt/6 on generated inputs (block boundaries, non-ASCII, both encodings, HMAC keys shorter/equal/longer than the block) "
             "and comparing the output bytes with the model inside Coq (vm_compute)."),
    "note": ("Trusted: Coq kernel + vm_compute; harness vrun; the Python generator; hex and UTF-8 models mirror the Prolog of crypto.pl / "
             "charsio.pl (utf8_decode mirrors the lenient decode_utf8//1 including U+FFFD replacement; continuation//3 is unrolled); Base64, the "
             "hashes, HMAC and ChaCha20-Poly1305 are reference definitions transcribed from the standards, not mirrors of the base64/ring/sha3/"
             "blake2/ripemd crates; their correctness as transcriptions rests on the test vectors (and, redundantly, on Python hashlib, against which "
             "sha3_*/blake2*/ripemd160 outputs are also compared). crypto_data_decrypt is exercised only on the implementation (decrypts its own "
             "output; tampered tag/key/aad rejected) while the model side is the theorem aead_encrypt_decrypt. Not covered: crypto_data_hkdf, "
             "crypto_password_hash, ed25519/curve25519 (outside the property text); integer-list input of encoding(octet) (deprecated form). "
             "No axioms (all theorems closed under the global context)."),
    "technique": ("Coq proof (hex_roundtrip, hex_decode_encode, base64_roundtrip, base64_decode_canonical, base64_length, utf8bytes_roundtrip, "
                  "sha_output_length, sha_padding_block_multiple, sha3_padding_block_multiple, other_hash_output_length, hmac_definition, "
                  "aead_encrypt_decrypt) over an impl-mirror (hex, UTF-8) / reference (Base64, SHA-2, SHA-3, BLAKE2, RIPEMD-160, HMAC, "
                  "ChaCha20-Poly1305) model + differential correspondence evaluated in Coq"),
    "design_ref": "DESIGN.md section 8, C37",
    "coq_targets": ["C37/Props.vo", "C37/Vectors.vo"],
    "coq_dirs": ["C37"],
    "props": "C37/Props.v",
    "trusted_base": ["Coq 8.16.1 kernel, vm_compute (no native_compute)", "harness/vrun + tools/vlib (correspondence)",
                     "FIPS 180-4 / FIPS 202 / RFC 7693 / RIPEMD-160 / RFC 2104 / RFC 4648 / RFC 8439 transcribed as Gallina reference definitions "
                     "(validated by published test vectors as Examples in C37/Vectors.v)",
                     "Python hashlib as a second, non-Coq oracle for sha3_*/blake2*/ripemd160"],
    "assumptions": ["inputs are limited to 300 bytes/characters (thorough: 700)",
                    "bytes are integers 0..255 and characters are Unicode scalar values (the model's hypotheses Forall (<256) / valid_cp)"],
}

IMPORTS = "From V Require Import C37.Model C37.Keccak C37.Chacha C37.MoreHashes."
PRELUDE = ":- use_module(library(crypto)).\n:- use_module(library(charsio)).\n:- use_module(library(lists)).\n"
BOUNDARY = [0, 1, 2, 3, 4, 5, 6, 7, 8, 31, 32, 33, 54, 55, 56, 57, 62, 63, 64, 65, 66, 110, 111, 112, 113, 118, 119, 120, 121,
            126, 127, 128, 129, 135, 136, 137, 183, 191, 192, 193, 239, 240, 247, 248, 255, 256, 257, 299, 300]
CP_BOUNDARY = [0, 1, 0x7F, 0x80, 0xFF, 0x100, 0x7FF, 0x800, 0xFFF, 0x1000, 0xD7FF, 0xE000, 0xFEFF, 0xFFFD, 0xFFFE, 0xFFFF,
               0x10000, 0x1F600, 0x3FFFF, 0x40000, 0xFFFFF, 0x100000, 0x10FFFF]
ALGS = {"sha256": ("SHA256", 64, 32), "sha384": ("SHA384", 128, 48), "sha512": ("SHA512", 128, 64), "sha512_256": ("SHA512_256", 128, 32)}
SHA3 = {"sha3_224": 28, "sha3_256": 32, "sha3_384": 48, "sha3_512": 64}
XALG = {"blake2s256": ("BLAKE2S256", 32, 64), "blake2b512": ("BLAKE2B512", 64, 128), "ripemd160": ("RIPEMD160", 20, 64)}   # coq name, digest, block
UNMODELLED = {}
HASHLIB = dict(SHA3, **{a: v[1] for a, v in XALG.items()})   # algorithms ALSO compared with Python hashlib (an oracle outside Coq)


# ------------------------------------------------------------------ text helpers
def pl_ints(xs):
    return "[" + ",".join(str(x) for x in xs) + "]"


def pl_string(codes):
    """A double-quoted Prolog string (double_quotes=chars) holding exactly these character codes."""
    out = ['"']
    for c in codes:
        ch = chr(c)
        if ch.isascii() and ch.isalnum():
            out.append(ch)
        else:
            out.append("\\x%x\\" % c)
    out.append('"')
    return "".join(out)


def coq_list(xs):
    return "[" + ";".join(str(x) for x in xs) + "]%N"


def coq_opt(xs):
    return "None" if xs is None else "(Some %s)" % coq_list(xs)


def coq_bool(b):
    return "true" if b else "false"


def ints_of(term):
    """vrun JSON list of integers -> python list (None when it is something else)."""
    if not isinstance(term, dict) or "l" not in term:
        return None
    out = []
    for x in term["l"]:
        if "i" not in x:
            return None
        out.append(int(x["i"]))
    return out


def first_answer(ans):
    return ans[0] if isinstance(ans, list) and ans else None


def outcome(ans, var):
    """-> ("ok", ints) | ("false",) | ("err", formal-text) | ("other", text)"""
    a = first_answer(ans)
    if a == "false":
        return ("false",)
    if isinstance(a, dict) and "b" in a:
        v = ints_of(a["b"].get(var))
        if v is not None:
            return ("ok", v)
        if isinstance(a["b"].get(var), dict) and "a" in a["b"][var]:
            return ("atom", a["b"][var]["a"])
        return ("other", json.dumps(a)[:300])
    f = core.error_formal(a) if isinstance(a, dict) else None
    if f is not None:
        try:
            return ("err", core.term_text(f))
        except RecursionError:
            return ("err", "(error term too deep to print)")
    return ("other", json.dumps(ans)[:300])


# ------------------------------------------------------------------ generators
def gen_bytes(rng, n, kind=None):
    kind = kind or rng.choice(["rand", "rand", "rand", "ascii", "zero", "ff", "edge", "nul"])
    if kind == "rand":
        return [rng.randrange(256) for _ in range(n)]
    if kind == "ascii":
        return [rng.randrange(32, 127) for _ in range(n)]
    if kind == "zero":
        return [0] * n
    if kind == "ff":
        return [255] * n
    if kind == "nul":
        return [rng.choice([0, 0, 1, 65, 255]) for _ in range(n)]
    return [rng.choice([0, 1, 0x7F, 0x80, 0x81, 0xBF, 0xC0, 0xC2, 0xE0, 0xEF, 0xF0, 0xF4, 0xF8, 0xFB, 0xFE, 0xFF, 61, 43, 47, 45, 95]) for _ in range(n)]


def gen_cp(rng):
    k = rng.random()
    if k < 0.25:
        return rng.randrange(0, 0x80)
    if k < 0.4:
        return rng.randrange(0x80, 0x100)
    if k < 0.55:
        return rng.randrange(0x100, 0x800)
    if k < 0.75:
        while True:
            c = rng.randrange(0x800, 0x10000)
            if not 0xD800 <= c < 0xE000:
                return c
    if k < 0.9:
        return rng.randrange(0x10000, 0x110000)
    return rng.choice(CP_BOUNDARY)


def lengths(ctx, extra_random, cap=None):
    cap = cap or ctx.scale(300, 700)
    ls = [n for n in BOUNDARY if n <= cap]
    if ctx.thorough:
        ls += [n for n in (319, 320, 321, 383, 384, 385, 511, 512, 513, 639, 640, 700) if n <= cap]
    ls += [ctx.rng.randrange(0, cap + 1) for _ in range(extra_random)]
    return ls


def hex_valid(codes):
    return len(codes) % 2 == 0 and all(c < 128 and chr(c) in "0123456789abcdefABCDEF" for c in codes)


def b64_text(bs, pad, url):
    t = (base64.urlsafe_b64encode if url else base64.standard_b64encode)(bytes(bs)).decode()
    return t if pad else t.rstrip("=")


def b64_valid(codes, pad, url):
    """Canonical text for these options (classification of generated cases only; the oracle is the Coq model)."""
    try:
        t = "".join(chr(c) for c in codes)
        t.encode("ascii")
        alpha = "ABCDEFGHIJKLMNOPQRSTUVWXYZabcdefghijklmnopqrstuvwxyz0123456789" + ("-_" if url else "+/")
        if any(ch not in alpha for ch in t.rstrip("=")):
            return False
        raw = base64.b64decode(t.rstrip("=") + "=" * (-len(t.rstrip("=")) % 4), altchars=b"-_" if url else None)
        return b64_text(raw, pad, url) == t
    except Exception:
        return False


def utf8_valid(bs):
    try:
        bytes(bs).decode("utf-8")
        return True
    except Exception:
        return False


def utf8_of(cps):
    return list("".join(chr(c) for c in cps).encode("utf-8"))


# ------------------------------------------------------------------ case construction
# a case: dict(kind, key, query, var, coq(outcome)->expr or None, valid(bool: property-defined result), ident, note)
class Cases:
    def __init__(self):
        self.items = []
        self.seen = set()

    def add(self, kind, ident, query, var, coq, size, valid=True, post=None):
        k = (kind, ident)
        if k in self.seen:
            return
        self.seen.add(k)
        self.items.append({"kind": kind, "ident": ident, "query": query, "var": var, "coq": coq, "valid": valid, "post": post,
                           "size": size})


def opt_list(rng, pad, url):
    """An option list for chars_base64/3 denoting (pad, url), using defaults and both orders."""
    po = "padding(%s)" % ("true" if pad else "false")
    co = "charset(%s)" % ("url" if url else "standard")
    forms = [[po, co], [co, po]]
    if pad:
        forms.append([co])
    if not url:
        forms.append([po])
    if pad and not url:
        forms.append([])
    return "[" + ",".join(rng.choice(forms)) + "]"


def build_cases(ctx):
    rng = ctx.rng
    C = Cases()
    S = lambda q, t: ctx.scale(q, t)

    # ---- hex_bytes/2, both directions
    for n in lengths(ctx, S(25, 400)):
        bs = gen_bytes(rng, n)
        q = "hex_bytes(_H, %s), hex_bytes(_H, Back), maplist(char_code, _H, Hc)." % pl_ints(bs)
        C.add("hex_enc", tuple(bs), q, "Hc", lambda o, bs=bs: "check_hex_enc %s %s" % (coq_list(bs), coq_list(o[1])) if o[0] == "ok" else None,
              len(bs), post=("Back", bs))
    for n in lengths(ctx, S(15, 300), cap=S(150, 350)):
        bs = gen_bytes(rng, n)
        txt = "".join("%02x" % b for b in bs)
        style = rng.choice(["lower", "upper", "mixed", "mixed"])
        if style == "upper":
            txt = txt.upper()
        elif style == "mixed":
            txt = "".join(ch.upper() if rng.random() < 0.5 else ch for ch in txt)
        codes = [ord(c) for c in txt]
        valid = True
        if rng.random() < 0.45 and True:
            valid = False
            m = rng.choice(["odd", "badchar", "badchar", "nonascii", "space"])
            if m == "odd" or not codes:
                codes = codes + [rng.choice([48, 97, 70])]
            else:
                i = rng.randrange(len(codes))
                codes[i] = {"badchar": rng.choice([103, 71, 47, 58, 64, 96, 0, 120]), "nonascii": rng.choice([0xFF10, 0xE9, 0x430]),
                            "space": 32}[m]
        use_str = rng.random() < 0.5
        src = ("_Hs = %s" % pl_string(codes)) if use_str else ("maplist(char_code, _Hs, %s)" % pl_ints(codes))
        # the culprit of domain_error(hex_encoding, Hs) is the whole text: caught inside Prolog (too deep for the answer channel)
        q = "%s, catch(hex_bytes(_Hs, Bs), error(domain_error(hex_encoding, _), _), Bs = hex_encoding_error)." % src
        C.add("hex_dec", tuple(codes), q, "Bs",
              lambda o, codes=codes: "check_hex_dec %s %s" % (coq_list(codes), coq_opt(o[1] if o[0] == "ok" else None))
              if o[0] == "ok" or o == ("atom", "hex_encoding_error") else None, len(codes), valid=hex_valid(codes))

    # ---- chars_base64/3, both directions, the four option combinations
    for pad in (True, False):
        for url in (True, False):
            for n in lengths(ctx, S(12, 300), cap=S(300, 700)):
                if n > 12 and n not in (55, 56, 57, 63, 64, 65, 127, 128, 129, 255, 256, 257, 300) and rng.random() < 0.6:
                    continue
                bs = gen_bytes(rng, n)
                if rng.random() < 0.3 and n >= 3:   # force the characters 62 and 63 of the alphabet
                    i = rng.randrange(0, n - 2)
                    bs[i:i + 3] = rng.choice([[0xfb, 0xff, 0xbf], [0xff, 0xff, 0xff], [0x03, 0xef, 0xbe], [0xfb, 0xef, 0xff]])
                opts = opt_list(rng, pad, url)
                use_str = rng.random() < 0.5
                src = ("_Cs = %s" % pl_string(bs)) if use_str else ("maplist(char_code, _Cs, %s)" % pl_ints(bs))
                q = ("%s, chars_base64(_Cs, _B, %s), chars_base64(_Cs2, _B, %s), maplist(char_code, _B, Bc), "
                     "maplist(char_code, _Cs2, Back).") % (src, opts, opts)
                C.add("b64_enc", (pad, url, tuple(bs)), q, "Bc",
                      lambda o, bs=bs, pad=pad, url=url: "check_b64_enc %s %s %s %s" % (coq_bool(pad), coq_bool(url), coq_list(bs), coq_list(o[1]))
                      if o[0] == "ok" else None, len(bs), post=("Back", bs))
            for n in lengths(ctx, S(14, 300), cap=S(120, 300)):
                if n > 10 and rng.random() < 0.5:
                    continue
                bs = gen_bytes(rng, n)
                enc = (base64.urlsafe_b64encode if url else base64.standard_b64encode)(bytes(bs)).decode()
                if not pad:
                    enc = enc.rstrip("=")
                codes = [ord(c) for c in enc]
                valid = True
                if rng.random() < 0.6:
                    valid = False
                    m = rng.choice(["padflip", "trailbits", "othercharset", "space", "newline", "midpad", "nonascii", "drop", "extra", "badchar"])
                    if m == "padflip":       # padded text for padding(false) and unpadded text for padding(true)
                        codes = [ord(c) for c in b64_text(bs, not pad, url)]
                    elif m == "trailbits" and len(bs) % 3 != 0:
                        k = len(enc.rstrip("=")) - 1
                        alpha = "ABCDEFGHIJKLMNOPQRSTUVWXYZabcdefghijklmnopqrstuvwxyz0123456789" + ("-_" if url else "+/")
                        v = alpha.index(enc[k])
                        codes[k] = ord(alpha[v | rng.choice([1, 2, 3] if len(bs) % 3 == 2 else [1, 2, 4, 8, 15])])
                    elif m == "othercharset":
                        codes = [ord(c) for c in (("+/" if url else "-_") + rng.choice(["AA", "/+" if url else "_-"]))] + codes
                    elif m in ("space", "newline") and codes:
                        codes.insert(rng.randrange(len(codes) + 1), 32 if m == "space" else 10)
                    elif m == "midpad" and len(codes) >= 4:
                        codes[rng.randrange(0, len(codes) - 1)] = 61
                    elif m == "nonascii" and codes:
                        codes[rng.randrange(len(codes))] = rng.choice([0xE9, 0x100, 0x20AC, 0xFF21])
                    elif m == "drop" and codes:
                        del codes[rng.randrange(len(codes))]
                    elif m == "extra":
                        codes.append(rng.choice([65, 61, 48]))
                    elif m == "badchar" and codes:
                        codes[rng.randrange(len(codes))] = rng.choice([0, 33, 42, 46, 58, 64, 91, 96, 123, 126, 127])
                opts = opt_list(rng, pad, url)
                use_str = rng.random() < 0.5
                src = ("_B = %s" % pl_string(codes)) if use_str else ("maplist(char_code, _B, %s)" % pl_ints(codes))
                q = "%s, chars_base64(_Cs, _B, %s), maplist(char_code, _Cs, Out)." % (src, opts)
                C.add("b64_dec", (pad, url, tuple(codes)), q, "Out",
                      lambda o, codes=codes, pad=pad, url=url: "check_b64_dec %s %s %s %s" % (
                          coq_bool(pad), coq_bool(url), coq_list(codes), coq_opt(o[1] if o[0] == "ok" else None))
                      if o[0] in ("ok", "false") else None, len(codes), valid=b64_valid(codes, pad, url))

    # ---- chars_utf8bytes/2, both directions
    for n in lengths(ctx, S(30, 500), cap=S(200, 500)):
        if n > 70 and rng.random() < 0.5:
            continue
        cps = [gen_cp(rng) for _ in range(n)]
        use_str = rng.random() < 0.5
        src = ("_Cs = %s" % pl_string(cps)) if use_str else ("maplist(char_code, _Cs, %s)" % pl_ints(cps))
        q = "%s, chars_utf8bytes(_Cs, Bs), chars_utf8bytes(_Cs2, Bs), maplist(char_code, _Cs2, Back)." % src
        C.add("utf8_enc", tuple(cps), q, "Bs",
              lambda o, cps=cps: "check_utf8_enc %s %s" % (coq_list(cps), coq_list(o[1])) if o[0] == "ok" else None, len(cps), post=("Back", cps))
    for cp in CP_BOUNDARY:
        q = "maplist(char_code, _Cs, %s), chars_utf8bytes(_Cs, Bs)." % pl_ints([cp])
        C.add("utf8_enc", (cp,), q, "Bs", lambda o, cp=cp: "check_utf8_enc %s %s" % (coq_list([cp]), coq_list(o[1])) if o[0] == "ok" else None, 1)
    for n in lengths(ctx, S(40, 600), cap=S(120, 300)):
        if n > 40 and rng.random() < 0.5:
            continue
        valid = rng.random() < 0.4
        if valid:
            bs = utf8_of([gen_cp(rng) for _ in range(n)])
        else:
            bs = []
            while len(bs) < n:
                k = rng.random()
                if k < 0.35:
                    bs += utf8_of([gen_cp(rng)])
                elif k < 0.5:
                    e = utf8_of([gen_cp(rng)])
                    bs += e[:rng.randrange(1, len(e) + 1)] if len(e) > 1 else e        # truncated group
                elif k < 0.6:
                    bs += rng.choice([[0xC0, 0x80], [0xC1, 0xBF], [0xE0, 0x80, 0x80], [0xE0, 0x9F, 0xBF], [0xF0, 0x80, 0x80, 0x80],
                                      [0xF0, 0x8F, 0xBF, 0xBF]])                      # overlong forms
                elif k < 0.68:
                    bs += rng.choice([[0xED, 0xA0, 0x80], [0xED, 0xBF, 0xBF], [0xF4, 0x90, 0x80, 0x80], [0xF7, 0xBF, 0xBF, 0xBF]])
                else:
                    bs += [rng.choice([0x80, 0xBF, 0xC2, 0xDF, 0xE0, 0xEF, 0xF0, 0xF4, 0xF5, 0xF8, 0xFC, 0xFE, 0xFF, 0x41, 0x00])]
        q = "chars_utf8bytes(_Cs, %s), maplist(char_code, _Cs, Out)." % pl_ints(bs)
        C.add("utf8_dec", tuple(bs), q, "Out",
              lambda o, bs=bs: "check_utf8_dec %s %s" % (coq_list(bs), coq_opt(o[1] if o[0] == "ok" else None))
              if o[0] == "ok" or (o[0] == "err" and o[1].startswith("'representation_error'('character_code'")) else None, len(bs),
              valid=utf8_valid(bs))
    return C


def build_hash_cases(ctx, C):
    rng = ctx.rng
    S = lambda q, t: ctx.scale(q, t)
    cap = S(300, 700)

    def add_hash(alg, enc, key, codes, use_str, explicit_default=False):
        calg = ALGS[alg][0]
        opts = []
        if not (alg == "sha256" and explicit_default):
            opts.append("algorithm(%s)" % alg)
        if enc is not None:
            opts.append("encoding(%s)" % enc)
        if key is not None:
            opts.append("hmac(%s)" % pl_ints(key))
        rng.shuffle(opts)
        octet = enc == "octet"
        src = ("_Cs = %s" % pl_string(codes)) if use_str else ("maplist(char_code, _Cs, %s)" % pl_ints(codes))
        verify = ""
        if key is not None and alg != "sha512_256":
            verify = ", crypto_data_hash(_Cs, _H, [%s])" % ",".join(opts)     # HMAC verification mode must accept its own tag
        q = "%s, crypto_data_hash(_Cs, _H, [%s])%s, maplist(char_code, _H, Hc)." % (src, ",".join(opts), verify)
        C.add("hash", (alg, enc, tuple(key) if key is not None else None, tuple(codes)), q, "Hc",
              lambda o: "check_hash %s %s %s %s %s" % (calg, coq_bool(octet), coq_opt(key), coq_list(codes), coq_opt(o[1] if o[0] == "ok" else None))
              if o[0] == "ok" or o[0] == "false" or (o[0] == "err" and o[1].startswith("'domain_error'('octet_character'")) else None, len(codes))

    for alg in ALGS:
        ls = [n for n in BOUNDARY if n <= cap]
        if not ctx.thorough:
            # quick tier: dense boundaries for sha256 and sha512 (the two compression functions); sha384 and sha512_256
            # differ from sha512 only in the initial value and the truncation
            if alg == "sha256":
                ls = [n for n in ls if n not in (4, 5, 6, 7, 8, 239, 240, 299)]
            elif alg == "sha512":
                ls = [n for n in ls if n in (0, 1, 3, 55, 56, 64, 110, 111, 112, 113, 119, 120, 127, 128, 129, 239, 240, 247, 248, 255, 256, 300)]
            else:
                ls = [n for n in ls if n in (0, 1, 111, 112, 127, 128, 129, 240, 300)]
        else:
            ls += [383, 384, 385, 511, 512, 513, 639, 640, 700]
        ls += [rng.randrange(0, cap + 1) for _ in range(S(6 if alg in ("sha256", "sha512") else 3, 80))]
        for n in ls:
            add_hash(alg, "octet", None, gen_bytes(rng, n), rng.random() < 0.5)
        # utf8 (explicit or default) with non-ASCII characters: the byte length differs from the character count
        for _ in range(S(10 if alg == "sha256" else 5, 120)):
            n = rng.choice([1, 2, 5, 13, 14, 15, 16, 20, 21, 22, 27, 28, 29, 31, 32, 33, 40, 55, 56, 63, 64, 100])
            cps = [gen_cp(rng) for _ in range(n)]
            add_hash(alg, rng.choice(["utf8", None]), None, cps, rng.random() < 0.5, explicit_default=rng.random() < 0.5)
        # octet with a character above 255: domain_error
        cps = gen_bytes(rng, 5) + [rng.choice([256, 0x20AC, 0x1F600])] + gen_bytes(rng, 3)
        add_hash(alg, "octet", None, cps, False)
        # HMAC: keys shorter / equal / longer than the block, and the digest length
        B = ALGS[alg][1]
        klens = [0, 1, 20, ALGS[alg][2], B - 1, B, B + 1, 2 * B, 2 * B + 3]
        for kl in klens:
            for n in rng.sample([0, 1, 55, 56, 64, 111, 112, 128, 200, 300], S(2, 6) if alg == "sha256" else S(1, 6)):
                key = gen_bytes(rng, kl, "rand")
                if rng.random() < 0.5:
                    add_hash(alg, "octet", key, gen_bytes(rng, n), rng.random() < 0.5)
                else:
                    add_hash(alg, rng.choice(["utf8", None]), key, [gen_cp(rng) for _ in range(min(n, 80))], rng.random() < 0.5)


def build_sha3_cases(ctx, C):
    """sha3_* (check_hash3) and blake2s256 / blake2b512 / ripemd160 (check_hashx)."""
    rng = ctx.rng
    S = lambda q, t: ctx.scale(q, t)
    specs = []
    for alg, dlen in SHA3.items():
        rate = 200 - 2 * dlen
        specs.append((alg, "check_hash3 %d" % dlen, [0, 1, rate - 2, rate - 1, rate, rate + 1], rate))
    for alg, (cname, dlen, B) in XALG.items():
        specs.append((alg, "check_hashx %s" % cname, [0, 1, 55, 56, B - 1, B, B + 1, 2 * B - 1, 2 * B, 2 * B + 1], B))
    for alg, fn, ls, B in specs:
        ls = ls + [rng.randrange(2, 301) for _ in range(S(1, 40))]
        if ctx.thorough:
            ls += [2 * B - 1, 2 * B, 2 * B + 1, 3 * B - 1, 3 * B, 3 * B + 1, 4 * B, 5 * B]
        for n in ls:
            bs = gen_bytes(rng, n)
            use_str = rng.random() < 0.5
            src = ("_Cs = %s" % pl_string(bs)) if use_str else ("maplist(char_code, _Cs, %s)" % pl_ints(bs))
            q = "%s, crypto_data_hash(_Cs, _H, [algorithm(%s),encoding(octet)]), maplist(char_code, _H, Hc)." % (src, alg)
            C.add("hash3", (alg, "octet", tuple(bs)), q, "Hc",
                  lambda o, bs=bs, fn=fn: "%s true %s %s" % (fn, coq_list(bs), coq_opt(o[1] if o[0] == "ok" else None))
                  if o[0] == "ok" else None, len(bs))
        for _ in range(S(2, 30)):
            cps = [gen_cp(rng) for _ in range(rng.choice([1, 5, 20, 40]))]
            enc = rng.choice(["utf8", None])
            q = "_Cs = %s, crypto_data_hash(_Cs, _H, [algorithm(%s)%s]), maplist(char_code, _H, Hc)." % (pl_string(cps), alg, ",encoding(utf8)" if enc else "")
            C.add("hash3", (alg, enc, tuple(cps)), q, "Hc",
                  lambda o, cps=cps, fn=fn: "%s false %s %s" % (fn, coq_list(cps), coq_opt(o[1] if o[0] == "ok" else None))
                  if o[0] == "ok" else None, len(cps))


def build_side_cases(ctx):
    """Second-oracle cases (Python hashlib for sha3/blake2/ripemd160) and encrypt/decrypt round trips on the implementation."""
    rng = ctx.rng
    S = lambda q, t: ctx.scale(q, t)
    out = []
    names = {"blake2s256": "blake2s", "blake2b512": "blake2b"}
    have = {a: names.get(a, a) for a in HASHLIB if names.get(a, a) in hashlib.algorithms_available}
    for alg, dlen in HASHLIB.items():
        for n in [0, 1, 3, 55, 56, 63, 64, 65, 71, 72, 73, 103, 104, 105, 127, 128, 129, 135, 136, 137, 143, 144, 145, 200, 300][:S(25, 25)]:
            bs = gen_bytes(rng, n)
            q = "maplist(char_code, _Cs, %s), crypto_data_hash(_Cs, _H, [algorithm(%s),encoding(octet)]), maplist(char_code, _H, Hc)." % (pl_ints(bs), alg)
            exp = hashlib.new(have[alg], bytes(bs)).hexdigest() if alg in have else None
            out.append({"kind": "hashlib", "alg": alg, "query": q, "var": "Hc", "expect": [ord(c) for c in exp] if exp is not None else None,
                        "dlen": dlen, "input": bs})
        for _ in range(S(4, 30)):
            cps = [gen_cp(rng) for _ in range(rng.choice([1, 7, 20, 50]))]
            q = "_Cs = %s, crypto_data_hash(_Cs, _H, [algorithm(%s)]), maplist(char_code, _H, Hc)." % (pl_string(cps), alg)
            exp = hashlib.new(have[alg], bytes(utf8_of(cps))).hexdigest() if alg in have else None
            out.append({"kind": "hashlib", "alg": alg, "query": q, "var": "Hc", "expect": [ord(c) for c in exp] if exp is not None else None,
                        "dlen": dlen, "input": cps})
    A = "'chacha20-poly1305'"
    for n in [0, 1, 15, 16, 17, 63, 64, 65, 127, 128, 129, 255, 256, 300][:S(14, 14)] + [rng.randrange(0, 301) for _ in range(S(10, 200))]:
        enc = rng.choice(["octet", "utf8", None])
        plain = gen_bytes(rng, n) if enc == "octet" else [gen_cp(rng) for _ in range(n)]
        key = gen_bytes(rng, 32, "rand")
        iv = gen_bytes(rng, 12, "rand")
        aad = None
        if rng.random() < 0.5:
            aad = gen_bytes(rng, rng.choice([0, 1, 16, 33]), "ascii") if enc == "octet" else [gen_cp(rng) for _ in range(rng.choice([0, 1, 9]))]
        eo = ([] if enc is None else ["encoding(%s)" % enc]) + ([] if aad is None else ["aad(%s)" % pl_string(aad)])
        eopt = "[" + ",".join(["tag(T)"] + eo) + "]"
        nbytes = len(plain) if enc == "octet" else len(utf8_of(plain))
        key2 = list(key); key2[rng.randrange(32)] ^= 1 << rng.randrange(8)
        q = ("_P = %s, _K = %s, _IV = %s, crypto_data_encrypt(_P, %s, _K, _IV, _CT, %s), "
             "crypto_data_decrypt(_CT, %s, _K, _IV, _P2, %s), maplist(char_code, _P2, Back), length(_CT, Len), maplist(char_code, _CT, CTc), "
             "T = [_T0|_Ts], _T1 is xor(_T0, 1), "
             "( crypto_data_decrypt(_CT, %s, _K, _IV, _, %s) -> BadTag = accepted ; BadTag = rejected ), "
             "( crypto_data_decrypt(_CT, %s, %s, _IV, _, %s) -> BadKey = accepted ; BadKey = rejected ), "
             "( crypto_data_decrypt(_CT, %s, _K, _IV, _, %s) -> BadAad = accepted ; BadAad = rejected ).") % (
            pl_string(plain), pl_ints(key), pl_ints(iv), A, eopt, A, eopt,
            A, "[" + ",".join(["tag([_T1|_Ts])"] + eo) + "]",
            A, pl_ints(key2), eopt,
            A, "[" + ",".join(["tag(T)"] + ([] if enc is None else ["encoding(%s)" % enc]) + ["aad(\"%s\")" % ("zz" if aad is None else "x")]) + "]")
        if aad is not None and aad == [ord("x")]:
            continue
        out.append({"kind": "encdec", "query": q, "plain": plain, "nbytes": nbytes, "enc": enc, "key": key, "iv": iv, "aad": aad or []})
    return out


def wrap(q, outs):
    """Run the goal inside findall/3 so that only the output variables are bound at the top level (intermediate
    strings with NUL characters come back as deeply nested terms that the answer channel cannot carry)."""
    assert q.endswith(".")
    t = "r(%s)" % ",".join(outs)
    return "findall(%s, (%s), [%s])." % (t, q[:-1], t)


# ------------------------------------------------------------------ running
def run_queries(ctx, queries, tag, per_job=30):
    jobs = []
    for i in range(0, len(queries), per_job):
        jobs.append({"id": str(i), "consult": PRELUDE, "queries": queries[i:i + per_job], "max_answers": 4, "timeout_ms": 60000})
    res = core.vrun_query(ctx.prop, jobs, tag=tag)
    out = []
    for i in range(0, len(queries), per_job):
        r = res.get(str(i))
        n = len(queries[i:i + per_job])
        if r is None or "results" not in r:
            out += [[{"other": "no result: %s" % json.dumps(r)[:200]}]] * n
        else:
            rs = r["results"]
            out += [rs[j] if j < len(rs) else [{"other": "missing"}] for j in range(n)]
    return out


def case_cost(c):
    """Rough relative cost of evaluating the model on a case (used only to spread the work evenly over the coqc processes)."""
    if c["kind"] == "hash":
        alg, enc, key, codes = c["ident"]
        B = ALGS[alg][1]
        blocks = len(codes) * (1 if enc == "octet" else 2) // B + 1 + (0 if key is None else 3 + len(key) // B)
        return 0.3 + blocks * (1.0 if B == 64 else 1.6)
    if c["kind"] == "hash3":
        alg = c["ident"][0]
        if alg in SHA3:
            return 0.3 + 3.0 * (len(c["ident"][2]) // (200 - 2 * SHA3[alg]) + 1)
        return 0.3 + 1.2 * (len(c["ident"][2]) // XALG[alg][2] + 1)
    return 0.2 + c["size"] / 300.0


def balance(items, k):
    """Order the items so that consecutive chunks of ceil(n/k) have about the same total cost (last field of an item)."""
    order = sorted(items, key=lambda t: -t[-1])
    bins = [[] for _ in range(k)]
    for j, t in enumerate(order):
        r, q = divmod(j, k)
        bins[q if r % 2 == 0 else k - 1 - q].append(t)      # boustrophedon dealing
    return [t for b in bins for t in b]


def describe(c):
    if c["kind"] == "hash":
        alg, enc, key, codes = c["ident"]
        return "%s:%s:%s" % (alg, enc or "default", "hmac" if key is not None else "plain")
    if c["kind"] == "hash3":
        return "%s:%s" % (c["ident"][0], c["ident"][1] or "default")
    if c["kind"] in ("b64_enc", "b64_dec"):
        return "pad=%s,url=%s" % (c["ident"][0], c["ident"][1])
    return ""


def run(ctx):
    import time
    t0 = time.time()
    C = build_cases(ctx)
    build_hash_cases(ctx, C)
    build_sha3_cases(ctx, C)
    cases = C.items
    side = build_side_cases(ctx)
    for c in cases:
        c["query"] = wrap(c["query"], [c["var"]] + ([c["post"][0]] if c["post"] is not None else []))
    for s in side:
        s["query"] = wrap(s["query"], ["Hc"] if s["kind"] == "hashlib" else ["Back", "Len", "T", "BadTag", "BadKey", "BadAad", "CTc"])
    answers = run_queries(ctx, [c["query"] for c in cases] + [s["query"] for s in side], "impl")
    side_answers = answers[len(cases):]
    answers = answers[:len(cases)]
    t_impl = time.time() - t0

    failures, tie_breaks = [], []
    dist = {"by_kind": {}, "invalid_input_cases": 0, "string_literal_inputs": 0, "hash_lengths": {}, "impl_outcomes": {}}
    light, heavy = [], []      # (case index, expr)
    for i, (c, a) in enumerate(zip(cases, answers)):
        o = outcome(a, c["var"])
        c["outcome"] = o
        dist["by_kind"][c["kind"]] = dist["by_kind"].get(c["kind"], 0) + 1
        dist["impl_outcomes"][o[0]] = dist["impl_outcomes"].get(o[0], 0) + 1
        if not c["valid"]:
            dist["invalid_input_cases"] += 1
        if "_Cs = \"" in c["query"] or "_B = \"" in c["query"] or "_Hs = \"" in c["query"]:
            dist["string_literal_inputs"] += 1
        if c["kind"] == "hash":
            n = len(c["ident"][3])
            b = "%d-%d" % (n // 64 * 64, n // 64 * 64 + 63)
            dist["hash_lengths"][b] = dist["hash_lengths"].get(b, 0) + 1
        expr = c["coq"](o)
        if expr is None:
            fail = {"key": "%s:%s:unexpected-outcome" % (c["kind"], describe(c)), "what": "unexpected outcome (neither a result nor the documented error/failure)",
                    "input": c["query"][:2000], "impl": json.dumps(o)[:500], "spec": "a result or the documented error", "property_fails": True}
            failures.append(fail)
            continue
        # decode-own-output on the implementation itself
        if c["post"] is not None and o[0] == "ok":
            back = ints_of(first_answer(a)["b"].get(c["post"][0]))
            if back != list(c["post"][1]):
                failures.append({"key": "%s:%s:own-output-not-decoded" % (c["kind"], describe(c)), "what": "decoding the implementation's own output does not give the input back",
                                 "input": c["query"][:2000], "impl": json.dumps(back)[:500], "spec": json.dumps(list(c["post"][1]))[:500], "property_fails": True})
        (heavy if c["kind"] in ("hash", "hash3") else light).append((i, expr))

    # ---- side cases
    side_n = {"hashlib": 0, "hashlib_skipped": 0, "encdec": 0, "encdec_model_compared": 0}
    side_exprs = []
    for s, a in zip(side, side_answers):
        fa = first_answer(a)
        if s["kind"] == "hashlib":
            o = outcome(a, "Hc")
            ok_shape = o[0] == "ok" and len(o[1]) == 2 * s["dlen"] and all(chr(x) in "0123456789abcdef" for x in o[1])
            if not ok_shape:
                failures.append({"key": "hash:%s:shape" % s["alg"], "what": "digest is not 2*length lower-case hex characters",
                                 "input": s["query"][:2000], "impl": json.dumps(o)[:400], "spec": "%d hex characters" % (2 * s["dlen"]), "property_fails": True})
            elif s["expect"] is None:
                side_n["hashlib_skipped"] += 1
            else:
                side_n["hashlib"] += 1
                if o[1] != s["expect"]:
                    failures.append({"key": "hash:%s:differs-from-hashlib" % s["alg"], "what": "digest differs from Python hashlib (second oracle, outside Coq)",
                                     "input": s["query"][:2000], "impl": "".join(map(chr, o[1])), "spec": "".join(map(chr, s["expect"])), "property_fails": True})
        else:
            side_n["encdec"] += 1
            good = False
            if isinstance(fa, dict) and "b" in fa:
                b = fa["b"]
                back = ints_of(b.get("Back"))
                ln = b.get("Len", {}).get("i")
                tag = ints_of(b.get("T"))
                good = (back == s["plain"] and ln == str(s["nbytes"]) and tag is not None and len(tag) == 16 and
                        b.get("BadTag", {}).get("a") == "rejected" and b.get("BadKey", {}).get("a") == "rejected" and b.get("BadAad", {}).get("a") == "rejected")
            if good:
                side_exprs.append((s, "check_encrypt %s %s %s %s %s %s %s" % (
                    coq_bool(s["enc"] == "octet"), coq_list(s["key"]), coq_list(s["iv"]), coq_list(s["aad"]), coq_list(s["plain"]),
                    coq_list(ints_of(fa["b"].get("CTc")) or []), coq_list(tag))))
            if not good:
                failures.append({"key": "encrypt-decrypt:%s" % (s["enc"] or "default"), "what": "crypto_data_encrypt then crypto_data_decrypt does not return the plaintext "
                                 "(or the ciphertext length / tag length / tamper rejection is wrong)", "input": s["query"][:3000],
                                 "impl": json.dumps(fa)[:800], "spec": "Back = plaintext codes, Len = %d, 16-byte tag, tampered tag/key/aad rejected" % s["nbytes"],
                                 "property_fails": True})
    # ---- one balanced Coq evaluation for everything (the start-up of a coqc process costs seconds: few, even shards)
    todo = [("case", i, e, case_cost(cases[i])) for i, e in light + heavy]
    todo += [("aead", sc, e, 2.0 + len(sc["plain"]) / 40.0) for sc, e in side_exprs]
    k = max(core.NPROC, -(-len(todo) // 500))
    todo = balance(todo, k)
    bad_idx, errs = core.coq_eval_bools(ctx.prop, IMPORTS, [t[2] for t in todo], chunk=max(1, -(-len(todo) // k)), timeout=2500, tag="cases")
    tie_breaks += [{"kind": "coq-eval", "what": "model evaluation shard failed", "detail": t} for _, t in errs]
    side_n["encdec_model_compared"] = len(side_exprs)
    for j in [j for j in bad_idx if todo[j][0] == "aead"][:5]:
        sc, e = todo[j][1], todo[j][2]
        failures.append({"key": "encrypt:%s:ciphertext-or-tag" % (sc["enc"] or "default"), "what": "ciphertext or tag of crypto_data_encrypt differs from the RFC 8439 model",
                         "input": sc["query"][:3000], "impl": e[-1500:], "spec": core.coq_eval_show(ctx.prop, IMPORTS, "data_encrypt %s %s %s %s %s" % (
                             coq_bool(sc["enc"] == "octet"), coq_list(sc["key"]), coq_list(sc["iv"]), coq_list(sc["aad"]), coq_list(sc["plain"])))[:1500],
                         "property_fails": True})
    bad = [todo[j][1] for j in bad_idx if todo[j][0] == "case"]
    reported = {}
    for i in sorted(bad, key=lambda i: len(cases[i]["query"])):
        c = cases[i]
        key = "%s:%s:%s" % (c["kind"], describe(c), "valid-input" if c["valid"] else "invalid-input")
        if reported.get(key, 0) >= 3:
            continue
        reported[key] = reported.get(key, 0) + 1
        spec = core.coq_eval_show(ctx.prop, IMPORTS, spec_expr(c))
        rec = {"key": key, "what": "implementation output differs from the model", "input": c["query"][:3000],
               "impl": json.dumps(c["outcome"])[:1500], "spec": spec[:1500]}
        if c["valid"]:
            rec["property_fails"] = True
            failures.append(rec)
        else:
            # not a result the property text fixes (rejected / replaced input): the mirrored behaviour drifted
            tie_breaks.append(dict(rec, kind="model-mismatch",
                                   what="behaviour on malformed input differs from the mirrored model (lenient UTF-8 decoding / strict Base64 / hex errors)"))

    t_coq = time.time() - t0 - t_impl
    dist["side_cases"] = side_n
    dist["not_covered_by_model"] = ["crypto_data_decrypt (implementation round trip only; model side is theorem aead_encrypt_decrypt)"]

    nontrivial = sum(1 for c in cases if c["valid"] and c["size"] > 0)
    samples = []
    for k in ("hex_enc", "hex_dec", "b64_enc", "b64_dec", "utf8_enc", "utf8_dec", "hash", "hash3"):
        cs = [c for c in cases if c["kind"] == k and 1 <= c["size"] <= 8 and len(c["query"]) < 500]
        for c in cs[:2 if k == "hash" else 1]:
            samples.append({"query": c["query"], "impl": json.dumps(c["outcome"])[:300]})
    for s, a in list(zip(side, side_answers))[:1]:
        samples.append({"query": s["query"][:400], "impl": json.dumps(first_answer(a))[:300]})
    return {
        "evaluations": len(light) + len(heavy) + side_n["hashlib"] + side_n["encdec"] + side_n["encdec_model_compared"],
        "distinct_nontrivial": nontrivial,
        "rule": ("inputs of length 0..300 (thorough 700) at the SHA block/padding boundaries (55,56,63,64,65,111,112,119,120,127,128,...) and the "
                 "Base64 group boundaries plus random lengths; contents random/ASCII/0x00/0xFF/edge bytes and code points from all four UTF-8 length "
                 "classes; inputs passed both as char lists and as string literals; hex_bytes/2, chars_base64/3 (4 option combinations, defaults and "
                 "both option orders), chars_utf8bytes/2 in both directions, crypto_data_hash/3 for sha256/384/512/512_256 x encoding(octet|utf8|default) "
                 "x hmac keys of length 0,1,20,digest,B-1,B,B+1,2B,2B+3, sha3_224/256/384/512 at lengths 0,1,rate-2..rate+1 and random, "
                 "blake2s256/blake2b512/ripemd160 at 0,1,55,56,B-1,B,B+1,2B-1,2B,2B+1 and random, "
                 "crypto_data_encrypt/6 (ciphertext and tag) at lengths 0,1,15..17,63..65,127..129,255,256,300 and random with/without aad; decoders also get malformed text (odd length, bad characters, wrong padding, "
                 "non-zero trailing bits, other charset, truncated/overlong/surrogate UTF-8). Every case's output bytes are compared with the model in Coq. "
                 "distinct_nontrivial = distinct (operation, options, input) cases with a NON-EMPTY WELL-FORMED input whose result the property fixes "
                 "(malformed-input cases and empty inputs are run but not counted). Additional checks without the model (counted in evaluations, listed in distribution.side_cases): "
                 "sha3_*/blake2*/ripemd160 also against Python hashlib; crypto_data_decrypt of the implementation's own ciphertext "
                 "(plaintext returned, tampered tag/key/aad rejected)."),
        "samples": samples,
        "distribution": dist,
        "failures": failures,
        "tie_breaks": tie_breaks,
        "notes": ["implementation queries %.1fs, Coq evaluation %.1fs" % (t_impl, t_coq)],
    }


def spec_expr(c):
    k, ident = c["kind"], c["ident"]
    if k == "hex_enc":
        return "hex_encode %s" % coq_list(ident)
    if k == "hex_dec":
        return "hex_decode %s" % coq_list(ident)
    if k == "b64_enc":
        return "b64_encode %s %s %s" % (coq_bool(ident[0]), coq_bool(ident[1]), coq_list(ident[2]))
    if k == "b64_dec":
        return "b64_decode %s %s %s" % (coq_bool(ident[0]), coq_bool(ident[1]), coq_list(ident[2]))
    if k == "utf8_enc":
        return "utf8_encode %s" % coq_list(ident)
    if k == "utf8_dec":
        return "utf8_decode %s" % coq_list(ident)
    if k == "hash3" and ident[0] in SHA3:
        return "data_hash3 %d %s %s" % (SHA3[ident[0]], coq_bool(ident[1] == "octet"), coq_list(ident[2]))
    if k == "hash3":
        return "data_hashx %s %s %s" % (XALG[ident[0]][0], coq_bool(ident[1] == "octet"), coq_list(ident[2]))
    alg, enc, key, codes = ident
    return "data_hash %s %s %s %s" % (ALGS[alg][0], coq_bool(enc == "octet"), coq_opt(list(key) if key is not None else None), coq_list(codes))
