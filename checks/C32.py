"""C32 -- Concurrent machines intern atoms consistently."""
import json
from vlib import core

META = {
    "level": "proof",
    "text": ("Coq theorems over the interning protocol of AtomTable::build_with as a transition system (optimistic lookup on a snapshot, update lock, epoch re-check, insert, release), for "
             "EVERY number of threads, work list and schedule: the table never holds a text twice (table_injective), every returned atom denotes the requested text "
             "(returned_atom_in_table), same text -> same atom and same atom -> same text across threads; an Example shows that dropping the re-check admits a duplicate, so the "
             "invariant is not vacuous. Tied to the code by real threads interning overlapping and disjoint texts concurrently through a hook, across growth of the shared block, "
             "checking exactly those conclusions on the implementation."),
    "note": ("PARTIAL: the memory ordering of the RCU/epoch library (arcu), reclamation of old blocks and the Mutex are not modelled (steps are atomic, sequentially consistent); "
             "the two RCU cells are abstracted to one epoch counter bumped by every replacement: an insertion and a growth of the string block (grow_new; an oracle says at which epochs the block is full). The correspondence is a stress run: it samples schedules, the theorem covers all schedules of the model."),
    "technique": "Coq invariant proof over all schedules of the interning protocol + multi-threaded stress correspondence through a hook",
    "coq_targets": ["C32/Props.vo"], "coq_dirs": ["C21", "C32"], "props": "C32/Props.v",
    "trusted_base": ["Coq 8.16.1 kernel, vm_compute", "src/verif_hooks.rs intern_atom", "harness vrun (intern mode: one OS thread per input line, barrier start)"],
    "assumptions": ["arcu's Arcu::read/replace and std Mutex are linearizable", "old blocks stay readable while referenced"],
}


def run(ctx):
    rng = ctx.rng
    rounds = ctx.scale(10, 120)
    failures, tie_breaks = [], []
    evals = nontriv = 0
    dist = {"threads": {}, "texts_per_round": []}
    samples = []
    for rd in range(rounds):
        nthreads = rng.choice([2, 3, 4, 8])
        shared = ["shared_%d_%d_%s" % (rd, i, "x" * rng.randrange(1, 40)) for i in range(rng.choice([200, 800, 2500]))]
        lines = []
        for t in range(nthreads):
            mine = ["own_%d_%d_%d_%s" % (rd, t, i, "é" * rng.randrange(0, 10)) for i in range(rng.choice([50, 400]))]
            work = shared[:] + mine
            if rng.random() < 0.7: rng.shuffle(work)
            work += rng.sample(shared, min(50, len(shared)))   # ask again
            lines.append("%d\t%s" % (t, ";".join(w.encode("utf-8").hex() for w in work)))
            lines[-1] = (lines[-1], work)
        res, crashed = core.vrun_mode(ctx.prop, "intern", [l for l, _ in lines], nproc=1, tag="r%d" % rd)
        for c in crashed: tie_breaks.append({"kind": "harness", "what": "vrun intern died", "detail": c})
        text_of, idx_of = {}, {}
        contended = 0
        for (l, work) in lines:
            tid = l.split("\t", 1)[0]
            out = (res.get(tid) or "").split(";")
            if len(out) != len(work):
                failures.append({"key": "intern:thread-lost", "what": "a thread did not return one atom per text (panic?)", "input": "round %d thread %s" % (rd, tid), "impl": (res.get(tid) or "")[:200], "spec": "", "property_fails": True})
                continue
            for w, o in zip(work, out):
                idx, inl, ok = o.split(":")
                evals += 1
                if ok != "1":
                    failures.append({"key": "intern:text-changed", "what": "an atom no longer reads back as its text", "input": w, "impl": o, "spec": "readback ok", "property_fails": True})
                if w in idx_of and idx_of[w] != idx:
                    failures.append({"key": "intern:same-text-two-atoms", "what": "two threads (or two requests) got different atoms for the same text", "input": w, "impl": "%s vs %s" % (idx_of[w], idx), "spec": "same atom", "property_fails": True})
                if idx in text_of and text_of[idx] != w:
                    failures.append({"key": "intern:two-texts-one-atom", "what": "two texts share one atom", "input": "%r / %r" % (w, text_of[idx]), "impl": idx, "spec": "distinct", "property_fails": True})
                if w in idx_of: contended += 1
                idx_of[w] = idx; text_of[idx] = w
        nontriv += 1 if contended else 0
        dist["threads"][nthreads] = dist["threads"].get(nthreads, 0) + 1
        dist["texts_per_round"].append(len(idx_of))
        if rd < 3: samples.append({"round": rd, "threads": nthreads, "distinct_texts": len(idx_of), "requests_for_already_seen_text": contended})
    return {"evaluations": evals, "distinct_nontrivial": nontriv,
            "rule": ("rounds of 2-8 OS threads started together, each interning the same 200-2500 shared texts (in its own order, some twice) plus 50-400 texts of its own through the "
                     "process-wide atom table; rounds with 2500 texts of up to 50 bytes outgrow the initial 64 KiB block. Checked: one atom per text across threads, one text per atom, "
                     "read-back. Non-trivial = round in which at least one text was requested by more than one thread/request (contended)."),
            "samples": samples, "distribution": dist, "failures": failures[:20], "tie_breaks": tie_breaks}
