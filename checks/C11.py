"""C11 -- Backtracking restores exactly the pre-goal state."""
import json, os, random
from vlib import core, terms

META = {
    "level": "proof",
    "text": ("Coq theorems over an impl-mirror model of the trail discipline (conditional trailing `addr < hb`, value-trailed attribute links, "
             "blackboard entries, try/retry/trust/cut with the code's hb updates, unwind_trail in reverse order): for ALL operation sequences "
             "and any stack of choice points the invariant nested_choicepoints holds, hence after `try; ops; fail` every older cell has exactly "
             "its old content (undo_restores, bound_before_unchanged, unbound_before_unbound_again), younger cells are gone, trail and stack are "
             "as before, bb_b_put changes revert and bb_put values persist. The model is tied to the implementation differentially: generated "
             "clause bodies / queries that bind older and newer variables both ways, change attributes and global variables and fail inside "
             "\\+, if-then-else, findall/3, catch/3+throw and disjunctions are run on scryer (compiled-clause path and query path); the "
             "observations (variable state and aliasing, attribute presence, bb_get values) after every top-level construct are compared in "
             "Coq with the model's."),
    "note": ("Trusted: Coq kernel + vm_compute; the harness vrun; the Python generator/interpreter that maps a Prolog goal tree to model "
             "operations (control flow of the goal tree is interpreted in Python; choice points the implementation creates internally, e.g. "
             "in call/N or findall/3, are not modelled). Modelled, not verified: stack variables (`h < b`) are modelled by the same age "
             "discipline as heap cells; an attribute of an attributed variable is ONE value-trailed model cell (the re-derivation of the old "
             "link from (h,l) and the `l < hb` test in unwind_trail's TrailedAttrVarListLink arm is abstracted to restoring a saved value); "
             "blackboard values are atomic (the heap copy made by bb_get is not modelled). bb_put_persists is proved only for keys without a "
             "live backtrackable slot (the excluded case is a confirmed defect, reported by the fixed probe set)."),
    "technique": ("Coq proof (nested_choicepoints, undo_restores, young_cells_discarded, bb_b_put_reverts, bb_put_persists, ...) over an "
                  "impl-mirror model + differential correspondence evaluated in Coq"),
    "design_ref": "DESIGN.md section 8, C11",
    "coq_targets": ["C11/Props.vo"],
    "coq_dirs": ["C11"],
    "props": "C11/Props.v",
    "trusted_base": ["Coq 8.16.1 kernel, vm_compute (no native_compute)", "harness/vrun + tools/vlib (correspondence)",
                     "checks/C11.py goal-tree interpreter (maps Prolog control flow to model operations)"],
    "assumptions": ["a Prolog variable of a clause body or query corresponds to one model cell whose age is its creation order in the "
                    "goal (observables do not depend on addresses in a correct implementation)",
                    "library(atts) put_atts(+a(N)) / put_atts(-a(_)) on one attribute = one value-trailed cell update"],
}

PRELUDE = (":- use_module(library(iso_ext)).\n:- use_module(library(lists)).\n:- use_module(library(atts)).\n"
           ":- attribute a/1.\nverify_attributes(_,_,[]).\n"
           "c11eq(X,X).\nc11v1(_).\nc11v2(_,_).\nc11v3(_,_,_).\n"
           # the observation describes the variables with ==/2 (v(I) = I-th distinct variable in order of first occurrence); it
           # does not use copy_term/2,3, which mishandles stack variables (reported separately)
           "c11obs(Vs, As, Ks, o(Ds, Ats, Bs)) :- c11descs(Vs, [], _, Ds), c11atts(As, Ats), c11bbs(Ks, Bs).\n"
           "c11descs([], S, S, []).\n"
           "c11descs([T|Ts], S0, S, [D|Ds]) :- c11desc(T, S0, S1, D), c11descs(Ts, S1, S, Ds).\n"
           "c11desc(T, S0, S, D) :- var(T), !, c11idx(S0, T, 0, I, S), D = v(I).\n"
           "c11desc(T, S, S, T) :- integer(T), !.\n"
           "c11desc(T, S0, S, D) :- T =.. [F, X], c11desc(X, S0, S, DX), D =.. [F, DX].\n"
           "c11idx([], T, N, N, [T]).\n"
           "c11idx([V|Vs], T, N, I, [V|S]) :- ( V == T -> I = N, S = Vs ; N1 is N + 1, c11idx(Vs, T, N1, I, S) ).\n"
           "c11atts([], []).\n"
           "c11atts([A|As], [O|Os]) :- ( var(A) -> ( get_atts(A, a(X)) -> O = a(X) ; O = n ) ; O = b ), c11atts(As, Os).\n"
           "c11bbs([], []).\n"
           "c11bbs([K|Ks], [O|Os]) :- ( bb_get(K, X) -> O = v(X) ; O = n ), c11bbs(Ks, Os).\n")


class Discard(Exception):
    pass


# ------------------------------------------------------------------ Python mirror of coq/C11/Model.v (generation only; the oracle is Coq)
class Mirror:
    def __init__(self, nkeys):
        self.heap, self.loc, self.ball = [], [None] * nkeys, [None] * nkeys
        self.trail, self.stack, self.hb = [], [], 0
        self.ops = []
        self.stats = {"restored_cells": 0, "restored_vals": 0, "restored_bb": 0, "young_discarded": 0, "untrailed_binds": 0,
                      "trailed_binds": 0, "cuts": 0, "retries": 0, "trusts": 0}

    def root(self, a):
        for _ in range(len(self.heap) + 2):
            c = self.heap[a] if a < len(self.heap) else None
            if c is not None and c[0] == "ref":
                a = c[1]
            else:
                return a
        raise Discard("cycle")

    def cell(self, a):
        return self.heap[a] if a < len(self.heap) else ("int", 0)

    def visible(self, k):
        return self.loc[k] if self.loc[k] is not None else self.ball[k]

    def bind_at(self, r, v):
        if r < len(self.heap) and self.heap[r] is None:
            self.heap[r] = v
            if r < self.hb:
                self.trail.append(("cell", r)); self.stats["trailed_binds"] += 1
            else:
                self.stats["untrailed_binds"] += 1

    def emit(self, op, record=True):
        if record:
            self.ops.append(op)
        k = op[0]
        if k == "NewVar":
            self.heap.append(None)
        elif k == "Bind":
            self.bind_at(self.root(op[1]), op[2])
        elif k == "Unify":
            ra, rb = self.root(op[1]), self.root(op[2])
            if ra != rb and self.cell(ra) is None and self.cell(rb) is None:
                if ra < rb: self.bind_at(rb, ("ref", ra))
                else: self.bind_at(ra, ("ref", rb))
        elif k == "SetVal":
            a = op[1]
            if a < len(self.heap):
                old = self.heap[a]
                self.heap[a] = op[2]
                if a < self.hb: self.trail.append(("val", a, old))
        elif k == "BbPut":
            self.ball[op[1]] = op[2]; self.loc[op[1]] = None
        elif k == "BbBPut":
            self.trail.append(("bb", op[1], self.loc[op[1]])); self.loc[op[1]] = op[2]
        elif k == "BbGet":
            if self.loc[op[1]] is None and self.ball[op[1]] is not None:
                self.loc[op[1]] = self.ball[op[1]]; self.trail.append(("bb", op[1], None))
        elif k == "Try":
            self.stack.insert(0, (len(self.heap), len(self.trail))); self.hb = len(self.heap)
        elif k in ("Retry", "Trust"):
            h, t = self.stack[0]
            for e in reversed(self.trail[t:]):
                if e[0] == "cell":
                    if e[1] < h and self.heap[e[1]] is not None: self.stats["restored_cells"] += 1
                    self.heap[e[1]] = None
                elif e[0] == "val":
                    if e[1] < h and self.heap[e[1]] != e[2]: self.stats["restored_vals"] += 1
                    self.heap[e[1]] = e[2]
                else:
                    if self.loc[e[1]] != e[2]: self.stats["restored_bb"] += 1
                    self.loc[e[1]] = e[2]
            del self.trail[t:]
            self.stats["young_discarded"] += max(0, len(self.heap) - h)
            del self.heap[h:]
            self.hb = h
            if k == "Trust":
                self.stack.pop(0); self.stats["trusts"] += 1
            else:
                self.stats["retries"] += 1
        elif k == "Cut":
            self.stack.pop(0); self.stats["cuts"] += 1

    def check_acyclic(self, a, depth=0):
        if depth > 30:
            raise Discard("deep-or-cyclic")
        r = self.root(a)
        c = self.cell(r)
        if c is not None and c[0] == "str":
            self.check_acyclic(c[2], depth + 1)


# ------------------------------------------------------------------ interpreter: Prolog control flow of a goal tree over the mirror
class Interp:
    def __init__(self, case):
        self.case = case
        self.m = Mirror(case["nkeys"])
        self.names = dict(case["addr"])      # variable name -> cell address
        self.marks = {}                      # obs index -> position in ops
        self.kinds = {}

    def addr(self, name):
        return self.names[name]

    def unify(self, a, b):
        m = self.m
        ra, rb = m.root(a), m.root(b)
        if ra == rb:
            return True
        ca, cb = m.cell(ra), m.cell(rb)
        if ca is None and cb is None:
            m.emit(("Unify", ra, rb)); return True
        if ca is None:
            m.emit(("Bind", ra, cb)); m.check_acyclic(ra); return True
        if cb is None:
            m.emit(("Bind", rb, ca)); m.check_acyclic(rb); return True
        if ca[0] == "int" or cb[0] == "int":
            return ca == cb
        if ca[1] != cb[1]:
            return False
        return self.unify(ca[2], cb[2])

    def conj(self, gs, i):
        if i == len(gs):
            yield
        else:
            for _ in self.solve(gs[i]):
                yield from self.conj(gs, i + 1)

    def solve(self, g):
        m = self.m
        k = g[0]
        if k == "true":
            yield
        elif k == "fail":
            return
        elif k == "conj":
            yield from self.conj(g[1], 0)
        elif k == "disj":
            alts = g[1]
            m.emit(("Try",))
            for i, alt in enumerate(alts):
                if i > 0:
                    m.emit(("Retry",) if i < len(alts) - 1 else ("Trust",))
                yield from self.solve(alt)
        elif k in ("ite", "naf"):
            c, t, e = (g[1], g[2], g[3]) if k == "ite" else (g[1], ("fail",), ("true",))
            d0 = len(m.stack)
            m.emit(("Try",))
            gen = self.solve(c)
            ok = True
            try:
                next(gen)
            except StopIteration:
                ok = False
            if ok:
                for _ in range(len(m.stack) - d0):
                    m.emit(("Cut",))
                gen.close()
                yield from self.solve(t)
            else:
                m.emit(("Trust",))
                yield from self.solve(e)
        elif k == "findall":
            m.emit(("Try",))
            for _ in self.solve(g[1]):
                pass
            m.emit(("Trust",))
            yield
        elif k == "catch":
            d0 = len(m.stack)
            m.emit(("Try",))
            gen = self.solve(g[1])
            ok = True
            try:
                next(gen)
            except StopIteration:
                ok = False
            if ok:      # throw(c11): everything down to and including the catch frame is unwound
                for _ in range(len(m.stack) - d0 - 1):
                    m.emit(("Cut",))
                m.emit(("Trust",))
                gen.close()
                yield
            else:
                m.emit(("Trust",))
        elif k == "bind_int":
            r = m.root(self.addr(g[1]))
            c = m.cell(r)
            if c is None:
                m.emit(("Bind", r, ("int", g[2]))); yield
            elif c == ("int", g[2]):
                yield
        elif k == "bind_str":
            r = m.root(self.addr(g[1]))
            c = m.cell(r)
            if c is None:
                na = len(m.heap)
                m.emit(("NewVar",)); m.emit(("Bind", r, ("str", g[2], na)))
                self.names[g[3]] = na
                yield
            elif c[0] == "str" and c[1] == g[2]:
                self.names[g[3]] = c[2]
                yield
        elif k == "unify":
            if self.unify(self.addr(g[1]), self.addr(g[2])):
                yield
        elif k in ("put_attr", "del_attr"):
            va, slot = self.case["atts"][g[1]]
            if m.cell(m.root(va)) is None:
                m.emit(("SetVal", slot, ("int", g[2]) if k == "put_attr" else None))
            yield
        elif k == "bb_put":
            m.emit(("BbPut", g[1], ("int", g[2]))); yield
        elif k == "bb_b_put":
            m.emit(("BbBPut", g[1], ("int", g[2]))); yield
        elif k == "bbget_raw":
            m.emit(("BbGet", g[1]))
            if m.visible(g[1]) is not None:
                yield
        elif k == "obs":
            if g[1] in self.marks:
                raise Discard("observation re-executed")
            self.marks[g[1]] = len(m.ops)
            for kk in range(self.case["nkeys"]):
                m.emit(("BbGet", kk), record=False)
            yield
        else:
            raise ValueError(g)

    def run(self):
        for _ in range(self.case["np"] + 2 * self.case["na"]):
            self.m.emit(("NewVar",))
        gen = self.solve(self.case["goal"])
        try:
            next(gen)
        except StopIteration:
            raise Discard("top-level failure")
        gen.close()
        n = self.case["nobs"]
        if sorted(self.marks) != list(range(n)):
            raise Discard("missing observation")
        pos = [self.marks[i] for i in range(n)]
        if pos != sorted(pos):
            raise Discard("observation order")
        segs, prev = [], 0
        for p in pos:
            segs.append(self.m.ops[prev:p]); prev = p
        return segs


# ------------------------------------------------------------------ generation of goal trees
def gen_case(rng, cid, thorough):
    np_, na, nk = rng.randint(2, 5), rng.randint(0, 2), rng.randint(1, 3)
    pv = ["P%d" % i for i in range(np_)]
    av = ["A%d" % i for i in range(na)]
    addr = {p: i for i, p in enumerate(pv)}
    atts = []
    for j, a in enumerate(av):
        addr[a] = np_ + 2 * j
        atts.append((np_ + 2 * j, np_ + 2 * j + 1))
    counter = [0]
    kinds = {}

    def atom(scope):
        r = rng.random()
        plain = pv + scope
        if r < 0.30:
            return ("bind_int", rng.choice(plain + av), rng.randint(1, 3), rng.random() < 0.5)
        if r < 0.45:
            counter[0] += 1
            n = "N%d" % counter[0]
            g = ("bind_str", rng.choice(plain), rng.randint(1, 2), n)
            scope.append(n)
            return g
        if r < 0.62 and len(plain) >= 2:
            a, b = rng.sample(plain, 2)
            return ("unify", a, b, rng.random() < 0.5)
        if r < 0.74 and na:
            return ("put_attr", rng.randrange(na), rng.randint(1, 3)) if rng.random() < 0.65 else ("del_attr", rng.randrange(na), 0)
        if r < 0.82:
            return ("bb_put", rng.randrange(nk), rng.randint(1, 3))
        if r < 0.93:
            return ("bb_b_put", rng.randrange(nk), rng.randint(1, 3))
        return ("ite", ("bbget_raw", rng.randrange(nk)), ("true",), ("true",))

    def body(depth, scope, forced_fail):
        sc = list(scope)
        items = [item(depth, sc) for _ in range(rng.choice([1, 1, 2, 2, 3]) if depth <= 1 else rng.choice([1, 1, 2]))]
        if forced_fail:
            items.append(("fail",))
        return ("conj", items)

    def item(depth, scope):
        if depth >= 3 or rng.random() < (0.35, 0.6, 0.8)[depth]:
            return atom(scope)
        kind = rng.choice(["disj_fail", "disj3", "disj_leave", "disj_nat", "naf_fail", "naf_naf", "ite_cond_fail", "ite_then_fail",
                           "ite_nat", "findall_fail", "findall_sols", "catch", "disj_fail", "naf_fail"])
        kinds[kind] = kinds.get(kind, 0) + 1
        d = depth + 1
        if kind == "disj_fail":
            return ("disj", [body(d, scope, True), ("true",)])
        if kind == "disj3":
            return ("disj", [body(d, scope, True), body(d, scope, True), body(d, scope, False)])
        if kind == "disj_leave":
            return ("disj", [body(d, scope, False), ("true",)])
        if kind == "disj_nat":
            return ("disj", [body(d, scope, False), body(d, scope, False)])
        if kind == "naf_fail":
            return ("naf", body(d, scope, True))
        if kind == "naf_naf":
            return ("naf", ("naf", body(d, scope, False)))
        if kind == "ite_cond_fail":
            return ("ite", body(d, scope, True), ("true",), body(d, scope, False))
        if kind == "ite_then_fail":
            return ("disj", [("ite", body(d, scope, False), ("fail",), ("true",)), ("true",)])
        if kind == "ite_nat":
            return ("ite", body(d, scope, False), body(d, scope, False), body(d, scope, False))
        if kind == "findall_fail":
            return ("findall", body(d, scope, True))
        if kind == "findall_sols":
            return ("findall", ("conj", [("disj", [body(d, scope, False), body(d, scope, False)]), body(d, scope, False)]))
        return ("catch", body(d, scope, False))

    scope = []
    top = []
    nobs = rng.randint(2, 5)
    for i in range(nobs):
        top.append(item(0, scope))
        if rng.random() < 0.3:
            top.append(item(0, scope))
        top.append(("obs", i))
    # every variable occurs in a prefix goal: as an argument of a call (a stack cell in the compiled clause) or inside a
    # structure (a heap cell).  (A variable whose first occurrence is a type test in a nested if-then-else condition is not
    # linked to its later occurrences by the clause compiler -- a separate, reported defect that is not about backtracking.)
    allv = pv + av
    rng.shuffle(allv)
    cut = rng.randint(0, len(allv))
    pre = []
    if allv[:cut]:
        pre.append("_ = h(%s)" % ",".join(allv[:cut]))
    rest = allv[cut:]
    while rest:
        n = rng.randint(1, min(3, len(rest)))
        pre.append("c11v%d(%s)" % (n, ",".join(rest[:n])))
        rest = rest[n:]
    rng.shuffle(pre)
    return {"id": cid, "np": np_, "na": na, "nkeys": nk, "pv": pv, "av": av, "addr": addr, "atts": atts,
            "goal": ("conj", top), "nobs": nobs, "pre": pre, "kinds": kinds}


def render(case, g):
    keys = ["k%s_%d" % (case["id"], i) for i in range(case["nkeys"])]

    def eq(a, b, viacall):
        return "c11eq(%s, %s)" % (a, b) if viacall else "%s = %s" % (a, b)

    def r(g):
        k = g[0]
        if k in ("true", "fail"):
            return k
        if k == "conj":
            return ", ".join(r(x) for x in g[1])
        if k == "disj":
            return "( " + " ; ".join(r(x) for x in g[1]) + " )"
        if k == "naf":
            return "\\+ ( " + r(g[1]) + " )"
        if k == "ite":
            if g[1][0] == "bbget_raw":
                return "( bb_get(%s, _) -> true ; true )" % keys[g[1][1]]
            return "( ( %s ) -> ( %s ) ; ( %s ) )" % (r(g[1]), r(g[2]), r(g[3]))
        if k == "findall":
            return "findall(x, ( %s ), _)" % r(g[1])
        if k == "catch":
            return "catch(( %s, throw(c11) ), c11, true)" % r(g[1])
        if k == "bind_int":
            return eq(g[1], str(g[2]), g[3])
        if k == "bind_str":
            return "%s = s%d(%s)" % (g[1], g[2], g[3])
        if k == "unify":
            return eq(g[1], g[2], g[3])
        if k == "put_attr":
            return "( var(%s) -> put_atts(%s, +a(%d)) ; true )" % (case["av"][g[1]], case["av"][g[1]], g[2])
        if k == "del_attr":
            return "( var(%s) -> put_atts(%s, -a(_)) ; true )" % (case["av"][g[1]], case["av"][g[1]])
        if k == "bb_put":
            return "bb_put(%s, %d)" % (keys[g[1]], g[2])
        if k == "bb_b_put":
            return "bb_b_put(%s, %d)" % (keys[g[1]], g[2])
        if k == "obs":
            return "c11obs([%s], [%s], [%s], O%d)" % (",".join(case["pv"] + case["av"]), ",".join(case["av"]), ",".join(keys), g[1])
        raise ValueError(g)
    return r(g)


# ------------------------------------------------------------------ Coq syntax
def coq_val(v):
    if v[0] == "int": return "(VInt %d)" % v[1]
    if v[0] == "ref": return "(VRef %d)" % v[1]
    return "(VStr %d %d)" % (v[1], v[2])


def coq_op(op):
    k = op[0]
    if k in ("NewVar", "Try", "Retry", "Trust", "Cut"): return k
    if k == "Bind": return "Bind %d %s" % (op[1], coq_val(op[2]))
    if k == "Unify": return "Unify %d %d" % (op[1], op[2])
    if k == "SetVal": return "SetVal %d %s" % (op[1], "None" if op[2] is None else "(Some %s)" % coq_val(op[2]))
    if k in ("BbPut", "BbBPut"): return "%s %d %s" % (k, op[1], coq_val(op[2]))
    if k == "BbGet": return "BbGet %d" % op[1]
    raise ValueError(op)


# compact transport encoding (decoded by dec_ops / dec_obs_list in coq/C11/Model.v)
def enc_cell(c):
    if c is None: return [3]
    if c[0] == "int": return [0, c[1]]
    if c[0] == "ref": return [1, c[1]]
    return [2, c[1], c[2]]


OPCODE = {"NewVar": 0, "Bind": 1, "Unify": 2, "SetVal": 3, "BbPut": 4, "BbBPut": 5, "BbGet": 6, "Try": 7, "Retry": 8, "Trust": 9, "Cut": 10}


def enc_segs(segs):
    out = []
    for s in segs:
        for op in s:
            out.append(OPCODE[op[0]])
            if op[0] in ("Bind", "SetVal", "BbPut", "BbBPut"):
                out.append(op[1]); out += enc_cell(op[2])
            elif op[0] == "Unify":
                out += [op[1], op[2]]
            elif op[0] == "BbGet":
                out.append(op[1])
        out.append(11)
    out.append(12)
    return out


class BadObs(Exception):
    pass


def enc_oterm(t):
    if t[0] == "cmp" and t[1] == "v" and len(t[2]) == 1 and t[2][0][0] == "int": return [0, t[2][0][1]]
    if t[0] == "int" and t[1] >= 0: return [1, t[1]]
    if t[0] == "cmp" and t[1] in ("s1", "s2") and len(t[2]) == 1: return [2, int(t[1][1])] + enc_oterm(t[2][0])
    raise BadObs(str(t))


def obs_from_answer(ans):
    """vrun answers of one query -> encoded observation list (None if there is no usable answer)."""
    if not ans or not isinstance(ans[0], dict) or "b" not in ans[0] or "R" not in ans[0]["b"]:
        return None
    try:
        items, tail = terms.list_view(terms.from_json(ans[0]["b"]["R"]))
        out = [len(items)]
        for it in items:
            if it[0] != "cmp" or it[1] != "o" or len(it[2]) != 3:
                return None
            vs, _ = terms.list_view(it[2][0])
            ats, _ = terms.list_view(it[2][1])
            bs, _ = terms.list_view(it[2][2])
            out.append(len(vs))
            for v in vs:
                out += enc_oterm(v)
            out.append(len(ats))
            for a in ats:
                if a == ("atom", "n"): out.append(1)
                elif a == ("atom", "b"): out.append(0)
                elif a[0] == "cmp" and a[1] == "a" and a[2][0][0] == "int": out += [2, a[2][0][1]]
                else: raise BadObs(str(a))
            out.append(len(bs))
            for b in bs:
                if b == ("atom", "n"): out.append(3)
                elif b[0] == "cmp" and b[1] == "v" and b[2][0][0] == "int": out += [0, b[2][0][1]]
                else: raise BadObs(str(b))
        return out
    except BadObs:
        return None


class TooBig(Exception):
    pass


def pack(nums):
    """nine 7-bit numbers (stored +1) per primitive integer"""
    out = []
    for i in range(0, len(nums), 9):
        v = 0
        for j, x in enumerate(nums[i:i + 9]):
            if not 0 <= x < 126:
                raise TooBig(x)
            v |= (x + 1) << (7 * j)
        out.append(v)
    return "[%s]%%uint63" % "; ".join(map(str, out))


def case_header(case, segs):
    vs = [case["addr"][v] for v in case["pv"] + case["av"]]
    h = [case["nkeys"], len(vs)] + vs + [len(case["atts"])]
    for p in case["atts"]:
        h += list(p)
    return h + enc_segs(segs)


def case_expr(case, segs, o1, o2):
    o1 = o1 if o1 is not None else [0]
    o2 = o2 if o2 is not None else [0]
    return "check_case_p %s" % pack(case_header(case, segs) + (o1 if o1 == o2 else o1 + o2))


IMPORTS = "From Coq Require Import Uint63.\nFrom V Require Import C11.Model."

# fixed probes of the property text on the blackboard (expected values follow the property statement, not the model)
PROBES = [
    ("bb_put-persists-plain", "bb_put(K, 1), ( bb_put(K, 3), fail ; true ), bb_get(K, X)", 3),
    ("bb_b_put-reverts-plain", "bb_b_put(K, 1), ( bb_b_put(K, 2), fail ; true ), bb_get(K, X)", 1),
    ("bb_b_put-reverts-over-put", "bb_put(K, 1), ( bb_b_put(K, 2), fail ; true ), bb_get(K, X)", 1),
    ("bb_put-persists-after-b_put-in-goal", "bb_put(K, 1), ( bb_b_put(K, 2), bb_put(K, 3), fail ; true ), bb_get(K, X)", 3),
    ("bb_put-shadowed-by-restored-bb_b_put", "bb_put(K, 1), bb_get(K, _), ( bb_b_put(K, 2), bb_put(K, 3), fail ; true ), bb_get(K, X)", 3),
    ("bb_put-shadowed-by-restored-bb_b_put", "bb_b_put(K, 1), ( bb_b_put(K, 2), bb_put(K, 3), fail ; true ), bb_get(K, X)", 3),
    ("bb_put-persists-in-naf", "bb_put(K, 1), \\+ ( bb_put(K, 3), fail ), bb_get(K, X)", 3),
    ("bb_put-persists-in-findall", "bb_put(K, 1), findall(x, bb_put(K, 3), _), bb_get(K, X)", 3),
    ("bb_put-persists-in-catch", "bb_put(K, 1), catch(( bb_put(K, 3), throw(c11) ), c11, true), bb_get(K, X)", 3),
    ("bb_b_put-reverts-in-catch", "bb_b_put(K, 1), catch(( bb_b_put(K, 3), throw(c11) ), c11, true), bb_get(K, X)", 1),
    ("bb_b_put-reverts-in-ite", "bb_b_put(K, 1), ( ( bb_b_put(K, 3), fail ) -> true ; true ), bb_get(K, X)", 1),
]

# the same clauses of the property text with blackboard values of every representation (the trailing decision of a
# backtrackable store looks at the old value's cell: atoms, small/big integers, floats, strings, char lists, compounds, lists)
VALUE_KINDS = [("atom", ["va", "vb", "vc"]), ("string", ['"Valladolid"', '"Salamanca"', '"Zamora"']), ("chars", ["[a,b,c]", "[d,e]", "[f]"]),
               ("atom_chars", None), ("big", ["18446744073709551617", "-36893488147419103232", "73786976294838206465"]),
               ("float", ["1.5", "-0.0", "2.25e10"]), ("compound", ['f(1,"s")', "g(h(2))", "f(a,[b])"]), ("intlist", ["[1,2,3]", "[4]", "[5,6]"]),
               ("utf8", ['"\u00e9t\u00e9"', '"\u65e5\u672c"', '"z"']), ("mixed1", ['"abc"', "7", "at"]), ("mixed2", ["9", '"xyz"', "[q]"])]
_n0 = len(PROBES)
for _kind, _vals in VALUE_KINDS:
    for _key, _q, _exp in list(PROBES[:_n0]):
        if _vals is None:
            _pre = "atom_chars(abc, V1), atom_chars(de, V2), atom_chars(fghijklmno, V3), "
            _m = {1: "V1", 2: "V2", 3: "V3"}
        else:
            _pre = ""
            _m = {1: _vals[0], 2: _vals[1], 3: _vals[2]}
        _qq = _q
        for _i in (1, 2, 3):
            _qq = _qq.replace("(K, %d)" % _i, "(K, %s)" % _m[_i])
        _qq = _pre + _qq.replace("bb_get(K, X)", "bb_get(K, X0), ( X0 == %s -> X = 1 ; X = 0 )" % _m[_exp])
        PROBES.append((_key + ":" + _kind if not _key.startswith("bb_put-shadowed") else _key, _qq, 1))


def run(ctx):
    rng = ctx.rng
    want = ctx.scale(4000, 40000)
    cases, segs_of, seen = [], {}, set()
    discarded = {}
    dist = {"constructs": {}, "ops": {}, "stats": {}, "observations": 0}
    nontrivial = set()
    tries = 0
    while len(cases) < want and tries < want * 6:
        tries += 1
        case = gen_case(rng, "%d" % tries, ctx.thorough)
        it = Interp(case)
        try:
            segs = it.run()
        except Discard as d:
            discarded[str(d)] = discarded.get(str(d), 0) + 1
            continue
        except RecursionError:
            discarded["recursion"] = discarded.get("recursion", 0) + 1
            continue
        try:
            pack(case_header(case, segs))
        except TooBig:
            discarded["too-big"] = discarded.get("too-big", 0) + 1
            continue
        text = render(case, case["goal"])
        canon = text.replace("k%s_" % case["id"], "k_")
        if canon in seen:
            continue
        seen.add(canon)
        case["text"] = text
        cases.append(case)
        segs_of[case["id"]] = segs
        st = it.m.stats
        for k, v in st.items():
            dist["stats"][k] = dist["stats"].get(k, 0) + v
        for k, v in case["kinds"].items():
            dist["constructs"][k] = dist["constructs"].get(k, 0) + v
        for s in segs:
            for o in s:
                dist["ops"][o[0]] = dist["ops"].get(o[0], 0) + 1
        dist["observations"] += case["nobs"]
        if st["restored_cells"] + st["restored_vals"] + st["restored_bb"] > 0:
            nontrivial.add(canon)
    dist["discarded"] = discarded
    dist["generated"] = tries

    # ---- implementation
    jobs = []
    B = 25
    for i in range(0, len(cases), B):
        chunk = cases[i:i + B]
        prog = PRELUDE
        qs = []
        for c in chunk:
            olist = ",".join("O%d" % j for j in range(c["nobs"]))
            bodytxt = ", ".join(c["pre"] + [c["text"]])
            prog += "c11_%s(R) :- %s, R = [%s].\n" % (c["id"], bodytxt, olist)
            qs.append("c11_%s(R)." % c["id"])
            qs.append("%s, R = [%s]." % (c["text"].replace("k%s_" % c["id"], "q%s_" % c["id"]), olist))
        jobs.append({"id": "j%d" % i, "consult": prog, "queries": qs, "max_answers": 1, "timeout_ms": 20000, "fresh": (i // B) % 8 == 0})
    probe_qs, probe_meta = [], []
    for n, (key, q, exp) in enumerate(PROBES):
        probe_qs.append(q.replace("K", "kprobe%d" % n) + ".")
        probe_meta.append((key, q, exp))
    jobs.append({"id": "probes", "consult": PRELUDE, "queries": probe_qs, "max_answers": 1, "timeout_ms": 5000, "fresh": True})
    import time as _t; _t0 = _t.time()
    res = core.vrun_query(ctx.prop, jobs, tag="impl")
    dist["seconds_impl"] = round(_t.time() - _t0, 1)

    exprs, meta = [], []
    for i in range(0, len(cases), B):
        chunk = cases[i:i + B]
        r = res.get("j%d" % i) or {}
        rs = r.get("results") or []
        for j, c in enumerate(chunk):
            a1 = rs[2 * j] if 2 * j < len(rs) else None
            a2 = rs[2 * j + 1] if 2 * j + 1 < len(rs) else None
            o1, o2 = obs_from_answer(a1), obs_from_answer(a2)
            try:
                exprs.append(case_expr(c, segs_of[c["id"]], o1, o2))
            except TooBig:
                exprs.append("false")
            meta.append((c, a1, a2, o1, o2, r if "results" not in r else None))
    # ---- sensitivity: on how many of a sample of the cases would a model with another trailing condition be told apart
    #      (cond_always must never be: trailing more than necessary is harmless); evaluated in the same coqc shards
    sample = [(c, segs_of[c["id"]]) for c in cases[:(3000 if ctx.thorough else 120)]]
    MUT = ["wrong_cond", "cond_never", "cond_always"]
    ncase = len(exprs)
    for mu in MUT:
        for c, sg in sample:
            exprs.append("mutant_same_p %s %s" % (mu, pack(case_header(c, sg))))
    chunk = min(600, max(200, -(-len(exprs) // max(1, core.NPROC))))
    _t0 = _t.time()
    allbad, errs = core.coq_eval_bools(ctx.prop, IMPORTS, exprs, chunk=chunk)
    dist["seconds_coq"] = round(_t.time() - _t0, 1)
    bad = [i for i in allbad if i < ncase]
    sens = {mu: 0 for mu in MUT}
    for i in allbad:
        if i >= ncase:
            sens[MUT[(i - ncase) // len(sample)]] += 1
    dist["mutant_models_detected"] = {"sample": len(sample), "addr<hb-1": sens["wrong_cond"], "never_trail": sens["cond_never"],
                                      "always_trail(harmless)": sens["cond_always"]}
    tie_breaks = [{"kind": "coq-eval", "what": "model evaluation shard failed", "detail": t} for _, t in errs]
    failures = []
    for i in bad[:12]:
        c, a1, a2, o1, o2, rec = meta[i]
        segs = segs_of[c["id"]]
        spec = core.coq_eval_show(ctx.prop, IMPORTS, "observations_p %s" % pack(case_header(c, segs))) if len(failures) < 3 else "(not evaluated)"
        which = []
        for tag, o, a in (("clause", o1, a1), ("query", o2, a2)):
            if o is None:
                which.append(tag + ":no-observation")
        key = "restore-mismatch:" + (",".join(which) if which else "observation-differs")
        failures.append({"key": key, "what": "state observed after backtracking differs from the model's",
                         "input": "c11_%s(R) :- %s, R = [...].   /   ?- %s, R = [...]." % (c["id"], ", ".join(c["pre"] + [c["text"]]), c["text"]),
                         "impl": json.dumps({"clause": a1, "query": a2, "record": rec})[:1500], "spec": spec[:1500], "property_fails": True})
    # ---- probes: the property text itself
    pr = (res.get("probes") or {}).get("results") or []
    probe_fail = 0
    for n, (key, q, exp) in enumerate(probe_meta):
        a = pr[n] if n < len(pr) else None
        got = None
        if a and isinstance(a[0], dict) and "b" in a[0] and "X" in a[0]["b"] and "i" in a[0]["b"]["X"]:
            got = int(a[0]["b"]["X"]["i"])
        if got != exp:
            probe_fail += 1
            failures.append({"key": key, "what": "bb_get after a failed goal does not show the value the property text requires "
                             "(bb_put values persist, bb_b_put values revert)", "input": q.replace("K", "k") + ".",
                             "impl": "X = %s" % got if got is not None else json.dumps(a)[:300], "spec": "X = %d" % exp, "property_fails": True})
    dist["probes"] = len(PROBES)
    samples = []
    for c in cases[:: max(1, len(cases) // 6)][:6]:
        samples.append({"clause": "c11_%s(R) :- %s, R = [...]." % (c["id"], ", ".join(c["pre"] + [c["text"]])),
                        "model_ops": " | ".join("; ".join(coq_op(o) for o in s) for s in segs_of[c["id"]])[:600]})
    return {
        "evaluations": 2 * len(cases) + len(PROBES),
        "distinct_nontrivial": len(nontrivial),
        "rule": ("random goal trees over 2-5 plain and 0-2 attributed variables and 1-3 blackboard keys: unifications with integers, with "
                 "structures holding a new variable, variable-variable unifications (older/newer both ways), put_atts/-, bb_put, bb_b_put, "
                 "bb_get, nested (depth <= 3) in \\+, \\+\\+, if-then-else (failing condition / failing then-branch), findall/3 (failing "
                 "and multi-solution), catch/3+throw, 2- and 3-way disjunctions with forced and natural failures, disjunctions that leave a "
                 "choice point; an observation (a description of all variables by ==/2, var/1 and their values, the attribute of each attributed variable, bb_get of each key) after "
                 "every top-level construct; each case run as a compiled clause (stack and heap variables) and as a query, both "
                 "compared in Coq with the model run on the operation sequence the Python interpreter derives from the goal tree; "
                 "non-trivial = distinct goal text in which at least one backtracking step actually reset an older cell, restored an "
                 "attribute value or restored a blackboard slot; plus %d fixed probes of the blackboard clauses of the property text" % len(PROBES)),
        "samples": samples,
        "distribution": dist,
        "failures": failures,
        "tie_breaks": tie_breaks,
    }
