"""C50 -- In-memory reading and writing match stream reading and writing."""
import json, os, re, shutil
from vlib import core, terms
from checks import C17 as c17

META = {
    "level": "other",
    "text": ("Differential check of two implementation paths against each other: read_term_from_chars/3 and read_from_chars/2 versus read_term/3 on a file stream "
             "holding the same text (terms with variable_names/variables/singletons compared as variants, errors by formal term), and write_term_to_chars/3 versus "
             "write_term/3 to a file stream with the same options (texts byte for byte), over tricky terms (operators, quoted atoms, negative numbers, strings, lists, "
             "curly terms, '$VAR', named and unnamed variables) and over valid, mutated and truncated texts with trailing text after the end token. The Coq part only "
             "fixes what 'the same' means: in the reference both paths are defined from one reader and one writer, and a stream built from characters is proved to "
             "deliver exactly those characters (chars_reader_is_stream_reader, chars_writer_is_stream_writer); it proves nothing about the Rust or Prolog code."),
    "note": ("Not a proof about the implementation: the content is the comparison of the two paths on the sampled cases. Trusted: harness, generators, the variant "
             "comparison and the variable-name normalisation in checks/C50.py. A memory-stream API is not offered by the library, so the stream side is a file under /var/tmp."),
    "technique": "Differential testing of the chars predicates against the stream predicates + a small Coq model stating the two-path equality by construction",
    "coq_targets": ["C50/Props.vo"], "coq_dirs": ["C50"], "props": "C50/Props.v",
    "trusted_base": ["harness vrun + tools/vlib", "generators and comparison in checks/C50.py", "Coq 8.16.1 kernel (for the by-construction model only)"],
    "assumptions": ["default operator table and flags", "text files are UTF-8"],
}

ATOMS = ["a", "b", "foo", "bar", "[]", "{}", "hello world", "A", "_x", "don't", "\n", "", "\xe9", "+", "-", "*", ",", "|", ";", "!", ":-", "\\+", "is", "mod",
         "a.b", "/*", "%", ".", "end_of_file", "\\", "[", "(", "{", "a\\b", "a\tb", "\x01", "日本", "'", "\"", "`", "-->", "=", "dynamic", "$VAR", "e", "x y", "F", "_"]
BIN = ["+", "-", "*", "/", "**", "^", "=", ":-", ",", ";", "->", "is", "mod", "rem", "<", "=..", ":", "|", "-->", "\\=", "@<", "xor", "rdiv", "div", ">>", "/\\"]
PRE = ["-", "+", "\\+", "\\", ":-", "?-"]
INTS = [0, 1, -1, 7, -7, 42, 123456789012345678901234567890, -(2 ** 70), 2 ** 62, -(2 ** 62)]
FLTS = [1.0, -1.0, 1.5e10, 1e-10, 0.1, 3.14, -2.5e-7, 1e100]
STRS = ["abc", "", "a\"b", "x\ny", "hello world", "A", "\xe9", "a\\b"]
VNAMES = ["X", "Foo", "_G", "A", "B", "_", "_1", "Y0", "C", "Bar"]


def gen_term(rng, depth, nv):
    r = rng.random()
    if depth <= 0 or r < 0.25:
        k = rng.random()
        if k < 0.4: return ("atom", rng.choice(ATOMS))
        if k < 0.6: return ("var", "X%d" % rng.randrange(nv))
        if k < 0.8: return ("int", rng.choice(INTS))
        if k < 0.9: return terms.flt(rng.choice(FLTS))
        return terms.mkstring(rng.choice(STRS))
    if r < 0.45:
        op = rng.choice(BIN)
        return ("cmp", op, [gen_term(rng, depth - 1, nv), gen_term(rng, depth - 1, nv)])
    if r < 0.55:
        return ("cmp", rng.choice(PRE), [gen_term(rng, depth - 1, nv)])
    if r < 0.70:
        f = rng.choice(ATOMS + ["f", "g", "point"])
        return ("cmp", f, [gen_term(rng, depth - 1, nv) for _ in range(rng.choice([1, 2, 3]))])
    if r < 0.82:
        items = [gen_term(rng, depth - 1, nv) for _ in range(rng.choice([1, 2, 3]))]
        tail = terms.NIL if rng.random() < 0.7 else gen_term(rng, depth - 1, nv)
        return terms.mklist(items, tail)
    if r < 0.88:
        return ("cmp", "{}", [gen_term(rng, depth - 1, nv)])
    if r < 0.95:
        a = rng.choice([("int", 0), ("int", 1), ("int", 25), ("int", 26), ("int", 27), ("int", 100), ("int", -1), ("atom", "x"), ("var", "X0"), terms.flt(1.0)])
        return ("cmp", "$VAR", [a])
    return ("cmp", ".", [gen_term(rng, depth - 1, nv), gen_term(rng, depth - 1, nv)])


def gen_wopts(rng, tvars, nv):
    """-> prolog text of the option list"""
    opts = []
    for name in ("quoted", "ignore_ops", "numbervars", "double_quotes"):
        if rng.random() < 0.5:
            opts.append("%s(%s)" % (name, rng.choice(["true", "false"])))
    if rng.random() < 0.25:
        opts.append("max_depth(%d)" % rng.choice([0, 1, 2, 3, 5]))
    if rng.random() < 0.6:
        vs = [v for v in tvars if rng.random() < 0.75]
        if rng.random() < 0.2: vs.append("X%d" % nv)            # a variable that does not occur in the term
        names = rng.sample(VNAMES, min(len(vs), len(VNAMES)))
        opts.append("variable_names([%s])" % ",".join("'%s'=%s" % (n, v) for n, v in zip(names, vs)))
    r = rng.random()
    if r < 0.03: opts.append(rng.choice(["foo", "quoted(maybe)", "max_depth(a)", "variable_names(x)", "variable_names([x=_])", "variable_names(['X'=1])", "ignore_ops(_)"]))
    rng.shuffle(opts)
    txt = "[" + ",".join(opts) + "]"
    if r > 0.985: txt = rng.choice(["_", "foo", "[quoted(true)|_]", "[quoted(true)|foo]"])
    return txt


def pl_string(t):
    out = ['"']
    for ch in t:
        o = ord(ch)
        if ch == '"': out.append('\\"')
        elif ch == "\\": out.append("\\\\")
        elif 32 <= o < 127: out.append(ch)
        else: out.append("\\x%x\\" % o)
    out.append('"')
    return "".join(out)


_ESC = r"\\x[0-9a-fA-F]+\\|\\[0-7]+\\|\\."
WTOK = re.compile(r"'(?:[^'\\]|%s|'')*'|\"(?:[^\"\\]|%s|\"\")*\"|\.\.\.|(?<![A-Za-z0-9_])(?:_[A-Za-z0-9_]*|[A-Z][A-Za-z0-9_]*)|." % (_ESC, _ESC), re.S)
VARLIKE = re.compile(r"^(?:_[A-Za-z0-9_]*|[A-Z][A-Za-z0-9_]*)$")


WTOK_NQ = re.compile(r"\.\.\.|(?<![A-Za-z0-9_])(?:_[A-Za-z0-9_]*|[A-Z][A-Za-z0-9_]*)|.", re.S)


def compare_texts(ctxt, ftxt, given):
    """chars text vs stream text -> identical | renaming | depth | collision | differs"""
    if ctxt == ftxt: return "identical"
    r = compare_tokens(WTOK, ctxt, ftxt, given)
    if r == "differs":       # unquoted output may contain lone quote characters: retry without treating quotes specially
        r = compare_tokens(WTOK_NQ, ctxt, ftxt, given)
    return r


def compare_tokens(tok, ctxt, ftxt, given):
    a, b = [t for t in tok.findall(ctxt) if t != " "], [t for t in tok.findall(ftxt) if t != " "]
    if len(a) != len(b) or a == b: return "differs"         # (a == b: the texts differ in spacing only)
    f, g = {}, {}
    depth = collision = False
    for x, y in zip(a, b):
        if VARLIKE.match(x) and (VARLIKE.match(y) or y == "..."):
            if y == "...":
                if x in given: return "differs"
                depth = True; continue
            if x != y and (not re.match(r"^_[0-9]+$", y) or x in given): return "differs"
            if f.setdefault(y, x) != x: return "differs"          # one stream variable, two names in the chars text
            if g.setdefault(x, y) != y: collision = True            # one name in the chars text, two different things in the stream text
        elif x != y:
            return "differs"
    return "collision" if collision else "depth" if depth else "renaming"


KEEP = int(os.environ.get("VERIF_KEEP", "3"))


def val(b, k):
    return terms.from_json(b[k]) if k in b else ("var", "_unbound_" + k)


def run(ctx):
    rng = ctx.rng
    nw = ctx.scale(4000, 60000)
    nr = ctx.scale(4000, 60000)
    d = "/var/tmp/verif_c50_%d" % os.getpid()
    shutil.rmtree(d, ignore_errors=True)
    os.makedirs(d)
    failures, tie_breaks, per_key = [], [], {}
    dist = {"write": {"cases": 0, "both_ok": 0, "both_error": 0, "identical": 0}, "read": {"cases": 0, "both_ok": 0, "both_error": 0, "eof": 0, "trailing_text": 0}}
    samples = []

    def fail(key, what, inp, impl, spec):
        per_key[key] = per_key.get(key, 0) + 1
        if per_key[key] <= KEEP:
            failures.append({"key": key, "what": what, "input": inp[:900], "impl": impl[:600], "spec": spec[:600], "property_fails": True})

    try:
        # ------------------------------------------------------------------ writing
        wcases, seen = [], set()
        fixed = [("f(X0,X1,X0)", "[quoted(true),variable_names(['Foo'=X0])]"), ("f(X0,X1)", "[]"), ("f('$VAR'(0),X0)", "[numbervars(true)]"),
                 ("f('$VAR'(1),X0,X1)", "[numbervars(true),variable_names(['A'=X0])]"), ("- (1)", "[]"), ("-(-(1))", "[]"), ("1 - (-1)", "[]"), ("- a", "[]"), ("\\+ (a,b)", "[quoted(true)]"),
                 ("f((a,b))", "[]"), ("[(a:-b)]", "[]"), ("{a,b}", "[]"), ("\"abc\"", "[double_quotes(true)]"), ("'hello world'", "[quoted(true)]"), ("[a|X0]", "[]"),
                 ("2**(-1)", "[]"), ("a=(b=c)", "[]"), ("(a:-b):-c", "[]"), ("f(:-)", "[]"), ("[a,[b,[c,[d]]]]", "[max_depth(2)]"), ("foo", "[foo]"), ("foo", "_"), ("g(X0)", "[max_depth(1)]"), ("'A'(X0)", "[]"), ("f(X0,'$VAR'(0))", "[numbervars(true),quoted(true)]")]
        for t, o in fixed:
            wcases.append((t, o, True))
        while len(wcases) < nw:
            nv = rng.choice([1, 2, 3])
            t = gen_term(rng, rng.choice([1, 2, 2, 3]), nv)
            tv = terms.term_vars(t)
            o = gen_wopts(rng, tv, nv)
            txt = terms.to_prolog(t)
            if (txt, o) in seen: continue
            seen.add((txt, o))
            wcases.append((txt, o, False))
        jobs = []
        B = 25
        for j in range(0, len(wcases), B):
            qs = []
            for i in range(j, min(j + B, len(wcases))):
                t, o, _ = wcases[i]
                f = "%s/w%d.txt" % (d, i)
                qs.append("T = (%s), O = %s, catch((write_term_to_chars(T, O, Cs), R1 = ok), error(E1,_), R1 = err), open('%s', write, S), "
                          "catch((write_term(S, T, O), R2 = ok), error(E2,_), R2 = err), close(S)." % (t, o, f))
            jobs.append({"id": "w%d" % (j // B), "consult": ":- use_module(library(charsio)).\n", "queries": qs, "max_answers": 1, "timeout_ms": 20000})
        res = core.vrun_query(ctx.prop, jobs, tag="w")
        nontriv = set()
        for i, (t, o, _) in enumerate(wcases):
            rec = res.get("w%d" % (i // B), {})
            rs = rec.get("results")
            inp = "T = %s, O = %s: write_term_to_chars(T,O,Cs) vs write_term(S,T,O)" % (t, o)
            if not isinstance(rs, list) or len(rs) <= i % B or not rs[i % B] or not isinstance(rs[i % B][0], dict) or "b" not in rs[i % B][0]:
                a = rs[i % B] if isinstance(rs, list) and len(rs) > i % B else rec
                fail("write:no-answer", "the query comparing the two writers gave no answer (panic, failure or uncaught ball)", inp, json.dumps(a)[:400], "an answer")
                continue
            b = rs[i % B][0]["b"]
            dist["write"]["cases"] += 1
            r1, r2 = val(b, "R1"), val(b, "R2")
            try:
                ftxt = open("%s/w%d.txt" % (d, i), encoding="utf-8", newline="").read()
            except Exception as e:
                ftxt = "<unreadable: %s>" % e
            if r1 != r2:
                fail("write:outcome-differs", "one writer raised an error, the other did not", inp,
                     "chars: %s %s / stream: %s %s" % (r1[1], terms.to_prolog(terms.number_vars([val(b, "E1")])[0]) if r1[1] == "err" else "",
                                                        r2[1], terms.to_prolog(terms.number_vars([val(b, "E2")])[0]) if r2[1] == "err" else ""), "same outcome")
                continue
            if r1 == ("atom", "err"):
                dist["write"]["both_error"] += 1
                e1, e2 = terms.number_vars([val(b, "E1")])[0], terms.number_vars([val(b, "E2")])[0]
                if e1 != e2:
                    fail("write:error-formal-differs", "the two writers raise different errors", inp, "chars: %s / stream: %s" % (terms.to_prolog(e1), terms.to_prolog(e2)), "same formal")
                else:
                    nontriv.add((t, o))
                continue
            dist["write"]["both_ok"] += 1
            items, tail = terms.list_view(val(b, "Cs"))
            ctxt = "".join(x[1] for x in items)
            if re.search(r"[^a-z0-9_(),]", ftxt): nontriv.add((t, o))
            if len(samples) < 5 and i >= len(fixed): samples.append({"write": t, "options": o, "chars": ctxt, "stream": ftxt})
            given = set(re.findall(r"'([A-Za-z_0-9]+)'=", o)) if o.count("variable_names(") == 1 else set()
            cls = compare_texts(ctxt, ftxt, given)
            dist["write"][cls] = dist["write"].get(cls, 0) + 1
            if cls == "identical":
                continue
            io = "chars: %r / stream: %r" % (ctxt, ftxt)
            if cls == "renaming":
                fail("write:unnamed-variables-named-differently",
                     "the texts differ only in the names of variables that variable_names does not name: write_term_to_chars/3 invents letters (A, B, ...), write_term/3 writes _N",
                     inp, io, "byte-identical text")
            elif cls == "depth":
                fail("write:unnamed-variable-printed-beyond-max_depth",
                     "below max_depth write_term/3 prints an unnamed variable as ... while write_term_to_chars/3 prints the name it invented for it", inp, io, "byte-identical text")
            elif cls == "collision":
                if "numbervars(true)" in o and "'$VAR'(" in t:
                    fail("write:invented-variable-name-collides:numbervars",
                         "under numbervars(true) the letter write_term_to_chars/3 invents for an unnamed variable is also the letter of a '$VAR'(N) term in the same text: "
                         "distinct subterms are written identically (f('$VAR'(0),X) gives f(A,A))", inp, io, "byte-identical text")
                else:
                    fail("write:invented-variable-name-collides:unquoted-atom",
                         "the letter write_term_to_chars/3 invents for an unnamed variable is also the text of an atom written without quotes in the same text", inp, io,
                         "byte-identical text")
            else:
                fail("write:text-differs", "the written texts differ (beyond the naming of unnamed variables)", inp, io, "byte-identical text")

        # ------------------------------------------------------------------ reading
        rtexts, seen = [], set()
        fixed_r = ["f(X,Y,X). trailing", "f(X,Y,X) trailing", "f(X", "", "  ", "foo", "foo. ", "foo.", "foo.\n", "% c\n", "f('a\\zb').", "f(X,_Y,_,Z,Z). g(X).", "end_of_file.", "X.",
                   "a. b. c.", "\"str\".", "'a\nb'.", "f(`x`).", "[a|b].", "- 1.", "1.0e400.", "f(A, B", "0'", "a :- b, c.\n% trailing comment", "/* c */ x.", "/* unterminated"]
        for t in fixed_r:
            rtexts.append(t); seen.add(t)
        while len(rtexts) < nr:
            if rng.random() < 0.25:
                t = terms.to_prolog(gen_term(rng, 2, 3)).replace("X0", "X").replace("X1", "_Y").replace("X2", "Zed") + rng.choice([".", ".\n", ". ", " .", "", ". foo(", ".%c"])
            else:
                t, kinds, exp = c17.gen_text(rng)
            if t in seen or not c17.acceptable(t) or "\x00" in t: continue
            seen.add(t); rtexts.append(t)
        jobs = []
        for j in range(0, len(rtexts), B):
            qs = []
            for i in range(j, min(j + B, len(rtexts))):
                f = "%s/r%d.pl" % (d, i)
                with open(f, "w", encoding="utf-8", newline="") as fh:
                    fh.write(rtexts[i])
                qs.append("Cs = %s, catch((read_term_from_chars(Cs, T1, [variable_names(N1), variables(V1), singletons(S1)]), R1 = ok), error(E1,_), R1 = err), "
                          "open('%s', read, S), catch((read_term(S, T2, [variable_names(N2), variables(V2), singletons(S2)]), R2 = ok), error(E2,_), R2 = err), close(S), "
                          "catch((read_from_chars(Cs, T3), R3 = ok), error(E3,_), R3 = err)." % (pl_string(rtexts[i]), f))
            jobs.append({"id": "r%d" % (j // B), "consult": ":- use_module(library(charsio)).\n", "queries": qs, "max_answers": 1, "timeout_ms": 20000})
        res = core.vrun_query(ctx.prop, jobs, tag="r")
        for i, t in enumerate(rtexts):
            rec = res.get("r%d" % (i // B), {})
            rs = rec.get("results")
            inp = "text %r: read_term_from_chars / read_from_chars vs read_term on a file" % t
            if not isinstance(rs, list) or len(rs) <= i % B or not rs[i % B] or not isinstance(rs[i % B][0], dict) or "b" not in rs[i % B][0]:
                a = rs[i % B] if isinstance(rs, list) and len(rs) > i % B else rec
                fail("read:no-answer", "the query comparing the readers gave no answer (panic, failure or uncaught ball)", inp, json.dumps(a)[:400], "an answer")
                continue
            b = rs[i % B][0]["b"]
            dist["read"]["cases"] += 1
            r1, r2, r3 = val(b, "R1"), val(b, "R2"), val(b, "R3")
            def tup(sfx):
                return terms.number_vars([val(b, "T" + sfx), val(b, "N" + sfx), val(b, "V" + sfx), val(b, "S" + sfx)])
            def show(r, sfx):
                if r == ("atom", "err"): return "error " + terms.to_prolog(terms.number_vars([val(b, "E" + sfx)])[0])
                return " / ".join(terms.to_prolog(x) for x in (tup(sfx) if sfx != "3" else terms.number_vars([val(b, "T3")])))
            trivial = False
            if r1 != r2:
                fail("read:outcome-differs", "one reader raised an error, the other returned a term", inp, "chars: %s || stream: %s" % (show(r1, "1"), show(r2, "2")), "same outcome")
            elif r1 == ("atom", "err"):
                dist["read"]["both_error"] += 1
                if terms.number_vars([val(b, "E1")]) != terms.number_vars([val(b, "E2")]):
                    fail("read:error-formal-differs", "the readers raise different errors", inp, "chars: %s || stream: %s" % (show(r1, "1"), show(r2, "2")), "same formal")
            else:
                dist["read"]["both_ok"] += 1
                t1, t2 = tup("1"), tup("2")
                if t1[0] == ("atom", "end_of_file"): dist["read"]["eof"] += 1
                if t1[0] != t2[0]:
                    fail("read:term-differs", "the terms read are not variants", inp, "chars: %s || stream: %s" % (show(r1, "1"), show(r2, "2")), "variants")
                elif t1 != t2:
                    fail("read:options-differ", "variable_names/variables/singletons differ", inp, "chars: %s || stream: %s" % (show(r1, "1"), show(r2, "2")), "same bindings")
                trivial = t1[0][0] == "atom" and not re.search(r"\.\s*\S", t)
            if re.search(r"\.\s+\S", t): dist["read"]["trailing_text"] += 1
            # read_from_chars/2 against read_term_from_chars/3
            if r3 != r1:
                fail("read_from_chars:outcome-differs", "read_from_chars/2 and read_term_from_chars/3 differ in raising an error", inp, "read_from_chars: %s || read_term_from_chars: %s" % (show(r3, "3"), show(r1, "1")), "same outcome")
            elif r3 == ("atom", "err"):
                if terms.number_vars([val(b, "E3")]) != terms.number_vars([val(b, "E1")]):
                    fail("read_from_chars:error-formal-differs", "read_from_chars/2 raises a different error", inp, "read_from_chars: %s || read_term_from_chars: %s" % (show(r3, "3"), show(r1, "1")), "same formal")
            elif terms.number_vars([val(b, "T3")])[0] != terms.number_vars([val(b, "T1")])[0]:
                fail("read_from_chars:term-differs", "read_from_chars/2 reads a different term", inp, "read_from_chars: %s || read_term_from_chars: %s" % (show(r3, "3"), show(r1, "1")), "variants")
            if not trivial: nontriv.add(("r", t))
            if len(samples) < 10 and i >= len(fixed_r): samples.append({"read": t, "chars": show(r1, "1"), "stream": show(r2, "2")})
    finally:
        shutil.rmtree(d, ignore_errors=True)

    for f in failures:
        if per_key.get(f["key"], 0) > 3:
            f["what"] += " (%d cases in this run)" % per_key[f["key"]]
    dist["failure_keys"] = per_key
    return {"evaluations": dist["write"]["cases"] + 2 * dist["read"]["cases"], "distinct_nontrivial": len(nontriv),
            "rule": ("write cases: random terms over operator atoms, quote-needing atoms, negative and big numbers, floats, strings, lists with tails, curly terms, '$VAR'(N), "
                     "1-3 variables, with random write options (quoted, ignore_ops, numbervars, double_quotes, max_depth, variable_names naming a subset of the variables; 3% "
                     "invalid options); write_term_to_chars/3 and write_term/3 to a file are run on the same term and the texts compared byte for byte. Read cases: texts from "
                     "the C17 generator (valid, mutated, token soup; no NUL) and written forms of tricky terms with various endings and trailing text; read_term_from_chars/3 "
                     "and read_term/3 on a file with the same text are compared on (term, variable_names, variables, singletons) as variants or on the error formal, and "
                     "read_from_chars/2 against read_term_from_chars/3 (2 comparisons per text). Non-trivial = distinct write case whose text needs more than [a-z0-9_(),] or "
                     "raises the same error in both, plus distinct read text that is not just a plain atom clause."),
            "samples": samples, "distribution": dist, "failures": failures, "tie_breaks": tie_breaks}
