"""C27 -- clp(Z) labeling is sound and complete on finite domains."""
import itertools, json, os
from vlib import core

META = {
    "level": "proof",
    "text": ("Coq theorems over a reference model of CLP(Z) on finite boxes (expressions over + - * // div mod rem min max ^ abs sign, the six "
             "relations, sum/3, reified connectives with Boolean variables): solutions_exact says that the model's answer list contains exactly the "
             "points of the box that satisfy every posted goal, each once, in the order of label/1 (leftmost variable first, ascending); ground "
             "relations agree with evaluation + comparison, and the model's evaluator equals the is/2 specification of C01. The propagators of "
             "clpz.pl are tied to the model differentially: for random systems the list findall(Vs, label(Vs), L) must equal the model's list exactly "
             "and in order, and ground instances are compared with the model and with is/2."),
    "note": ("Trusted: Coq kernel + vm_compute; the harness vrun; the Python generator and the printers of a system as Prolog text and as a Coq term. "
             "The propagators, the reification machinery and the labeling of clpz.pl (8000 lines of Prolog) are NOT verified, only compared on the "
             "generated systems. Undefined subexpressions (division by zero, 2^(-1)) make a relation false (so its negation true), as clpz.pl's "
             "parse_reified documents. Only label/1 (leftmost, up) is covered; bitwise functors, labeling options and global constraints other than sum/3 are not."),
    "technique": ("Coq proof (solutions_exact, ground_constraint_agrees_with_eval, ground_expr_agrees_with_is, reif_truth_table) over a reference model "
                  "+ differential correspondence evaluated in Coq"),
    "design_ref": "DESIGN.md section 8, C27",
    "coq_targets": ["C27/Props.vo"],
    "coq_dirs": ["C27"],
    "props": "C27/Props.v",
    "trusted_base": ["Coq 8.16.1 kernel, vm_compute (no native_compute)", "harness/vrun + tools/vlib (correspondence)",
                     "checks/C27.py generator and the system -> Prolog text / Coq term printers",
                     "clpz.pl propagators and labeling compared, not verified"],
    "assumptions": ["domains are intervals inside -3..4 and every variable of the system has a domain and is labeled",
                    "a goal whose Boolean position holds a variable already bound to an integer other than 0/1 raises an error in clpz; the check then only requires that the system has no solution",
                    "the exponent of ^ is a variable or an integer (no towers of powers)"],
}

IMPORTS = "From V Require Import C27.Model.\nOpen Scope Z_scope."
VN = "XYZ"
USE = ":- use_module(library(clpz)).\n"

EOPS = {"add": ("+", "EAdd"), "sub": ("-", "ESub"), "mul": ("*", "EMul"), "quot": ("//", "EQuot"), "div": ("div", "EDiv"), "mod": ("mod", "EMod"),
        "rem": ("rem", "ERem"), "min": ("min", "EMin"), "max": ("max", "EMax"), "pow": ("^", "EPow")}
UNOPS = {"neg": ("-", "UNeg"), "abs": ("abs", "UAbs"), "sign": ("sign", "USign")}
RELS = {"eq": ("#=", "REq", "=:="), "ne": ("#\\=", "RNe", "=\\="), "lt": ("#<", "RLt", "<"), "le": ("#=<", "RLe", "=<"),
        "gt": ("#>", "RGt", ">"), "ge": ("#>=", "RGe", ">=")}
COPS = {"and": ("#/\\", "CAnd"), "or": ("#\\/", "COr"), "imp": ("#==>", "CImp"), "rimp": ("#<==", "CRimp"), "iff": ("#<==>", "CIff"), "xor": ("#\\", "CXor")}


# ------------------------------------------------------------------ reference semantics in Python (statistics only; the oracle is the Coq model)
def tdiv(a, b):
    q = abs(a) // abs(b)
    return q if (a < 0) == (b < 0) else -q


def ev(e, rho):
    k = e[0]
    if k == "int": return e[1]
    if k == "var": return rho[e[1]]
    if k == "un":
        a = ev(e[2], rho)
        if a is None: return None
        return {"neg": -a, "abs": abs(a), "sign": (a > 0) - (a < 0)}[e[1]]
    a, b = ev(e[2], rho), ev(e[3], rho)
    if a is None or b is None: return None
    o = e[1]
    if o == "add": return a + b
    if o == "sub": return a - b
    if o == "mul": return a * b
    if o in ("quot", "div", "mod", "rem") and b == 0: return None
    if o == "quot": return tdiv(a, b)
    if o == "div": return a // b
    if o == "mod": return a % b
    if o == "rem": return a - b * tdiv(a, b)
    if o == "min": return min(a, b)
    if o == "max": return max(a, b)
    if o == "pow":
        if b < 0:
            if a == 1: return 1
            if a == -1: return 1 if b % 2 == 0 else -1
            return None
        return a ** b
    raise ValueError(e)


def relv(r, x, y):
    return {"eq": x == y, "ne": x != y, "lt": x < y, "le": x <= y, "gt": x > y, "ge": x >= y}[r]


def truth(c, rho):
    k = c[0]
    if k == "rel":
        x, y = ev(c[2], rho), ev(c[3], rho)
        return x is not None and y is not None and relv(c[1], x, y)
    if k == "bool": return rho[c[1]] == 1
    if k == "const": return bool(c[1])
    if k == "not": return not truth(c[1], rho)
    p, q = truth(c[2], rho), truth(c[3], rho)
    return {"and": p and q, "or": p or q, "imp": (not p) or q, "rimp": (not q) or p, "iff": p == q, "xor": p != q}[c[1]]


def bools_ok(c, rho):
    k = c[0]
    if k == "bool": return rho[c[1]] in (0, 1)
    if k == "not": return bools_ok(c[1], rho)
    if k == "cbin": return bools_ok(c[2], rho) and bools_ok(c[3], rho)
    return True


def holds(g, rho):
    if g[0] == "c": return bools_ok(g[1], rho) and truth(g[1], rho)
    y = ev(g[3], rho)
    return y is not None and relv(g[2], sum(rho[v] for v in g[1]), y)


def has_undefined(g, rho):
    def eu(e):
        return ev(e, rho) is None
    def cu(c):
        if c[0] == "rel": return eu(c[2]) or eu(c[3])
        if c[0] == "not": return cu(c[1])
        if c[0] == "cbin": return cu(c[2]) or cu(c[3])
        return False
    return cu(g[1]) if g[0] == "c" else eu(g[3])


# ------------------------------------------------------------------ printers
def zt(n):
    return "(%d)" % n if n < 0 else str(n)


def e_pl(e, sub=None):
    k = e[0]
    if k == "int": return zt(e[1])
    if k == "var": return VN[e[1]] if sub is None else zt(sub[e[1]])
    if k == "un":
        a = e_pl(e[2], sub)
        return "(-(%s))" % a if e[1] == "neg" else "%s(%s)" % (UNOPS[e[1]][0], a)
    a, b = e_pl(e[2], sub), e_pl(e[3], sub)
    if e[1] in ("min", "max"): return "%s(%s,%s)" % (e[1], a, b)
    return "(%s %s %s)" % (a, EOPS[e[1]][0], b)


def c_pl(c, sub=None):
    k = c[0]
    if k == "rel": return "(%s %s %s)" % (e_pl(c[2], sub), RELS[c[1]][0], e_pl(c[3], sub))
    if k == "bool": return VN[c[1]] if sub is None else zt(sub[c[1]])
    if k == "const": return str(c[1])
    if k == "not": return "(#\\ %s)" % c_pl(c[1], sub)
    return "(%s %s %s)" % (c_pl(c[2], sub), COPS[c[1]][0], c_pl(c[3], sub))


def g_pl(g, sub=None):
    if g[0] == "c": return c_pl(g[1], sub)
    return "sum([%s], %s, %s)" % (",".join(VN[v] if sub is None else zt(sub[v]) for v in g[1]), RELS[g[2]][0], e_pl(g[3], sub))


def e_coq(e):
    k = e[0]
    if k == "int": return "(EInt %s)" % zt(e[1])
    if k == "var": return "(EVar %d)" % e[1]
    if k == "un": return "(EUn %s %s)" % (UNOPS[e[1]][1], e_coq(e[2]))
    return "(EBin %s %s %s)" % (EOPS[e[1]][1], e_coq(e[2]), e_coq(e[3]))


def c_coq(c):
    k = c[0]
    if k == "rel": return "(CRel %s %s %s)" % (RELS[c[1]][1], e_coq(c[2]), e_coq(c[3]))
    if k == "bool": return "(CBool %d)" % c[1]
    if k == "const": return "(CConst %s)" % ("true" if c[1] else "false")
    if k == "not": return "(CNot %s)" % c_coq(c[1])
    return "(CBin %s %s %s)" % (COPS[c[1]][1], c_coq(c[2]), c_coq(c[3]))


def g_coq(g):
    if g[0] == "c": return "(GC %s)" % c_coq(g[1])
    return "(GSum [%s] %s %s)" % ("; ".join("%d%%N" % v for v in g[1]), RELS[g[2]][1], e_coq(g[3]))


def nl_coq(vs):
    return "[%s]" % "; ".join("%d%%N" % v for v in vs)


def zl_coq(xs):
    return "[%s]" % "; ".join(zt(x) for x in xs)


# ------------------------------------------------------------------ generator
def gen_leaf(rng, nv):
    return ("var", rng.randrange(nv)) if rng.random() < 0.68 else ("int", rng.randint(-3, 4))


def gen_expr(rng, nv, depth, nopow=False):
    if depth == 0 or rng.random() < 0.3:
        return gen_leaf(rng, nv)
    r = rng.random()
    if r < 0.16:
        return ("un", rng.choice(list(UNOPS)), gen_expr(rng, nv, depth - 1, nopow))
    o = rng.choice([k for k in EOPS if not (nopow and k == "pow")])
    if o == "pow":
        # no towers: the base contains no ^, the exponent is a leaf
        return ("bin", o, gen_expr(rng, nv, min(depth - 1, 1), True), gen_leaf(rng, nv))
    return ("bin", o, gen_expr(rng, nv, depth - 1, nopow), gen_expr(rng, nv, depth - 1, nopow))


def gen_rel(rng, nv, depth):
    return ("rel", rng.choice(list(RELS)), gen_expr(rng, nv, depth), gen_expr(rng, nv, rng.randint(0, depth)))


def gen_cstr(rng, nv, depth, top=False):
    r = rng.random()
    if depth == 0 or (not top and r < 0.45):
        if not top and r < 0.12: return ("bool", rng.randrange(nv))
        if not top and r < 0.15: return ("const", rng.randint(0, 1))
        return gen_rel(rng, nv, 1)
    if r < 0.6 or top and r < 0.3:
        return ("not", gen_cstr(rng, nv, depth - 1))
    return ("cbin", rng.choice(list(COPS)), gen_cstr(rng, nv, depth - 1), gen_cstr(rng, nv, depth - 1))


def gen_goal(rng, nv):
    r = rng.random()
    if r < 0.55:
        return ("c", gen_rel(rng, nv, 2))
    if r < 0.9:
        return ("c", gen_cstr(rng, nv, 2, top=True))
    return ("sum", [rng.randrange(nv) for _ in range(rng.randint(1, 4))], rng.choice(list(RELS)), gen_expr(rng, nv, 1))


def bool_vars(goals):
    s = set()
    def cc(c):
        if c[0] == "bool": s.add(c[1])
        elif c[0] == "not": cc(c[1])
        elif c[0] == "cbin": cc(c[2]); cc(c[3])
    for g in goals:
        if g[0] == "c": cc(g[1])
    return s


def gen_system(rng):
    nv = rng.choice([1, 2, 2, 3, 3, 3])
    box = []
    for _ in range(nv):
        lo = rng.randint(-3, 4)
        hi = rng.randint(lo, 4) if rng.random() < 0.97 else lo - 1
        if rng.random() < 0.4: lo, hi = rng.choice([(-3, 4), (0, 1), (-1, 2), (0, 4), (-3, 3), (-2, 2), (1, 4)])
        box.append((lo, hi))
    # most goals are drawn so that they hold at one random point of the box: otherwise nearly every system would have no solution
    w = [rng.randint(lo, hi) if lo <= hi else lo for lo, hi in box]
    goals = []
    for _ in range(rng.choice([1, 1, 2, 2, 2, 3, 3, 4])):
        g = gen_goal(rng, nv)
        if rng.random() < 0.8:
            for _ in range(8):
                if holds(g, w): break
                g = gen_goal(rng, nv)
        goals.append(g)
    # variables in Boolean positions mostly get domains around 0..1 (a variable already bound to another integer is a domain error)
    for v in bool_vars(goals):
        if rng.random() < 0.85 and not (box[v][0] <= w[v] <= box[v][1] and w[v] in (0, 1) and box[v][0] < box[v][1]):
            box[v] = rng.choice([(0, 1), (-1, 2), (0, 4), (-3, 4), (0, 1), (-1, 1)])
    return nv, box, goals


def sys_vars(goals):
    s = set()
    def ee(e):
        if e[0] == "var": s.add(e[1])
        elif e[0] == "un": ee(e[2])
        elif e[0] == "bin": ee(e[2]); ee(e[3])
    def cc(c):
        if c[0] == "rel": ee(c[2]); ee(c[3])
        elif c[0] == "bool": s.add(c[1])
        elif c[0] == "not": cc(c[1])
        elif c[0] == "cbin": cc(c[2]); cc(c[3])
    for g in goals:
        if g[0] == "c": cc(g[1])
        else:
            s.update(g[1]); ee(g[3])
    return s


def functors(goals, acc):
    def ee(e):
        if e[0] == "un": acc[e[1]] = acc.get(e[1], 0) + 1; ee(e[2])
        elif e[0] == "bin": acc[e[1]] = acc.get(e[1], 0) + 1; ee(e[2]); ee(e[3])
    def cc(c):
        if c[0] == "rel": acc["#" + c[1]] = acc.get("#" + c[1], 0) + 1; ee(c[2]); ee(c[3])
        elif c[0] == "bool": acc["boolvar"] = acc.get("boolvar", 0) + 1
        elif c[0] == "const": acc["boolconst"] = acc.get("boolconst", 0) + 1
        elif c[0] == "not": acc["#not"] = acc.get("#not", 0) + 1; cc(c[1])
        elif c[0] == "cbin": acc["#" + c[1]] = acc.get("#" + c[1], 0) + 1; cc(c[2]); cc(c[3])
    for g in goals:
        if g[0] == "c": cc(g[1])
        else:
            acc["sum/3"] = acc.get("sum/3", 0) + 1; ee(g[3])


def parse_tuples(ans, width):
    """answers of the labeling query -> list of tuples, [] when the query failed, None when unexpected"""
    if ans and ans[0] == "false": return []
    if not ans or not isinstance(ans[0], dict) or "b" not in ans[0] or "L" not in ans[0]["b"]: return None
    v = ans[0]["b"]["L"]
    if "l" not in v: return None
    out = []
    for a in v["l"]:
        if "l" not in a or len(a["l"]) != width or any("i" not in x for x in a["l"]): return None
        out.append(tuple(int(x["i"]) for x in a["l"]))
    return out


def caught_error(ans):
    """text of E when the labeling query ended in L = error(E), else None"""
    if ans and isinstance(ans[0], dict) and "b" in ans[0] and "L" in ans[0]["b"]:
        v = ans[0]["b"]["L"]
        if "c" in v and v["c"][0] == "error" and len(v["c"]) == 2:
            return core.term_text(v["c"][1])
    return None


def parse_T(ans):
    if ans and isinstance(ans[0], dict) and "b" in ans[0] and "T" in ans[0]["b"]:
        t = ans[0]["b"]["T"]
        if t.get("i") in ("0", "1"): return t["i"] == "1"
        if t.get("a") == "e": return "e"
    return None


def run(ctx):
    rng = ctx.rng
    n_sys = ctx.scale(1500, 20000)
    # further systems are run on the implementation and pre-screened against the (untrusted) Python mirror of the model;
    # only those on which the mirror disagrees with the implementation are forwarded to the Coq model, which alone decides
    x_sys = ctx.scale(4500, 60000)
    systems, seen = [], set()
    while len(systems) < n_sys + x_sys:
        nv, box, goals = gen_system(rng)
        # every variable gets a domain and is labeled, in a random labeling order
        order = list(range(nv))
        rng.shuffle(order)
        doms = list(range(nv))
        rng.shuffle(doms)
        # catch/3: an error that reaches the top of Machine::run_query uncaught can crash the embedding API (see the report)
        text = "catch((%s, %s, findall(%s, label(%s), L)), error(Err, _), L = error(Err))." % (
            ", ".join("%s in %s..%s" % (VN[v], zt(box[v][0]), zt(box[v][1])) for v in doms),
            ", ".join(g_pl(g) for g in goals),
            "[%s]" % ",".join(VN[v] for v in order), "[%s]" % ",".join(VN[v] for v in order))
        if text in seen: continue
        seen.add(text)
        systems.append((nv, box, goals, order, text))

    # ---------------- implementation
    jobs = []
    B = 20
    for i in range(0, len(systems), B):
        jobs.append({"id": "s%d" % i, "consult": USE, "queries": [t[4] for t in systems[i:i + B]], "max_answers": 2, "timeout_ms": 30000})
    # ground instances: two random points of the box per system, every goal; relations also against is/2
    gq = []
    for si, (nv, box, goals, order, text) in enumerate(systems[:n_sys]):
        if any(hi < lo for lo, hi in box): continue
        for _ in range(2):
            pt = [rng.randint(lo, hi) for lo, hi in box]
            for gi, g in enumerate(goals):
                if g[0] == "c" and not bools_ok(g[1], pt):
                    continue    # an integer other than 0/1 in a Boolean position is a domain error, not a constraint
                t = g_pl(g, pt)
                gq.append((si, pt, gi, "direct", "(%s -> T = 1 ; T = 0)." % t))
                gq.append((si, pt, gi, "call", "G = %s, (call(G) -> T = 1 ; T = 0)." % t))
                if g[0] == "c" and g[1][0] == "rel":
                    c = g[1]
                    gq.append((si, pt, gi, "is", "catch((A is %s, B is %s, (A %s B -> T = 1 ; T = 0)), error(_, _), T = e)." % (
                        e_pl(c[2], pt), e_pl(c[3], pt), RELS[c[1]][2])))
    GB = 60
    for i in range(0, len(gq), GB):
        jobs.append({"id": "g%d" % i, "consult": USE, "queries": [q[4] for q in gq[i:i + GB]], "max_answers": 2, "timeout_ms": 30000})
    res = core.vrun_query(ctx.prop, jobs, tag="impl")

    def results(jid, n):
        r = res.get(jid)
        if r is None or "results" not in r:
            return [[{"harness": json.dumps(r)[:200]}]] * n
        rs = r["results"]
        return rs + [[{"harness": "missing"}]] * (n - len(rs))

    # ---------------- compare in Coq: one Boolean per system (answer list + its ground instances); details only for failing systems
    failures, tie_breaks = [], []
    dist = {"functors": {}, "nvars": {}, "ngoals": {}, "solutions": {"0": 0, "1": 0, "2-5": 0, "6-20": 0, ">20": 0}, "box_points_total": 0,
            "solutions_total": 0, "systems_with_undefined_points": 0, "boolean_position_domain_errors": 0,
            "prescreened_only": {"agree": 0, "forwarded_to_coq": 0},
            "ground": {"direct": 0, "call": 0, "is": 0, "is_error": 0, "true": 0, "false": 0}}
    nontrivial = set()
    n_obs = 0

    def bad_obs(kind, query, ans):
        failures.append({"key": "clpz:%s:unexpected-answer" % kind, "what": "unexpected answer shape (error, panic, non-integer value or timeout)",
                         "input": query, "impl": json.dumps(ans)[:400], "spec": "a list of integer tuples / a truth value", "property_fails": True})

    sysobs = {}     # system index -> (coq pieces, meta of the label observation)
    for i in range(0, len(systems), B):
        chunk = systems[i:i + B]
        rs = results("s%d" % i, len(chunk))
        for k, (nv, box, goals, order, text) in enumerate(chunk):
            L = parse_tuples(rs[k], nv)
            pts = list(itertools.product(*[range(box[v][0], box[v][1] + 1) for v in order]))
            sols, undef, pysols = 0, False, []
            for p in pts:
                rho = [0] * nv
                for v, x in zip(order, p): rho[v] = x
                if all(holds(g, rho) for g in goals):
                    sols += 1; pysols.append(tuple(p))
                if not undef and any(has_undefined(g, rho) for g in goals): undef = True
            if i + k >= n_sys:
                if L == pysols or (L is None and not pysols and bool_vars(goals) and caught_error(rs[k]) is not None):
                    dist["prescreened_only"]["agree"] += 1
                    continue
                dist["prescreened_only"]["forwarded_to_coq"] += 1
            dist["box_points_total"] += len(pts); dist["solutions_total"] += sols
            dist["systems_with_undefined_points"] += 1 if undef else 0
            dist["solutions"]["0" if sols == 0 else "1" if sols == 1 else "2-5" if sols <= 5 else "6-20" if sols <= 20 else ">20"] += 1
            dist["nvars"][nv] = dist["nvars"].get(nv, 0) + 1
            dist["ngoals"][len(goals)] = dist["ngoals"].get(len(goals), 0) + 1
            functors(goals, dist["functors"])
            if 0 < sols < len(pts) and len(sys_vars(goals)) >= 2: nontrivial.add(text)
            impl_text = None
            if L is None and bool_vars(goals) and caught_error(rs[k]) is not None:
                # a variable in a Boolean position was already bound to an integer other than 0/1 when the goal was posted: clpz raises
                # an error (domain_error(clpz_reifiable_expression,_), but also type_error(integer,?(_)) or an instantiation error) instead
                # of failing. That is not a constraint system; the check only requires that no solution exists then.
                dist["boolean_position_domain_errors"] += 1
                L, impl_text = [], "error: " + caught_error(rs[k])
            if L is None:
                bad_obs("label", text, rs[k]); continue
            vs, bx, gs = nl_coq(order), "[%s]" % "; ".join("(%s, %s)" % (zt(box[v][0]), zt(box[v][1])) for v in order), "[%s]" % "; ".join(g_coq(g) for g in goals)
            Lc = "[%s]" % "; ".join(zl_coq(t) for t in L)
            sysobs[i + k] = {"vs": vs, "bx": bx, "gs": gs, "L": Lc, "vs0": nl_coq(list(range(nv))), "gobs": [],
                             "meta": [("label", text, impl_text or ("L = " + json.dumps(L)), "check_system %s %s %s %s" % (vs, bx, gs, Lc),
                                       "solutions %s %s %s" % (vs, bx, gs))]}
            n_obs += 1
    for i in range(0, len(gq), GB):
        chunk = gq[i:i + GB]
        rs = results("g%d" % i, len(chunk))
        for k, (si, pt, gi, kind, q) in enumerate(chunk):
            if si not in sysobs: continue
            so = sysobs[si]
            t = parse_T(rs[k])
            xs = zl_coq(pt)
            if t is None or (t == "e" and kind != "is"):
                bad_obs("ground-" + kind, q, rs[k]); continue
            dist["ground"][kind] += 1
            n_obs += 1
            if kind == "is":
                o = "None" if t == "e" else "(Some %s)" % ("true" if t else "false")
                if t == "e": dist["ground"]["is_error"] += 1
                item = "GI %s %d %s" % (xs, gi, o)
            else:
                dist["ground"]["true" if t else "false"] += 1
                item = "GO %s %d %s" % (xs, gi, "true" if t else "false")
            so["gobs"].append(item)
            so["meta"].append(("ground-" + kind, q, "T = %s" % (t if t == "e" else int(t)), "check_gobs %s %s (%s)" % (so["vs0"], so["gs"], item),
                               "map (holds (env %s %s)) %s" % (so["vs0"], xs, so["gs"])))
    keys = sorted(sysobs)
    bools = ["check_all %s %s %s %s %s [%s]" % (sysobs[k]["vs"], sysobs[k]["bx"], sysobs[k]["gs"], sysobs[k]["L"], sysobs[k]["vs0"],
                                              "; ".join(sysobs[k]["gobs"])) for k in keys]
    per = max(50, -(-len(bools) // max(1, core.NPROC)))
    bad, errs = core.coq_eval_bools(ctx.prop, IMPORTS, bools, chunk=min(per, 1500))
    tie_breaks += [{"kind": "coq-eval", "what": "model evaluation shard failed", "detail": t} for _, t in errs]
    if bad:
        det, dmeta = [], []
        for i in bad[:40]:
            for m in sysobs[keys[i]]["meta"]:
                det.append(m[3]); dmeta.append(m)
        dbad, derrs = core.coq_eval_bools(ctx.prop, IMPORTS, det, chunk=200, tag="detail")
        tie_breaks += [{"kind": "coq-eval", "what": "model evaluation shard failed (details)", "detail": t} for _, t in derrs]
        reported = {}
        for i in dbad:
            kind, q, impl, _, spec = dmeta[i]
            if reported.get(kind, 0) >= 5: continue
            reported[kind] = reported.get(kind, 0) + 1
            failures.append({"key": "clpz:%s" % kind, "what": "%s result differs from the model" % kind, "input": q, "impl": impl[:600],
                             "spec": core.coq_eval_show(ctx.prop, IMPORTS, spec)[:800], "property_fails": True})
        if not dbad and not derrs:
            tie_breaks.append({"kind": "coq-eval", "what": "combined check false but no single observation disagrees", "detail": bools[bad[0]][:2000]})
    meta = [m for k in keys for m in sysobs[k]["meta"]]
    samples = []
    for k in range(0, len(meta), max(1, len(meta) // 10)):
        samples.append({"query": meta[k][1], "impl": meta[k][2][:200]})
    return {
        "evaluations": n_obs,
        "distinct_nontrivial": len(nontrivial),
        "rule": ("random systems of 1-4 goals over 1-3 variables with interval domains inside -3..4 (sometimes empty): relations #= #\\= #< #=< #> #>= "
                 "over + - * // div mod rem min max ^ abs sign and unary minus (depth <= 2), reified combinations with #\\ #/\\ #\\/ #==> #<== #<==> "
                 "and binary #\\ including Boolean variables and 0/1, and sum/3; domains posted in random order, label/1 on a random permutation "
                 "of the variables; the list of answers must equal the model's list in order. Two random points per system: every goal "
                 "instantiated at the point, called directly and through call/1, relations also through is/2 + comparison. All of these are compared "
                 "with the model by vm_compute in Coq (evaluations counts only these); three times as many further systems are pre-screened against "
                 "a Python mirror of the model and forwarded to Coq only when the mirror disagrees with the implementation "
                 "(distribution.prescreened_only). non-trivial = distinct "
                 "system mentioning at least 2 variables whose solution set is neither empty nor the whole box"),
        "samples": samples,
        "distribution": dist,
        "failures": failures,
        "tie_breaks": tie_breaks,
    }
