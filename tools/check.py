#!/usr/bin/env python3
"""Single entry point:  tools/check.py Cxx [--tier quick|thorough] [--replay file]

Steps (DESIGN.md section 2): rebuild the harness from /repo's working tree, regenerate the
source-derived Coq tables, re-check the property's theorems (full .vo build + Print Assumptions
audit), run the correspondence between the Coq model and the implementation, write evidence,
apply the violation protocol."""
import argparse, importlib, json, os, random, re, sys, time, traceback

sys.path.insert(0, os.path.dirname(os.path.abspath(__file__)))
sys.path.insert(0, os.path.dirname(os.path.dirname(os.path.abspath(__file__))))
from vlib import core


class Ctx:
    def __init__(self, prop, tier, seed):
        self.prop = prop
        self.tier = tier
        self.seed = seed
        self.rng = random.Random(seed * 1000003 + int(prop[1:]))
        self.thorough = tier == "thorough"
        self.notes = []
        self.proof_broken = None   # set when a Coq obligation no longer checks

    def scale(self, quick, thorough):
        return thorough if self.thorough else quick


def main():
    ap = argparse.ArgumentParser()
    ap.add_argument("prop")
    ap.add_argument("--tier", default=os.environ.get("VERIF_TIER", "quick"))
    ap.add_argument("--replay")
    ap.add_argument("--no-build", action="store_true")
    a = ap.parse_args()
    prop = a.prop
    tier = a.tier if a.tier in ("quick", "thorough") else "quick"
    seed = int(os.environ.get("VERIF_SEED", "1") or "1")
    if a.replay:
        # a replay file names the seed and tier of the run that produced it: the same generated inputs are run again
        try:
            rp = json.load(open(a.replay))
            seed = int(rp.get("seed", seed))
            tier = rp.get("tier", tier) if rp.get("tier") in ("quick", "thorough") else tier
        except (OSError, ValueError) as e:
            print("cannot read replay file %s: %s" % (a.replay, e), file=sys.stderr)
    t0 = time.time()
    mod = importlib.import_module("checks." + prop)
    META = mod.META
    ctx = Ctx(prop, tier, seed)
    os.makedirs(os.path.join(core.WORK, prop), exist_ok=True)
    os.makedirs(os.path.join(core.ROOT, "evidence"), exist_ok=True)
    os.makedirs(os.path.join(core.ROOT, "replays"), exist_ok=True)

    tie_breaks = []      # things that no longer check (proof obligations, translators, model/impl differences)
    failures = []        # concrete inputs on which the property itself fails on the implementation
    res = {}
    proof = {"obligations": 0, "discharged": 0, "theorems": [], "axioms": []}

    # 1. rebuild implementation harness from the current tree
    try:
        if not a.no_build:
            bt = core.build_harness()
            ctx.notes.append("harness rebuilt in %.1fs" % bt)
    except core.BuildError as e:
        tie_breaks.append({"kind": "build", "what": "the harness no longer builds against /repo", "detail": str(e)[-3000:]})

    # 2. regenerate source-derived tables, 3. proofs
    if not any(t["kind"] == "build" for t in tie_breaks):
        try:
            if hasattr(mod, "gen"):
                mod.gen(ctx)
        except Exception as e:
            tie_breaks.append({"kind": "translator", "what": "translator could not regenerate the model tables from the source",
                               "detail": "".join(traceback.format_exception_only(type(e), e))[-3000:]})
        targets = META.get("coq_targets", [])
        if targets:
            rc, out = core.coq_make(targets)
            if rc != 0:
                tie_breaks.append({"kind": "proof", "what": "a Coq obligation of %s no longer checks" % prop,
                                   "theorem": _failed_file(out), "detail": out[-3000:]})
        bad = core.audit_sources(META.get("coq_dirs", []))
        if bad:
            tie_breaks.append({"kind": "audit", "what": "forbidden construct in Coq sources", "detail": bad[:20]})
        if META.get("props"):
            au = core.audit_props(prop, META["props"])
            proof["theorems"] = au["theorems"]
            proof["obligations"] = len(au["theorems"])
            proof["axioms"] = au["axioms"]
            if au["ok"]:
                proof["discharged"] = len(au["theorems"])
            else:
                proof["discharged"] = 0 if au["rc"] != 0 else len(au["theorems"]) - len(au["missing_print"])
                if not any(t["kind"] == "proof" for t in tie_breaks):
                    tie_breaks.append({"kind": "proof", "what": "pinned theorem file of %s does not check or uses a non-allowed axiom" % prop,
                                       "theorem": META["props"], "detail": {"not_allowed": au["not_allowed"], "missing_print": au["missing_print"],
                                                                           "output": au["output"][-2000:]}})
        # thorough tier: independent re-check of the compiled theorem file and everything it depends on
        if ctx.thorough and META.get("props") and not any(t["kind"] == "proof" for t in tie_breaks):
            mod_name = "V." + META["props"][:-2].replace("/", ".")
            rc, out = core.sh(["coqchk", "-silent", "-o", "-Q", core.COQ, "V", mod_name], timeout=3000)
            m = re.search(r"\* Axioms:(.*?)\n\s*\n\s*\* Constants/Inductives relying on type-in-type:(.*?)\n\s*\n", out, re.S)
            chk_axioms = [a.strip() for a in (m.group(1) if m else "").strip().split("\n") if a.strip() and a.strip() != "<none>"]
            # the primitive 63-bit integers and floats of the standard library (used to pass bulk data to the model) are
            # declared by the library itself as primitives with axiomatised specifications: they are not ours
            STD_PRIM = ("Coq.Numbers.Cyclic.Int63.", "Coq.Floats.", "Coq.Array.")
            bad_ax = [a for a in chk_axioms if not a.split()[0].startswith(STD_PRIM) and a.split()[0].rstrip(":") not in core.ALLOWED_AXIOMS
                      and a.split(".")[-1].split()[0] not in core.ALLOWED_AXIOMS]
            ctx.notes.append("coqchk: rc=%d axioms=%s" % (rc, chk_axioms or "none"))
            if rc != 0 or bad_ax or "relying on type-in-type: <none>" not in re.sub(r"\s+", " ", out):
                tie_breaks.append({"kind": "proof", "what": "coqchk does not accept %s or reports unexpected axioms" % mod_name, "theorem": mod_name, "detail": out[-2000:]})
        ctx.proof_broken = [t for t in tie_breaks if t["kind"] in ("proof", "translator")] or None

        # 4. correspondence (also the search for a failing input when a tie is broken)
        try:
            res = mod.run(ctx) or {}
        except core.BuildError as e:
            tie_breaks.append({"kind": "build", "what": "build failed during the check", "detail": str(e)[-3000:]})
        except Exception as e:
            tie_breaks.append({"kind": "harness", "what": "the correspondence run itself failed",
                               "detail": traceback.format_exc()[-4000:]})
        failures = res.get("failures", [])
        tie_breaks += res.get("tie_breaks", [])

    # 5. classify against known findings
    kf = core.known_findings()
    known = {(f["property"], f["key"]): f for f in kf.get("findings", [])}
    new_fail, known_hit = [], {}
    for f in failures:
        k = (prop, f.get("key"))
        if k in known:
            known_hit.setdefault(f["key"], f)
        else:
            new_fail.append(f)
    if os.environ.get("VERIF_DUMP_KNOWN"):
        os.makedirs(os.path.join(core.ROOT, "work", prop), exist_ok=True)
        json.dump(known_hit, open(os.path.join(core.ROOT, "work", prop, "known_hits.json"), "w"), indent=1)
    for key, f in sorted(known_hit.items()):
        print("KNOWN-FINDING: property=%s %s" % (prop, known[(prop, key)]["what"]))
    # tie breaks that are fully explained by known findings (same key) do not alarm
    tb_open = [t for t in tie_breaks if not (t.get("key") and (prop, t["key"]) in known)]

    wall = time.time() - t0
    violations = 0
    replay_path = None
    line = None
    if new_fail:
        violations = len(new_fail)
        replay_path = os.path.join(core.ROOT, "replays", "%s-%d.json" % (prop, seed))
        json.dump({"property": prop, "seed": seed, "tier": tier, "kind": "failing-input",
                   "failures": new_fail[:20], "tie_breaks": tb_open[:10],
                   "replay_cmd": "cd /verif && VERIF_SEED=%d tools/check.py %s --tier %s" % (seed, prop, tier)},
                  open(replay_path, "w"), indent=1, default=str)
        line = "VIOLATION property=%s replay=%s" % (prop, replay_path)
    elif tb_open:
        violations = len(tb_open)
        replay_path = os.path.join(core.ROOT, "replays", "%s-%d.json" % (prop, seed))
        json.dump({"property": prop, "seed": seed, "tier": tier, "kind": "no-longer-checks",
                   "no_longer_checks": tb_open[:20],
                   "searched": {"evaluations": res.get("evaluations", 0), "rule": res.get("rule", "")},
                   "replay_cmd": "cd /verif && VERIF_SEED=%d tools/check.py %s --tier %s" % (seed, prop, tier)},
                  open(replay_path, "w"), indent=1, default=str)
        line = "VIOLATION property=%s replay=%s no-failing-input-found" % (prop, replay_path)

    # 6. evidence
    cov = {
        "obligations": proof["obligations"], "discharged": proof["discharged"],
        "checker_cmd": "make -C /verif/coq %s && coqc -Q /verif/coq V /verif/coq/%s (Print Assumptions audit)" % (" ".join(META.get("coq_targets", [])), META.get("props", "")),
        "trusted_base": META.get("trusted_base", []) + ["axioms reported by Print Assumptions: %s" % (", ".join(proof["axioms"]) or "none (closed under the global context)")],
        "theorems": proof["theorems"],
        "evaluations": int(res.get("evaluations", 0)),
        "distinct_nontrivial": int(res.get("distinct_nontrivial", 0)),
        "rule": res.get("rule", ""),
        "samples": res.get("samples", [])[:12] or ["(no correspondence cases were run)"],
        "distribution": res.get("distribution", {}),
        "explanation": META.get("explanation", META["text"]),
        "known_findings_hit": sorted(known_hit.keys()),
        "notes": ctx.notes + res.get("notes", []),
    }
    for k in ("exhaustive", "programs", "disagreements_checked", "states", "transitions", "traces_validated_against_impl"):
        if k in res:
            cov[k] = res[k]
    if "exhaustive" in cov and not isinstance(cov["exhaustive"], bool):
        cov["exhaustive_note"] = str(cov["exhaustive"])
        cov["exhaustive"] = False      # only a finite sub-space was enumerated completely; the note says which
    for k in ("programs", "disagreements_checked", "states", "transitions", "traces_validated_against_impl"):
        if k in cov and not isinstance(cov[k], int):
            cov[k + "_note"] = str(cov.pop(k))
    ev = {"property_id": prop, "tier": tier, "seed": seed, "level": META["level"], "coverage": cov,
          "assumptions": META.get("assumptions", []), "wall_s": round(wall, 2), "violations": violations}
    json.dump(ev, open(os.path.join(core.ROOT, "evidence", prop + ".json"), "w"), indent=1, default=str)

    if line:
        print(line)
        sys.exit(1)
    stale = os.path.join(core.ROOT, "replays", "%s-%d.json" % (prop, seed))
    if os.path.exists(stale):
        os.remove(stale)
    print("OK property=%s tier=%s obligations=%d/%d evaluations=%d nontrivial=%d wall=%.1fs" % (
        prop, tier, proof["discharged"], proof["obligations"], cov["evaluations"], cov["distinct_nontrivial"], wall))
    sys.exit(0)


def _failed_file(out):
    import re
    m = re.findall(r'File "([^"]+)", line (\d+)', out)
    return "%s line %s" % m[-1] if m else "unknown"


if __name__ == "__main__":
    main()
