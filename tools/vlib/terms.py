"""Python-side terms shared by the checks: one representation, three serialisations
(Prolog text for the implementation, Coq `term` of coq/Base/Term.v for the model, from vrun's JSON).

A term is a tuple:
  ("var", name)            name: str (query variable name) or int (canonical number)
  ("int", n)               python int
  ("rat", n, d)            d > 1, lowest terms
  ("flt", bits)            IEEE-754 binary64 bit pattern as int
  ("atom", text)           python str (code points)
  ("cmp", name, [args])    lists are ('cmp', '.', [H, T]) chains ending in ('atom', '[]')
"""
import struct, re, sys
sys.setrecursionlimit(max(sys.getrecursionlimit(), 20000))   # long lists are nested cons cells

NIL = ("atom", "[]")


def mklist(items, tail=NIL):
    t = tail
    for x in reversed(items):
        t = ("cmp", ".", [x, t])
    return t


def mkstring(s):
    return mklist([("atom", c) for c in s])


def flt(x):
    return ("flt", struct.unpack(">Q", struct.pack(">d", float(x)))[0])


def flt_value(bits):
    return struct.unpack(">d", struct.pack(">Q", bits))[0]


def list_view(t):
    items = []
    while t[0] == "cmp" and t[1] == "." and len(t[2]) == 2:
        items.append(t[2][0]); t = t[2][1]
    return items, t


# ---------------------------------------------------------------- from vrun JSON
def from_json(j):
    if "i" in j: return ("int", int(j["i"]))
    if "r" in j: return ("rat", int(j["r"][0]), int(j["r"][1]))
    if "f" in j: return ("flt", int(j["f"], 16))
    if "a" in j: return ("atom", j["a"])
    if "s" in j: return mkstring(j["s"])
    if "l" in j: return mklist([from_json(x) for x in j["l"]])
    if "c" in j: return ("cmp", j["c"][0], [from_json(x) for x in j["c"][1:]])
    if "v" in j: return ("var", j["v"])
    raise ValueError("unknown term json %r" % (j,))


def number_vars(terms):
    """Rename variables by first occurrence (left to right, depth first) across the given terms: canonical variant form."""
    m = {}
    def go(t):
        if t[0] == "var":
            if t[1] not in m: m[t[1]] = len(m)
            return ("var", m[t[1]])
        if t[0] == "cmp":
            return ("cmp", t[1], [go(x) for x in t[2]])
        return t
    return [go(t) for t in terms]


# ---------------------------------------------------------------- Prolog text
_SIMPLE = re.compile(r"^[a-z][A-Za-z0-9_]*$")


def quote_atom(s):
    if s == "[]" or s == "{}" or s == "!" or s == ";":
        return s
    if _SIMPLE.match(s):
        return s
    out = ["'"]
    for ch in s:
        o = ord(ch)
        if ch == "'": out.append("\\'")
        elif ch == "\\": out.append("\\\\")
        elif o < 32 or o == 127 or (o > 127 and not ch.isprintable()) or ch in "   ":
            out.append("\\x%x\\" % o)
        else: out.append(ch)
    out.append("'")
    return "".join(out)


def flt_text(bits):
    v = flt_value(bits)
    s = repr(v)
    if "e" in s or "E" in s:
        m, e = s.lower().split("e")
        if "." not in m: m += ".0"
        return "%se%d" % (m, int(e))
    if "." not in s: s += ".0"
    return s


def to_prolog(t):
    """Canonical (functional-notation, fully quoted) Prolog text; variables must have str names or ints (-> _G<n>)."""
    k = t[0]
    if k == "var": return t[1] if isinstance(t[1], str) else "_G%d" % t[1]
    if k == "int": return str(t[1]) if t[1] >= 0 else "(%d)" % t[1]
    if k == "rat": return "(%d rdiv %d)" % (t[1], t[2])   # only meaningful under is/2
    if k == "flt":
        s = flt_text(t[1])
        return "(%s)" % s if s.startswith("-") else s
    if k == "atom": return quote_atom(t[1])
    if k == "cmp":
        if t[1] == "." and len(t[2]) == 2:
            items, tail = list_view(t)
            body = ",".join(arg_text(x) for x in items)
            if tail == NIL: return "[%s]" % body
            return "[%s|%s]" % (body, arg_text(tail))
        return "%s(%s)" % (quote_atom(t[1]), ",".join(arg_text(x) for x in t[2]))
    raise ValueError(t)


def arg_text(t):
    s = to_prolog(t)
    # an atom that is an operator must be bracketed as an argument: bracket every non-alphanumeric atom
    if t[0] == "atom" and not _SIMPLE.match(t[1]) and t[1] not in ("[]", "{}"):
        return "(%s)" % s
    return s


# ---------------------------------------------------------------- Coq text
def coq_name(s):
    return "[" + ";".join("%d" % ord(c) for c in s) + "]%N"


def to_coq(t, varnum=None):
    k = t[0]
    if k == "var":
        n = t[1] if isinstance(t[1], int) else (varnum[t[1]] if varnum is not None else None)
        if n is None: raise ValueError("unnumbered variable %r" % (t,))
        return "(Var %d%%N)" % n
    if k == "int": return "(Int (%d)%%Z)" % t[1]
    if k == "rat": return "(Rat (%d)%%Z (%d)%%Z)" % (t[1], t[2])
    if k == "flt": return "(Flt (%d)%%Z)" % t[1]
    if k == "atom": return "(Atom %s)" % coq_name(t[1])
    if k == "cmp": return "(Cmp %s [%s])" % (coq_name(t[1]), "; ".join(to_coq(x, varnum) for x in t[2]))
    raise ValueError(t)


def term_vars(t, acc=None):
    acc = [] if acc is None else acc
    if t[0] == "var":
        if t[1] not in acc: acc.append(t[1])
    elif t[0] == "cmp":
        for x in t[2]: term_vars(x, acc)
    return acc


def size(t):
    return 1 + sum(size(x) for x in t[2]) if t[0] == "cmp" else 1


# ---------------------------------------------------------------- answers
def answers(result):
    """One query's vrun result (list) -> list of ('sol', {var: term}) | ('true',) | ('false',) | ('error', formal, ctx) |
    ('ball', term) | ('panic', msg) | ('more',)"""
    out = []
    for a in result:
        if a == "true": out.append(("true",))
        elif a == "false": out.append(("false",))
        elif a == "more": out.append(("more",))
        elif isinstance(a, dict) and "b" in a:
            out.append(("sol", {k: from_json(v) for k, v in a["b"].items()}))
        elif isinstance(a, dict) and "err" in a:
            t = from_json(a["err"])
            if t[0] == "cmp" and t[1] == "error" and len(t[2]) == 2: out.append(("error", t[2][0], t[2][1]))
            else: out.append(("ball", t))
        elif isinstance(a, dict) and "exc" in a: out.append(("ball", from_json(a["exc"])))
        elif isinstance(a, dict) and "panic" in a: out.append(("panic", a["panic"]))
        else: out.append(("unknown", a))
    return out
