# Shared machinery for /verif checks: builds, Coq evaluation, harness driving,
# audit, evidence, violation protocol.
import fcntl, glob, hashlib, json, os, random, re, shutil, subprocess, sys, time

ROOT = os.path.dirname(os.path.dirname(os.path.dirname(os.path.abspath(__file__))))
REPO = os.environ.get("VERIF_REPO", "/repo")
CACHE = os.path.join(ROOT, ".cache")
WORK = os.path.join(ROOT, "work")
COQ = os.path.join(ROOT, "coq")
TARGET = os.path.join(CACHE, "target")
VRUN = os.path.join(TARGET, "release", "vrun")
NPROC = int(os.environ.get("VERIF_JOBS", "16"))

ENV = dict(os.environ)
ENV.update({"CARGO_NET_OFFLINE": "true", "CARGO_TARGET_DIR": TARGET})

ALLOWED_AXIOMS = {
    # standard-library axioms only, each named in DESIGN.md section 5
    "ClassicalDedekindReals.sig_forall_dec",
    "ClassicalDedekindReals.sig_not_dec",
    "FunctionalExtensionality.functional_extensionality_dep",
    "functional_extensionality_dep",
    "Classical_Prop.classic",
    "classic",
    "sig_forall_dec",
    "sig_not_dec",
}

FORBIDDEN = re.compile(
    r"\b(Admitted|admit|Axiom|Axioms|Parameter|Parameters|Conjecture|Conjectures|Hypothesis|Hypotheses|Variable|Variables|"
    r"Admit\s+Obligations|bypass_check|Unset\s+Guard\s+Checking|Unset\s+Positivity\s+Checking|Unset\s+Universe\s+Checking|"
    r"type-in-type|impredicative-set|native_compute)\b")


def log(*a):
    print(*a, file=sys.stderr, flush=True)


class Lock:
    def __init__(self, name):
        os.makedirs(CACHE, exist_ok=True)
        self.path = os.path.join(CACHE, name + ".lock")

    def __enter__(self):
        self.f = open(self.path, "w")
        fcntl.flock(self.f, fcntl.LOCK_EX)
        return self

    def __exit__(self, *a):
        fcntl.flock(self.f, fcntl.LOCK_UN)
        self.f.close()


def sh(cmd, timeout=3600, cwd=None, env=None, check=False):
    p = subprocess.run(cmd, shell=isinstance(cmd, str), cwd=cwd, env=env or ENV,
                       stdout=subprocess.PIPE, stderr=subprocess.STDOUT, timeout=timeout, text=True,
                       errors="replace")
    if check and p.returncode != 0:
        raise RuntimeError("command failed: %s\n%s" % (cmd, p.stdout[-4000:]))
    return p.returncode, p.stdout


# ---------------------------------------------------------------- builds

def build_harness():
    """(Re)build vrun against /repo's current working tree, hooks on."""
    t0 = time.time()
    with Lock("cargo"):
        h = os.path.join(ROOT, "harness")
        shutil.copyfile(os.path.join(REPO, "Cargo.lock"), os.path.join(h, "Cargo.lock"))
        rc, out = sh(["cargo", "build", "--release", "--offline"], cwd=h, timeout=3000)
    if rc != 0:
        raise BuildError("cargo build of the harness against %s failed:\n%s" % (REPO, out[-6000:]))
    return time.time() - t0


class BuildError(Exception):
    pass


def coq_project():
    """Regenerate _CoqProject and Makefile from the .v files present."""
    files = []
    for d, _, fs in os.walk(COQ):
        for f in sorted(fs):
            if f.endswith(".v"):
                files.append(os.path.relpath(os.path.join(d, f), COQ))
    files.sort()
    txt = "-Q . V\n-arg -w -arg -notation-overridden,-deprecated-hint-without-locality,-deprecated-instance-without-locality\n" + "\n".join(files) + "\n"
    p = os.path.join(COQ, "_CoqProject")
    old = open(p).read() if os.path.exists(p) else None
    if old != txt or not os.path.exists(os.path.join(COQ, "Makefile")):
        open(p, "w").write(txt)
        sh("coq_makefile -f _CoqProject -o Makefile", cwd=COQ, check=True)
    return files


def coq_make(targets=None, timeout=3000):
    """Full .vo build (never -vos) of the given targets (default: everything)."""
    with Lock("coq"):
        coq_project()
        cmd = ["make", "-j%d" % NPROC] + (targets or [])
        rc, out = sh(cmd, cwd=COQ, timeout=timeout)
    return rc, out


def strip_coq_comments(s):
    out = []
    depth = 0
    i = 0
    instr = False
    while i < len(s):
        if depth == 0 and s[i] == '"':
            instr = not instr
            out.append(s[i]); i += 1; continue
        if not instr and s.startswith("(*", i):
            depth += 1; i += 2; continue
        if not instr and depth > 0 and s.startswith("*)", i):
            depth -= 1; i += 2; continue
        if depth == 0:
            out.append(s[i])
        i += 1
    return "".join(out)


def strip_coq_strings(s):
    return re.sub(r'"(?:[^"]|"")*"', '""', s)


def audit_sources(dirs):
    """No Admitted/admit/Axiom/Parameter/... anywhere in the given coq dirs."""
    bad = []
    for d in dirs:
        for path in sorted(glob.glob(os.path.join(COQ, d, "**", "*.v"), recursive=True)):
            src = strip_coq_strings(strip_coq_comments(open(path, errors="replace").read()))
            # Variables/Hypotheses are allowed only inside a Section
            depth = 0
            for ln, line in enumerate(src.split("\n"), 1):
                if re.match(r"\s*Section\b", line):
                    depth += 1
                for m in FORBIDDEN.finditer(line):
                    w = m.group(1)
                    if re.match(r"(Variable|Variables|Hypothesis|Hypotheses)$", w) and depth > 0:
                        continue
                    bad.append("%s:%d: %s" % (os.path.relpath(path, ROOT), ln, w))
                if re.match(r"\s*End\b", line) and depth > 0:
                    depth -= 1
    return bad


def audit_props(prop, props_rel):
    """Re-compile the pinned theorem file, parse Print Assumptions output.
    Returns (ok, theorems, assumptions, output)."""
    os.makedirs(os.path.join(WORK, prop, "audit"), exist_ok=True)
    src = os.path.join(COQ, props_rel)
    out_vo = os.path.join(WORK, prop, "audit", os.path.basename(props_rel) + "o")
    rc, out = sh(["coqc", "-noglob", "-Q", COQ, "V", "-o", out_vo, src], timeout=1200)
    text = strip_coq_comments(open(src).read())
    theorems = re.findall(r"^\s*Theorem\s+([A-Za-z0-9_']+)", text, re.M)
    printed = re.findall(r"^\s*Print\s+Assumptions\s+([A-Za-z0-9_']+)", text, re.M)
    missing = [t for t in theorems if t not in printed]
    axioms = set()
    # Print Assumptions output: either "Closed under the global context" or "Axioms:\nname : type ..."
    for block in re.split(r"\n(?=Axioms:|Closed under)", "\n" + out):
        if block.startswith("Axioms:"):
            for m in re.finditer(r"^([A-Za-z_][A-Za-z0-9_.']*)\s*:", block, re.M):
                if m.group(1) != "Axioms":
                    axioms.add(m.group(1))
    closed = len(re.findall(r"Closed under the global context", out))
    ok = (rc == 0) and not missing
    notallowed = sorted(a for a in axioms if a not in ALLOWED_AXIOMS)
    return {"ok": ok and not notallowed, "rc": rc, "theorems": theorems, "missing_print": missing,
            "axioms": sorted(axioms), "not_allowed": notallowed, "closed": closed, "output": out}


# ---------------------------------------------------------------- Coq-side evaluation of the model

def coq_str(s):
    """Coq string literal for a str consisting of bytes < 256 given as latin-1-ish? We pass UTF-8 text."""
    return '"' + s.replace('"', '""') + '"'


def coq_z(n):
    return "(%d)%%Z" % n


def coq_list(xs):
    return "[" + "; ".join(xs) + "]"


def coq_bytes(bs):
    return "[" + "; ".join("%d%%N" % b for b in bs) + "]"


def coq_eval_bools(prop, imports, exprs, chunk=400, timeout=400, tag="cases"):
    """exprs: list of Coq expressions of type bool.  Evaluates them with vm_compute inside coqc
    (sharded over NPROC processes) and returns the sorted list of indices whose value is not true,
    plus a list of (shard, error text) for shards coqc rejected."""
    d = os.path.join(WORK, prop, tag)
    shutil.rmtree(d, ignore_errors=True)
    os.makedirs(d)
    shards = [list(range(i, min(i + chunk, len(exprs)))) for i in range(0, len(exprs), chunk)]
    procs = []
    bad, errors = [], []

    def launch(k, idxs):
        path = os.path.join(d, "s%d.v" % k)
        with open(path, "w") as f:
            f.write("From Coq Require Import List ZArith NArith String Ascii.\nImport ListNotations.\n")
            f.write(imports + "\n")
            f.write("Open Scope string_scope.\n")
            for j, i in enumerate(idxs):
                f.write("Definition c%d : bool := %s.\n" % (j, exprs[i]))
            f.write("Definition all : list (N * bool) := [%s].\n" % "; ".join("(%d%%N, c%d)" % (j, j) for j in range(len(idxs))))
            f.write("Definition bad := map fst (filter (fun p => negb (snd p)) all).\n")
            f.write("Eval vm_compute in bad.\n")
        return subprocess.Popen(["coqc", "-noglob", "-Q", COQ, "V", "-o", path + "o", path],
                                stdout=subprocess.PIPE, stderr=subprocess.STDOUT, text=True)

    pending = list(enumerate(shards))
    running = []
    while pending or running:
        while pending and len(running) < NPROC:
            k, idxs = pending.pop(0)
            running.append((k, idxs, launch(k, idxs), time.time()))
        still = []
        for k, idxs, p, t0 in running:
            if p.poll() is None:
                if time.time() - t0 > timeout:
                    p.kill()
                    errors.append((k, "timeout"))
                else:
                    still.append((k, idxs, p, t0))
                continue
            out = p.stdout.read()
            if p.returncode != 0:
                errors.append((k, out[-3000:]))
                continue
            m = re.search(r"=\s*\[(.*?)\]\s*:\s*list N", out, re.S)
            if not m:
                errors.append((k, "unparsed: " + out[-1000:]))
                continue
            for n in re.findall(r"\d+", m.group(1)):
                bad.append(idxs[int(n)])
        running = still
        if running:
            time.sleep(0.05)
    return sorted(bad), errors


def coq_eval_show(prop, imports, expr, timeout=300):
    """Evaluate one expression and return Coq's printed value (for replay files)."""
    d = os.path.join(WORK, prop, "show")
    os.makedirs(d, exist_ok=True)
    path = os.path.join(d, "show_%s.v" % hashlib.md5(expr.encode()).hexdigest()[:10])
    with open(path, "w") as f:
        f.write("From Coq Require Import List ZArith NArith String Ascii.\nImport ListNotations.\n" + imports +
                "\nOpen Scope string_scope.\nEval vm_compute in (%s).\n" % expr)
    rc, out = sh(["coqc", "-noglob", "-Q", COQ, "V", "-o", path + "o", path], timeout=timeout)
    return re.sub(r"\s+", " ", out).strip()


# ---------------------------------------------------------------- implementation side

def vrun_query(prop, jobs, nproc=None, tag="q", timeout=3000):
    """Run query jobs on the implementation (one vrun process per shard). Returns {id: record}.
    A vrun process that dies (abort, hard hang) yields a record {"crash": rc} for the job it was on and
    the remaining jobs are re-run in a new process."""
    nproc = nproc or NPROC
    d = os.path.join(WORK, prop, tag)
    shutil.rmtree(d, ignore_errors=True)
    os.makedirs(d)
    results = {}
    shards = [jobs[i::nproc] for i in range(nproc)]
    shards = [s for s in shards if s]
    running = []
    for k, sh_jobs in enumerate(shards):
        running.append(_start_vrun(d, "s%d" % k, sh_jobs))
    gen = 0
    while running:
        nxt = []
        for (name, sh_jobs, p, outp) in running:
            try:
                p.wait(timeout=timeout)
            except subprocess.TimeoutExpired:
                p.kill()
            done = set()
            if os.path.exists(outp):
                for line in open(outp, errors="replace"):
                    line = line.strip()
                    if not line:
                        continue
                    try:
                        rec = json.loads(line)
                    except Exception:
                        continue
                    results[rec["id"]] = rec
                    done.add(rec["id"])
            if p.returncode != 0:
                rest = [j for j in sh_jobs if j["id"] not in done]
                if rest:
                    first = rest[0]
                    if first["id"] not in results:
                        results[first["id"]] = {"id": first["id"], "crash": p.returncode,
                                                "stderr": (p.stderr.read() if p.stderr else "")[-2000:]}
                    rest = rest[1:]
                    if rest:
                        gen += 1
                        nxt.append(_start_vrun(d, "%s_r%d" % (name, gen), rest))
        running = nxt
    return results


def _start_vrun(d, name, jobs):
    inp = os.path.join(d, name + ".in.jsonl")
    outp = os.path.join(d, name + ".out.jsonl")
    with open(inp, "w") as f:
        for j in jobs:
            f.write(json.dumps(j) + "\n")
    p = subprocess.Popen([VRUN, "query", inp, outp], stdout=subprocess.DEVNULL, stderr=subprocess.PIPE, text=True)
    return (name, jobs, p, outp)


def vrun_mode(prop, mode, lines, nproc=None, tag="m", extra_args=(), timeout=3000):
    """Generic line-oriented hook mode: vrun <mode> <in> <out> [extra]; one output line per input line
    (records carry their own ids: 'id<TAB>payload').  Returns dict id -> payload, and crashed ids."""
    nproc = nproc or NPROC
    d = os.path.join(WORK, prop, tag)
    shutil.rmtree(d, ignore_errors=True)
    os.makedirs(d)
    shards = [lines[i::nproc] for i in range(nproc)]
    shards = [s for s in shards if s]
    procs = []
    for k, s in enumerate(shards):
        inp = os.path.join(d, "s%d.in" % k)
        outp = os.path.join(d, "s%d.out" % k)
        open(inp, "w").write("\n".join(s) + "\n")
        procs.append((s, outp, subprocess.Popen([VRUN, mode, inp, outp] + list(extra_args),
                                                stdout=subprocess.DEVNULL, stderr=subprocess.PIPE, text=True)))
    res, crashed = {}, []
    for s, outp, p in procs:
        try:
            p.wait(timeout=timeout)
        except subprocess.TimeoutExpired:
            p.kill()
        if os.path.exists(outp):
            for line in open(outp, errors="replace"):
                line = line.rstrip("\n")
                if "\t" in line:
                    i, pl = line.split("\t", 1)
                    res[i] = pl
        if p.returncode != 0:
            ids = [l.split("\t", 1)[0] for l in s]
            missing = [i for i in ids if i not in res]
            crashed.append({"rc": p.returncode, "first_missing": missing[:1], "stderr": (p.stderr.read() or "")[-1500:]})
    return res, crashed


# ---------------------------------------------------------------- terms from vrun JSON

def term_text(t):
    """Canonical one-line text of a vrun JSON term (for samples / replays)."""
    if "i" in t: return t["i"]
    if "r" in t: return "%s rdiv %s" % (t["r"][0], t["r"][1])
    if "f" in t: return "float#" + t["f"]
    if "a" in t: return "'" + t["a"] + "'"
    if "s" in t: return json.dumps(t["s"])
    if "l" in t: return "[" + ",".join(term_text(x) for x in t["l"]) + "]"
    if "c" in t: return "'" + t["c"][0] + "'(" + ",".join(term_text(x) for x in t["c"][1:]) + ")"
    if "v" in t: return t["v"]
    return json.dumps(t)


def error_formal(ans):
    """For an {"err": error(F,C)} answer return F (JSON term) else None."""
    if isinstance(ans, dict) and "err" in ans:
        t = ans["err"]
        if "c" in t and t["c"][0] == "error" and len(t["c"]) == 3:
            return t["c"][1]
    return None


# ---------------------------------------------------------------- known findings

def known_findings():
    p = os.path.join(ROOT, "known_findings.json")
    if not os.path.exists(p):
        return {"findings": [], "fixed": []}
    return json.load(open(p))


def fingerprint(paths, funcs=None):
    h = hashlib.sha256()
    for p in paths:
        try:
            h.update(open(os.path.join(REPO, p), "rb").read())
        except OSError:
            h.update(b"missing:" + p.encode())
    return h.hexdigest()[:16]
