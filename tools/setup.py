#!/usr/bin/env python3
"""MANIFEST.setup_cmd: build what the registered checks share, offline, from files on disk: the Rust harness against
/repo (hooks on), the regenerated Coq tables, and the .vo files of the registered checks (full .vo, never -vos).
Never fails: every check rebuilds what it needs itself and reports a build problem as a broken tie."""
import importlib, json, os, subprocess, sys, time
ROOT = os.path.dirname(os.path.dirname(os.path.abspath(__file__)))
sys.path.insert(0, os.path.join(ROOT, "tools")); sys.path.insert(0, ROOT)
from vlib import core


class C:  # minimal ctx for gen()
    notes = []


def main():
    t0 = time.time()
    try:
        t = core.build_harness()
        print("harness built in %.0fs" % t, flush=True)
    except Exception as e:
        print("setup: harness build failed: %s" % str(e)[-2000:], flush=True)
    ready = json.load(open(os.path.join(ROOT, "tools", "not_applicable.json"))).get("ready", [])
    targets = []
    for pid in ready:
        try:
            m = importlib.import_module("checks." + pid)
            if hasattr(m, "gen"):
                m.gen(C())
            for t in m.META.get("coq_targets", []):
                if t not in targets:
                    targets.append(t)
        except Exception as e:
            print("setup: %s: %s" % (pid, e), flush=True)
    try:
        rc, out = core.coq_make(["-k"] + targets, timeout=3300)
        print(out[-3000:])
        print("setup: coq make rc=%d" % rc)
    except subprocess.TimeoutExpired:
        print("setup: the Coq build did not finish in time; the checks will finish it")
    except Exception as e:
        print("setup: Coq build problem: %s" % e)
    print("setup done in %.0fs" % (time.time() - t0))
    sys.exit(0)


if __name__ == "__main__":
    main()
