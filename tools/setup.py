#!/usr/bin/env python3
"""MANIFEST.setup_cmd: build everything the checks share, offline, from files on disk:
the Rust harness against /repo (hooks on), the regenerated Coq tables, and the whole Coq project (full .vo)."""
import glob, importlib, os, sys
ROOT = os.path.dirname(os.path.dirname(os.path.abspath(__file__)))
sys.path.insert(0, os.path.join(ROOT, "tools")); sys.path.insert(0, ROOT)
from vlib import core

class C:  # minimal ctx for gen()
    notes = []

def main():
    t = core.build_harness()
    print("harness built in %.0fs" % t, flush=True)
    for path in sorted(glob.glob(os.path.join(ROOT, "checks", "C*.py"))):
        m = importlib.import_module("checks." + os.path.basename(path)[:-3])
        if hasattr(m, "gen"):
            m.gen(C())
    rc, out = core.coq_make(None, timeout=6000)
    print(out[-3000:])
    if rc != 0:
        print("setup: Coq build failed (checks will report it per property)")
    sys.exit(0)

if __name__ == "__main__":
    main()
