#!/usr/bin/env python3
"""Maintainer helper (never run by a check): add the failure keys of replays/<prop>-<seed>.json to known_findings.json,
after the failures were reviewed and judged genuine.  usage: addfindings.py Cxx [seed]"""
import json, os, sys
ROOT = os.path.dirname(os.path.dirname(os.path.abspath(__file__)))
prop = sys.argv[1]; seed = sys.argv[2] if len(sys.argv) > 2 else "1"
r = json.load(open(os.path.join(ROOT, "replays", "%s-%s.json" % (prop, seed))))
k = json.load(open(os.path.join(ROOT, "known_findings.json")))
have = {(f["property"], f["key"]) for f in k["findings"]}
for f in r.get("failures", []):
    key = (prop, f["key"])
    if key in have: continue
    have.add(key)
    what = "%s; e.g. %s -> %s (expected %s)" % (f.get("what", ""), str(f.get("input", ""))[:200], str(f.get("impl", ""))[:120], str(f.get("spec", ""))[:100])
    k["findings"].append({"property": prop, "key": f["key"], "what": what})
    print("added", key)
json.dump(k, open(os.path.join(ROOT, "known_findings.json"), "w"), indent=1, ensure_ascii=False)
