#!/usr/bin/env python3
"""Regenerate MANIFEST.json from the META of every checks/Cxx.py and tools/not_applicable.json."""
import importlib, json, os, sys, glob
ROOT = os.path.dirname(os.path.dirname(os.path.abspath(__file__)))
sys.path.insert(0, os.path.join(ROOT, "tools")); sys.path.insert(0, ROOT)
props = [json.loads(l)["id"] for l in open(os.path.join(ROOT, "properties.jsonl"))]
checks, na = [], []
na_file = json.load(open(os.path.join(ROOT, "tools", "not_applicable.json")))
for pid in props:
    path = os.path.join(ROOT, "checks", pid + ".py")
    if os.path.exists(path) and pid in na_file.get("ready", []) and pid not in na_file.get("withdrawn", {}):
        M = importlib.import_module("checks." + pid).META
        checks.append({
            "property_id": pid,
            "quick_cmd": "python3 tools/check.py %s --tier quick" % pid,
            "thorough_cmd": "python3 tools/check.py %s --tier thorough" % pid,
            "evidence_file": "/verif/evidence/%s.json" % pid,
            "replay_cmd_template": "python3 tools/check.py %s --replay {path}" % pid,
            "engine": "coq+vrun",
            "level_claimed": {"category": M["level"], "text": M["text"], "design_ref": M.get("design_ref", "DESIGN.md section 8, " + pid)},
            "level_note": M["note"],
            "technique": M["technique"],
        })
    else:
        reason = na_file.get("withdrawn", {}).get(pid) or na_file.get("reasons", {}).get(pid) or na_file["default"]
        na.append({"property_id": pid, "reason": reason})
hooks_commits = na_file.get("hook_commits", [])
man = {
    "version": 1,
    "setup_cmd": "python3 tools/setup.py",
    "hooks": {
        "guard": "cargo feature verif_hooks",
        "enable": "harness/Cargo.toml depends on scryer-prolog = { path = \"/repo\", default-features = false, features = [\"crypto-full\", \"verif_hooks\"] }; tools/check.py rebuilds it with cargo build --release --offline on every run",
        "baseline_off_cmd": "cd /repo && cargo test --workspace --no-fail-fast --offline",
        "source_commits": hooks_commits,
        "add_only": True,
    },
    "engines": [{"name": "coq+vrun", "path": "/verif/tools/check.py", "serves_properties": [c["property_id"] for c in checks],
                 "kind_free_text": "Coq 8.16.1 project under /verif/coq (models, proofs, pinned theorem files) + Rust harness vrun built against /repo's working tree + Python generators; the model is evaluated by coqc (vm_compute) on the same cases as the implementation"}],
    "checks": checks,
    "not_applicable": na,
    "notes": "See DESIGN.md. Genuine defects repaired by fix: commits are listed in known_findings.json (fixed entries suppress nothing).",
}
json.dump(man, open(os.path.join(ROOT, "MANIFEST.json"), "w"), indent=1)
print("MANIFEST.json: %d checks, %d not_applicable" % (len(checks), len(na)))
