(* C53 -- lemmas: Warshall closure = path relation, reachable, topological orders, the comparison function *)
From Coq Require Import ZArith List Bool Sorted Permutation Lia.
From V Require Import C53.Model C53.Proofs.
Import ListNotations.
Open Scope Z_scope.

(* ------------------------------------------------------------------ paths *)
(* paths of length >= 1 whose intermediate vertices all lie in S *)
Inductive pathS (g : graph) (S : list Z) : Z -> Z -> Prop :=
| pS_edge : forall u v, edge g u v -> pathS g S u v
| pS_step : forall u w v, edge g u w -> In w S -> pathS g S w v -> pathS g S u v.

Lemma pathS_mono g S S' u v : (forall x, In x S -> In x S') -> pathS g S u v -> pathS g S' u v.
Proof.
  intros I P. induction P as [u v E | u w v E Hw P IH].
  - apply pS_edge; auto.
  - apply pS_step with w; auto.
Qed.

Lemma pathS_trans g S u w v : In w S -> pathS g S u w -> pathS g S w v -> pathS g S u v.
Proof.
  intros Hw P Q. induction P as [u w E | u x w E Hx P IH].
  - apply pS_step with w; auto.
  - apply pS_step with x; auto.
Qed.

Lemma pathS_split g S x u v :
  pathS g (x :: S) u v -> pathS g S u v \/ (pathS g S u x /\ pathS g S x v).
Proof.
  intro P. induction P as [u v E | u w v E Hw P IH].
  - left. apply pS_edge; auto.
  - destruct Hw as [<-|Hw].
    + right. split; [apply pS_edge; auto|]. destruct IH as [IH|[_ IH]]; auto.
    + destruct IH as [IH|[IH1 IH2]].
      * left. apply pS_step with w; auto.
      * right. split; auto. apply pS_step with w; auto.
Qed.

Lemma pathS_path g S u v : pathS g S u v -> path g u v.
Proof.
  intro P. induction P as [u v E | u w v E Hw P IH].
  - apply path_edge; auto.
  - apply path_step with w; auto.
Qed.

Lemma path_source_vertex g u v : path g u v -> vertex g u.
Proof. intro P. destruct P as [u v E | u w v E _]; apply (edge_source_vertex _ _ _ E). Qed.

Lemma path_pathS g u v : path g u v -> pathS g (vertices g) u v.
Proof.
  intro P. induction P as [u v E | u w v E P IH].
  - apply pS_edge; auto.
  - apply pS_step with w; auto. apply (path_source_vertex _ _ _ P).
Qed.

Lemma path_trans g u w v : path g u w -> path g w v -> path g u v.
Proof.
  intros P Q. induction P as [u w E | u x w E P IH].
  - apply path_step with w; auto.
  - apply path_step with x; auto.
Qed.

Lemma path_end_vertex g u v : closed g -> path g u v -> vertex g v.
Proof.
  intros C P. induction P as [u v E | u w v E P IH]; auto. apply (C u v E).
Qed.

(* ------------------------------------------------------------------ Warshall *)
Lemma vertices_wstep v y e : vertices (wstep v y e) = vertices e.
Proof. unfold vertices, wstep. rewrite map_map. cbn [fst]. auto. Qed.

Lemma nbrs_wstep v y e x :
  nbrs x (wstep v y e) = if mem v (nbrs x e) then union (nbrs x e) y else nbrs x e.
Proof.
  induction e as [|p r IH]; cbn [wstep map nbrs fst snd mem]; auto.
  destruct (Z.eqb_spec x (fst p)) as [E|E]; auto.
Qed.

Lemma wstep_edge v e x z :
  edge (wstep v (nbrs v e) e) x z <-> edge e x z \/ (edge e x v /\ edge e v z).
Proof.
  unfold edge. rewrite nbrs_wstep. destruct (mem v (nbrs x e)) eqn:M.
  - apply mem_In in M. rewrite union_In. tauto.
  - apply mem_false in M. tauto.
Qed.

Lemma wstep_wf v e : wf e -> wf (wstep v (nbrs v e) e).
Proof.
  intro W. split.
  - rewrite vertices_wstep. apply W.
  - unfold wstep. rewrite Forall_forall. intros q Hq. apply in_map_iff in Hq as [p [<- Hp]]. cbn [snd].
    assert (Sp : ssorted (snd p)) by (destruct W as [_ F]; rewrite Forall_forall in F; auto).
    destruct (mem v (snd p)); auto. apply union_sorted. apply nbrs_sorted; auto.
Qed.

Definition rep (g : graph) (S : list Z) (e : graph) : Prop :=
  vertices e = vertices g /\ wf e /\ forall x z, edge e x z <-> pathS g S x z.

Lemma rep_init g : wf g -> rep g [] g.
Proof.
  intro W. split; [|split]; auto. intros x z. split.
  - apply pS_edge.
  - intro P. destruct P as [u v E | u w v E [] _]. auto.
Qed.

Lemma rep_step g S e v : rep g S e -> rep g (v :: S) (wstep v (nbrs v e) e).
Proof.
  intros [HV [W HE]]. split; [|split].
  - rewrite vertices_wstep. auto.
  - apply wstep_wf; auto.
  - intros x z. rewrite wstep_edge, !HE. split.
    + intros [P|[P Q]].
      * apply pathS_mono with S; auto. intros; right; auto.
      * apply pathS_trans with v; [left; auto | |]; (apply pathS_mono with S; [intros; right; auto | auto]).
    + apply pathS_split.
Qed.

Lemma rep_equiv g S S' e : (forall x, In x S <-> In x S') -> rep g S e -> rep g S' e.
Proof.
  intros H [HV [W HE]]. split; [|split]; auto. intros x z. rewrite HE.
  split; apply pathS_mono; intros y Hy; apply H; auto.
Qed.

Lemma warshall_rep g vs : forall S e, rep g S e -> rep g (vs ++ S) (warshall vs e).
Proof.
  induction vs as [|v r IH]; intros S e R; cbn [warshall app]; auto.
  apply rep_equiv with (r ++ v :: S).
  - intro x. rewrite in_app_iff. cbn [In]. rewrite in_app_iff. tauto.
  - apply IH. apply rep_step. auto.
Qed.

Lemma tc_rep g : wf g -> rep g (vertices g) (transitive_closure g).
Proof.
  intro W. unfold transitive_closure.
  apply rep_equiv with (vertices g ++ []); [intro; rewrite app_nil_r; tauto|].
  apply warshall_rep. apply rep_init. auto.
Qed.

Lemma tc_vertices g : wf g -> vertices (transitive_closure g) = vertices g.
Proof. intro W. apply (tc_rep g W). Qed.

Lemma tc_wf g : wf g -> wf (transitive_closure g).
Proof. intro W. apply (tc_rep g W). Qed.

Lemma tc_edge g u v : wf g -> (edge (transitive_closure g) u v <-> path g u v).
Proof.
  intro W. destruct (tc_rep g W) as [_ [_ HE]]. rewrite HE. split.
  - apply pathS_path.
  - apply path_pathS.
Qed.

Lemma tc_closed g : wf g -> closed g -> closed (transitive_closure g).
Proof.
  intros W C u v E. apply (tc_edge _ _ _ W) in E. unfold vertex. rewrite (tc_vertices _ W).
  apply (path_end_vertex _ _ _ C E).
Qed.

Lemma tc_least g (R : Z -> Z -> Prop) : wf g ->
  (forall u v, edge g u v -> R u v) -> (forall u w v, R u w -> R w v -> R u v) ->
  forall u v, edge (transitive_closure g) u v -> R u v.
Proof.
  intros W H1 H2 u v E. apply (tc_edge _ _ _ W) in E.
  induction E as [u v E | u w v E P IH]; auto. apply H2 with w; auto.
Qed.

(* ------------------------------------------------------------------ reachable *)
Lemma reachable_some v g r : wf g -> reachable v g = Some r ->
  ssorted r /\ forall u, In u r <-> u = v \/ path g v u.
Proof.
  intros W. unfold reachable.
  destruct (forallb (fun u => mem u (vertices g)) (insert v (nbrs v (transitive_closure g)))); [|discriminate].
  intro E. inversion E; subst. split.
  - apply insert_sorted. apply nbrs_sorted. apply tc_wf; auto.
  - intro u. rewrite insert_In. fold (edge (transitive_closure g) v u). rewrite (tc_edge _ _ _ W). tauto.
Qed.

Lemma reachable_none v g : wf g ->
  (reachable v g = None <-> ~ forall u, u = v \/ path g v u -> vertex g u).
Proof.
  intro W. unfold reachable.
  destruct (forallb (fun u => mem u (vertices g)) (insert v (nbrs v (transitive_closure g)))) eqn:F.
  - split; [discriminate|]. intro H. exfalso. apply H. intros u Hu.
    rewrite forallb_forall in F. apply mem_In. apply F. apply insert_In.
    fold (edge (transitive_closure g) v u). rewrite (tc_edge _ _ _ W). auto.
  - split; auto. intros _ H.
    assert (T : forallb (fun u => mem u (vertices g)) (insert v (nbrs v (transitive_closure g))) = true).
    { apply forallb_forall. intros u Hu. apply mem_In. apply H. apply insert_In in Hu.
      fold (edge (transitive_closure g) v u) in Hu. rewrite (tc_edge _ _ _ W) in Hu. auto. }
    congruence.
Qed.

Lemma reachable_defined v g : wf g -> closed g -> vertex g v -> exists r, reachable v g = Some r.
Proof.
  intros W C Hv. destruct (reachable v g) as [r|] eqn:E; [exists r; auto|].
  exfalso. apply (reachable_none _ _ W) in E. apply E. intros u [->|P]; auto.
  apply (path_end_vertex _ _ _ C P).
Qed.

(* ------------------------------------------------------------------ acyclicity *)
Lemma acyclicb_spec g : wf g -> (acyclicb g = true <-> acyclic g).
Proof.
  intro W. unfold acyclicb, acyclic. rewrite forallb_forall. split.
  - intros H v P. specialize (H v (path_source_vertex _ _ _ P)).
    apply negb_true_iff, mem_false in H. apply H. apply (tc_edge _ _ _ W). auto.
  - intros H v _. apply negb_true_iff, mem_false. intro I. apply (H v). apply (tc_edge _ _ _ W). auto.
Qed.

(* ------------------------------------------------------------------ topological orders *)
Lemma nodupb_spec l : nodupb l = true <-> NoDup l.
Proof.
  induction l as [|x r IH]; cbn [nodupb].
  - split; [constructor | reflexivity].
  - rewrite andb_true_iff, negb_true_iff, mem_false, IH. split.
    + intros [A B]. constructor; auto.
    + intro N. inversion N; auto.
Qed.

Lemma before_In_l u v o : before u v o -> In u o.
Proof. intro B. induction B; [left; auto | right; auto]. Qed.

Lemma before_In_r u v o : before u v o -> In v o.
Proof. intro B. induction B; right; auto. Qed.

Lemma beforeb_spec u v o : NoDup o -> (beforeb u v o = true <-> before u v o).
Proof.
  intro N. split.
  - clear N. induction o as [|w r IH]; cbn [beforeb]; [discriminate|].
    destruct (Z.eqb_spec w u) as [E|E].
    + subst. intro M. apply before_here. apply mem_In; auto.
    + intro H. apply before_later. auto.
  - intro B. induction B as [l I | w l B IH]; cbn [beforeb].
    + rewrite Z.eqb_refl. apply mem_In; auto.
    + inversion N as [|? ? Nw Nl]; subst. destruct (Z.eqb_spec w u) as [E|E]; auto.
      subst. exfalso. apply Nw. apply (before_In_l _ _ _ B).
Qed.

Lemma before_irrefl v o : NoDup o -> ~ before v v o.
Proof.
  intros N B. remember v as u eqn:E in B at 1.
  induction B as [l I | w l B IH].
  - subst. inversion N; auto.
  - inversion N; auto.
Qed.

Lemma before_trans u v w o : NoDup o -> before u v o -> before v w o -> before u w o.
Proof.
  intros N B1. revert N. induction B1 as [l I | x l B1 IH]; intros N B2.
  - inversion N as [|? ? Nu Nl]; subst. inversion B2 as [l' I' | x' l' B2']; subst.
    + exfalso; auto.
    + apply before_here. apply (before_In_r _ _ _ B2').
  - inversion N as [|? ? Nx Nl]; subst. inversion B2 as [l' I' | x' l' B2']; subst.
    + exfalso. apply Nx. apply (before_In_r _ _ _ B1).
    + apply before_later. auto.
Qed.

Lemma is_top_order_spec g o : wf g -> (is_top_order g o = true <-> TopOrder g o).
Proof.
  intro W. unfold is_top_order, TopOrder.
  rewrite !andb_true_iff, nodupb_spec, !forallb_forall.
  assert (NV : NoDup (vertices g)) by (apply ssorted_NoDup; apply W).
  split.
  - intros [[[N I1] I2] HB]. split.
    + apply NoDup_Permutation; auto. intro x. split; intro H.
      * apply mem_In. auto.
      * apply mem_In. auto.
    + intros u v E. apply (beforeb_spec _ _ _ N). apply (HB (u, v)). apply edges_In; auto.
  - intros [P HB].
    assert (N : NoDup o) by (apply (Permutation_NoDup (Permutation_sym P)); auto).
    repeat split; auto.
    + intros x Hx. apply mem_In. apply (Permutation_in _ P). auto.
    + intros x Hx. apply mem_In. apply (Permutation_in _ (Permutation_sym P)). auto.
    + intros [u v] He. cbn [fst snd]. apply (beforeb_spec _ _ _ N). apply HB. apply edges_In; auto.
Qed.

Lemma top_order_path g o u v : wf g -> TopOrder g o -> path g u v -> before u v o.
Proof.
  intros W [P HB] Q.
  assert (N : NoDup o) by (apply (Permutation_NoDup (Permutation_sym P)); apply ssorted_NoDup; apply W).
  induction Q as [u v E | u w v E Q IH]; auto.
  apply before_trans with w; auto.
Qed.

Lemma top_order_acyclic g o : wf g -> TopOrder g o -> acyclic g /\ closed g.
Proof.
  intros W T. split.
  - intros v Q. pose proof (top_order_path _ _ _ _ W T Q) as B. destruct T as [P _].
    apply (before_irrefl v o); auto.
    apply (Permutation_NoDup (Permutation_sym P)). apply ssorted_NoDup; apply W.
  - intros u v E. destruct T as [P HB]. apply (Permutation_in _ P). apply (before_In_r u v). auto.
Qed.

(* existence: the vertices by decreasing number of strict descendants *)
Definition dsorted (k : Z -> nat) (l : list Z) : Prop := StronglySorted (fun a b => (k b <= k a)%nat) l.

Lemma insert_desc_perm k x l : Permutation (insert_desc k x l) (x :: l).
Proof.
  induction l as [|y r IH]; cbn [insert_desc]; auto.
  destruct (Nat.ltb (k y) (k x)); auto.
  apply perm_trans with (y :: x :: r); [apply perm_skip; auto | apply perm_swap].
Qed.

Lemma insert_desc_sorted k x l : dsorted k l -> dsorted k (insert_desc k x l).
Proof.
  unfold dsorted. induction l as [|y r IH]; intro S; cbn [insert_desc].
  - constructor; constructor.
  - apply StronglySorted_inv in S as [S F]. destruct (Nat.ltb_spec (k y) (k x)) as [L|L].
    + constructor; [constructor; auto|]. constructor; [lia|].
      rewrite Forall_forall in *. intros b Hb. specialize (F b Hb). lia.
    + constructor; auto. rewrite Forall_forall in *. intros b Hb.
      apply (Permutation_in _ (insert_desc_perm k x r)) in Hb. destruct Hb as [<-|Hb]; auto.
Qed.

Lemma fold_insert_desc_perm k l : Permutation (fold_right (insert_desc k) [] l) l.
Proof.
  induction l as [|x r IH]; cbn [fold_right]; auto.
  apply perm_trans with (x :: fold_right (insert_desc k) [] r); [apply insert_desc_perm | apply perm_skip; auto].
Qed.

Lemma fold_insert_desc_sorted k l : dsorted k (fold_right (insert_desc k) [] l).
Proof.
  induction l as [|x r IH]; cbn [fold_right]; [constructor | apply insert_desc_sorted; auto].
Qed.

Lemma dsorted_before k l u v : dsorted k l -> In u l -> In v l -> (k v < k u)%nat -> before u v l.
Proof.
  unfold dsorted. induction l as [|x r IH]; intros S Hu Hv L; [destruct Hu|].
  apply StronglySorted_inv in S as [S F]. rewrite Forall_forall in F.
  destruct Hu as [->|Hu].
  - destruct Hv as [->|Hv]; [lia|]. apply before_here; auto.
  - destruct Hv as [->|Hv].
    + specialize (F u Hu). lia.
    + apply before_later. auto.
Qed.

Lemma desc_count_edge g u v : wf g -> acyclic g -> edge g u v -> (desc_count g v < desc_count g u)%nat.
Proof.
  intros W A E. unfold desc_count.
  assert (N : NoDup (v :: nbrs v (transitive_closure g))).
  { constructor.
    - intro I. apply (A v). apply (tc_edge _ _ _ W). auto.
    - apply ssorted_NoDup. apply nbrs_sorted. apply tc_wf; auto. }
  assert (I : incl (v :: nbrs v (transitive_closure g)) (nbrs u (transitive_closure g))).
  { intros z [<-|Hz].
    - apply (tc_edge g u v W). apply path_edge; auto.
    - apply (tc_edge g u z W). apply path_step with v; auto. apply (tc_edge g v z W). auto. }
  pose proof (NoDup_incl_length N I) as H. cbn [length] in H. lia.
Qed.

Lemma model_top_sort_ok g : wf g -> acyclic g -> closed g -> TopOrder g (model_top_sort g).
Proof.
  intros W A C. unfold model_top_sort. split.
  - apply fold_insert_desc_perm.
  - intros u v E. apply dsorted_before with (desc_count g).
    + apply fold_insert_desc_sorted.
    + apply (Permutation_in _ (Permutation_sym (fold_insert_desc_perm _ _))). apply (edge_source_vertex _ _ _ E).
    + apply (Permutation_in _ (Permutation_sym (fold_insert_desc_perm _ _))). apply (C u v E).
    + apply desc_count_edge; auto.
Qed.

Lemma has_top_order_iff g : wf g -> (acyclicb g && closedb g = true <-> exists o, TopOrder g o).
Proof.
  intro W. rewrite andb_true_iff, (acyclicb_spec _ W), (closedb_spec _ W). split.
  - intros [A C]. exists (model_top_sort g). apply model_top_sort_ok; auto.
  - intros [o T]. apply (top_order_acyclic _ _ W T).
Qed.

(* ------------------------------------------------------------------ the comparison function *)
Lemma list_eqb_spec {A} (eqb : A -> A -> bool) :
  (forall x y, eqb x y = true <-> x = y) -> forall a b, list_eqb eqb a b = true <-> a = b.
Proof.
  intro H. induction a as [|x a' IH]; intros [|y b']; cbn [list_eqb]; try (split; [discriminate | congruence]).
  - split; auto.
  - rewrite andb_true_iff, H, IH. split; [intros [-> ->]; auto | intro E; inversion E; auto].
Qed.

Lemma zlist_eqb_spec a b : list_eqb Z.eqb a b = true <-> a = b.
Proof. apply list_eqb_spec. apply Z.eqb_eq. Qed.

Lemma pair_eqb_spec a b : pair_eqb a b = true <-> a = b.
Proof.
  unfold pair_eqb. rewrite andb_true_iff, !Z.eqb_eq. destruct a, b; cbn [fst snd].
  split; [intros [-> ->]; auto | intro E; inversion E; auto].
Qed.

Lemma entry_eqb_spec a b : entry_eqb a b = true <-> a = b.
Proof.
  unfold entry_eqb. rewrite andb_true_iff, Z.eqb_eq, zlist_eqb_spec. destruct a, b; cbn [fst snd].
  split; [intros [-> ->]; auto | intro E; inversion E; auto].
Qed.

Lemma graph_eqb_spec a b : graph_eqb a b = true <-> a = b.
Proof. apply list_eqb_spec. apply entry_eqb_spec. Qed.

Lemma result_eqb_spec a b : a <> ROther -> (result_eqb a b = true <-> b = a).
Proof.
  intro N. destruct a, b; cbn [result_eqb]; try (split; [discriminate | congruence]); try tauto.
  - rewrite graph_eqb_spec. split; congruence.
  - rewrite zlist_eqb_spec. split; congruence.
  - rewrite (list_eqb_spec pair_eqb pair_eqb_spec). split; congruence.
Qed.

Definition is_top_sort_query (q : query) : bool := match q with QTopSort _ => true | _ => false end.

Lemma run_not_other q : is_top_sort_query q = false -> run q <> ROther.
Proof.
  destruct q; cbn [is_top_sort_query run]; try discriminate; intros _; try discriminate.
  - destruct (neighbours v g); discriminate.
  - destruct (reachable v g); discriminate.
Qed.

Lemma check_exact q r : is_top_sort_query q = false ->
  (check q r = true <-> query_wfb q = true /\ r = run q).
Proof.
  intro H. pose proof (result_eqb_spec (run q) r (run_not_other q H)) as E.
  unfold check. rewrite andb_true_iff.
  destruct q; cbn [is_top_sort_query] in H; try discriminate; rewrite E; tauto.
Qed.

Lemma check_top_sort g r :
  check (QTopSort g) r = true <->
  wf g /\ ((r = RFail /\ ~ exists o, TopOrder g o) \/ (exists o, r = RList o /\ TopOrder g o)).
Proof.
  unfold check. cbn [query_wfb]. rewrite andb_true_iff, wfb_spec. split.
  - intros [W H]. split; auto. destruct r; try discriminate.
    + left. split; auto. apply negb_true_iff in H. rewrite <- (has_top_order_iff _ W). congruence.
    + right. exists l. split; auto. apply is_top_order_spec; auto.
  - intros [W [[-> H]|[o [-> T]]]]; split; auto.
    + apply negb_true_iff. rewrite <- (has_top_order_iff _ W) in H.
      destruct (acyclicb g && closedb g); auto. exfalso; auto.
    + apply is_top_order_spec; auto.
Qed.

Lemma check_all_spec l : check_all l = true <-> forall q r, In (q, r) l -> check q r = true.
Proof.
  unfold check_all. rewrite forallb_forall. split.
  - intros H q r I. apply (H (q, r) I).
  - intros H [q r] I. apply (H q r I).
Qed.
