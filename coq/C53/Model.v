(* C53 -- library(ugraphs): reference model.
   A graph is an association list vertex -> neighbour list (the "S-representation" of src/lib/ugraphs.pl):
   keys strictly increasing, every neighbour list strictly increasing.  Vertices are integers here; the
   correspondence maps the vertex terms of the implementation (integers, or a pool of mixed terms) to integers
   order-preservingly (standard order of terms -> order of Z).
   Every operation is defined from set operations on strictly sorted lists, except transitive_closure which
   follows the Warshall loop of the source (warshall/3, warshall/4) and is PROVED to be the path relation. *)
From Coq Require Import ZArith List Bool Sorted Permutation.
Import ListNotations.
Open Scope Z_scope.

Definition graph := list (Z * list Z).

(* ------------------------------------------------------------------ ordered sets *)
Fixpoint mem (x : Z) (l : list Z) : bool :=
  match l with [] => false | y :: r => if x =? y then true else mem x r end.

Fixpoint insert (x : Z) (l : list Z) : list Z :=
  match l with
  | [] => [x]
  | y :: r => if x <? y then x :: l else if x =? y then l else y :: insert x r
  end.

Definition sort_set (l : list Z) : list Z := fold_right insert [] l.      (* sort/2 *)
Definition union (a b : list Z) : list Z := fold_right insert b a.        (* ord_union/3, b sorted *)
Definition subtract (a b : list Z) : list Z := filter (fun x => negb (mem x b)) a.   (* ord_subtract/3 *)
Definition big_union (ls : list (list Z)) : list Z := fold_right union [] ls.

Fixpoint sortedb (l : list Z) : bool :=
  match l with
  | [] => true
  | x :: r => match r with [] => true | y :: _ => (x <? y) && sortedb r end
  end.

(* ------------------------------------------------------------------ graphs *)
Definition vertices (g : graph) : list Z := map fst g.

(* the neighbour list of the first entry with key v; [] when v is not a key *)
Fixpoint nbrs (v : Z) (g : graph) : list Z :=
  match g with [] => [] | p :: r => if v =? fst p then snd p else nbrs v r end.

Definition edges (g : graph) : list (Z * Z) := flat_map (fun p => map (pair (fst p)) (snd p)) g.

(* the graph with vertex list vs and neighbour function f *)
Definition mk (vs : list Z) (f : Z -> list Z) : graph := map (fun v => (v, f v)) vs.

Definition wfb (g : graph) : bool := sortedb (vertices g) && forallb (fun p => sortedb (snd p)) g.
Definition closedb (g : graph) : bool := forallb (fun p => forallb (fun v => mem v (vertices g)) (snd p)) g.

Definition ends (es : list (Z * Z)) : list Z := flat_map (fun e => [fst e; snd e]) es.
Definition succs (v : Z) (es : list (Z * Z)) : list Z := map snd (filter (fun e => fst e =? v) es).
Definition swap (e : Z * Z) : Z * Z := (snd e, fst e).

Definition vertices_edges_to_ugraph (vs : list Z) (es : list (Z * Z)) : graph :=
  mk (sort_set (vs ++ ends es)) (fun v => sort_set (succs v es)).

Definition add_vertices (g : graph) (vs : list Z) : graph :=
  mk (union vs (vertices g)) (fun v => nbrs v g).

Definition del_vertices (g : graph) (vs : list Z) : graph :=
  mk (subtract (vertices g) vs) (fun v => subtract (nbrs v g) vs).

Definition ugraph_union (g1 g2 : graph) : graph :=
  mk (union (vertices g1) (vertices g2)) (fun v => union (nbrs v g1) (nbrs v g2)).

Definition add_edges (g : graph) (es : list (Z * Z)) : graph :=
  ugraph_union g (vertices_edges_to_ugraph [] es).

Definition del_edges (g : graph) (es : list (Z * Z)) : graph :=
  mk (vertices g) (fun v => subtract (nbrs v g) (succs v es)).

Definition neighbours (v : Z) (g : graph) : option (list Z) :=
  if mem v (vertices g) then Some (nbrs v g) else None.

Definition transpose (g : graph) : graph :=
  vertices_edges_to_ugraph (vertices g) (map swap (edges g)).

Definition compose (g1 g2 : graph) : graph :=
  mk (union (vertices g1) (vertices g2)) (fun v => big_union (map (fun w => nbrs w g2) (nbrs v g1))).

(* warshall/4: every vertex that has v as a neighbour also gets y (= the neighbours of v) *)
Definition wstep (v : Z) (y : list Z) (e : graph) : graph :=
  map (fun p => (fst p, if mem v (snd p) then union (snd p) y else snd p)) e.
(* warshall/3 *)
Fixpoint warshall (vs : list Z) (e : graph) : graph :=
  match vs with [] => e | v :: r => warshall r (wstep v (nbrs v e) e) end.
Definition transitive_closure (g : graph) : graph := warshall (vertices g) g.

(* reachable/3: the start vertex and everything reachable from it; the library looks up the neighbours of every
   vertex it reaches and fails when one of them is not a vertex of the graph *)
Definition reachable (v : Z) (g : graph) : option (list Z) :=
  let r := insert v (nbrs v (transitive_closure g)) in
  if forallb (fun u => mem u (vertices g)) r then Some r else None.

Definition complement (g : graph) : graph :=
  mk (vertices g) (fun v => subtract (vertices g) (insert v (nbrs v g))).

(* ------------------------------------------------------------------ topological orders *)
Fixpoint nodupb (l : list Z) : bool :=
  match l with [] => true | x :: r => negb (mem x r) && nodupb r end.

(* u occurs in o and v occurs later than the first u *)
Fixpoint beforeb (u v : Z) (o : list Z) : bool :=
  match o with [] => false | w :: r => if w =? u then mem v r else beforeb u v r end.

(* the checker used for top_sort/2: o is a permutation of the vertices and every edge goes forward *)
Definition is_top_order (g : graph) (o : list Z) : bool :=
  nodupb o && forallb (fun x => mem x (vertices g)) o && forallb (fun x => mem x o) (vertices g)
  && forallb (fun e => beforeb (fst e) (snd e) o) (edges g).

Definition acyclicb (g : graph) : bool :=
  forallb (fun v => negb (mem v (nbrs v (transitive_closure g)))) (vertices g).

(* a topological order computed by the model (used for the existence theorem, not compared with the
   implementation): vertices by decreasing number of strict descendants *)
Definition desc_count (g : graph) (v : Z) : nat := length (nbrs v (transitive_closure g)).
Fixpoint insert_desc (k : Z -> nat) (x : Z) (l : list Z) : list Z :=
  match l with [] => [x] | y :: r => if Nat.ltb (k y) (k x) then x :: l else y :: insert_desc k x r end.
Definition model_top_sort (g : graph) : list Z :=
  fold_right (insert_desc (desc_count g)) [] (vertices g).

(* ------------------------------------------------------------------ specification vocabulary (Prop) *)
Definition ssorted (l : list Z) : Prop := StronglySorted Z.lt l.
Definition wf (g : graph) : Prop := ssorted (vertices g) /\ Forall (fun p => ssorted (snd p)) g.
Definition vertex (g : graph) (v : Z) : Prop := In v (vertices g).
Definition edge (g : graph) (u v : Z) : Prop := In v (nbrs u g).
Definition closed (g : graph) : Prop := forall u v, edge g u v -> vertex g v.

(* paths of length >= 1 *)
Inductive path (g : graph) : Z -> Z -> Prop :=
| path_edge : forall u v, edge g u v -> path g u v
| path_step : forall u w v, edge g u w -> path g w v -> path g u v.

Definition acyclic (g : graph) : Prop := forall v, ~ path g v v.

Inductive before (u v : Z) : list Z -> Prop :=
| before_here : forall l, In v l -> before u v (u :: l)
| before_later : forall w l, before u v l -> before u v (w :: l).

Definition TopOrder (g : graph) (o : list Z) : Prop :=
  Permutation o (vertices g) /\ forall u v, edge g u v -> before u v o.

(* ------------------------------------------------------------------ correspondence interface *)
Inductive query :=
| QVeu (vs : list Z) (es : list (Z * Z))
| QVertices (g : graph)
| QEdges (g : graph)
| QAddV (g : graph) (vs : list Z)
| QDelV (g : graph) (vs : list Z)
| QAddE (g : graph) (es : list (Z * Z))
| QDelE (g : graph) (es : list (Z * Z))
| QNeighbours (v : Z) (g : graph)
| QTranspose (g : graph)
| QCompose (g1 g2 : graph)
| QTc (g : graph)
| QReachable (v : Z) (g : graph)
| QComplement (g : graph)
| QUnion (g1 g2 : graph)
| QTopSort (g : graph).

(* what the implementation answered: failure, a graph, a list of vertices, a list of pairs, anything else *)
Inductive result := RFail | RGraph (g : graph) | RList (l : list Z) | RPairs (l : list (Z * Z)) | ROther.

Definition of_opt (o : option (list Z)) : result := match o with Some l => RList l | None => RFail end.

Definition run (q : query) : result :=
  match q with
  | QVeu vs es => RGraph (vertices_edges_to_ugraph vs es)
  | QVertices g => RList (vertices g)
  | QEdges g => RPairs (edges g)
  | QAddV g vs => RGraph (add_vertices g vs)
  | QDelV g vs => RGraph (del_vertices g vs)
  | QAddE g es => RGraph (add_edges g es)
  | QDelE g es => RGraph (del_edges g es)
  | QNeighbours v g => of_opt (neighbours v g)
  | QTranspose g => RGraph (transpose g)
  | QCompose g1 g2 => RGraph (compose g1 g2)
  | QTc g => RGraph (transitive_closure g)
  | QReachable v g => of_opt (reachable v g)
  | QComplement g => RGraph (complement g)
  | QUnion g1 g2 => RGraph (ugraph_union g1 g2)
  | QTopSort g => ROther
  end.

Fixpoint list_eqb {A} (eqb : A -> A -> bool) (a b : list A) : bool :=
  match a, b with
  | [], [] => true
  | x :: a', y :: b' => eqb x y && list_eqb eqb a' b'
  | _, _ => false
  end.
Definition pair_eqb (a b : Z * Z) : bool := (fst a =? fst b) && (snd a =? snd b).
Definition entry_eqb (a b : Z * list Z) : bool := (fst a =? fst b) && list_eqb Z.eqb (snd a) (snd b).
Definition graph_eqb : graph -> graph -> bool := list_eqb entry_eqb.

Definition result_eqb (a b : result) : bool :=
  match a, b with
  | RFail, RFail => true
  | RGraph g, RGraph h => graph_eqb g h
  | RList l, RList m => list_eqb Z.eqb l m
  | RPairs l, RPairs m => list_eqb pair_eqb l m
  | _, _ => false
  end.

(* well-formedness of the graphs in a query (the generator only produces well-formed ones; checked anyway) *)
Definition query_wfb (q : query) : bool :=
  match q with
  | QVeu _ _ => true
  | QVertices g | QEdges g | QAddV g _ | QDelV g _ | QAddE g _ | QDelE g _ | QNeighbours _ g | QTranspose g
  | QTc g | QReachable _ g | QComplement g | QTopSort g => wfb g
  | QCompose g1 g2 | QUnion g1 g2 => wfb g1 && wfb g2
  end.

(* the comparison: exact for every predicate; top_sort/2 by validity -- any topological order is accepted, and
   failure is accepted exactly when no topological order exists (a cycle, or a neighbour that is not a vertex) *)
Definition check (q : query) (r : result) : bool :=
  query_wfb q &&
  match q with
  | QTopSort g =>
      match r with
      | RFail => negb (acyclicb g && closedb g)
      | RList o => is_top_order g o
      | _ => false
      end
  | _ => result_eqb (run q) r
  end.

(* one expression for all the cases run on one graph (the correspondence evaluates groups, and the members of a
   failing group one by one) *)
Definition check_all (l : list (query * result)) : bool := forallb (fun p => check (fst p) (snd p)) l.
