(* C53 -- pinned property theorems (nothing else lives here).
   Vocabulary (Model.v): wf g = keys strictly increasing and every neighbour list strictly increasing;
   vertex g x = x is a key; edge g u v = v is in the neighbour list of u; closed g = every neighbour is a vertex;
   path g u v = a path of length >= 1 (inductive); TopOrder g o = o is a permutation of the vertices and every
   edge goes forward (inductive `before`). *)
From Coq Require Import ZArith List Bool Sorted Permutation.
From V Require Import C53.Model C53.Proofs C53.Closure.
Import ListNotations.
Open Scope Z_scope.

(* a well-formed graph is determined by its vertex set and its edge set: the set-level statements below
   therefore determine the exact list each operation returns *)
Theorem graph_extensionality : forall g1 g2, wf g1 -> wf g2 ->
  (forall x, vertex g1 x <-> vertex g2 x) -> (forall u v, edge g1 u v <-> edge g2 u v) -> g1 = g2.
Proof. exact graph_ext. Qed.
Print Assumptions graph_extensionality.

(* every operation returns a well-formed S-representation *)
Theorem representation_invariant_preserved :
  (forall vs es, wf (vertices_edges_to_ugraph vs es)) /\
  (forall g vs, wf g -> wf (add_vertices g vs)) /\
  (forall g vs, wf g -> wf (del_vertices g vs)) /\
  (forall g es, wf g -> wf (add_edges g es)) /\
  (forall g es, wf g -> wf (del_edges g es)) /\
  (forall g1 g2, wf g1 -> wf g2 -> wf (ugraph_union g1 g2)) /\
  (forall g, wf (transpose g)) /\
  (forall g1 g2, wf g2 -> wf (compose g1 g2)) /\
  (forall g, wf g -> wf (transitive_closure g)) /\
  (forall g, wf g -> wf (complement g)) /\
  (forall g v, wf g -> ssorted (nbrs v g)) /\
  (forall g v r, wf g -> reachable v g = Some r -> ssorted r).
Proof.
  exact (conj veu_wf (conj add_vertices_wf (conj del_vertices_wf (conj add_edges_wf (conj del_edges_wf
        (conj ugraph_union_wf (conj transpose_wf (conj compose_wf (conj tc_wf (conj complement_wf
        (conj nbrs_sorted (fun g v r W E => proj1 (reachable_some v g r W E))))))))))))).
Qed.
Print Assumptions representation_invariant_preserved.

(* every neighbour is a vertex, where the library guarantees it *)
Theorem closedness_preserved :
  (forall vs es, closed (vertices_edges_to_ugraph vs es)) /\
  (forall g, closed (transpose g)) /\
  (forall g, closed (complement g)) /\
  (forall g vs, closed g -> closed (add_vertices g vs)) /\
  (forall g vs, closed g -> closed (del_vertices g vs)) /\
  (forall g es, closed g -> closed (add_edges g es)) /\
  (forall g es, closed g -> closed (del_edges g es)) /\
  (forall g1 g2, closed g1 -> closed g2 -> closed (ugraph_union g1 g2)) /\
  (forall g1 g2, closed g2 -> closed (compose g1 g2)) /\
  (forall g, wf g -> closed g -> closed (transitive_closure g)).
Proof.
  exact (conj veu_closed (conj transpose_closed (conj complement_closed (conj add_vertices_closed
        (conj del_vertices_closed (conj add_edges_closed (conj del_edges_closed (conj ugraph_union_closed
        (conj compose_closed tc_closed))))))))).
Qed.
Print Assumptions closedness_preserved.

(* edges/2 lists exactly the edge relation *)
Theorem edges_spec : forall g u v, wf g -> (In (u, v) (edges g) <-> edge g u v).
Proof. exact edges_In. Qed.
Print Assumptions edges_spec.

(* vertices_edges_to_ugraph(Vs, Es, G): the vertices are Vs plus all end points, the edges are exactly Es *)
Theorem vertices_edges_to_ugraph_spec : forall vs es,
  (forall x, vertex (vertices_edges_to_ugraph vs es) x <-> In x vs \/ In x (ends es)) /\
  (forall u v, edge (vertices_edges_to_ugraph vs es) u v <-> In (u, v) es) /\
  (forall u v, In (u, v) (edges (vertices_edges_to_ugraph vs es)) <-> In (u, v) es).
Proof.
  exact (fun vs es => conj (veu_vertex vs es) (conj (veu_edge vs es)
    (fun u v => iff_trans (edges_In _ u v (veu_wf vs es)) (veu_edge vs es u v)))).
Qed.
Print Assumptions vertices_edges_to_ugraph_spec.

Theorem add_vertices_spec : forall g vs,
  (forall x, vertex (add_vertices g vs) x <-> In x vs \/ vertex g x) /\
  (forall u v, edge (add_vertices g vs) u v <-> edge g u v).
Proof. exact (fun g vs => conj (add_vertices_vertex g vs) (add_vertices_edge g vs)). Qed.
Print Assumptions add_vertices_spec.

(* del_vertices removes the vertices and every edge from or to one of them *)
Theorem del_vertices_spec : forall g vs,
  (forall x, vertex (del_vertices g vs) x <-> vertex g x /\ ~ In x vs) /\
  (forall u v, edge (del_vertices g vs) u v <-> edge g u v /\ ~ In u vs /\ ~ In v vs).
Proof. exact (fun g vs => conj (del_vertices_vertex g vs) (del_vertices_edge g vs)). Qed.
Print Assumptions del_vertices_spec.

Theorem add_edges_spec : forall g es,
  (forall x, vertex (add_edges g es) x <-> vertex g x \/ In x (ends es)) /\
  (forall u v, edge (add_edges g es) u v <-> edge g u v \/ In (u, v) es).
Proof. exact (fun g es => conj (add_edges_vertex g es) (add_edges_edge g es)). Qed.
Print Assumptions add_edges_spec.

Theorem del_edges_spec : forall g es,
  vertices (del_edges g es) = vertices g /\
  (forall u v, edge (del_edges g es) u v <-> edge g u v /\ ~ In (u, v) es).
Proof. exact (fun g es => conj (del_edges_vertices g es) (del_edges_edge g es)). Qed.
Print Assumptions del_edges_spec.

Theorem ugraph_union_spec : forall g1 g2,
  (forall x, vertex (ugraph_union g1 g2) x <-> vertex g1 x \/ vertex g2 x) /\
  (forall u v, edge (ugraph_union g1 g2) u v <-> edge g1 u v \/ edge g2 u v).
Proof. exact (fun g1 g2 => conj (ugraph_union_vertex g1 g2) (ugraph_union_edge g1 g2)). Qed.
Print Assumptions ugraph_union_spec.

(* neighbours/3 fails exactly on non-vertices and otherwise returns the successor set *)
Theorem neighbours_spec : forall v g,
  (forall ns, neighbours v g = Some ns -> vertex g v /\ forall u, In u ns <-> edge g v u) /\
  (neighbours v g = None <-> ~ vertex g v).
Proof. exact (fun v g => conj (neighbours_some v g) (neighbours_none v g)). Qed.
Print Assumptions neighbours_spec.

Theorem transpose_spec : forall g, wf g ->
  (forall u v, edge (transpose g) u v <-> edge g v u) /\
  (forall x, vertex (transpose g) x <-> vertex g x \/ exists u, edge g u x).
Proof. exact (fun g W => conj (fun u v => transpose_edge g u v W) (fun x => transpose_vertex g x W)). Qed.
Print Assumptions transpose_spec.

Theorem transpose_involutive : forall g, wf g -> closed g -> transpose (transpose g) = g.
Proof. exact Proofs.transpose_involutive. Qed.
Print Assumptions transpose_involutive.

(* compose is relational composition on the union of the vertex sets *)
Theorem compose_spec : forall g1 g2,
  (forall x, vertex (compose g1 g2) x <-> vertex g1 x \/ vertex g2 x) /\
  (forall u v, edge (compose g1 g2) u v <-> exists w, edge g1 u w /\ edge g2 w v).
Proof. exact (fun g1 g2 => conj (compose_vertex g1 g2) (compose_edge g1 g2)). Qed.
Print Assumptions compose_spec.

Theorem complement_spec : forall g,
  vertices (complement g) = vertices g /\
  (forall u v, edge (complement g) u v <-> vertex g u /\ vertex g v /\ u <> v /\ ~ edge g u v).
Proof. exact (fun g => conj (complement_vertices g) (complement_edge g)). Qed.
Print Assumptions complement_spec.

(* the Warshall loop of the library computes exactly the path relation (paths of length >= 1) *)
Theorem transitive_closure_spec : forall g, wf g ->
  vertices (transitive_closure g) = vertices g /\
  (forall u v, edge (transitive_closure g) u v <-> path g u v).
Proof. exact (fun g W => conj (tc_vertices g W) (fun u v => tc_edge g u v W)). Qed.
Print Assumptions transitive_closure_spec.

(* ... hence the least transitive relation containing the edges *)
Theorem transitive_closure_least : forall g (R : Z -> Z -> Prop), wf g ->
  (forall u v, edge g u v -> R u v) -> (forall u w v, R u w -> R w v -> R u v) ->
  forall u v, edge (transitive_closure g) u v -> R u v.
Proof. exact tc_least. Qed.
Print Assumptions transitive_closure_least.

(* reachable/3: the start vertex plus everything a path leads to; it fails exactly when one of those is not a
   vertex (so never on a closed graph and a start vertex of the graph) *)
Theorem reachable_spec : forall v g, wf g ->
  (forall r, reachable v g = Some r -> ssorted r /\ forall u, In u r <-> u = v \/ path g v u) /\
  (reachable v g = None <-> ~ forall u, u = v \/ path g v u -> vertex g u) /\
  (closed g -> vertex g v -> exists r, reachable v g = Some r).
Proof.
  exact (fun v g W => conj (fun r => reachable_some v g r W) (conj (reachable_none v g W) (reachable_defined v g W))).
Qed.
Print Assumptions reachable_spec.

(* the checker used for top_sort/2 is sound and complete for the inductive definition *)
Theorem top_sort_spec : forall g o, wf g -> (is_top_order g o = true <-> TopOrder g o).
Proof. exact is_top_order_spec. Qed.
Print Assumptions top_sort_spec.

Theorem acyclicb_is_acyclic : forall g, wf g -> (acyclicb g = true <-> forall v, ~ path g v v).
Proof. exact acyclicb_spec. Qed.
Print Assumptions acyclicb_is_acyclic.

(* a graph has a topological order exactly when it is acyclic (and closed) *)
Theorem top_order_exists_iff_acyclic : forall g, wf g ->
  ((acyclic g /\ closed g) <-> exists o, TopOrder g o).
Proof.
  exact (fun g W => conj (fun H => ex_intro _ (model_top_sort g) (model_top_sort_ok g W (proj1 H) (proj2 H)))
                         (fun H => match H with ex_intro _ o T => top_order_acyclic g o W T end)).
Qed.
Print Assumptions top_order_exists_iff_acyclic.

(* the comparison used by the correspondence means equality with the model ... *)
Theorem check_meaningful : forall q r, is_top_sort_query q = false ->
  (check q r = true <-> query_wfb q = true /\ r = run q).
Proof. exact check_exact. Qed.
Print Assumptions check_meaningful.

(* ... and for top_sort/2: the answer is a topological order, or failure when none exists *)
Theorem check_top_sort_meaningful : forall g r,
  check (QTopSort g) r = true <->
  wf g /\ ((r = RFail /\ ~ exists o, TopOrder g o) \/ (exists o, r = RList o /\ TopOrder g o)).
Proof. exact check_top_sort. Qed.
Print Assumptions check_top_sort_meaningful.

Theorem check_all_meaningful : forall l, check_all l = true <-> forall q r, In (q, r) l -> check q r = true.
Proof. exact check_all_spec. Qed.
Print Assumptions check_all_meaningful.

(* non-vacuity and the documented examples of src/lib/ugraphs.pl *)
Example ex_wf : wf [(1, [3; 5]); (2, [4]); (3, []); (4, [5]); (5, [])] /\ closed [(1, [3; 5]); (2, [4]); (3, []); (4, [5]); (5, [])].
Proof. split; [apply wfb_spec | apply closedb_spec; [apply wfb_spec|]]; vm_compute; reflexivity. Qed.
Example ex_veu : vertices_edges_to_ugraph [6; 7; 8] [(1, 3); (2, 4); (4, 5); (1, 5)]
  = [(1, [3; 5]); (2, [4]); (3, []); (4, [5]); (5, []); (6, []); (7, []); (8, [])].
Proof. vm_compute. reflexivity. Qed.
Example ex_tc : transitive_closure [(1, [2; 3]); (2, [4; 5]); (4, [6])] = [(1, [2; 3; 4; 5; 6]); (2, [4; 5; 6]); (4, [6])].
Proof. vm_compute. reflexivity. Qed.
Example ex_compose : compose [(1, [2]); (2, [3])] [(2, [4]); (3, [1; 2; 4])] = [(1, [4]); (2, [1; 2; 4]); (3, [])].
Proof. vm_compute. reflexivity. Qed.
Example ex_del_vertices : del_vertices [(1, [3; 5]); (2, [4]); (3, []); (4, [5]); (5, []); (6, []); (7, [2; 6]); (8, [])] [2; 1]
  = [(3, []); (4, [5]); (5, []); (6, []); (7, [6]); (8, [])].
Proof. vm_compute. reflexivity. Qed.
Example ex_reachable : reachable 1 [(1, [3; 5]); (2, [4]); (3, []); (4, [5]); (5, [])] = Some [1; 3; 5].
Proof. vm_compute. reflexivity. Qed.
Example ex_top : is_top_order [(1, [2]); (2, []); (3, [1])] [3; 1; 2] = true /\ model_top_sort [(1, [2]); (2, []); (3, [1])] = [3; 1; 2].
Proof. vm_compute. auto. Qed.
Example ex_cyclic : acyclicb [(1, [2]); (2, [1])] = false /\ acyclicb [(1, [2]); (2, [])] = true.
Proof. vm_compute. auto. Qed.
