(* C53 -- lemmas: ordered sets, the representation, the set-defined operations *)
From Coq Require Import ZArith List Bool Sorted Permutation Lia.
From V Require Import C53.Model.
Import ListNotations.
Open Scope Z_scope.

(* ------------------------------------------------------------------ ordered sets *)
Lemma mem_In x l : mem x l = true <-> In x l.
Proof.
  induction l as [|y r IH]; cbn [mem In].
  - split; [discriminate | tauto].
  - destruct (Z.eqb_spec x y) as [E|E].
    + split; auto.
    + rewrite IH. split; [auto | intros [H|H]; [congruence | auto]].
Qed.

Lemma mem_false x l : mem x l = false <-> ~ In x l.
Proof. rewrite <- mem_In. destruct (mem x l); split; congruence. Qed.

Lemma insert_In y x l : In y (insert x l) <-> y = x \/ In y l.
Proof.
  induction l as [|z r IH]; cbn [insert].
  - cbn [In]. intuition.
  - destruct (Z.ltb_spec x z) as [L|L].
    + cbn [In]. intuition.
    + destruct (Z.eqb_spec x z) as [E|E].
      * subst. cbn [In]. intuition.
      * cbn [In]. rewrite IH. intuition.
Qed.

Lemma ssorted_inv x l : ssorted (x :: l) -> ssorted l /\ forall y, In y l -> x < y.
Proof.
  unfold ssorted. intro S. apply StronglySorted_inv in S as [S F]. split; auto.
  rewrite Forall_forall in F. exact F.
Qed.

Lemma ssorted_cons x l : ssorted l -> (forall y, In y l -> x < y) -> ssorted (x :: l).
Proof. unfold ssorted. intros S F. constructor; auto. rewrite Forall_forall. exact F. Qed.

Lemma ssorted_nil : ssorted [].
Proof. constructor. Qed.

Lemma insert_sorted x l : ssorted l -> ssorted (insert x l).
Proof.
  induction l as [|z r IH]; intro S; cbn [insert].
  - apply ssorted_cons; [apply ssorted_nil | intros y []].
  - destruct (ssorted_inv _ _ S) as [Sr F].
    destruct (Z.ltb_spec x z) as [L|L].
    + apply ssorted_cons; auto. intros y [<-|Hy]; auto. specialize (F y Hy). lia.
    + destruct (Z.eqb_spec x z) as [E|E]; auto.
      apply ssorted_cons; auto. intros y Hy. apply insert_In in Hy as [->|Hy]; [lia | auto].
Qed.

Lemma sort_set_In y l : In y (sort_set l) <-> In y l.
Proof.
  induction l as [|x r IH]; cbn [sort_set fold_right In]; [tauto|].
  fold (sort_set r). rewrite insert_In, IH. intuition.
Qed.

Lemma sort_set_sorted l : ssorted (sort_set l).
Proof.
  induction l as [|x r IH]; cbn [sort_set fold_right]; [apply ssorted_nil|].
  apply insert_sorted. exact IH.
Qed.

Lemma union_In y a b : In y (union a b) <-> In y a \/ In y b.
Proof.
  induction a as [|x r IH]; cbn [union fold_right In]; [tauto|].
  fold (union r b). rewrite insert_In, IH. intuition.
Qed.

Lemma union_sorted a b : ssorted b -> ssorted (union a b).
Proof.
  intro S. induction a as [|x r IH]; cbn [union fold_right]; auto.
  apply insert_sorted. exact IH.
Qed.

Lemma subtract_In y a b : In y (subtract a b) <-> In y a /\ ~ In y b.
Proof.
  unfold subtract. rewrite filter_In, negb_true_iff, mem_false. tauto.
Qed.

Lemma filter_sorted f l : ssorted l -> ssorted (filter f l).
Proof.
  induction l as [|x r IH]; intro S; cbn [filter]; auto.
  destruct (ssorted_inv _ _ S) as [Sr F].
  destruct (f x); auto.
  apply ssorted_cons; auto. intros y Hy. apply filter_In in Hy as [Hy _]. auto.
Qed.

Lemma subtract_sorted a b : ssorted a -> ssorted (subtract a b).
Proof. apply filter_sorted. Qed.

Lemma big_union_In y ls : In y (big_union ls) <-> exists l, In l ls /\ In y l.
Proof.
  induction ls as [|l r IH]; cbn [big_union fold_right In].
  - split; [tauto | intros [l [[] _]]].
  - fold (big_union r). rewrite union_In, IH. split.
    + intros [H|[l' [H1 H2]]]; [exists l; auto | exists l'; auto].
    + intros [l' [[<-|H1] H2]]; [auto | right; exists l'; auto].
Qed.

Lemma big_union_sorted ls : ssorted (big_union ls).
Proof.
  induction ls as [|l r IH]; cbn [big_union fold_right]; [apply ssorted_nil|].
  apply union_sorted. exact IH.
Qed.

(* two strictly sorted lists with the same members are equal *)
Lemma sorted_ext a : forall b, ssorted a -> ssorted b -> (forall x, In x a <-> In x b) -> a = b.
Proof.
  induction a as [|x a' IH]; intros [|y b'] Sa Sb H; auto.
  - exfalso. apply (H y). left; auto.
  - exfalso. apply (H x). left; auto.
  - destruct (ssorted_inv _ _ Sa) as [Sa' Fa]. destruct (ssorted_inv _ _ Sb) as [Sb' Fb].
    assert (E : x = y).
    { destruct (proj1 (H x) (or_introl eq_refl)) as [E|Hx]; auto.
      destruct (proj2 (H y) (or_introl eq_refl)) as [E|Hy]; auto.
      specialize (Fa y Hy). specialize (Fb x Hx). lia. }
    subst y. f_equal. apply IH; auto.
    intro z. split; intro Hz.
    + destruct (proj1 (H z) (or_intror Hz)) as [E|Hz']; auto. specialize (Fa z Hz). lia.
    + destruct (proj2 (H z) (or_intror Hz)) as [E|Hz']; auto. specialize (Fb z Hz). lia.
Qed.

Lemma sortedb_spec l : sortedb l = true <-> ssorted l.
Proof.
  induction l as [|x r IH]; [split; [intros; apply ssorted_nil | reflexivity]|].
  destruct r as [|y r'].
  - split; [intros _; apply ssorted_cons; [apply ssorted_nil | intros ? []] | reflexivity].
  - change (sortedb (x :: y :: r')) with ((x <? y) && sortedb (y :: r')).
    rewrite andb_true_iff, Z.ltb_lt, IH. split.
    + intros [L S]. apply ssorted_cons; auto. destruct (ssorted_inv _ _ S) as [_ F].
      intros z [<-|Hz]; auto. specialize (F z Hz). lia.
    + intro S. destruct (ssorted_inv _ _ S) as [S' F]. split; auto. apply F. left; auto.
Qed.

Lemma ssorted_NoDup l : ssorted l -> NoDup l.
Proof.
  induction l as [|x r IH]; intro S; constructor.
  - destruct (ssorted_inv _ _ S) as [_ F]. intro H. specialize (F x H). lia.
  - apply IH. apply (ssorted_inv _ _ S).
Qed.

(* ------------------------------------------------------------------ representation *)
Lemma vertices_mk V f : vertices (mk V f) = V.
Proof. unfold vertices, mk. rewrite map_map. cbn [fst]. apply map_id. Qed.

Lemma nbrs_mk v V f : nbrs v (mk V f) = if mem v V then f v else [].
Proof.
  induction V as [|a r IH]; cbn [mk map nbrs mem fst snd]; auto.
  destruct (Z.eqb_spec v a) as [E|E]; [subst; auto | exact IH].
Qed.

Lemma nbrs_not_vertex v g : ~ In v (vertices g) -> nbrs v g = [].
Proof.
  induction g as [|p r IH]; cbn [nbrs vertices map In]; auto.
  intro H. destruct (Z.eqb_spec v (fst p)) as [E|E]; [exfalso; auto|].
  apply IH. intro; apply H; auto.
Qed.

Lemma edge_source_vertex g u v : edge g u v -> vertex g u.
Proof.
  unfold edge, vertex. intro H.
  destruct (in_dec Z.eq_dec u (vertices g)) as [I|I]; auto.
  rewrite (nbrs_not_vertex _ _ I) in H. destruct H.
Qed.

Lemma nbrs_entry g u : In u (vertices g) -> In (u, nbrs u g) g.
Proof.
  induction g as [|p r IH]; cbn [nbrs vertices map In]; [tauto|].
  intro H. destruct (Z.eqb_spec u (fst p)) as [E|E].
  - left. subst. destruct p; auto.
  - right. apply IH. destruct H; [congruence | auto].
Qed.

Lemma wf_tail p g : wf (p :: g) -> wf g.
Proof.
  intros [S F]. split.
  - apply (ssorted_inv _ _ S).
  - inversion F; auto.
Qed.

Lemma wf_entry g p : wf g -> In p g -> nbrs (fst p) g = snd p.
Proof.
  induction g as [|q r IH]; intros W H; [destruct H|].
  cbn [nbrs]. destruct H as [->|H].
  - rewrite Z.eqb_refl. auto.
  - destruct W as [S F]. cbn [vertices map] in S. destruct (ssorted_inv _ _ S) as [S' L].
    assert (I : In (fst p) (map fst r)) by (apply in_map; auto).
    specialize (L _ I). destruct (Z.eqb_spec (fst p) (fst q)) as [E|E]; [lia|].
    apply IH; auto. split; auto. inversion F; auto.
Qed.

Lemma nbrs_sorted g v : wf g -> ssorted (nbrs v g).
Proof.
  intros W. destruct (in_dec Z.eq_dec v (vertices g)) as [I|I].
  - destruct W as [_ F]. rewrite Forall_forall in F. apply (F _ (nbrs_entry _ _ I)).
  - rewrite (nbrs_not_vertex _ _ I). apply ssorted_nil.
Qed.

Lemma wf_mk V f : ssorted V -> (forall v, ssorted (f v)) -> wf (mk V f).
Proof.
  intros S F. split.
  - rewrite vertices_mk. exact S.
  - unfold mk. rewrite Forall_forall. intros p Hp. apply in_map_iff in Hp as [v [<- _]]. apply F.
Qed.

Lemma wf_is_mk g : wf g -> g = mk (vertices g) (fun v => nbrs v g).
Proof.
  induction g as [|p r IH]; intro W; auto.
  cbn [vertices map mk]. cbn [nbrs]. rewrite Z.eqb_refl. destruct p as [a ns]. cbn [fst snd]. f_equal.
  rewrite (IH (wf_tail _ _ W)) at 1. unfold mk. apply map_ext_in.
  intros v Hv. destruct W as [S _]. cbn [vertices map fst] in S. destruct (ssorted_inv _ _ S) as [_ L].
  specialize (L _ Hv). destruct (Z.eqb_spec v a) as [E|E]; [lia | auto].
Qed.

Lemma mk_ext V f f' : (forall v, In v V -> f v = f' v) -> mk V f = mk V f'.
Proof. intro H. unfold mk. apply map_ext_in. intros v Hv. rewrite (H v Hv). auto. Qed.

(* graph extensionality: a well-formed graph is determined by its vertex set and its edge set *)
Lemma graph_ext g1 g2 : wf g1 -> wf g2 ->
  (forall x, vertex g1 x <-> vertex g2 x) -> (forall u v, edge g1 u v <-> edge g2 u v) -> g1 = g2.
Proof.
  intros W1 W2 HV HE.
  rewrite (wf_is_mk _ W1), (wf_is_mk _ W2).
  assert (EV : vertices g1 = vertices g2) by (apply sorted_ext; [apply W1 | apply W2 | exact HV]).
  rewrite EV. apply mk_ext. intros v _.
  apply sorted_ext; [apply nbrs_sorted; auto | apply nbrs_sorted; auto | intro x; apply HE].
Qed.

Lemma edges_In_gen g u v : In (u, v) (edges g) <-> exists p, In p g /\ fst p = u /\ In v (snd p).
Proof.
  unfold edges. rewrite in_flat_map. split.
  - intros [p [Hp H]]. apply in_map_iff in H as [w [E Hw]]. inversion E; subst. exists p; auto.
  - intros [p [Hp [E Hv]]]. exists p. split; auto. subst u. apply in_map. auto.
Qed.

Lemma edges_In g u v : wf g -> (In (u, v) (edges g) <-> edge g u v).
Proof.
  intro W. rewrite edges_In_gen. unfold edge. split.
  - intros [p [Hp [E Hv]]]. subst u. rewrite (wf_entry _ _ W Hp). auto.
  - intro H. exists (u, nbrs u g). cbn [fst snd]. split; auto.
    apply nbrs_entry. apply (edge_source_vertex g u v H).
Qed.

Lemma wfb_spec g : wfb g = true <-> wf g.
Proof.
  unfold wfb, wf. rewrite andb_true_iff, sortedb_spec, forallb_forall, Forall_forall.
  split; intros [A B]; split; auto; intros p Hp; apply sortedb_spec; auto.
Qed.

Lemma closedb_spec g : wf g -> (closedb g = true <-> closed g).
Proof.
  intro W. unfold closedb, closed. rewrite forallb_forall. split.
  - intros H u v E. apply (edges_In g u v W) in E. apply edges_In_gen in E as [p [Hp [_ Hv]]].
    specialize (H p Hp). rewrite forallb_forall in H. apply mem_In. auto.
  - intros H p Hp. rewrite forallb_forall. intros v Hv. apply mem_In. apply (H (fst p) v).
    apply (edges_In g _ _ W). apply edges_In_gen. exists p; auto.
Qed.

(* ------------------------------------------------------------------ the set-defined operations *)
Lemma succs_In v u es : In v (succs u es) <-> In (u, v) es.
Proof.
  unfold succs. rewrite in_map_iff. split.
  - intros [e [E H]]. apply filter_In in H as [H1 H2]. apply Z.eqb_eq in H2. destruct e; cbn in *; subst; auto.
  - intro H. exists (u, v). split; auto. apply filter_In. split; auto. cbn [fst]. apply Z.eqb_refl.
Qed.

Lemma ends_In x es : In x (ends es) <-> exists y, In (x, y) es \/ In (y, x) es.
Proof.
  unfold ends. rewrite in_flat_map. split.
  - intros [[a b] [He H]]. cbn [fst snd In] in H. destruct H as [<-|[<-|[]]]; [exists b | exists a]; auto.
  - intros [y [H|H]]; [exists (x, y) | exists (y, x)]; cbn [fst snd In]; auto.
Qed.

Lemma edge_mk V f u v : edge (mk V f) u v <-> In u V /\ In v (f u).
Proof.
  unfold edge. rewrite nbrs_mk. destruct (mem u V) eqn:M.
  - apply mem_In in M. tauto.
  - apply mem_false in M. cbn [In]. tauto.
Qed.

Lemma vertex_mk V f x : vertex (mk V f) x <-> In x V.
Proof. unfold vertex. rewrite vertices_mk. tauto. Qed.

(* vertices_edges_to_ugraph *)
Lemma veu_vertex vs es x : vertex (vertices_edges_to_ugraph vs es) x <-> In x vs \/ In x (ends es).
Proof. unfold vertices_edges_to_ugraph. rewrite vertex_mk, sort_set_In, in_app_iff. tauto. Qed.

Lemma veu_edge vs es u v : edge (vertices_edges_to_ugraph vs es) u v <-> In (u, v) es.
Proof.
  unfold vertices_edges_to_ugraph. rewrite edge_mk, !sort_set_In, succs_In, in_app_iff. split; [tauto|].
  intro H. split; auto. right. apply ends_In. exists v; auto.
Qed.

Lemma veu_wf vs es : wf (vertices_edges_to_ugraph vs es).
Proof. apply wf_mk; [apply sort_set_sorted | intro; apply sort_set_sorted]. Qed.

Lemma veu_closed vs es : closed (vertices_edges_to_ugraph vs es).
Proof.
  intros u v E. apply veu_edge in E. apply veu_vertex. right. apply ends_In. exists u; auto.
Qed.

(* add_vertices *)
Lemma add_vertices_vertex g vs x : vertex (add_vertices g vs) x <-> In x vs \/ vertex g x.
Proof. unfold add_vertices. rewrite vertex_mk, union_In. tauto. Qed.

Lemma add_vertices_edge g vs u v : edge (add_vertices g vs) u v <-> edge g u v.
Proof.
  unfold add_vertices. rewrite edge_mk, union_In. split; [tauto|].
  intro E. split; auto. right. apply (edge_source_vertex _ _ _ E).
Qed.

Lemma add_vertices_wf g vs : wf g -> wf (add_vertices g vs).
Proof. intro W. apply wf_mk; [apply union_sorted; apply W | intro; apply nbrs_sorted; auto]. Qed.

(* del_vertices *)
Lemma del_vertices_vertex g vs x : vertex (del_vertices g vs) x <-> vertex g x /\ ~ In x vs.
Proof. unfold del_vertices. rewrite vertex_mk, subtract_In. tauto. Qed.

Lemma del_vertices_edge g vs u v :
  edge (del_vertices g vs) u v <-> edge g u v /\ ~ In u vs /\ ~ In v vs.
Proof.
  unfold del_vertices. rewrite edge_mk, !subtract_In. split; [tauto|].
  intros [E [A B]]. repeat split; auto. apply (edge_source_vertex _ _ _ E).
Qed.

Lemma del_vertices_wf g vs : wf g -> wf (del_vertices g vs).
Proof.
  intro W. apply wf_mk; [apply subtract_sorted; apply W | intro; apply subtract_sorted, nbrs_sorted; auto].
Qed.

(* ugraph_union *)
Lemma ugraph_union_vertex g1 g2 x : vertex (ugraph_union g1 g2) x <-> vertex g1 x \/ vertex g2 x.
Proof. unfold ugraph_union. rewrite vertex_mk, union_In. tauto. Qed.

Lemma ugraph_union_edge g1 g2 u v : edge (ugraph_union g1 g2) u v <-> edge g1 u v \/ edge g2 u v.
Proof.
  unfold ugraph_union. rewrite edge_mk, !union_In. split; [tauto|].
  intros [E|E]; (split; [|auto]); [left | right]; apply (edge_source_vertex _ _ _ E).
Qed.

Lemma ugraph_union_wf g1 g2 : wf g1 -> wf g2 -> wf (ugraph_union g1 g2).
Proof.
  intros W1 W2. apply wf_mk; [apply union_sorted; apply W2 | intro; apply union_sorted, nbrs_sorted; auto].
Qed.

(* add_edges *)
Lemma add_edges_vertex g es x : vertex (add_edges g es) x <-> vertex g x \/ In x (ends es).
Proof. unfold add_edges. rewrite ugraph_union_vertex, veu_vertex. cbn [In]. tauto. Qed.

Lemma add_edges_edge g es u v : edge (add_edges g es) u v <-> edge g u v \/ In (u, v) es.
Proof. unfold add_edges. rewrite ugraph_union_edge, veu_edge. tauto. Qed.

Lemma add_edges_wf g es : wf g -> wf (add_edges g es).
Proof. intro W. apply ugraph_union_wf; auto. apply veu_wf. Qed.

(* del_edges *)
Lemma del_edges_vertices g es : vertices (del_edges g es) = vertices g.
Proof. apply vertices_mk. Qed.

Lemma del_edges_edge g es u v : edge (del_edges g es) u v <-> edge g u v /\ ~ In (u, v) es.
Proof.
  unfold del_edges. rewrite edge_mk, subtract_In, succs_In. split; [tauto|].
  intros [E A]. repeat split; auto. apply (edge_source_vertex _ _ _ E).
Qed.

Lemma del_edges_wf g es : wf g -> wf (del_edges g es).
Proof. intro W. apply wf_mk; [apply W | intro; apply subtract_sorted, nbrs_sorted; auto]. Qed.

(* neighbours *)
Lemma neighbours_some v g ns : neighbours v g = Some ns -> vertex g v /\ forall u, In u ns <-> edge g v u.
Proof.
  unfold neighbours. destruct (mem v (vertices g)) eqn:M; [|discriminate].
  intro E. inversion E; subst. split; [apply mem_In; auto | unfold edge; tauto].
Qed.

Lemma neighbours_none v g : neighbours v g = None <-> ~ vertex g v.
Proof.
  unfold neighbours, vertex. rewrite <- mem_false. destruct (mem v (vertices g)); split; congruence.
Qed.

(* transpose *)
Lemma swap_In u v es : In (u, v) (map swap es) <-> In (v, u) es.
Proof.
  rewrite in_map_iff. split.
  - intros [[a b] [E H]]. unfold swap in E. cbn [fst snd] in E. inversion E; subst. auto.
  - intro H. exists (v, u). auto.
Qed.

Lemma transpose_edge g u v : wf g -> (edge (transpose g) u v <-> edge g v u).
Proof. intro W. unfold transpose. rewrite veu_edge, swap_In. apply edges_In; auto. Qed.

Lemma transpose_vertex g x : wf g -> (vertex (transpose g) x <-> vertex g x \/ exists u, edge g u x).
Proof.
  intro W. unfold transpose. rewrite veu_vertex, ends_In. split.
  - intros [H|[y [H|H]]]; auto.
    + apply swap_In, (edges_In _ _ _ W) in H. right. exists y; auto.
    + apply swap_In, (edges_In _ _ _ W) in H. left. apply (edge_source_vertex _ _ _ H).
  - intros [H|[u H]]; auto. right. exists u. left. apply swap_In, edges_In; auto.
Qed.

Lemma transpose_wf g : wf (transpose g).
Proof. apply veu_wf. Qed.

Lemma transpose_closed g : closed (transpose g).
Proof. apply veu_closed. Qed.

Lemma transpose_involutive g : wf g -> closed g -> transpose (transpose g) = g.
Proof.
  intros W C. apply graph_ext; auto; [apply transpose_wf | |].
  - intro x. rewrite (transpose_vertex _ _ (transpose_wf g)), (transpose_vertex _ _ W). split.
    + intros [[H|[u H]]|[u H]]; auto.
      * apply (C u x H).
      * apply (transpose_edge _ _ _ W) in H. apply (edge_source_vertex _ _ _ H).
    + auto.
  - intros u v. rewrite (transpose_edge _ _ _ (transpose_wf g)), (transpose_edge _ _ _ W). tauto.
Qed.

(* compose *)
Lemma compose_vertex g1 g2 x : vertex (compose g1 g2) x <-> vertex g1 x \/ vertex g2 x.
Proof. unfold compose. rewrite vertex_mk, union_In. tauto. Qed.

Lemma compose_edge g1 g2 u v : edge (compose g1 g2) u v <-> exists w, edge g1 u w /\ edge g2 w v.
Proof.
  unfold compose. rewrite edge_mk, union_In, big_union_In. split.
  - intros [_ [l [Hl Hv]]]. apply in_map_iff in Hl as [w [<- Hw]]. exists w; auto.
  - intros [w [E1 E2]]. split.
    + left. apply (edge_source_vertex _ _ _ E1).
    + exists (nbrs w g2). split; auto. apply in_map_iff. exists w; auto.
Qed.

Lemma compose_wf g1 g2 : wf g2 -> wf (compose g1 g2).
Proof. intro W. apply wf_mk; [apply union_sorted; apply W | intro; apply big_union_sorted]. Qed.

(* complement *)
Lemma complement_vertices g : vertices (complement g) = vertices g.
Proof. apply vertices_mk. Qed.

Lemma complement_edge g u v :
  edge (complement g) u v <-> vertex g u /\ vertex g v /\ u <> v /\ ~ edge g u v.
Proof.
  unfold complement. rewrite edge_mk, subtract_In, insert_In. unfold vertex, edge. split.
  - intros [A [B C]]. repeat split; auto; try (intro; subst; auto).
  - intros [A [B [C D]]]. repeat split; auto. intros [E|E]; auto.
Qed.

Lemma complement_wf g : wf g -> wf (complement g).
Proof. intro W. apply wf_mk; [apply W | intro; apply subtract_sorted; apply W]. Qed.

Lemma complement_closed g : closed (complement g).
Proof. intros u v E. apply complement_edge in E. unfold vertex. rewrite complement_vertices. apply E. Qed.

(* closedness is preserved where the library guarantees it *)
Lemma add_vertices_closed g vs : closed g -> closed (add_vertices g vs).
Proof. intros C u v E. apply add_vertices_edge in E. apply add_vertices_vertex. right. apply (C u v E). Qed.

Lemma del_vertices_closed g vs : closed g -> closed (del_vertices g vs).
Proof.
  intros C u v E. apply del_vertices_edge in E as [E [A B]]. apply del_vertices_vertex. split; auto. apply (C u v E).
Qed.

Lemma ugraph_union_closed g1 g2 : closed g1 -> closed g2 -> closed (ugraph_union g1 g2).
Proof.
  intros C1 C2 u v E. apply ugraph_union_edge in E. apply ugraph_union_vertex.
  destruct E as [E|E]; [left; apply (C1 u v E) | right; apply (C2 u v E)].
Qed.

Lemma add_edges_closed g es : closed g -> closed (add_edges g es).
Proof. intro C. apply ugraph_union_closed; auto. apply veu_closed. Qed.

Lemma del_edges_closed g es : closed g -> closed (del_edges g es).
Proof.
  intros C u v E. apply del_edges_edge in E as [E _]. unfold vertex. rewrite del_edges_vertices. apply (C u v E).
Qed.

Lemma compose_closed g1 g2 : closed g2 -> closed (compose g1 g2).
Proof.
  intros C u v E. apply compose_edge in E as [w [_ E]]. apply compose_vertex. right. apply (C w v E).
Qed.
