(* C39 -- pinned property theorems (nothing else lives here) *)
From Coq Require Import NArith List Bool.
From V Require Import C39.Model C39.Proofs.
Import ListNotations.
Open Scope N_scope.

(* phrase(nt, L, Rest) through the program produced by the translation of dcgs.pl (threading of the two list
   arguments, fresh variable per concatenation, S0 = [t1..|S] for terminals, (G, S0 = S) for {}//1,
   call(P, S0, S), pushback) has exactly the remainders, in the same order, of the denotational recogniser --
   for every fuel (both run out at the same depth).  PARTIAL: grammars without arguments and without !, ->, \+
   (those are covered by the correspondence against explicit reference clauses only). *)
Theorem translate_correct_partial : forall fuel G nt l, phrase3 fuel G nt l = denote fuel G nt l.
Proof. exact translate_correct_l. Qed.
Print Assumptions translate_correct_partial.

(* steadfastness: calling the translated non-terminal with the remainder already bound (phrase/2 binds it to [])
   selects exactly the answers of the open call that equal it *)
Theorem translation_steadfast : forall fuel G nt l r,
  solve fuel (translate_grammar G) nt l (Some r) = filt (Some r) (solve fuel (translate_grammar G) nt l None).
Proof. exact steadfast_l. Qed.
Print Assumptions translation_steadfast.

Theorem phrase2_is_filtered_phrase3 : forall fuel G nt l, phrase2 fuel G nt l = filt (Some []) (denote fuel G nt l).
Proof. exact phrase2_l. Qed.
Print Assumptions phrase2_is_filtered_phrase3.

(* the translated program never reaches an unsupported mode (unifying two unbound list variables / calling with
   an unbound input list) *)
Theorem translation_never_stuck : forall fuel G nt l o, solve fuel (translate_grammar G) nt l o <> Stuck.
Proof. exact solve_not_stuck. Qed.
Print Assumptions translation_never_stuck.

(* a completed run does not depend on the fuel *)
Theorem denote_fuel_monotone : forall f f' G nt x r, (f <= f')%nat -> denote f G nt x = Ok r -> denote f' G nt x = Ok r.
Proof. exact denote_fuel_mono_l. Qed.
Print Assumptions denote_fuel_monotone.

(* the recogniser accepts exactly what the grammar describes: its answers are the remainders r such that the
   grammar derives the prefix of x before r (inductive derivation relation), whenever the run completes *)
Theorem denote_exact : forall f G nt x rs, denote f G nt x = Ok rs ->
  forall r, In r rs <-> derives G (NonTerm nt) x r.
Proof. exact denote_exact_l. Qed.
Print Assumptions denote_exact.

(* "xy" and [x,y] translate to the same goal and denote the same *)
Theorem terminal_list_string_same : forall l s0 s n call inp,
  translate (Str l) s0 s n = translate (Terminals l) s0 s n /\
  denote_body call (Str l) inp = denote_body call (Terminals l) inp.
Proof. exact str_same. Qed.
Print Assumptions terminal_list_string_same.

(* nt, PB --> Body : the clause produced for a pushback rule yields PB ++ r for every remainder r of Body *)
Theorem pushback_semantics : forall fuel G nt pb b l,
  run_clause (solve fuel (translate_grammar G)) (translate_rule (nt, Some pb, b)) l None =
  map_res (app pb) (denote_body (denote fuel G) b l).
Proof. exact pushback_l. Qed.
Print Assumptions pushback_semantics.

(* what a passing correspondence case establishes *)
Theorem check_input_sound : forall f G nt l o3 o2, check_input f G nt l o3 o2 = true ->
  denote f G nt l = Ok o3 /\ phrase3 f G nt l = Ok o3 /\ phrase2 f G nt l = Ok (repeat [] (N.to_nat o2)).
Proof. exact check_input_sound_l. Qed.
Print Assumptions check_input_sound.

(* non-vacuity:  s --> [0], a, "12" | [].   a, [1] --> [2], {true}, call(any).   a --> a0.  (x=0,y=1,z=2) *)
Definition exG : grammar :=
  [ (0, None, AltBar (Seq (Terminals [0]) (Seq (NonTerm 1) (Str [1;2]))) Empty);
    (1, Some [1], Seq (Terminals [2]) (Seq (Brace true) (CallP PAny)));
    (1, None, Terminals [0]) ].
Example ex_run : denote 5 exG 0 [0;2;7;2] = Ok [[]; [0;2;7;2]].
Proof. vm_compute. reflexivity. Qed.
Example ex_run_translated : phrase3 5 exG 0 [0;2;7;2] = Ok [[]; [0;2;7;2]].
Proof. vm_compute. reflexivity. Qed.
Example ex_phrase2 : phrase2 5 exG 0 [0;2;7;2] = Ok [[]].
Proof. vm_compute. reflexivity. Qed.
Example ex_nofuel : denote 1 exG 0 [0;2;7;2] = NoFuel /\ phrase3 1 exG 0 [0;2;7;2] = NoFuel.
Proof. vm_compute. split; reflexivity. Qed.
Example ex_clause : translate_rule (1, Some [1], Seq (Terminals [2]) (Seq (Brace true) (CallP PAny))) =
  (1, GAnd (GAnd (GUnif 0 [2] 3) (GAnd (GAnd (GTest true) (GUnif 3 [] 4)) (GPrim PAny 4 2))) (GUnif 1 [1] 2)).
Proof. vm_compute. reflexivity. Qed.
