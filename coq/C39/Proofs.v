(* C39 -- proofs about the DCG translation model *)
From Coq Require Import NArith List Bool Lia.
From V Require Import C39.Model.
Import ListNotations.
Open Scope N_scope.

(* ------------------------------------------------------------------ basic facts *)
Lemma leqb_spec : forall a b, leqb a b = true <-> a = b.
Proof.
  induction a as [|x a IH]; destruct b as [|y b]; cbn [leqb]; split; intro H; try reflexivity; try discriminate.
  - apply andb_true_iff in H. destruct H as [H1 H2]. apply N.eqb_eq in H1. apply IH in H2. subst. reflexivity.
  - injection H as Hx Hb. subst. rewrite N.eqb_refl. cbn. apply IH. reflexivity.
Qed.

Lemma leqb_refl : forall a, leqb a a = true.
Proof. intro a. apply leqb_spec. reflexivity. Qed.

Lemma leqb_false : forall a b, leqb a b = false <-> a <> b.
Proof.
  intros a b. split.
  - intros H E. apply leqb_spec in E. rewrite E in H. discriminate.
  - intro H. destruct (leqb a b) eqn:E; [|reflexivity]. apply leqb_spec in E. contradiction.
Qed.

Lemma strip_spec : forall pre l r, strip pre l = Some r <-> l = pre ++ r.
Proof.
  induction pre as [|p pre IH]; intros l r; cbn [strip app].
  - split; intro H; [injection H as H|]; subst; reflexivity.
  - destruct l as [|x l].
    + split; intro H; discriminate.
    + destruct (N.eqb_spec p x) as [E|E].
      * subst. rewrite IH. split; intro H; [subst; reflexivity | injection H as H; exact H].
      * split; intro H; [discriminate | injection H as H1 H2; congruence].
Qed.

Lemma strip_app : forall pre r, strip pre (pre ++ r) = Some r.
Proof. intros. apply strip_spec. reflexivity. Qed.

Lemma app_res_nil_r : forall A (r : res (list A)), app_res r (Ok []) = r.
Proof. intros A [a| |]; cbn; [rewrite app_nil_r|..]; reflexivity. Qed.

Lemma app_res_assoc : forall A (a b c : res (list A)), app_res (app_res a b) c = app_res a (app_res b c).
Proof. intros A [a| |] [b| |] [c| |]; cbn; try reflexivity. rewrite app_assoc. reflexivity. Qed.

Lemma bind_all_app : forall A B (l1 l2 : list A) (f : A -> res (list B)),
  bind_all (l1 ++ l2) f = app_res (bind_all l1 f) (bind_all l2 f).
Proof.
  induction l1 as [|x l1 IH]; intros l2 f; cbn [bind_all app].
  - destruct (bind_all l2 f); reflexivity.
  - rewrite IH, app_res_assoc. reflexivity.
Qed.

(* ------------------------------------------------------------------ filt *)
Definition filtl (o : option (list N)) (l : list (list N)) : list (list N) :=
  match o with None => l | Some x => filter (leqb x) l end.

Lemma filt_ok : forall o l, filt o (Ok l) = Ok (filtl o l).
Proof. intros [x|] l; reflexivity. Qed.
Lemma filt_nofuel : forall o, filt o NoFuel = NoFuel.
Proof. intros [x|]; reflexivity. Qed.
Lemma filt_stuck : forall o, filt o Stuck = Stuck.
Proof. intros [x|]; reflexivity. Qed.

Lemma filtl_app : forall o a b, filtl o (a ++ b) = filtl o a ++ filtl o b.
Proof. intros [x|] a b; cbn [filtl]; [apply filter_app | reflexivity]. Qed.

Lemma filt_app_res : forall o a b, filt o (app_res a b) = app_res (filt o a) (filt o b).
Proof.
  intros o [a| |] [b| |]; cbn [app_res]; rewrite ?filt_ok, ?filt_nofuel, ?filt_stuck; cbn [app_res]; try reflexivity.
  rewrite filtl_app. reflexivity.
Qed.

Lemma filt_bind_all : forall o A (l : list A) f, filt o (bind_all l f) = bind_all l (fun x => filt o (f x)).
Proof.
  intros o A l f. induction l as [|x l IH]; cbn [bind_all].
  - rewrite filt_ok. destruct o; reflexivity.
  - rewrite filt_app_res, IH. reflexivity.
Qed.

Lemma filt_bind_res : forall o A (r : res (list A)) f, filt o (bind_res r f) = bind_res r (fun x => filt o (f x)).
Proof.
  intros o A [l| |] f; cbn [bind_res]; rewrite ?filt_nofuel, ?filt_stuck; try reflexivity. apply filt_bind_all.
Qed.

(* ------------------------------------------------------------------ relation between results *)
Inductive res_rel {A B} (R : list A -> list B -> Prop) : res (list A) -> res (list B) -> Prop :=
| RR_ok : forall a b, R a b -> res_rel R (Ok a) (Ok b)
| RR_nofuel : res_rel R NoFuel NoFuel
| RR_stuck : res_rel R Stuck Stuck.

Lemma app_res_rel : forall A B (R : A -> B -> Prop) a b c d,
  res_rel (Forall2 R) a b -> res_rel (Forall2 R) c d -> res_rel (Forall2 R) (app_res a c) (app_res b d).
Proof.
  intros A B R a b c d H1 H2. destruct H1 as [a b H1| |]; destruct H2 as [c d H2| |]; cbn [app_res]; constructor.
  apply Forall2_app; assumption.
Qed.

Lemma bind_all_rel : forall A B C D (R1 : A -> B -> Prop) (R2 : C -> D -> Prop) l1 l2 f g,
  Forall2 R1 l1 l2 ->
  (forall a b, R1 a b -> res_rel (Forall2 R2) (f a) (g b)) ->
  res_rel (Forall2 R2) (bind_all l1 f) (bind_all l2 g).
Proof.
  intros A B C D R1 R2 l1 l2 f g HF Hfg. induction HF as [|a b l1 l2 Hab HF IH]; cbn [bind_all].
  - constructor. constructor.
  - apply app_res_rel; [apply Hfg; exact Hab | exact IH].
Qed.

Lemma bind_res_rel : forall A B C D (R1 : A -> B -> Prop) (R2 : C -> D -> Prop) r1 r2 f g,
  res_rel (Forall2 R1) r1 r2 ->
  (forall a b, R1 a b -> res_rel (Forall2 R2) (f a) (g b)) ->
  res_rel (Forall2 R2) (bind_res r1 f) (bind_res r2 g).
Proof.
  intros A B C D R1 R2 r1 r2 f g H Hfg. destruct H as [a b H| |]; cbn [bind_res]; try constructor.
  eapply bind_all_rel; eassumption.
Qed.

Lemma res_rel_weaken : forall A B (R R' : A -> B -> Prop) a b,
  (forall x y, R x y -> R' x y) -> res_rel (Forall2 R) a b -> res_rel (Forall2 R') a b.
Proof.
  intros A B R R' a b HW H. destruct H as [a b H| |]; constructor.
  induction H; constructor; auto.
Qed.

(* ------------------------------------------------------------------ the translation *)
Lemma translate_mono : forall b s0 s n g n', translate b s0 s n = (g, n') -> n <= n'.
Proof.
  induction b as [| l | l | nt | a IHa c IHc | a IHa c IHc | a IHa c IHc | t | p]; intros s0 s n g n' H; cbn [translate] in H;
    try (injection H as _ H; subst; lia).
  - destruct (translate a s0 n (n + 1)) as [ga n1] eqn:Ea. destruct (translate c n s n1) as [gc n2] eqn:Ec.
    injection H as _ H. subst. apply IHa in Ea. apply IHc in Ec. lia.
  - destruct (translate a s0 s n) as [ga n1] eqn:Ea. destruct (translate c s0 s n1) as [gc n2] eqn:Ec.
    injection H as _ H. subst. apply IHa in Ea. apply IHc in Ec. lia.
  - destruct (translate a s0 s n) as [ga n1] eqn:Ea. destruct (translate c s0 s n1) as [gc n2] eqn:Ec.
    injection H as _ H. subst. apply IHa in Ea. apply IHc in Ec. lia.
Qed.

(* e extends e0: s now holds r, everything below n except s is untouched, everything from n' on is unbound *)
Definition good (e0 : env) (s n n' : N) (e : env) (r : list N) : Prop :=
  e s = Some r /\ (forall v, v < n -> v <> s -> e v = e0 v) /\ (forall v, n' <= v -> e v = None).

Lemma upd_same : forall e v x, upd e v x v = Some x.
Proof. intros. unfold upd. rewrite N.eqb_refl. reflexivity. Qed.
Lemma upd_other : forall e v x w, w <> v -> upd e v x w = e w.
Proof. intros e v x w H. unfold upd. destruct (N.eqb_spec w v); [contradiction | reflexivity]. Qed.

Lemma unify_ok : forall e s0 s n l inp,
  s < n -> s0 <> s -> e s0 = Some inp -> (forall v, n <= v -> e v = None) ->
  res_rel (Forall2 (good e s n n)) (unify e s0 l s) (filt (e s) (Ok (opt_list (strip l inp)))).
Proof.
  intros e s0 s n l inp Hs Hne H0 Hfree. unfold unify. rewrite H0. rewrite filt_ok.
  destruct (e s) as [y|] eqn:Es; cbn [filtl]; constructor.
  - destruct (strip l inp) as [r|] eqn:Est; cbn [opt_list filter].
    + apply strip_spec in Est. subst inp. destruct (leqb y r) eqn:Eyr.
      * apply leqb_spec in Eyr. subst r. rewrite leqb_refl. constructor; [|constructor].
        split; [exact Es|]. split; [reflexivity | exact Hfree].
      * apply leqb_false in Eyr. destruct (leqb (l ++ r) (l ++ y)) eqn:E2; [|constructor].
        apply leqb_spec in E2. apply app_inv_head in E2. congruence.
    + destruct (leqb inp (l ++ y)) eqn:E2; [|constructor].
      apply leqb_spec in E2. subst inp. rewrite strip_app in Est. discriminate.
  - destruct (strip l inp) as [r|]; cbn [opt_list]; constructor; [|constructor].
    split; [apply upd_same|]. split.
    + intros v _ Hv. apply upd_other. exact Hv.
    + intros v Hv. rewrite upd_other by lia. apply Hfree. exact Hv.
Qed.

Lemma bind_out_ok : forall e s n l,
  s < n -> (forall v, n <= v -> e v = None) ->
  Forall2 (good e s n n) (concat (map (bind_out e s) (filtl (e s) l))) (filtl (e s) l).
Proof.
  intros e s n l Hs Hfree. unfold bind_out. destruct (e s) as [y|] eqn:Es; cbn [filtl].
  - induction l as [|r l IH]; cbn [filter map concat]; [constructor|].
    destruct (leqb y r) eqn:Eyr; [|exact IH]. cbn [map concat]. rewrite Eyr. cbn [app].
    constructor; [|exact IH]. apply leqb_spec in Eyr. subst r.
    split; [exact Es|]. split; [reflexivity | exact Hfree].
  - induction l as [|r l IH]; cbn [map concat app]; [constructor|].
    constructor; [|exact IH].
    split; [apply upd_same|]. split.
    + intros v _ Hv. apply upd_other. exact Hv.
    + intros v Hv. rewrite upd_other by lia. apply Hfree. exact Hv.
Qed.

Lemma bind_out_filtl : forall e s l,
  concat (map (bind_out e s) l) = concat (map (bind_out e s) (filtl (e s) l)).
Proof.
  intros e s l. unfold bind_out. destruct (e s) as [y|]; cbn [filtl]; [|reflexivity].
  induction l as [|r l IH]; cbn [filter map concat]; [reflexivity|].
  destruct (leqb y r) eqn:E; cbn [map concat]; rewrite ?E, IH; reflexivity.
Qed.

Section Body.
  Variable call : N -> list N -> option (list N) -> res (list (list N)).
  Variable dcall : N -> list N -> res (list (list N)).
  Hypothesis Hcall : forall nt x o, call nt x o = filt o (dcall nt x).

  Lemma translate_ok : forall b s0 s n e inp g n',
    translate b s0 s n = (g, n') -> s0 < n -> s < n -> s0 <> s -> e s0 = Some inp -> (forall v, n <= v -> e v = None) ->
    res_rel (Forall2 (good e s n n')) (solve_goal call g e) (filt (e s) (denote_body dcall b inp)).
  Proof.
    induction b as [| l | l | nt | a IHa c IHc | a IHa c IHc | a IHa c IHc | t | p];
      intros s0 s n e inp g n' HT Hs0 Hs Hne H0 Hfree; cbn [translate] in HT.
    - injection HT as <- <-. cbn [solve_goal denote_body].
      change [inp] with (opt_list (strip [] inp)). eapply unify_ok; eassumption.
    - injection HT as <- <-. cbn [solve_goal denote_body]. eapply unify_ok; eassumption.
    - injection HT as <- <-. cbn [solve_goal denote_body]. eapply unify_ok; eassumption.
    - injection HT as <- <-. cbn [solve_goal denote_body]. rewrite H0, Hcall.
      destruct (dcall nt inp) as [l| |]; rewrite ?filt_nofuel, ?filt_stuck; cbn [concat_res]; try constructor.
      rewrite filt_ok. cbn [concat_res]. constructor. apply bind_out_ok; assumption.
    - (* Seq *)
      destruct (translate a s0 n (n + 1)) as [ga n1] eqn:Ea. destruct (translate c n s n1) as [gc n2] eqn:Ec.
      injection HT as <- <-. cbn [solve_goal denote_body].
      pose proof (translate_mono _ _ _ _ _ _ Ea) as M1. pose proof (translate_mono _ _ _ _ _ _ Ec) as M2.
      rewrite filt_bind_res.
      assert (En : e n = None) by (apply Hfree; lia).
      pose proof (IHa s0 n (n + 1) e inp ga n1 Ea ltac:(lia) ltac:(lia) ltac:(lia) H0 ltac:(intros v Hv; apply Hfree; lia)) as Ha.
      rewrite En in Ha. cbn [filt] in Ha.
      eapply bind_res_rel; [exact Ha|].
      intros e1 r1 [G1 [G2 G3]].
      assert (Es1 : e1 s = e s) by (apply G2; lia).
      rewrite <- Es1.
      pose proof (IHc n s n1 e1 r1 gc n2 Ec ltac:(lia) ltac:(lia) ltac:(lia) G1 G3) as Hc.
      eapply res_rel_weaken; [|exact Hc].
      intros e2 r2 [K1 [K2 K3]]. split; [exact K1|]. split; [|exact K3].
      intros v Hv Hvs. rewrite K2 by lia. apply G2; lia.
    - (* Alt *)
      destruct (translate a s0 s n) as [ga n1] eqn:Ea. destruct (translate c s0 s n1) as [gc n2] eqn:Ec.
      injection HT as <- <-. cbn [solve_goal denote_body].
      pose proof (translate_mono _ _ _ _ _ _ Ea) as M1. pose proof (translate_mono _ _ _ _ _ _ Ec) as M2.
      rewrite filt_app_res. apply app_res_rel.
      + eapply res_rel_weaken; [|eapply IHa; eassumption].
        intros e1 r1 [G1 [G2 G3]]. split; [exact G1|]. split; [exact G2|]. intros v Hv. apply G3. lia.
      + eapply res_rel_weaken; [|eapply (IHc s0 s n1 e inp gc n2 Ec); try lia; try assumption; intros v Hv; apply Hfree; lia].
        intros e1 r1 [G1 [G2 G3]]. split; [exact G1|]. split; [|exact G3]. intros v Hv Hvs. apply G2; lia.
    - (* AltBar *)
      destruct (translate a s0 s n) as [ga n1] eqn:Ea. destruct (translate c s0 s n1) as [gc n2] eqn:Ec.
      injection HT as <- <-. cbn [solve_goal denote_body].
      pose proof (translate_mono _ _ _ _ _ _ Ea) as M1. pose proof (translate_mono _ _ _ _ _ _ Ec) as M2.
      rewrite filt_app_res. apply app_res_rel.
      + eapply res_rel_weaken; [|eapply IHa; eassumption].
        intros e1 r1 [G1 [G2 G3]]. split; [exact G1|]. split; [exact G2|]. intros v Hv. apply G3. lia.
      + eapply res_rel_weaken; [|eapply (IHc s0 s n1 e inp gc n2 Ec); try lia; try assumption; intros v Hv; apply Hfree; lia].
        intros e1 r1 [G1 [G2 G3]]. split; [exact G1|]. split; [|exact G3]. intros v Hv Hvs. apply G2; lia.
    - (* Brace *)
      injection HT as <- <-. cbn [solve_goal denote_body bind_res]. destruct t; cbn [bind_all].
      + rewrite app_res_nil_r. change [inp] with (opt_list (strip [] inp)). eapply unify_ok; eassumption.
      + rewrite filt_ok. destruct (e s); cbn [filtl filter]; constructor; constructor.
    - (* CallP *)
      injection HT as <- <-. cbn [solve_goal denote_body]. rewrite H0, filt_ok. constructor.
      change (fun r : list N => bind_out e s r) with (bind_out e s). rewrite bind_out_filtl. apply bind_out_ok; assumption.
  Qed.

  Lemma collect_ok : forall v envs rs, Forall2 (fun (e : env) r => e v = Some r) envs rs -> collect v envs = Ok rs.
  Proof.
    intros v envs rs H. induction H as [|e r envs rs He H IH]; cbn [collect]; [reflexivity|].
    rewrite He, IH. reflexivity.
  Qed.

  Lemma env0_0 : forall x o, env0 x o 0 = Some x.
  Proof. reflexivity. Qed.
  Lemma env0_1 : forall x o, env0 x o 1 = o.
  Proof. reflexivity. Qed.
  Lemma env0_free : forall x o v, 2 <= v -> env0 x o v = None.
  Proof.
    intros x o v Hv. unfold env0. destruct (N.eqb_spec v 0); [lia|]. destruct (N.eqb_spec v 1); [lia|]. reflexivity.
  Qed.

  Lemma run_clause_plain : forall nt b x o,
    run_clause call (translate_rule (nt, None, b)) x o = filt o (denote_body dcall b x).
  Proof.
    intros nt b x o. unfold run_clause. cbn [translate_rule snd].
    destruct (translate b 0 1 2) as [g n'] eqn:ET. cbn [fst].
    pose proof (translate_ok b 0 1 2 (env0 x o) x g n' ET ltac:(lia) ltac:(lia) ltac:(lia) (env0_0 x o)
                  ltac:(intros v Hv; apply env0_free; exact Hv)) as H.
    rewrite env0_1 in H.
    destruct H as [envs rs H| |]; try reflexivity.
    apply collect_ok. induction H as [|e r envs rs [G1 _] H IH]; constructor; assumption.
  Qed.

  Lemma pushback_bind : forall o pb rs,
    bind_all rs (fun r => filt o (Ok [pb ++ r])) = filt o (Ok (map (app pb) rs)).
  Proof.
    intros o pb rs. induction rs as [|r rs IH]; cbn [bind_all map].
    - rewrite filt_ok. destruct o; reflexivity.
    - rewrite IH, !filt_ok. cbn [app_res]. rewrite <- filtl_app. reflexivity.
  Qed.

  Lemma run_clause_pushback : forall nt pb b x o,
    run_clause call (translate_rule (nt, Some pb, b)) x o = filt o (map_res (app pb) (denote_body dcall b x)).
  Proof.
    intros nt pb b x o. unfold run_clause. cbn [translate_rule snd].
    destruct (translate b 0 2 3) as [g n'] eqn:ET. cbn [fst solve_goal].
    assert (E2 : env0 x o 2 = None) by reflexivity.
    pose proof (translate_ok b 0 2 3 (env0 x o) x g n' ET ltac:(lia) ltac:(lia) ltac:(lia) (env0_0 x o)
                  ltac:(intros v Hv; apply env0_free; lia)) as H.
    rewrite E2 in H. cbn [filt] in H.
    assert (HB : res_rel (Forall2 (fun (e : env) r => e 1 = Some r))
                   (bind_res (solve_goal call g (env0 x o)) (fun e => unify e 1 pb 2))
                   (bind_res (denote_body dcall b x) (fun r => filt o (Ok [pb ++ r])))).
    { eapply bind_res_rel; [exact H|]. intros e r [G1 [G2 G3]].
      assert (E1 : e 1 = o) by (rewrite G2 by lia; reflexivity).
      unfold unify. rewrite E1, G1, filt_ok. destruct o as [y|]; cbn [filtl filter]; constructor.
      - destruct (leqb y (pb ++ r)) eqn:Ey; [|constructor]. apply leqb_spec in Ey. subst y.
        constructor; [exact E1 | constructor].
      - constructor; [apply upd_same | constructor]. }
    destruct (denote_body dcall b x) as [rs| |]; cbn [bind_res map_res] in *.
    - rewrite pushback_bind in HB. rewrite filt_ok in *.
      remember (bind_res (solve_goal call g (env0 x o)) (fun e => unify e 1 pb 2)) as L.
      inversion HB as [envs rs' HF E1' E2'| |]; subst. apply collect_ok. exact HF.
    - rewrite filt_nofuel. inversion HB. reflexivity.
    - rewrite filt_stuck. inversion HB. reflexivity.
  Qed.

  Lemma run_clause_ok : forall r x o, run_clause call (translate_rule r) x o = filt o (denote_rule dcall r x).
  Proof.
    intros [[nt [pb|]] b] x o; cbn [denote_rule].
    - apply run_clause_pushback.
    - apply run_clause_plain.
  Qed.
End Body.

Lemma translate_rule_name : forall r, fst (translate_rule r) = rule_name r.
Proof. intros [[nt [pb|]] b]; reflexivity. Qed.

Lemma solve_denote : forall fuel G nt x o,
  solve fuel (translate_grammar G) nt x o = filt o (denote fuel G nt x).
Proof.
  induction fuel as [|f IH]; intros G nt x o; cbn [solve denote].
  - rewrite filt_nofuel. reflexivity.
  - rewrite filt_bind_all.
    generalize (solve f (translate_grammar G)) (denote f G) (fun n y p => IH G n y p). intros call dcall Hcall.
    unfold translate_grammar. induction G as [|r G IHG]; cbn [map filter]; [reflexivity|].
    rewrite translate_rule_name. destruct (rule_name r =? nt); [|exact IHG].
    cbn [bind_all]. rewrite IHG. rewrite (run_clause_ok call dcall Hcall). reflexivity.
Qed.

Lemma translate_correct_l : forall fuel G nt l, phrase3 fuel G nt l = denote fuel G nt l.
Proof. intros. unfold phrase3. rewrite solve_denote. reflexivity. Qed.

Lemma steadfast_l : forall fuel G nt l r,
  solve fuel (translate_grammar G) nt l (Some r) = filt (Some r) (solve fuel (translate_grammar G) nt l None).
Proof. intros. rewrite !solve_denote. reflexivity. Qed.

Lemma phrase2_l : forall fuel G nt l, phrase2 fuel G nt l = filt (Some []) (denote fuel G nt l).
Proof. intros. unfold phrase2. apply solve_denote. Qed.

Lemma pushback_l : forall fuel G nt pb b l,
  run_clause (solve fuel (translate_grammar G)) (translate_rule (nt, Some pb, b)) l None =
  map_res (app pb) (denote_body (denote fuel G) b l).
Proof.
  intros. rewrite (run_clause_pushback _ (denote fuel G) (fun n y p => solve_denote fuel G n y p)). reflexivity.
Qed.

(* ------------------------------------------------------------------ fuel monotonicity *)
Lemma app_res_ok_inv : forall A (a b : res (list A)) r, app_res a b = Ok r -> exists x y, a = Ok x /\ b = Ok y /\ r = x ++ y.
Proof.
  intros A [a| |] [b| |] r H; cbn [app_res] in H; try discriminate. injection H as <-. eauto.
Qed.

Lemma bind_all_mono : forall A B (l : list A) (f g : A -> res (list B)) r,
  (forall x y, f x = Ok y -> g x = Ok y) -> bind_all l f = Ok r -> bind_all l g = Ok r.
Proof.
  intros A B l f g. induction l as [|x l IH]; intros r Hfg H; cbn [bind_all] in *; [exact H|].
  apply app_res_ok_inv in H. destruct H as [a [b [Ha [Hb ->]]]].
  rewrite (Hfg _ _ Ha), (IH _ Hfg Hb). reflexivity.
Qed.

Lemma denote_body_mono : forall (c1 c2 : N -> list N -> res (list (list N))),
  (forall nt x r, c1 nt x = Ok r -> c2 nt x = Ok r) ->
  forall b x r, denote_body c1 b x = Ok r -> denote_body c2 b x = Ok r.
Proof.
  intros c1 c2 Hc. induction b as [| l | l | nt | a IHa c IHc | a IHa c IHc | a IHa c IHc | t | p]; intros x r H;
    cbn [denote_body] in *; try exact H.
  - apply Hc. exact H.
  - destruct (denote_body c1 a x) as [la| |] eqn:Ea; cbn [bind_res] in H; try discriminate.
    rewrite (IHa _ _ Ea). cbn [bind_res]. eapply bind_all_mono; [|exact H]. intros y z. apply IHc.
  - apply app_res_ok_inv in H. destruct H as [u [v [Hu [Hv ->]]]]. rewrite (IHa _ _ Hu), (IHc _ _ Hv). reflexivity.
  - apply app_res_ok_inv in H. destruct H as [u [v [Hu [Hv ->]]]]. rewrite (IHa _ _ Hu), (IHc _ _ Hv). reflexivity.
Qed.

Lemma denote_rule_mono : forall (c1 c2 : N -> list N -> res (list (list N))),
  (forall nt x r, c1 nt x = Ok r -> c2 nt x = Ok r) ->
  forall rl x r, denote_rule c1 rl x = Ok r -> denote_rule c2 rl x = Ok r.
Proof.
  intros c1 c2 Hc [[nt [pb|]] b] x r H; cbn [denote_rule] in *.
  - destruct (denote_body c1 b x) as [l| |] eqn:E; cbn [map_res] in H; try discriminate.
    rewrite (denote_body_mono c1 c2 Hc _ _ _ E). exact H.
  - eapply denote_body_mono; eassumption.
Qed.

Lemma denote_step_mono : forall f G nt x r, denote f G nt x = Ok r -> denote (S f) G nt x = Ok r.
Proof.
  induction f as [|f IH]; intros G nt x r H; [discriminate|].
  cbn [denote] in *. eapply bind_all_mono; [|exact H].
  intros rl y Hy. eapply denote_rule_mono; [|exact Hy]. intros n z w. apply IH.
Qed.

Lemma denote_fuel_mono_l : forall f f' G nt x r, (f <= f')%nat -> denote f G nt x = Ok r -> denote f' G nt x = Ok r.
Proof.
  intros f f' G nt x r Hle H. induction Hle as [|m Hle IH]; [exact H|]. apply denote_step_mono. exact IH.
Qed.

(* ------------------------------------------------------------------ denote is never Stuck, hence neither is the translated program *)
Lemma app_res_not_stuck : forall A (a b : res (list A)), a <> Stuck -> b <> Stuck -> app_res a b <> Stuck.
Proof. intros A [a| |] [b| |] Ha Hb; cbn; congruence. Qed.

Lemma bind_all_not_stuck : forall A B (l : list A) (f : A -> res (list B)), (forall x, f x <> Stuck) -> bind_all l f <> Stuck.
Proof.
  intros A B l f Hf. induction l as [|x l IH]; cbn [bind_all]; [discriminate|]. apply app_res_not_stuck; auto.
Qed.

Lemma denote_body_not_stuck : forall (c : N -> list N -> res (list (list N))),
  (forall nt x, c nt x <> Stuck) -> forall b x, denote_body c b x <> Stuck.
Proof.
  intros c Hc. induction b as [| l | l | nt | a IHa b IHb | a IHa b IHb | a IHa b IHb | t | p]; intro x; cbn [denote_body];
    try discriminate; auto using app_res_not_stuck.
  destruct (denote_body c a x) as [l| |] eqn:E; cbn [bind_res]; try discriminate.
  - apply bind_all_not_stuck. auto.
  - exfalso. eapply IHa. exact E.
Qed.

Lemma denote_not_stuck : forall f G nt x, denote f G nt x <> Stuck.
Proof.
  induction f as [|f IH]; intros G nt x; cbn [denote]; [discriminate|].
  apply bind_all_not_stuck. intros [[n [pb|]] b]; cbn [denote_rule].
  - pose proof (denote_body_not_stuck (denote f G) (IH G) b x) as H.
    destruct (denote_body (denote f G) b x); cbn [map_res]; congruence.
  - apply denote_body_not_stuck. apply IH.
Qed.

Lemma solve_not_stuck : forall f G nt x o, solve f (translate_grammar G) nt x o <> Stuck.
Proof.
  intros f G nt x o. rewrite solve_denote. pose proof (denote_not_stuck f G nt x) as H.
  destruct o as [y|]; cbn [filt]; [|exact H]. destruct (denote f G nt x); congruence.
Qed.

(* ------------------------------------------------------------------ strings and lists *)
Lemma str_same : forall l s0 s n call inp,
  translate (Str l) s0 s n = translate (Terminals l) s0 s n /\
  denote_body call (Str l) inp = denote_body call (Terminals l) inp.
Proof. intros. split; reflexivity. Qed.

(* ------------------------------------------------------------------ relational reading of the denotation *)
(* derives G b x r: the body b describes the prefix of x that leaves r *)
Inductive derives (G : grammar) : body -> list N -> list N -> Prop :=
| D_empty : forall x, derives G Empty x x
| D_term : forall l r, derives G (Terminals l) (l ++ r) r
| D_str : forall l r, derives G (Str l) (l ++ r) r
| D_nt_plain : forall nt b x r, In (nt, None, b) G -> derives G b x r -> derives G (NonTerm nt) x r
| D_nt_push : forall nt pb b x r, In (nt, Some pb, b) G -> derives G b x r -> derives G (NonTerm nt) x (pb ++ r)
| D_seq : forall a c x y r, derives G a x y -> derives G c y r -> derives G (Seq a c) x r
| D_alt_l : forall a c x r, derives G a x r -> derives G (Alt a c) x r
| D_alt_r : forall a c x r, derives G c x r -> derives G (Alt a c) x r
| D_bar_l : forall a c x r, derives G a x r -> derives G (AltBar a c) x r
| D_bar_r : forall a c x r, derives G c x r -> derives G (AltBar a c) x r
| D_brace : forall x, derives G (Brace true) x x
| D_prim : forall p x r, In r (prim_sem p x) -> derives G (CallP p) x r.

Lemma in_bind_all : forall A B (l : list A) (f : A -> res (list B)) rs y,
  bind_all l f = Ok rs -> In y rs -> exists x ys, In x l /\ f x = Ok ys /\ In y ys.
Proof.
  intros A B l f. induction l as [|x l IH]; intros rs y H Hy; cbn [bind_all] in H.
  - injection H as <-. destruct Hy.
  - apply app_res_ok_inv in H. destruct H as [u [v [Hu [Hv ->]]]]. apply in_app_or in Hy. destruct Hy as [Hy|Hy].
    + exists x, u. split; [left; reflexivity|]. split; assumption.
    + destruct (IH _ _ Hv Hy) as [x' [ys [H1 [H2 H3]]]]. exists x', ys. split; [right; exact H1|]. split; assumption.
Qed.

Lemma denote_body_sound : forall G (c : N -> list N -> res (list (list N))),
  (forall nt x rs r, c nt x = Ok rs -> In r rs -> derives G (NonTerm nt) x r) ->
  forall b x rs r, denote_body c b x = Ok rs -> In r rs -> derives G b x r.
Proof.
  intros G c Hc. induction b as [| l | l | nt | a IHa b IHb | a IHa b IHb | a IHa b IHb | t | p]; intros x rs r H Hr;
    cbn [denote_body] in H.
  - injection H as <-. destruct Hr as [<-|[]]. constructor.
  - injection H as <-. destruct (strip l x) as [r'|] eqn:E; cbn [opt_list] in Hr; [|destruct Hr].
    destruct Hr as [<-|[]]. apply strip_spec in E. subst x. constructor.
  - injection H as <-. destruct (strip l x) as [r'|] eqn:E; cbn [opt_list] in Hr; [|destruct Hr].
    destruct Hr as [<-|[]]. apply strip_spec in E. subst x. constructor.
  - eapply Hc; eassumption.
  - destruct (denote_body c a x) as [la| |] eqn:Ea; cbn [bind_res] in H; try discriminate.
    destruct (in_bind_all _ _ _ _ _ _ H Hr) as [y [ys [H1 [H2 H3]]]].
    eapply D_seq; [eapply IHa; [exact Ea | exact H1] | eapply IHb; eassumption].
  - apply app_res_ok_inv in H. destruct H as [u [v [Hu [Hv ->]]]]. apply in_app_or in Hr. destruct Hr as [Hr|Hr].
    + apply D_alt_l. eapply IHa; eassumption.
    + apply D_alt_r. eapply IHb; eassumption.
  - apply app_res_ok_inv in H. destruct H as [u [v [Hu [Hv ->]]]]. apply in_app_or in Hr. destruct Hr as [Hr|Hr].
    + apply D_bar_l. eapply IHa; eassumption.
    + apply D_bar_r. eapply IHb; eassumption.
  - injection H as <-. destruct t; [|destruct Hr]. destruct Hr as [<-|[]]. constructor.
  - injection H as <-. constructor. exact Hr.
Qed.

Lemma denote_sound_l : forall f G nt x rs r, denote f G nt x = Ok rs -> In r rs -> derives G (NonTerm nt) x r.
Proof.
  induction f as [|f IH]; intros G nt x rs r H Hr; [discriminate|]. cbn [denote] in H.
  destruct (in_bind_all _ _ _ _ _ _ H Hr) as [rl [ys [H1 [H2 H3]]]].
  apply filter_In in H1. destruct H1 as [HIn Hname]. apply N.eqb_eq in Hname.
  destruct rl as [[n [pb|]] b]; cbn [rule_name fst] in Hname; subst n; cbn [denote_rule] in H2.
  - destruct (denote_body (denote f G) b x) as [l| |] eqn:E; cbn [map_res] in H2; try discriminate.
    injection H2 as <-. apply in_map_iff in H3. destruct H3 as [r0 [<- Hr0]].
    eapply D_nt_push; [exact HIn|]. eapply denote_body_sound; [|exact E|exact Hr0]. intros; eapply IH; eassumption.
  - eapply D_nt_plain; [exact HIn|]. eapply denote_body_sound; [|exact H2|exact H3]. intros; eapply IH; eassumption.
Qed.

(* completeness: when the run finishes within the fuel, every derivation is among the answers *)
Lemma bind_all_in : forall A B (l : list A) (f : A -> res (list B)) rs x ys y,
  bind_all l f = Ok rs -> In x l -> f x = Ok ys -> In y ys -> In y rs.
Proof.
  intros A B l f. induction l as [|a l IH]; intros rs x ys y H Hx Hf Hy; [destruct Hx|].
  cbn [bind_all] in H. apply app_res_ok_inv in H. destruct H as [u [v [Hu [Hv ->]]]]. apply in_or_app.
  destruct Hx as [->|Hx].
  - left. rewrite Hf in Hu. injection Hu as <-. exact Hy.
  - right. eapply IH; eassumption.
Qed.

Lemma bind_all_ok_each : forall A B (l : list A) (f : A -> res (list B)) rs x,
  bind_all l f = Ok rs -> In x l -> exists ys, f x = Ok ys.
Proof.
  intros A B l f. induction l as [|a l IH]; intros rs x H Hx; [destruct Hx|].
  cbn [bind_all] in H. apply app_res_ok_inv in H. destruct H as [u [v [Hu [Hv ->]]]].
  destruct Hx as [->|Hx]; [eauto | eapply IH; eassumption].
Qed.

Lemma denote_complete_l : forall G b x r, derives G b x r ->
  forall f rs, denote_body (denote f G) b x = Ok rs -> In r rs.
Proof.
  intros G b x r D. induction D as [x | l r | l r | nt b x r HIn D IH | nt pb b x r HIn D IH | a c x y r D1 IH1 D2 IH2
                                   | a c x r D IH | a c x r D IH | a c x r D IH | a c x r D IH | x | p x r HIn];
    intros f rs H; cbn [denote_body] in H.
  - injection H as <-. left. reflexivity.
  - injection H as <-. rewrite strip_app. left. reflexivity.
  - injection H as <-. rewrite strip_app. left. reflexivity.
  - destruct f as [|f]; [discriminate|]. cbn [denote] in H.
    assert (HF : In (nt, None, b) (filter (fun r0 => rule_name r0 =? nt) G)).
    { apply filter_In. split; [exact HIn|]. cbn. apply N.eqb_refl. }
    destruct (bind_all_ok_each _ _ _ _ _ _ H HF) as [ys Hys].
    eapply bind_all_in; [exact H | exact HF | exact Hys |]. cbn [denote_rule] in Hys. eapply IH. exact Hys.
  - destruct f as [|f]; [discriminate|]. cbn [denote] in H.
    assert (HF : In (nt, Some pb, b) (filter (fun r0 => rule_name r0 =? nt) G)).
    { apply filter_In. split; [exact HIn|]. cbn. apply N.eqb_refl. }
    destruct (bind_all_ok_each _ _ _ _ _ _ H HF) as [ys Hys].
    eapply bind_all_in; [exact H | exact HF | exact Hys |]. cbn [denote_rule] in Hys.
    destruct (denote_body (denote f G) b x) as [l| |] eqn:E; cbn [map_res] in Hys; try discriminate.
    injection Hys as <-. apply in_map. eapply IH. exact E.
  - destruct (denote_body (denote f G) a x) as [la| |] eqn:Ea; cbn [bind_res] in H; try discriminate.
    pose proof (IH1 _ _ Ea) as Hy.
    destruct (bind_all_ok_each _ _ _ _ _ _ H Hy) as [ys Hys].
    eapply bind_all_in; [exact H | exact Hy | exact Hys |]. eapply IH2. exact Hys.
  - apply app_res_ok_inv in H. destruct H as [u [v [Hu [Hv ->]]]]. apply in_or_app. left. eapply IH. exact Hu.
  - apply app_res_ok_inv in H. destruct H as [u [v [Hu [Hv ->]]]]. apply in_or_app. right. eapply IH. exact Hv.
  - apply app_res_ok_inv in H. destruct H as [u [v [Hu [Hv ->]]]]. apply in_or_app. left. eapply IH. exact Hu.
  - apply app_res_ok_inv in H. destruct H as [u [v [Hu [Hv ->]]]]. apply in_or_app. right. eapply IH. exact Hv.
  - injection H as <-. left. reflexivity.
  - injection H as <-. exact HIn.
Qed.

Lemma denote_exact_l : forall f G nt x rs, denote f G nt x = Ok rs ->
  forall r, In r rs <-> derives G (NonTerm nt) x r.
Proof.
  intros f G nt x rs H r. split.
  - intro Hr. eapply denote_sound_l; eassumption.
  - intro D. eapply (denote_complete_l G (NonTerm nt) x r D (S f)).
    cbn [denote_body]. apply denote_step_mono. exact H.
Qed.

(* ------------------------------------------------------------------ the comparison functions mean what they say *)
Lemma lleqb_spec : forall a b, lleqb a b = true <-> a = b.
Proof.
  induction a as [|x a IH]; destruct b as [|y b]; cbn [lleqb]; split; intro H; try reflexivity; try discriminate.
  - apply andb_true_iff in H. destruct H as [H1 H2]. apply leqb_spec in H1. apply IH in H2. subst. reflexivity.
  - injection H as -> ->. rewrite leqb_refl. cbn. apply IH. reflexivity.
Qed.

Lemma res_is_spec : forall r obs, res_is r obs = true <-> r = Ok obs.
Proof.
  intros [l| |] obs; cbn [res_is]; split; intro H; try discriminate.
  - apply lleqb_spec in H. subst. reflexivity.
  - injection H as ->. apply lleqb_spec. reflexivity.
Qed.

Lemma check_input_sound_l : forall f G nt l o3 o2, check_input f G nt l o3 o2 = true ->
  denote f G nt l = Ok o3 /\ phrase3 f G nt l = Ok o3 /\ phrase2 f G nt l = Ok (repeat [] (N.to_nat o2)).
Proof.
  intros f G nt l o3 o2 H. unfold check_input in H.
  repeat (apply andb_true_iff in H; destruct H as [H ?]).
  repeat split; apply res_is_spec; assumption.
Qed.
