(* C39 -- DCG translation: grammar bodies, a denotational recogniser, the translation of dcgs.pl
   (dcg_rule / dcg_body / dcg_cbody / dcg_terminals / dcg_non_terminal) into a small goal language,
   and an interpreter for that goal language.

   Tokens, non-terminal names and list variables are N.

   Fragment modelled (no non-terminal arguments, no !, ->, \+):
     []            Empty
     [t1,..,tn]    Terminals [t1;..;tn]      "t1..tn"   Str [t1;..;tn]   (double_quotes = chars)
     nt            NonTerm nt
     (A , B)       Seq A B
     (A ; B)  (A | B)   Alt A B    AltBar A B
     {true} {fail} Brace true / Brace false
     call(any)  call(peek,T)  call(eos)        CallP PAny / (PPeek T) / PEos   (call//N on fixed helper predicates)
   Rules:  nt --> Body   and   nt, [p1..pk] --> Body   (pushback).

   Results are `res`: Ok answers | NoFuel | Stuck.  Fuel bounds the nesting depth of non-terminal calls
   (the same discipline in `denote` and in `solve`).  Stuck = a unification between two unbound list variables
   or a call with an unbound first list argument: a mode the translation never produces (theorem). *)
From Coq Require Import NArith List Bool.
Import ListNotations.
Open Scope N_scope.

Inductive res (A : Type) : Type := Ok (a : A) | NoFuel | Stuck.
Arguments Ok {A} a.
Arguments NoFuel {A}.
Arguments Stuck {A}.

Definition app_res {A} (r1 r2 : res (list A)) : res (list A) :=
  match r1 with
  | Ok a => match r2 with Ok b => Ok (a ++ b) | NoFuel => NoFuel | Stuck => Stuck end
  | NoFuel => NoFuel
  | Stuck => Stuck
  end.

Fixpoint bind_all {A B} (l : list A) (f : A -> res (list B)) : res (list B) :=
  match l with
  | [] => Ok []
  | x :: t => app_res (f x) (bind_all t f)
  end.

Definition bind_res {A B} (r : res (list A)) (f : A -> res (list B)) : res (list B) :=
  match r with Ok l => bind_all l f | NoFuel => NoFuel | Stuck => Stuck end.

Definition map_res {A B} (f : A -> B) (r : res (list A)) : res (list B) :=
  match r with Ok l => Ok (map f l) | NoFuel => NoFuel | Stuck => Stuck end.

(* ------------------------------------------------------------------ token lists *)
Fixpoint leqb (a b : list N) : bool :=
  match a, b with
  | [], [] => true
  | x :: a', y :: b' => (x =? y) && leqb a' b'
  | _, _ => false
  end.

(* strip pre l = Some r  iff  l = pre ++ r *)
Fixpoint strip (pre l : list N) : option (list N) :=
  match pre with
  | [] => Some l
  | p :: pre' => match l with
                 | [] => None
                 | x :: l' => if p =? x then strip pre' l' else None
                 end
  end.

(* ------------------------------------------------------------------ grammars *)
Inductive prim := PAny | PPeek (t : N) | PEos.

Definition prim_sem (p : prim) (inp : list N) : list (list N) :=
  match p with
  | PAny => match inp with [] => [] | _ :: r => [r] end          (* any([_|S], S). *)
  | PPeek t => match inp with [] => [] | x :: _ => if t =? x then [inp] else [] end   (* peek(T, [T|S], [T|S]). *)
  | PEos => match inp with [] => [[]] | _ => [] end              (* eos([], []). *)
  end.

Inductive body :=
| Empty
| Terminals (l : list N)
| Str (l : list N)
| NonTerm (nt : N)
| Seq (a b : body)
| Alt (a b : body)
| AltBar (a b : body)
| Brace (t : bool)
| CallP (p : prim).

(* (name, pushback, body) *)
Definition rule := (N * option (list N) * body)%type.
Definition grammar := list rule.

(* ------------------------------------------------------------------ denotation: remainders in SLD order *)
Definition opt_list {A} (o : option A) : list A := match o with Some x => [x] | None => [] end.

Fixpoint denote_body (call : N -> list N -> res (list (list N))) (b : body) (inp : list N) : res (list (list N)) :=
  match b with
  | Empty => Ok [inp]
  | Terminals l => Ok (opt_list (strip l inp))
  | Str l => Ok (opt_list (strip l inp))
  | NonTerm nt => call nt inp
  | Seq a c => bind_res (denote_body call a inp) (denote_body call c)
  | Alt a c => app_res (denote_body call a inp) (denote_body call c inp)
  | AltBar a c => app_res (denote_body call a inp) (denote_body call c inp)
  | Brace t => Ok (if t then [inp] else [])
  | CallP p => Ok (prim_sem p inp)
  end.

Definition denote_rule (call : N -> list N -> res (list (list N))) (r : rule) (inp : list N) : res (list (list N)) :=
  match r with
  | (_, None, b) => denote_body call b inp
  | (_, Some pb, b) => map_res (app pb) (denote_body call b inp)
  end.

Definition rule_name (r : rule) : N := fst (fst r).

Fixpoint denote (fuel : nat) (G : grammar) (nt : N) (inp : list N) : res (list (list N)) :=
  match fuel with
  | O => NoFuel
  | S f => bind_all (filter (fun r => rule_name r =? nt) G) (fun r => denote_rule (denote f G) r inp)
  end.

(* phrase(nt, L, R) with R given: the remainders equal to R *)
Definition filt (o : option (list N)) (r : res (list (list N))) : res (list (list N)) :=
  match o with
  | None => r
  | Some x => match r with Ok l => Ok (filter (leqb x) l) | NoFuel => NoFuel | Stuck => Stuck end
  end.

(* ------------------------------------------------------------------ goal language *)
Inductive goal :=
| GUnif (a : N) (pre : list N) (b : N)       (* A = [p1,..,pk|B]   (k = 0:  A = B) *)
| GCall (nt : N) (a b : N)                   (* nt(A, B) *)
| GPrim (p : prim) (a b : N)                 (* call(P, A, B) *)
| GTest (t : bool)                           (* true / fail  (the goal inside {}) *)
| GAnd (g1 g2 : goal)
| GOr (g1 g2 : goal).

(* clause  nt(V0, V1) :- goal   (head variables are 0 and 1, the others are numbered from 2) *)
Definition clause := (N * goal)%type.

(* ------------------------------------------------------------------ translation (dcgs.pl) *)
(* translate b s0 s n = (goal, n'): fresh variables are taken from n upwards *)
Fixpoint translate (b : body) (s0 s n : N) : goal * N :=
  match b with
  | Empty => (GUnif s0 [] s, n)                                  (* dcg_cbody([], S0, S, S0 = S) *)
  | Terminals l => (GUnif s0 l s, n)                             (* dcg_terminals: S0 = List, append(Terminals, S, List) *)
  | Str l => (GUnif s0 l s, n)
  | NonTerm nt => (GCall nt s0 s, n)                             (* dcg_non_terminal *)
  | Seq a c =>                                                   (* dcg_cbody((A,B)): fresh S1 *)
      let '(ga, n1) := translate a s0 n (n + 1) in
      let '(gc, n2) := translate c n s n1 in
      (GAnd ga gc, n2)
  | Alt a c =>
      let '(ga, n1) := translate a s0 s n in
      let '(gc, n2) := translate c s0 s n1 in
      (GOr ga gc, n2)
  | AltBar a c =>
      let '(ga, n1) := translate a s0 s n in
      let '(gc, n2) := translate c s0 s n1 in
      (GOr ga gc, n2)
  | Brace t => (GAnd (GTest t) (GUnif s0 [] s), n)               (* dcg_cbody({Goal}, S0, S, (Goal, S0 = S)) *)
  | CallP p => (GPrim p s0 s, n)                                 (* dcg_cbody(call(Cont), S0, S, call(Cont, S0, S)) *)
  end.

Definition translate_rule (r : rule) : clause :=
  match r with
  | (nt, None, b) => (nt, fst (translate b 0 1 2))               (* Head :- Body *)
  | (nt, Some pb, b) => (nt, GAnd (fst (translate b 0 2 3)) (GUnif 1 pb 2))   (* Body = (Goal1, S = PB ++ S1) *)
  end.

Definition translate_grammar (G : grammar) : list clause := map translate_rule G.

(* ------------------------------------------------------------------ interpreter of the goal language *)
Definition env := N -> option (list N).
Definition upd (e : env) (v : N) (x : list N) : env := fun w => if w =? v then Some x else e w.

(* A = pre ++ B *)
Definition unify (e : env) (a : N) (pre : list N) (b : N) : res (list env) :=
  match e a, e b with
  | Some x, Some y => Ok (if leqb x (pre ++ y) then [e] else [])
  | Some x, None => Ok (match strip pre x with Some r => [upd e b r] | None => [] end)
  | None, Some y => Ok [upd e a (pre ++ y)]
  | None, None => Stuck
  end.

(* bind variable b to the value r, or compare when it is bound *)
Definition bind_out (e : env) (b : N) (r : list N) : list env :=
  match e b with
  | Some y => if leqb y r then [e] else []
  | None => [upd e b r]
  end.

Definition concat_res {A B} (f : A -> list B) (r : res (list A)) : res (list B) :=
  match r with Ok l => Ok (concat (map f l)) | NoFuel => NoFuel | Stuck => Stuck end.

Fixpoint solve_goal (call : N -> list N -> option (list N) -> res (list (list N))) (g : goal) (e : env) : res (list env) :=
  match g with
  | GUnif a pre b => unify e a pre b
  | GCall nt a b =>
      match e a with
      | None => Stuck
      | Some x => concat_res (fun r => bind_out e b r) (call nt x (e b))
      end
  | GPrim p a b =>
      match e a with
      | None => Stuck
      | Some x => Ok (concat (map (fun r => bind_out e b r) (prim_sem p x)))
      end
  | GTest t => Ok (if t then [e] else [])
  | GAnd g1 g2 => bind_res (solve_goal call g1 e) (solve_goal call g2)
  | GOr g1 g2 => app_res (solve_goal call g1 e) (solve_goal call g2 e)
  end.

(* the value of the second head variable in every solution of the clause body *)
Fixpoint collect (v : N) (l : list env) : res (list (list N)) :=
  match l with
  | [] => Ok []
  | e :: t => match e v with
              | None => Stuck
              | Some r => app_res (Ok [r]) (collect v t)
              end
  end.

Definition env0 (x : list N) (o : option (list N)) : env :=
  fun v => if v =? 0 then Some x else if v =? 1 then o else None.

Definition run_clause (call : N -> list N -> option (list N) -> res (list (list N))) (c : clause) (x : list N) (o : option (list N))
  : res (list (list N)) :=
  match solve_goal call (snd c) (env0 x o) with
  | Ok envs => collect 1 envs
  | NoFuel => NoFuel
  | Stuck => Stuck
  end.

(* solve fuel P nt x o : the answers R of  nt(x, R)  (o = None: R unbound at the call; o = Some r: R = r at the call) *)
Fixpoint solve (fuel : nat) (P : list clause) (nt : N) (x : list N) (o : option (list N)) : res (list (list N)) :=
  match fuel with
  | O => NoFuel
  | S f => bind_all (filter (fun c => fst c =? nt) P) (fun c => run_clause (solve f P) c x o)
  end.

(* phrase(nt, L, R) / phrase(nt, L) through the translated program *)
Definition phrase3 (fuel : nat) (G : grammar) (nt : N) (l : list N) : res (list (list N)) :=
  solve fuel (translate_grammar G) nt l None.
Definition phrase2 (fuel : nat) (G : grammar) (nt : N) (l : list N) : res (list (list N)) :=
  solve fuel (translate_grammar G) nt l (Some []).

(* ------------------------------------------------------------------ correspondence helpers *)
Fixpoint lleqb (a b : list (list N)) : bool :=
  match a, b with
  | [], [] => true
  | x :: a', y :: b' => leqb x y && lleqb a' b'
  | _, _ => false
  end.

Definition res_is (r : res (list (list N))) (obs : list (list N)) : bool :=
  match r with Ok l => lleqb l obs | _ => false end.

(* one input: observed remainders of phrase/3 (Rest unbound) and number of solutions of phrase/2 *)
Definition check_input (fuel : nat) (G : grammar) (nt : N) (l : list N) (obs3 : list (list N)) (obs2 : N) : bool :=
  res_is (denote fuel G nt l) obs3 && res_is (phrase3 fuel G nt l) obs3 &&
  res_is (phrase2 fuel G nt l) (repeat [] (N.to_nat obs2)) &&
  res_is (filt (Some []) (denote fuel G nt l)) (repeat [] (N.to_nat obs2)).

Definition check_inputs (fuel : nat) (G : grammar) (nt : N) (cases : list (list N * list (list N) * N)) : bool :=
  forallb (fun c => match c with (l, o3, o2) => check_input fuel G nt l o3 o2 end) cases.

(* ---- variant comparison of the implementation's expansion with translate_rule *)
Fixpoint lookup (m : list (N * N)) (k : N) : option N :=
  match m with [] => None | (a, b) :: t => if a =? k then Some b else lookup t k end.

(* renaming: pairs (model var, observed var); extended injectively *)
Definition match_var (m : list (N * N)) (a b : N) : option (list (N * N)) :=
  match lookup m a with
  | Some b' => if b' =? b then Some m else None
  | None => if existsb (fun p => snd p =? b) m then None else Some ((a, b) :: m)
  end.

Definition prim_eqb (p q : prim) : bool :=
  match p, q with
  | PAny, PAny => true
  | PPeek a, PPeek b => a =? b
  | PEos, PEos => true
  | _, _ => false
  end.

Fixpoint match_goal (m : list (N * N)) (g h : goal) : option (list (N * N)) :=
  match g, h with
  | GUnif a p b, GUnif a' p' b' =>
      if leqb p p' then match match_var m a a' with Some m1 => match_var m1 b b' | None => None end else None
  | GCall f a b, GCall f' a' b' =>
      if f =? f' then match match_var m a a' with Some m1 => match_var m1 b b' | None => None end else None
  | GPrim f a b, GPrim f' a' b' =>
      if prim_eqb f f' then match match_var m a a' with Some m1 => match_var m1 b b' | None => None end else None
  | GTest t, GTest t' => if Bool.eqb t t' then Some m else None
  | GAnd g1 g2, GAnd h1 h2 => match match_goal m g1 h1 with Some m1 => match_goal m1 g2 h2 | None => None end
  | GOr g1 g2, GOr h1 h2 => match match_goal m g1 h1 with Some m1 => match_goal m1 g2 h2 | None => None end
  | _, _ => None
  end.

(* observed clause: head  nt(A, B)  with variable numbers ha hb, and body *)
Definition check_clause (r : rule) (ont ha hb : N) (obody : goal) : bool :=
  let c := translate_rule r in
  (fst c =? ont) &&
  match match_var [] 0 ha with
  | Some m1 => match match_var m1 1 hb with
               | Some m2 => match match_goal m2 (snd c) obody with Some _ => true | None => false end
               | None => false
               end
  | None => false
  end.
