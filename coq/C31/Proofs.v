(* C31 -- proofs: a raised interrupt is delivered exactly once, at the first poll after it was raised, i.e. within
   one poll period of dispatched instructions; none is delivered when none was raised *)
From Coq Require Import List NArith Bool Arith Lia ZArith.
From V Require Import Gen.Dispatch C31.Model.
Import ListNotations.
Open Scope N_scope.
Ltac Zify.zify_post_hook ::= Z.to_euclidean_division_equations.

Lemma poll_ge2 : 2 <= poll_period.
Proof. vm_compute. discriminate. Qed.

Definition InvR (r : N) (s : st) : Prop :=
  counter s < poll_period /\
  ( (executed s <= r /\ flag s = false /\ delivered s = [])
  \/ (flag s = true /\ delivered s = [] /\ r < executed s /\ executed s + (poll_period - 1 - counter s) <= r + poll_period - 1)
  \/ (flag s = false /\ exists d, delivered s = [d] /\ r < d /\ d <= r + poll_period - 1 /\ d <= executed s)).

Lemma turn_inv r s : InvR r s -> InvR r (turn (Some r) s).
Proof.
  pose proof poll_ge2 as HP. unfold InvR, turn. set (P := poll_period) in *. clearbody P.
  intros [Hc H].
  assert (Hmod : (counter s + 1 < P /\ (counter s + 1) mod P = counter s + 1) \/ (counter s + 1 = P /\ (counter s + 1) mod P = 0)).
  { destruct (N.eq_dec (counter s + 1) P) as [E|E]; [right; split; auto; rewrite E; apply N.mod_same; lia | left; split; [lia | apply N.mod_small; lia]]. }
  destruct Hmod as [[Hlt Hm]|[Heq Hm]]; rewrite Hm.
  - (* an instruction executes *)
    destruct (N.eqb_spec (counter s + 1) 0); [lia|]. cbn [counter flag executed delivered].
    split; [lia|]. destruct H as [(He & Hf & Hd)|[(Hf & Hd & Hr & Hb)|(Hf & d & Hd & H1 & H2 & H3)]].
    + destruct (N.eqb_spec r (executed s)) as [E|E].
      * right. left. repeat split; auto; lia.
      * left. repeat split; auto; lia.
    + right. left. destruct (r =? executed s); repeat split; auto; lia.
    + right. right. destruct (N.eqb_spec r (executed s)) as [E|E]; [lia|]. split; auto. exists d. repeat split; auto; lia.
  - (* the counter wraps: poll *)
    rewrite N.eqb_refl.
    destruct H as [(He & Hf & Hd)|[(Hf & Hd & Hr & Hb)|(Hf & d & Hd & H1 & H2 & H3)]].
    + rewrite Hf. cbn [counter flag executed delivered]. split; [lia|]. left. auto.
    + rewrite Hf. cbn [counter flag executed delivered]. split; [lia|]. right. right. split; auto.
      exists (executed s). rewrite Hd. cbn [app]. repeat split; auto; lia.
    + rewrite Hf. cbn [counter flag executed delivered]. split; [lia|]. right. right. split; auto. exists d. auto.
Qed.

Lemma turns_inv r n : forall s, InvR r s -> InvR r (turns (Some r) n s).
Proof. induction n as [|n IH]; intros s H; cbn [turns]; auto. apply IH. apply turn_inv. exact H. Qed.

Lemma init_inv r : InvR r init.
Proof. pose proof poll_ge2. unfold InvR, init; cbn. split; [lia|]. left. repeat split; auto. lia. Qed.

Theorem delivered_once_within_period_proof r n :
  let s := turns (Some r) n init in
  (executed s <= r -> delivered s = []) /\
  (forall d, In d (delivered s) -> delivered s = [d] /\ r < d /\ d <= r + poll_period - 1) /\
  (r + poll_period <= executed s -> exists d, delivered s = [d]) /\
  (delivered s <> [] -> flag s = false).
Proof.
  intros s. pose proof (turns_inv r n init (init_inv r)) as [Hc H]. fold s in Hc, H.
  destruct H as [(He & Hf & Hd)|[(Hf & Hd & Hr & Hb)|(Hf & d & Hd & H1 & H2 & H3)]].
  - split; [auto|]. split; [rewrite Hd; intros ? []|]. split; [intros; lia | intros; exact Hf].
  - split; [auto|]. split; [rewrite Hd; intros ? []|]. split; [intros; lia | intros; congruence].
  - split; [intros; lia|]. split.
    + intros d' Hin. rewrite Hd in Hin. destruct Hin as [<-|[]]. auto.
    + split; [eauto | auto].
Qed.

(* nothing is delivered when nothing was raised *)
Lemma quiet_inv n : forall s, flag s = false -> delivered s = [] ->
  flag (turns None n s) = false /\ delivered (turns None n s) = [].
Proof.
  induction n as [|n IH]; intros s Hf Hd; cbn [turns]; auto. apply IH; unfold turn; rewrite Hf;
    destruct ((counter s + 1) mod poll_period =? 0); cbn [flag delivered]; auto.
Qed.

Theorem no_spurious_interrupt_proof n : delivered (turns None n init) = [].
Proof. apply (quiet_inv n init); reflexivity. Qed.
