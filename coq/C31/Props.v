(* C31 -- pinned property theorems (nothing else lives here) *)
From Coq Require Import List NArith Bool.
From V Require Import Gen.Dispatch C31.Model C31.Proofs.
Import ListNotations.
Open Scope N_scope.

(* An interrupt raised just before instruction r (any r) is thrown exactly once, after instruction r and at most
   poll_period - 1 instructions later (poll_period is regenerated from dispatch.rs: 2^8), the flag is cleared by
   the delivery, and once the run is long enough the delivery has happened. *)
Theorem delivered_once_within_period : forall r n,
  let s := turns (Some r) n init in
  (executed s <= r -> delivered s = []) /\
  (forall d, In d (delivered s) -> delivered s = [d] /\ r < d /\ d <= r + poll_period - 1) /\
  (r + poll_period <= executed s -> exists d, delivered s = [d]) /\
  (delivered s <> [] -> flag s = false).
Proof. exact delivered_once_within_period_proof. Qed.
Print Assumptions delivered_once_within_period.

Theorem no_spurious_interrupt : forall n, delivered (turns None n init) = [].
Proof. exact no_spurious_interrupt_proof. Qed.
Print Assumptions no_spurious_interrupt.

Theorem poll_period_is_sane : 2 <= poll_period /\ poll_period <= 2 ^ 32.
Proof. split; vm_compute; discriminate. Qed.
Print Assumptions poll_period_is_sane.

Example ex_delivery : delivered (turns (Some 1000) 2000 init) = [1020].
Proof. vm_compute. reflexivity. Qed.
