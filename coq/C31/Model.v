(* C31 -- the interrupt polling discipline of dispatch_loop (src/machine/dispatch.rs): a wrapping counter is
   incremented before every instruction; when it wraps the inner loop is left and check_for_interrupt swaps the
   flag to false and, if it was set, throws the interrupt exception.  No proofs in this file. *)
From Coq Require Import List NArith Bool Arith.
From V Require Import Gen.Dispatch.
Import ListNotations.
Open Scope N_scope.

Record st := { counter : N;          (* the wrapping counter, 0 <= counter < poll_period *)
               flag : bool;          (* INTERRUPT *)
               executed : N;         (* instructions executed so far *)
               delivered : list N }. (* instruction indices at which an interrupt exception was thrown *)

Definition init : st := {| counter := 0; flag := false; executed := 0; delivered := [] |}.

(* one turn of the loop: increment, on wrap-around poll (and execute nothing in that turn), else execute one
   instruction.  raise_at = Some r: the flag is raised just before instruction number r executes. *)
Definition turn (raise_at : option N) (s : st) : st :=
  let c := (counter s + 1) mod poll_period in
  if c =? 0 then
    (* leave the inner loop: check_for_interrupt *)
    if flag s then {| counter := c; flag := false; executed := executed s; delivered := delivered s ++ [executed s] |}
    else {| counter := c; flag := false; executed := executed s; delivered := delivered s |}
  else
    let f := match raise_at with Some r => if r =? executed s then true else flag s | None => flag s end in
    {| counter := c; flag := f; executed := executed s + 1; delivered := delivered s |}.

Fixpoint turns (raise_at : option N) (n : nat) (s : st) : st :=
  match n with O => s | S k => turns raise_at k (turn raise_at s) end.
