(* C35/Proofs.v -- reloading a text is idempotent on the database *)
From Coq Require Import List NArith ZArith Bool PeanoNat Lia.
From V Require Import Base.Term Engine.Sld C35.Model.
Import ListNotations.
Open Scope N_scope.

(* ------------------------------------------------------------------ association lists *)
Section AssocProofs.
  Context {K V : Type}.
  Variable dec : forall a b : K, {a = b} + {a <> b}.
  Variable dflt : V.

  Lemma lookup_upd_same : forall k f l,
    alookup dec k (aupd dec dflt k f l) = Some (f (alookup_d dec dflt k l)).
  Proof.
    intros k f l. unfold alookup_d. induction l as [|[k' v] r IH]; cbn.
    - destruct (dec k k); [reflexivity | congruence].
    - destruct (dec k k') as [E|E]; cbn.
      + destruct (dec k k'); [reflexivity | congruence].
      + destruct (dec k k'); [congruence | exact IH].
  Qed.

  Lemma lookup_upd_other : forall k k' f l, k <> k' ->
    alookup dec k (aupd dec dflt k' f l) = alookup dec k l.
  Proof.
    intros k k' f l Hne. induction l as [|[k2 v] r IH]; cbn.
    - destruct (dec k k'); [congruence | reflexivity].
    - destruct (dec k' k2) as [E|E]; cbn.
      + subst k2. destruct (dec k k'); [congruence | reflexivity].
      + destruct (dec k k2); [reflexivity | exact IH].
  Qed.

  Lemma upd_fix : forall k f l v, alookup dec k l = Some v -> f v = v -> aupd dec dflt k f l = l.
  Proof.
    intros k f l v. induction l as [|[k2 v2] r IH]; cbn; intros Hl Hf.
    - discriminate.
    - destruct (dec k k2) as [E|E].
      + injection Hl as ->. rewrite Hf. reflexivity.
      + rewrite (IH Hl Hf). reflexivity.
  Qed.

  Lemma lookup_apply_notin : forall F ks l k, ~ In k ks ->
    alookup dec k (aapply dec dflt F ks l) = alookup dec k l.
  Proof.
    intros F ks. induction ks as [|a ks IH]; intros l k Hn; cbn.
    - reflexivity.
    - unfold aapply in IH. rewrite IH by (intro H; apply Hn; right; exact H).
      apply lookup_upd_other. intro E; apply Hn; left; symmetry; exact E.
  Qed.

  Lemma lookup_apply_in : forall F ks l k, NoDup ks -> In k ks ->
    alookup dec k (aapply dec dflt F ks l) = Some (F k (alookup_d dec dflt k l)).
  Proof.
    intros F ks. induction ks as [|a ks IH]; intros l k Hnd Hin; cbn.
    - destruct Hin.
    - inversion Hnd as [|x xs Hna Hnd']; subst.
      destruct (dec k a) as [E|E].
      + subst a. pose proof (lookup_apply_notin F ks (aupd dec dflt k (F k) l) k Hna) as H.
        unfold aapply in H. rewrite H. apply lookup_upd_same.
      + destruct Hin as [Hin|Hin]; [congruence|].
        pose proof (IH (aupd dec dflt a (F a) l) k Hnd' Hin) as H. unfold aapply in H. rewrite H.
        unfold alookup_d. rewrite (lookup_upd_other k a (F a) l E). reflexivity.
  Qed.

  Lemma apply_fix : forall F ks l,
    (forall k, In k ks -> exists v, alookup dec k l = Some v /\ F k v = v) -> aapply dec dflt F ks l = l.
  Proof.
    intros F ks. induction ks as [|a ks IH]; intros l H; cbn.
    - reflexivity.
    - destruct (H a (or_introl eq_refl)) as [v [Hl Hf]].
      rewrite (upd_fix a (F a) l v Hl Hf). apply IH. intros k Hk. apply H. right. exact Hk.
  Qed.

  Theorem apply_idem : forall F ks l, NoDup ks -> (forall k v, F k (F k v) = F k v) ->
    aapply dec dflt F ks (aapply dec dflt F ks l) = aapply dec dflt F ks l.
  Proof.
    intros F ks l Hnd Hidem. apply apply_fix. intros k Hk.
    exists (F k (alookup_d dec dflt k l)). split.
    - apply lookup_apply_in; assumption.
    - apply Hidem.
  Qed.

  Lemma lookup_d_apply_in : forall F ks l k, NoDup ks -> In k ks ->
    alookup_d dec dflt k (aapply dec dflt F ks l) = F k (alookup_d dec dflt k l).
  Proof. intros. unfold alookup_d at 1. rewrite lookup_apply_in by assumption. reflexivity. Qed.

  Lemma lookup_d_apply_notin : forall F ks l k, ~ In k ks ->
    alookup_d dec dflt k (aapply dec dflt F ks l) = alookup_d dec dflt k l.
  Proof. intros. unfold alookup_d. rewrite lookup_apply_notin by assumption. reflexivity. Qed.
End AssocProofs.

(* ------------------------------------------------------------------ one predicate *)
Lemma flags_or_absorb : forall a b, flags_or (flags_or a b) b = flags_or a b.
Proof. intros [a1 a2 a3] [b1 b2 b3]. unfold flags_or; cbn. f_equal; destruct a1, a2, a3, b1, b2, b3; reflexivity. Qed.

Lemma filter_other_tag : forall t cs, filter (other t) (tag t cs) = [].
Proof. intros t cs. induction cs as [|c r IH]; cbn; [reflexivity|]. unfold other at 1; cbn. rewrite N.eqb_refl. cbn. exact IH. Qed.

Lemma filter_mine_tag : forall t cs, filter (mine t) (tag t cs) = tag t cs.
Proof. intros t cs. induction cs as [|c r IH]; cbn; [reflexivity|]. unfold mine at 1; cbn. rewrite N.eqb_refl. f_equal. exact IH. Qed.

Lemma filter_idem : forall {A} (f : A -> bool) l, filter f (filter f l) = filter f l.
Proof. intros A f l. induction l as [|x r IH]; cbn; [reflexivity|]. destruct (f x) eqn:E; cbn; [rewrite E; f_equal|]; exact IH. Qed.

Lemma filter_mine_other : forall t (l : list (tid * clause)), filter (mine t) (filter (other t) l) = [].
Proof.
  intros t l. induction l as [|x r IH]; cbn; [reflexivity|]. unfold other at 1, mine.
  destruct (N.eqb (fst x) t) eqn:E; cbn; [exact IH|]. unfold mine in IH. rewrite E. exact IH.
Qed.

Lemma new_pred_idem : forall t s k p, new_pred t s k (new_pred t s k p) = new_pred t s k p.
Proof.
  intros t s k p. unfold new_pred. cbn [pflags pcls]. rewrite flags_or_absorb.
  destruct (extensible (flags_or (pflags p) (decl_flags k s))).
  - rewrite filter_app, filter_idem, filter_other_tag, app_nil_r. reflexivity.
  - destruct (clauses_for k s); reflexivity.
Qed.

Lemma new_op_idem : forall s k v, new_op s k (new_op s k v) = new_op s k v.
Proof. intros s k v. unfold new_op. destruct (last_op k s); reflexivity. Qed.

Lemma text_keys_nodup : forall s, NoDup (text_keys s).
Proof. intros s. apply NoDup_nodup. Qed.
Lemma op_keys_nodup : forall s, NoDup (op_keys s).
Proof. intros s. apply NoDup_nodup. Qed.

(* ------------------------------------------------------------------ the database *)
Theorem load_db_idem : forall t s d, load_db t s (load_db t s d) = load_db t s d.
Proof.
  intros t s d. unfold load_db. cbn [preds optab]. f_equal.
  - apply apply_idem; [apply text_keys_nodup | intros; apply new_pred_idem].
  - apply apply_idem; [apply op_keys_nodup | intros; apply new_op_idem].
Qed.

Theorem load_idempotent_proof : forall t s m, db_of (load t s (load t s m)) = db_of (load t s m).
Proof. intros t s m. unfold db_of, load. cbn [mdb]. apply load_db_idem. Qed.

Lemma db_of_load : forall t s m, db_of (load t s m) = load_db t s (db_of m).
Proof. reflexivity. Qed.

Theorem reload_any_times_proof : forall n t s m,
  db_of (Nat.iter (S n) (load t s) m) = db_of (load t s m).
Proof.
  intros n t s m. induction n as [|n IH].
  - reflexivity.
  - change (Nat.iter (S (S n)) (load t s) m) with (load t s (Nat.iter (S n) (load t s) m)).
    rewrite db_of_load, IH, db_of_load. apply load_db_idem.
Qed.

(* per-predicate characterisation of a load *)
Theorem load_pred_spec : forall t s d k,
  pred_of (load_db t s d) k = if in_dec key_dec k (text_keys s) then new_pred t s k (pred_of d k) else pred_of d k.
Proof.
  intros t s d k. unfold pred_of, load_db. cbn [preds].
  destruct (in_dec key_dec k (text_keys s)) as [Hin|Hnin].
  - apply lookup_d_apply_in; [apply text_keys_nodup | exact Hin].
  - apply lookup_d_apply_notin. exact Hnin.
Qed.

Theorem load_op_spec : forall t s d k,
  op_of (load_db t s d) k = if in_dec opkey_dec k (op_keys s) then new_op s k (op_of d k) else op_of d k.
Proof.
  intros t s d k. unfold op_of, load_db. cbn [optab].
  destruct (in_dec opkey_dec k (op_keys s)) as [Hin|Hnin].
  - apply lookup_d_apply_in; [apply op_keys_nodup | exact Hin].
  - apply lookup_d_apply_notin. exact Hnin.
Qed.

(* clauses that came from another text survive the reload of this text, in their order *)
Theorem other_text_kept : forall t s m k,
  extensible (flags_or (flags_of_key (db_of m) k) (decl_flags k s)) = true ->
  filter (other t) (clauses_of_key (db_of (load t s m)) k) = filter (other t) (clauses_of_key (db_of m) k).
Proof.
  intros t s m k Hext. rewrite db_of_load. unfold clauses_of_key. rewrite load_pred_spec.
  destruct (in_dec key_dec k (text_keys s)); [|reflexivity].
  unfold new_pred. unfold flags_of_key in Hext. cbn [pcls]. rewrite Hext.
  rewrite filter_app, filter_idem, filter_other_tag, app_nil_r. reflexivity.
Qed.

(* and the text's own clauses are there exactly once, however often it was loaded before *)
Theorem own_clauses_exact : forall t s m k, In k (text_keys s) ->
  extensible (flags_or (flags_of_key (db_of m) k) (decl_flags k s)) = true ->
  filter (mine t) (clauses_of_key (db_of (load t s m)) k)
  = tag t (contribution (flags_or (flags_of_key (db_of m) k) (decl_flags k s)) k s).
Proof.
  intros t s m k Hin Hext. rewrite db_of_load. unfold clauses_of_key. rewrite load_pred_spec.
  destruct (in_dec key_dec k (text_keys s)); [|contradiction].
  unfold new_pred. unfold flags_of_key in Hext. cbn [pcls]. rewrite Hext.
  rewrite filter_app, filter_mine_other, filter_mine_tag. reflexivity.
Qed.

(* a predicate the text does not mention is untouched *)
Theorem unmentioned_untouched : forall t s m k, ~ In k (text_keys s) ->
  pred_of (db_of (load t s m)) k = pred_of (db_of m) k.
Proof.
  intros t s m k Hn. rewrite db_of_load, load_pred_spec. destruct (in_dec key_dec k (text_keys s)); [contradiction|reflexivity].
Qed.
