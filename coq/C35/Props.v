(* C35 -- pinned property theorems (nothing else lives here) *)
From Coq Require Import List NArith ZArith Bool PeanoNat.
From V Require Import Base.Term Engine.Sld C35.Model C35.Proofs.
Import ListNotations.
Open Scope N_scope.

(* Loading the same text (an arbitrary list of clauses, declarations, op directives and initialization directives)
   under the same identity a second time leaves the database -- clause lists of every predicate with their origin
   tags, flags, operator entries -- exactly as after the first load, from EVERY starting machine. *)
Theorem load_idempotent : forall t s m, db_of (load t s (load t s m)) = db_of (load t s m).
Proof. exact load_idempotent_proof. Qed.
Print Assumptions load_idempotent.

(* ... and so does any number of further loads *)
Theorem reload_any_times : forall n t s m, db_of (Nat.iter (S n) (load t s) m) = db_of (load t s m).
Proof. exact reload_any_times_proof. Qed.
Print Assumptions reload_any_times.

(* Corollary: whatever is computed from the database is unchanged: the answers of every query (reference interpreter,
   any fuel), the observation used by the correspondence check, the operator entries, and any other function. *)
Theorem answers_unchanged : forall n t s m,
  (forall fuel q tmpl, solve fuel (program_of (db_of (Nat.iter (S n) (load t s) m))) q tmpl
                       = solve fuel (program_of (db_of (load t s m))) q tmpl) /\
  (forall fuel k, observe fuel (db_of (Nat.iter (S n) (load t s) m)) k = observe fuel (db_of (load t s m)) k) /\
  (forall name, op_obs (db_of (Nat.iter (S n) (load t s) m)) name = op_obs (db_of (load t s m)) name) /\
  (forall (A : Type) (f : db -> A), f (db_of (Nat.iter (S n) (load t s) m)) = f (db_of (load t s m))).
Proof. intros n t s m. rewrite reload_any_times_proof. repeat split; reflexivity. Qed.
Print Assumptions answers_unchanged.

(* The loader's retraction bookkeeping (which clauses of which predicate belong to which text) has the same size
   after every load i >= 1. *)
Theorem loader_state_size_constant : forall n t s m,
  loader_state_size (db_of (Nat.iter (S n) (load t s) m)) = loader_state_size (db_of (load t s m)) /\
  local_records (db_of (Nat.iter (S n) (load t s) m)) = local_records (db_of (load t s m)).
Proof. intros n t s m. rewrite reload_any_times_proof. split; reflexivity. Qed.
Print Assumptions loader_state_size_constant.

(* Clauses of a multifile (or discontiguous) predicate that came from ANOTHER text survive a (re)load of this text,
   in their order. *)
Theorem multifile_other_text_kept : forall t s m k,
  extensible (flags_or (flags_of_key (db_of m) k) (decl_flags k s)) = true ->
  filter (other t) (clauses_of_key (db_of (load t s m)) k) = filter (other t) (clauses_of_key (db_of m) k).
Proof. exact other_text_kept. Qed.
Print Assumptions multifile_other_text_kept.

(* ... and the text's own clauses are present exactly once, however often the text was loaded before
   (contribution = all clauses of the predicate in the text if it is discontiguous, else its last run). *)
Theorem own_clauses_not_duplicated : forall t s m k, In k (text_keys s) ->
  extensible (flags_or (flags_of_key (db_of m) k) (decl_flags k s)) = true ->
  filter (mine t) (clauses_of_key (db_of (load t s m)) k)
  = tag t (contribution (flags_or (flags_of_key (db_of m) k) (decl_flags k s)) k s).
Proof. exact own_clauses_exact. Qed.
Print Assumptions own_clauses_not_duplicated.

(* What a load does to one predicate / one operator entry: only the keys the text mentions change, by new_pred / new_op. *)
Theorem load_lookup_spec : forall t s m k o,
  pred_of (db_of (load t s m)) k
    = (if in_dec key_dec k (text_keys s) then new_pred t s k (pred_of (db_of m) k) else pred_of (db_of m) k) /\
  op_of (db_of (load t s m)) o
    = (if in_dec opkey_dec o (op_keys s) then new_op s o (op_of (db_of m) o) else op_of (db_of m) o).
Proof. intros t s m k o. split; [apply load_pred_spec | apply load_op_spec]. Qed.
Print Assumptions load_lookup_spec.

(* ------------------------------------------------------------------ non-vacuity *)
Definition a_ (c : N) : term := Atom [c].
Definition fact1 (p : list N) (x : term) : clause := (Cmp p [x], Atom n_true).
Definition mf : list N := [109; 102].          (* mf/1, multifile *)
Definition st : list N := [115].               (* s/1, static *)
Definition text_a : text :=
  [IDecl DMultifile (mf, 1%nat); IClause (fact1 mf (a_ 97)); IClause (fact1 mf (a_ 98)); IClause (fact1 st (Int 1));
   IOp 700 XFX [61; 61; 61]; IInit (Atom n_true)].
Definition text_b : text := [IDecl DMultifile (mf, 1%nat); IClause (fact1 mf (a_ 99))].

(* text b loaded under identity 2, then text a under identity 1, twice *)
Example ex_other_text_survives :
  map fst (clauses_of_key (db_of (load 1 text_a (load 1 text_a (load 2 text_b machine0)))) (mf, 1%nat)) = [2; 1; 1]
  /\ observe 50 (db_of (load 1 text_a (load 1 text_a (load 2 text_b machine0)))) (mf, 1%nat)
     = OAns [tlist [a_ 99]; tlist [a_ 97]; tlist [a_ 98]].
Proof. vm_compute. split; reflexivity. Qed.

(* the hypothesis of multifile_other_text_kept holds there *)
Example ex_extensible :
  extensible (flags_or (flags_of_key (db_of (load 2 text_b machine0)) (mf, 1%nat)) (decl_flags (mf, 1%nat) text_a)) = true.
Proof. vm_compute. reflexivity. Qed.

(* under the anonymous identity both texts share one identity: loading a retracts b's clauses *)
Example ex_anonymous_identity_shared :
  observe 50 (db_of (load 0 text_a (load 0 text_b machine0))) (mf, 1%nat) = OAns [tlist [a_ 97]; tlist [a_ 98]].
Proof. vm_compute. reflexivity. Qed.

(* a multifile predicate that is not discontiguous contributes its last run only; a discontiguous one all clauses *)
Example ex_last_run :
  let s d := [IDecl d (mf, 1%nat); IClause (fact1 mf (a_ 97)); IClause (fact1 st (Int 1)); IClause (fact1 mf (a_ 98))] in
  observe 50 (db_of (load 1 (s DMultifile) machine0)) (mf, 1%nat) = OAns [tlist [a_ 98]] /\
  observe 50 (db_of (load 1 (s DDiscontiguous) machine0)) (mf, 1%nat) = OAns [tlist [a_ 97]; tlist [a_ 98]].
Proof. vm_compute. split; reflexivity. Qed.

(* the machine as a whole is NOT unchanged by a reload (compiled code is not reclaimed): db_of is essential *)
Example ex_machine_changes : mcode (load 1 text_a (load 1 text_a machine0)) <> mcode (load 1 text_a machine0).
Proof. vm_compute. discriminate. Qed.

(* and loading is not the identity: the first load does change the database *)
Example ex_first_load_changes : db_of (load 1 text_a machine0) <> db_of machine0.
Proof. vm_compute. discriminate. Qed.
