(* C35/Model.v -- REFERENCE MODEL of (re)loading a program text into the clause database.

   What is modelled (read from src/machine/loader.rs, src/machine/compile.rs, src/loader.pl and observed):
   * a database maps predicate keys (name/arity) to flags (dynamic / discontiguous / multifile) and an ordered
     list of clauses, each tagged with the identity of the text it was loaded from.  Text identity 0 is the
     anonymous one: it is shared by every text loaded from a string under a name that is not an existing file
     (listing_src_file_name() is None) and by clauses added with assertz/1 at run time; texts loaded under an
     existing file path have that path as identity (the "local predicate skeleton" of loader.rs).
   * loading a text with identity t: declarations are table updates (flags are or-ed); for a predicate that is
     discontiguous or multifile ("extensible") the clauses previously loaded FROM THE SAME identity are retracted
     (retract_local_clauses) and the text's clauses are appended in order (all of them for a discontiguous
     predicate, only the last contiguous run for a predicate that is multifile but not discontiguous); for any other
     predicate that the text defines (plain static, or dynamic only) the predicate is overwritten by the LAST
     contiguous run of its clauses in the text (a directive or a clause of another predicate ends a run); a
     predicate that is only declared keeps its clauses.  `:- op(P,T,N)` updates the entry (N, class of T); `:- initialization(G)` with a
     side-effect free G changes nothing.
   * the compiled code area only grows (old code is not reclaimed): `mcode`; this is why the statement is about
     `db_of`, not about the whole machine.
   Texts are assumed well formed in the sense that a declaration of a predicate appears once and before the
   clauses of that predicate (the model applies all declarations of the text to the whole text). *)
From Coq Require Import List NArith ZArith Bool PeanoNat.
From V Require Import Base.Term Engine.Sld.
Import ListNotations.
Open Scope N_scope.

(* ------------------------------------------------------------------ association lists with in-place update *)
Section Assoc.
  Context {K V : Type}.
  Variable dec : forall a b : K, {a = b} + {a <> b}.
  Variable dflt : V.

  Fixpoint alookup (k : K) (l : list (K * V)) : option V :=
    match l with
    | [] => None
    | (k', v) :: r => if dec k k' then Some v else alookup k r
    end.
  Definition alookup_d (k : K) (l : list (K * V)) : V :=
    match alookup k l with Some v => v | None => dflt end.

  (* update the first entry of k in place; a missing key is appended with f applied to the default *)
  Fixpoint aupd (k : K) (f : V -> V) (l : list (K * V)) : list (K * V) :=
    match l with
    | [] => [(k, f dflt)]
    | (k', v) :: r => if dec k k' then (k', f v) :: r else (k', v) :: aupd k f r
    end.

  Definition aapply (F : K -> V -> V) (ks : list K) (l : list (K * V)) : list (K * V) :=
    fold_left (fun l k => aupd k (F k) l) ks l.
End Assoc.

(* ------------------------------------------------------------------ texts *)
Definition key := (list N * nat)%type.
Definition key_dec : forall a b : key, {a = b} + {a <> b}.
Proof. decide equality; [apply Nat.eq_dec | apply (list_eq_dec N.eq_dec)]. Defined.

Inductive decl := DDynamic | DDiscontiguous | DMultifile.
Inductive optype := XFX | XFY | YFX | FY | FX | XF | YF.
Inductive opclass := CPrefix | CInfix | CPostfix.
Definition class_of (t : optype) : opclass :=
  match t with XFX | XFY | YFX => CInfix | FY | FX => CPrefix | XF | YF => CPostfix end.
Definition opkey := (list N * opclass)%type.
Definition opkey_dec : forall a b : opkey, {a = b} + {a <> b}.
Proof. decide equality; [decide equality | apply (list_eq_dec N.eq_dec)]. Defined.

Inductive item :=
| IClause (c : clause)                       (* a clause (head, body); facts have body `true` *)
| IDecl (d : decl) (k : key)                 (* :- dynamic(K). / :- discontiguous(K). / :- multifile(K). *)
| IOp (p : N) (t : optype) (name : list N)   (* :- op(P, T, Name). *)
| IInit (g : term).                          (* :- initialization(G).  with a side-effect free G *)
Definition text := list item.
Definition tid := N.

Record flags := mkflags { fdyn : bool; fdisc : bool; fmulti : bool }.
Definition no_flags := mkflags false false false.
Definition flags_or (a b : flags) : flags :=
  mkflags (fdyn a || fdyn b) (fdisc a || fdisc b) (fmulti a || fmulti b).
Definition flag_of (d : decl) : flags :=
  match d with
  | DDynamic => mkflags true false false
  | DDiscontiguous => mkflags false true false
  | DMultifile => mkflags false false true
  end.
Definition extensible (fl : flags) : bool := fdisc fl || fmulti fl.

Record pred := mkpred { pflags : flags; pcls : list (tid * clause) }.
Definition empty_pred := mkpred no_flags [].

Definition item_key (it : item) : option key :=
  match it with IClause c => head_key (fst c) | IDecl _ k => Some k | _ => None end.
Definition opt_list {A} (o : option A) : list A := match o with Some x => [x] | None => [] end.
Definition text_keys (s : text) : list key := nodup key_dec (flat_map (fun it => opt_list (item_key it)) s).

Definition is_clause_of (k : key) (it : item) : option clause :=
  match it with
  | IClause c => match head_key (fst c) with
                 | Some k' => if key_dec k k' then Some c else None
                 | None => None
                 end
  | _ => None
  end.
Definition clauses_for (k : key) (s : text) : list clause := flat_map (fun it => opt_list (is_clause_of k it)) s.

(* the last maximal run of consecutive clauses of k *)
Fixpoint last_run (k : key) (s : text) (acc : list clause) (open : bool) : list clause :=
  match s with
  | [] => acc
  | it :: r => match is_clause_of k it with
               | Some c => if open then last_run k r (acc ++ [c]) true else last_run k r [c] true
               | None => last_run k r acc false
               end
  end.

Definition decl_flags (k : key) (s : text) : flags :=
  fold_right (fun it fl => match it with
                           | IDecl d k' => if key_dec k k' then flags_or (flag_of d) fl else fl
                           | _ => fl
                           end) no_flags s.

Definition other (t : tid) (tc : tid * clause) : bool := negb (N.eqb (fst tc) t).
Definition mine (t : tid) (tc : tid * clause) : bool := N.eqb (fst tc) t.
Definition tag (t : tid) (cs : list clause) : list (tid * clause) := map (fun c => (t, c)) cs.

(* the clauses the text contributes to predicate k: all of them when k is discontiguous, else the last run only
   (a later run of a predicate that is not discontiguous overwrites what the text itself added before) *)
Definition contribution (fl : flags) (k : key) (s : text) : list clause :=
  if fdisc fl then clauses_for k s else last_run k s [] false.

(* what loading text s under identity t makes of predicate k *)
Definition new_pred (t : tid) (s : text) (k : key) (old : pred) : pred :=
  let fl := flags_or (pflags old) (decl_flags k s) in
  mkpred fl (if extensible fl then filter (other t) (pcls old) ++ tag t (contribution fl k s)
             else match clauses_for k s with
                  | [] => pcls old
                  | _ => tag t (contribution fl k s)
                  end).

(* operators: the last declaration of an entry in the text wins *)
Fixpoint last_op (k : opkey) (s : text) : option (N * optype) :=
  match s with
  | [] => None
  | it :: r => match last_op k r with
               | Some v => Some v
               | None => match it with
                         | IOp p t n => if opkey_dec k (n, class_of t) then Some (p, t) else None
                         | _ => None
                         end
               end
  end.
Definition new_op (s : text) (k : opkey) (old : N * optype) : N * optype :=
  match last_op k s with Some v => v | None => old end.
Definition op_keys (s : text) : list opkey :=
  nodup opkey_dec (flat_map (fun it => match it with IOp _ t n => [(n, class_of t)] | _ => [] end) s).

(* ------------------------------------------------------------------ databases and machines *)
Record db := mkdb { preds : list (key * pred); optab : list (opkey * (N * optype)) }.
Definition no_op : N * optype := (0, XFX).

Definition load_db (t : tid) (s : text) (d : db) : db :=
  mkdb (aapply key_dec empty_pred (new_pred t s) (text_keys s) (preds d))
       (aapply opkey_dec no_op (new_op s) (op_keys s) (optab d)).

Definition is_clause (it : item) : bool := match it with IClause _ => true | _ => false end.
Definition code_size (s : text) : N := N.of_nat (List.length (filter is_clause s)).

(* the machine: the database plus what legitimately changes on every load *)
Record machine := mkm { mdb : db; mcode : N; mloads : N }.
Definition db_of (m : machine) : db := mdb m.
Definition load (t : tid) (s : text) (m : machine) : machine :=
  mkm (load_db t s (mdb m)) (mcode m + code_size s) (mloads m + 1).

Definition pred_of (d : db) (k : key) : pred := alookup_d key_dec empty_pred k (preds d).
Definition clauses_of_key (d : db) (k : key) : list (tid * clause) := pcls (pred_of d k).
Definition flags_of_key (d : db) (k : key) : flags := pflags (pred_of d k).
Definition op_of (d : db) (k : opkey) : N * optype := alookup_d opkey_dec no_op k (optab d).

(* run-time assertz: the clause carries the anonymous identity, the predicate becomes dynamic *)
Definition assertz_db (c : clause) (d : db) : db :=
  match head_key (fst c) with
  | Some k => mkdb (aupd key_dec empty_pred k
                         (fun p => mkpred (flags_or (pflags p) (flag_of DDynamic)) (pcls p ++ [(0, c)])) (preds d))
                   (optab d)
  | None => d
  end.

(* the loader's retraction bookkeeping: for every predicate and every text identity other than the anonymous one,
   how many clauses of the predicate belong to that text *)
Definition local_records (d : db) : list (key * tid * nat) :=
  flat_map (fun kp =>
              map (fun t => (fst kp, t, List.length (filter (mine t) (pcls (snd kp)))))
                  (nodup N.eq_dec (filter (fun t => negb (N.eqb t 0)) (map fst (pcls (snd kp))))))
           (preds d).
Definition loader_state_size (d : db) : nat :=
  fold_right (fun r n => (S (snd r) + n)%nat) O (local_records d).

(* ------------------------------------------------------------------ observations *)
Definition program_of (d : db) : program := flat_map (fun kp => map snd (pcls (snd kp))) (preds d).

Fixpoint nseq (start : N) (len : nat) : list N :=
  match len with O => [] | S n => start :: nseq (start + 1) n end.
Definition goal_of (k : key) : term :=
  match snd k with O => Atom (fst k) | n => Cmp (fst k) (map Var (nseq 0 n)) end.
Definition tmpl_of (k : key) : term := tlist (map Var (nseq 0 (snd k))).

Inductive obs := OUndef | OAns (l : list term) | OOther.
(* all answers of the most general goal of k, as lists of argument instances, in solution order *)
Definition observe (fuel : nat) (d : db) (k : key) : obs :=
  match alookup key_dec k (preds d) with
  | None => OUndef
  | Some p => match pcls p with
              | [] => OAns []
              | _ => match solve fuel (program_of d) (goal_of k) (tmpl_of k) with
                     | Done a None _ => OAns (map normt a)
                     | _ => OOther
                     end
              end
  end.

Definition op_obs (d : db) (name : list N) : list (N * optype) :=
  flat_map (fun c => match alookup opkey_dec (name, c) (optab d) with
                     | Some (p, t) => if N.eqb p 0 then [] else [(p, t)]
                     | None => []
                     end) [CPrefix; CInfix; CPostfix].

(* ------------------------------------------------------------------ scenarios and the comparison with an observed run *)
Inductive step := SLoad (t : tid) (s : text) | SAssert (c : clause).
Definition do_step (st : step) (m : machine) : machine :=
  match st with
  | SLoad t s => load t s m
  | SAssert c => mkm (assertz_db c (mdb m)) (mcode m + 1) (mloads m)
  end.
Definition machine0 : machine := mkm (mkdb [] []) 0 0.

Definition optype_eqb (a b : optype) : bool :=
  match a, b with
  | XFX, XFX | XFY, XFY | YFX, YFX | FY, FY | FX, FX | XF, XF | YF, YF => true
  | _, _ => false
  end.
Definition obs_eqb (a b : obs) : bool :=
  match a, b with
  | OUndef, OUndef => true
  | OAns x, OAns y => terms_eqb x y
  | _, _ => false
  end.
Definition opl_eqb (a b : list (N * optype)) : bool :=
  list_eqb (fun x y => N.eqb (fst x) (fst y) && optype_eqb (snd x) (snd y)) a b.

Definition observation := (list obs * list (list (N * optype)))%type.
Definition observe_all (fuel : nat) (d : db) (qs : list key) (ons : list (list N)) : observation :=
  (map (observe fuel d) qs, map (op_obs d) ons).
Definition observation_eqb (a b : observation) : bool :=
  list_eqb obs_eqb (fst a) (fst b) && list_eqb opl_eqb (snd a) (snd b).

(* the observations after every step *)
Fixpoint trace (fuel : nat) (m : machine) (steps : list step) (qs : list key) (ons : list (list N)) : list observation :=
  match steps with
  | [] => []
  | st :: r => let m' := do_step st m in observe_all fuel (db_of m') qs ons :: trace fuel m' r qs ons
  end.
Definition check_trace (fuel : nat) (steps : list step) (qs : list key) (ons : list (list N))
           (observed : list observation) : bool :=
  list_eqb observation_eqb (trace fuel machine0 steps qs ons) observed.

(* big integers are passed as 60-bit limbs, most significant first *)
Definition zlimbs (neg : bool) (l : list Z) : Z :=
  let v := fold_left (fun a x => (a * 1152921504606846976 + x)%Z) l 0%Z in if neg then Z.opp v else v.

(* where an observed run first differs from the model: (step index, Some key index | None = operator entries / length) *)
Fixpoint first_diff {A} (eqb : A -> A -> bool) (a b : list A) (i : nat) : option nat :=
  match a, b with
  | [], [] => None
  | x :: a', y :: b' => if eqb x y then first_diff eqb a' b' (S i) else Some i
  | _, _ => Some i
  end.
Definition first_mismatch (fuel : nat) (steps : list step) (qs : list key) (ons : list (list N))
           (observed : list observation) : option (nat * option nat) :=
  let tr := trace fuel machine0 steps qs ons in
  match first_diff observation_eqb tr observed O with
  | None => None
  | Some i => match nth_error tr i, nth_error observed i with
              | Some a, Some b => Some (i, first_diff obs_eqb (fst a) (fst b) O)
              | _, _ => Some (i, None)
              end
  end.
