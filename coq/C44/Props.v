(* C44 -- pinned property theorems (nothing else lives here) *)
From Coq Require Import ZArith NArith List Bool String.
From V Require Import Base.Term C44.Model C44.Proofs.
Import ListNotations.

(* current_prolog_flag gives the same value whether the flag is given or enumerated *)
Theorem enumerate_equals_lookup : forall s f v, In (f, v) (enumerate s) <-> get s f = Some v.
Proof. exact enumerate_lookup. Qed.
Print Assumptions enumerate_equals_lookup.

(* ... stated on the predicate itself: current_prolog_flag(F, V) lists (f, v) with F unbound exactly when
   current_prolog_flag(f, V) has the single answer v *)
Theorem lookup_call_equals_enumeration : forall s f v x y z,
  In (flag_atom f, v) (match current_call s (Var x) (Var y) with RSols l => l | RErr _ => [] end)
  <-> current_call s (flag_atom f) (Var z) = RSols [(flag_atom f, v)].
Proof. exact Proofs.lookup_call_equals_enumeration. Qed.
Print Assumptions lookup_call_equals_enumeration.

(* no flag is listed twice *)
Theorem enumeration_has_no_duplicates : forall s, NoDup (map fst (enumerate s)).
Proof. exact enumerate_nodup_flags. Qed.
Print Assumptions enumeration_has_no_duplicates.

(* set_prolog_flag(F, V) succeeds exactly when afterwards current_prolog_flag(F, V) holds; a call that does not
   succeed (failure or error) leaves the state unchanged *)
Theorem set_succeeds_iff_then_holds : forall s F V s' r, wf s -> set_call s F V = (s', r) ->
  (r = WOk <-> call_holds s' F V) /\ (r <> WOk -> s' = s).
Proof. exact set_call_spec. Qed.
Print Assumptions set_succeeds_iff_then_holds.

(* when it succeeds, in terms of the state before: the value is in the flag's domain and the flag is writable
   or has that value already *)
Theorem set_succeeds_exactly_when : forall s f v, wf s ->
  (snd (set_flag s f v) = WOk <-> in_domain f v = true /\ (writable f = true \/ get s f = Some v)).
Proof. exact set_flag_ok_iff. Qed.
Print Assumptions set_succeeds_exactly_when.

(* read-only flags keep their value over any history of reads, writes (valid or not) and probes *)
Theorem readonly_unchanged : forall ops s g, writable g = false -> get (run s ops) g = get s g.
Proof. exact run_readonly. Qed.
Print Assumptions readonly_unchanged.

(* a write to one flag never changes another flag *)
Theorem write_changes_only_its_flag : forall s f v g, g <> f -> get (fst (set_flag s f v)) g = get s g.
Proof. exact set_flag_frame. Qed.
Print Assumptions write_changes_only_its_flag.

(* the error table of set_prolog_flag/2 in ISO order (8.17.1.3 a-e) *)
Theorem errors : forall s F V,
  (is_var F || is_var V = true -> set_call s F V = (s, WErr EInst)) /\
  (is_var F || is_var V = false -> (forall n, F <> Atom n) -> set_call s F V = (s, WErr (ETypeAtom F))) /\
  (is_var V = false -> forall n, F = Atom n -> flag_of_name n = None -> set_call s F V = (s, WErr (EDomFlag F))) /\
  (is_var V = false -> forall f, F = flag_atom f -> in_domain f V = false -> set_call s F V = (s, WErr (EDomValue F V))) /\
  (is_var V = false -> forall f, F = flag_atom f -> in_domain f V = true ->
     snd (set_call s F V) = WOk \/ (set_call s F V = (s, WRefused) /\ writable f = false /\ get s f <> Some V)).
Proof. exact set_call_errors. Qed.
Print Assumptions errors.

(* every history from the initial state keeps every stored value inside its flag's domain *)
Theorem values_stay_in_domain : forall ops f v, get (run init ops) f = Some v -> in_domain f v = true.
Proof. exact run_init_in_domain. Qed.
Print Assumptions values_stay_in_domain.

(* the three behavioural flags take effect: after the write, the probe shows the written value's behaviour *)
Theorem double_quotes_takes_effect : forall s d str,
  let s' := fst (set_call s (flag_atom FDoubleQuotes) (dq_term d)) in
  snd (set_call s (flag_atom FDoubleQuotes) (dq_term d)) = WOk /\
  snd (step s' (OProbe str)) = MProbe (read_dq d str) (unify_cyclic (occ s)) (call_undefined (unk s) (nm "c44_undefined_zz") 1).
Proof. exact set_double_quotes_effect. Qed.
Print Assumptions double_quotes_takes_effect.

Theorem occurs_check_takes_effect : forall s o str,
  let s' := fst (set_call s (flag_atom FOccursCheck) (occ_term o)) in
  snd (set_call s (flag_atom FOccursCheck) (occ_term o)) = WOk /\
  snd (step s' (OProbe str)) = MProbe (read_dq (dq s) str) (unify_cyclic o) (call_undefined (unk s) (nm "c44_undefined_zz") 1).
Proof. exact set_occurs_check_effect. Qed.
Print Assumptions occurs_check_takes_effect.

Theorem unknown_takes_effect : forall s u str,
  let s' := fst (set_call s (flag_atom FUnknown) (unk_term u)) in
  snd (set_call s (flag_atom FUnknown) (unk_term u)) = WOk /\
  snd (step s' (OProbe str)) = MProbe (read_dq (dq s) str) (unify_cyclic (occ s)) (call_undefined u (nm "c44_undefined_zz") 1).
Proof. exact set_unknown_effect. Qed.
Print Assumptions unknown_takes_effect.

(* the probe can tell the three double_quotes values apart on any non-empty text *)
Theorem double_quotes_probe_distinguishes : forall d d' c str, read_dq d (c :: str) = read_dq d' (c :: str) -> d = d'.
Proof. exact read_dq_distinguishes. Qed.
Print Assumptions double_quotes_probe_distinguishes.

(* the comparison used by the correspondence means equality of the observation with the model's answer *)
Theorem comparison_means_equality :
  (forall l l', agree (MRead (RSols l)) (IRead l') = true <-> l = l') /\
  (forall e i, agree (MRead (RErr e)) i = true <-> i = IErr (err_term e)) /\
  (forall F i, agree (MWrite F WOk) i = true <-> i = IWrite true) /\
  (forall F e i, agree (MWrite F (WErr e)) i = true <-> i = IErr (err_term e)) /\
  (forall F i, agree (MWrite F WRefused) i = true <-> i = IWrite false \/ i = IErr (perm_modify_flag F)).
Proof. exact agree_meaning. Qed.
Print Assumptions comparison_means_equality.

(* reads and probes never change the state, so the correspondence may check step k of a history against the model
   state reached by the writes among the first k operations *)
Theorem reads_and_probes_do_not_change_state : forall ops s, run s (filter is_write ops) = run s ops.
Proof. exact run_filter_writes. Qed.
Print Assumptions reads_and_probes_do_not_change_state.

Theorem step_check_is_history_check : forall k ops obs o i, nth_error ops k = Some o -> nth_error obs k = Some i ->
  check_at k ops obs = check_step (filter is_write (firstn k ops)) o i.
Proof. exact check_step_is_check_at. Qed.
Print Assumptions step_check_is_history_check.

(* ---------------------------------------------------------------- non-vacuity *)
Example init_is_wf : wf init.
Proof. exact init_wf. Qed.

Example a_write_that_succeeds :
  set_call init (A "double_quotes") (A "codes") = (mkstate DqCodes UnkError OccFalse tnil, WOk).
Proof. vm_compute. reflexivity. Qed.

Example readonly_same_value_succeeds : snd (set_call init (A "bounded") (A "false")) = WOk.
Proof. vm_compute. reflexivity. Qed.

Example readonly_other_value_refused : set_call init (A "integer_rounding_function") (A "down") = (init, WRefused).
Proof. vm_compute. reflexivity. Qed.

Example max_arity_is_a_flag : snd (set_call init (A "max_arity") (Int 255)) = WOk.
Proof. vm_compute. reflexivity. Qed.

Example invalid_value_of_known_flag :
  snd (set_call init (A "unknown") (A "foo")) = WErr (EDomValue (A "unknown") (A "foo")).
Proof. vm_compute. reflexivity. Qed.

Example lookup_rounding : current_call init (A "integer_rounding_function") (Var 0) =
  RSols [(A "integer_rounding_function", A "toward_zero")].
Proof. vm_compute. reflexivity. Qed.

Example no_value_flag : current_call init (A "max_integer") (Var 0) = RSols [].
Proof. vm_compute. reflexivity. Qed.

Example write_options_value :
  snd (set_call init (A "answer_write_options") (tlist [Cmp (nm "max_depth") [Int 3]; Cmp (nm "quoted") [A "true"]])) = WOk.
Proof. vm_compute. reflexivity. Qed.
