(* C44 -- Prolog flags: executable reference model (definitions only).

   The model follows the flag documentation in src/lib/builtins.pl (comment block above current_prolog_flag/2)
   and the ISO error table 8.17.1.3 / 8.17.2.3 that the clauses cite:
     - nine flags; max_integer/min_integer are flags without a value (unbounded integers);
     - max_arity, bounded, integer_rounding_function, max_integer, min_integer are read-only;
     - a write succeeds exactly when afterwards the flag has the written value; a write that cannot
       hold is refused (the documentation says "will fail"; ISO's permission_error(modify,flag,F) is accepted too)
       and a refused or erroneous write leaves the state unchanged. *)
From Coq Require Import ZArith NArith List Bool String Ascii.
From V Require Import Base.Term.
Import ListNotations.

Definition nm (s : string) : list N := map N_of_ascii (list_ascii_of_string s).
Definition A (s : string) : term := Atom (nm s).

Inductive flag :=
| FMaxArity | FBounded | FIntRound | FDoubleQuotes | FUnknown | FMaxInteger | FMinInteger | FOccursCheck | FAnswerWriteOptions.

Definition all_flags : list flag :=
  [FMaxArity; FBounded; FIntRound; FDoubleQuotes; FUnknown; FMaxInteger; FMinInteger; FOccursCheck; FAnswerWriteOptions].

Definition flag_eqb (a b : flag) : bool :=
  match a, b with
  | FMaxArity, FMaxArity | FBounded, FBounded | FIntRound, FIntRound | FDoubleQuotes, FDoubleQuotes
  | FUnknown, FUnknown | FMaxInteger, FMaxInteger | FMinInteger, FMinInteger | FOccursCheck, FOccursCheck
  | FAnswerWriteOptions, FAnswerWriteOptions => true
  | _, _ => false
  end.

Definition flag_name (f : flag) : list N :=
  match f with
  | FMaxArity => nm "max_arity"
  | FBounded => nm "bounded"
  | FIntRound => nm "integer_rounding_function"
  | FDoubleQuotes => nm "double_quotes"
  | FUnknown => nm "unknown"
  | FMaxInteger => nm "max_integer"
  | FMinInteger => nm "min_integer"
  | FOccursCheck => nm "occurs_check"
  | FAnswerWriteOptions => nm "answer_write_options"
  end.

Definition flag_of_name (n : list N) : option flag := find (fun f => name_eqb (flag_name f) n) all_flags.
Definition flag_atom (f : flag) : term := Atom (flag_name f).

(* ---------------------------------------------------------------- state *)
Inductive dqv := DqChars | DqCodes | DqAtom.
Inductive unkv := UnkError | UnkFail | UnkWarning.
Inductive occv := OccFalse | OccTrue | OccError.

Record state := mkstate { dq : dqv; unk : unkv; occ : occv; awo : term }.
Definition init : state := mkstate DqChars UnkError OccFalse tnil.

Definition dq_term (d : dqv) : term := match d with DqChars => A "chars" | DqCodes => A "codes" | DqAtom => A "atom" end.
Definition unk_term (u : unkv) : term := match u with UnkError => A "error" | UnkFail => A "fail" | UnkWarning => A "warning" end.
Definition occ_term (o : occv) : term := match o with OccFalse => A "false" | OccTrue => A "true" | OccError => A "error" end.

Definition dq_of_term (t : term) : option dqv :=
  if term_eqb t (A "chars") then Some DqChars else if term_eqb t (A "codes") then Some DqCodes
  else if term_eqb t (A "atom") then Some DqAtom else None.
Definition unk_of_term (t : term) : option unkv :=
  if term_eqb t (A "error") then Some UnkError else if term_eqb t (A "fail") then Some UnkFail
  else if term_eqb t (A "warning") then Some UnkWarning else None.
Definition occ_of_term (t : term) : option occv :=
  if term_eqb t (A "false") then Some OccFalse else if term_eqb t (A "true") then Some OccTrue
  else if term_eqb t (A "error") then Some OccError else None.

(* write options accepted as the value of answer_write_options (ground values) *)
Definition is_bool_atom (t : term) : bool := term_eqb t (A "true") || term_eqb t (A "false").
Definition valid_var_name (t : term) : bool :=
  match t with Cmp f [Atom _; _] => name_eqb f (nm "=") | _ => false end.
Definition valid_write_option (t : term) : bool :=
  match t with
  | Cmp f [a] =>
      if name_eqb f (nm "double_quotes") || name_eqb f (nm "ignore_ops") || name_eqb f (nm "quoted") || name_eqb f (nm "numbervars")
      then is_bool_atom a
      else if name_eqb f (nm "max_depth") then match a with Int n => (0 <=? n)%Z | _ => false end
      else if name_eqb f (nm "variable_names") then match as_list a with Some l => forallb valid_var_name l | None => false end
      else false
  | _ => false
  end.
Definition valid_options (v : term) : bool :=
  match as_list v with Some l => forallb valid_write_option l | None => false end.

Definition wf (s : state) : Prop := valid_options (awo s) = true.

(* ---------------------------------------------------------------- get / enumerate *)
Definition get (s : state) (f : flag) : option term :=
  match f with
  | FMaxArity => Some (Int 255)
  | FBounded => Some (A "false")
  | FIntRound => Some (A "toward_zero")
  | FDoubleQuotes => Some (dq_term (dq s))
  | FUnknown => Some (unk_term (unk s))
  | FMaxInteger => None
  | FMinInteger => None
  | FOccursCheck => Some (occ_term (occ s))
  | FAnswerWriteOptions => Some (awo s)
  end.

(* the answers of current_prolog_flag(F, V) with both unbound, in the clause order of builtins.pl *)
Definition enumerate (s : state) : list (flag * term) :=
  [ (FMaxArity, Int 255); (FBounded, A "false"); (FIntRound, A "toward_zero"); (FDoubleQuotes, dq_term (dq s));
    (FUnknown, unk_term (unk s)); (FOccursCheck, occ_term (occ s)); (FAnswerWriteOptions, awo s) ].

(* ---------------------------------------------------------------- domains, read-only bits, set *)
Definition is_int (t : term) : bool := match t with Int _ => true | _ => false end.

Definition in_domain (f : flag) (v : term) : bool :=
  match f with
  | FMaxArity | FMaxInteger | FMinInteger => is_int v
  | FBounded => is_bool_atom v
  | FIntRound => term_eqb v (A "toward_zero") || term_eqb v (A "down")
  | FDoubleQuotes => match dq_of_term v with Some _ => true | None => false end
  | FUnknown => match unk_of_term v with Some _ => true | None => false end
  | FOccursCheck => match occ_of_term v with Some _ => true | None => false end
  | FAnswerWriteOptions => valid_options v
  end.

Definition writable (f : flag) : bool :=
  match f with FDoubleQuotes | FUnknown | FOccursCheck | FAnswerWriteOptions => true | _ => false end.

(* the new state when f is writable and v is in its domain *)
Definition update (s : state) (f : flag) (v : term) : option state :=
  match f with
  | FDoubleQuotes => option_map (fun d => mkstate d (unk s) (occ s) (awo s)) (dq_of_term v)
  | FUnknown => option_map (fun u => mkstate (dq s) u (occ s) (awo s)) (unk_of_term v)
  | FOccursCheck => option_map (fun o => mkstate (dq s) (unk s) o (awo s)) (occ_of_term v)
  | FAnswerWriteOptions => if valid_options v then Some (mkstate (dq s) (unk s) (occ s) v) else None
  | _ => None
  end.

Inductive err :=
| EInst
| ETypeAtom (culprit : term)
| EDomFlag (culprit : term)
| EDomValue (f v : term).

Definition err_term (e : err) : term :=
  match e with
  | EInst => A "instantiation_error"
  | ETypeAtom c => Cmp (nm "type_error") [A "atom"; c]
  | EDomFlag c => Cmp (nm "domain_error") [A "prolog_flag"; c]
  | EDomValue f v => Cmp (nm "domain_error") [A "flag_value"; Cmp (nm "+") [f; v]]
  end.
Definition perm_modify_flag (f : term) : term := Cmp (nm "permission_error") [A "modify"; A "flag"; f].

Inductive wres := WOk | WRefused | WErr (e : err).

Definition holds (s : state) (f : flag) (v : term) : bool :=
  match get s f with Some w => term_eqb w v | None => false end.

Definition set_flag (s : state) (f : flag) (v : term) : state * wres :=
  match update s f v with
  | Some s' => (s', WOk)
  | None =>
      if negb (in_domain f v) then (s, WErr (EDomValue (flag_atom f) v))
      else if holds s f v then (s, WOk) else (s, WRefused)
  end.

(* ---------------------------------------------------------------- the two predicates on arbitrary argument terms *)
Definition is_var (t : term) : bool := match t with Var _ => true | _ => false end.

Definition set_call (s : state) (F V : term) : state * wres :=
  if is_var F || is_var V then (s, WErr EInst)
  else match F with
       | Atom n => match flag_of_name n with
                   | Some f => set_flag s f V
                   | None => (s, WErr (EDomFlag F))
                   end
       | _ => (s, WErr (ETypeAtom F))
       end.

Inductive rres := RSols (l : list (term * term)) | RErr (e : err).

(* V is a variable or a ground term in every use of the model *)
Definition matches (V v : term) : bool := match V with Var _ => true | _ => term_eqb V v end.

Definition current_call (s : state) (F V : term) : rres :=
  match F with
  | Var _ => RSols (map (fun p => (flag_atom (fst p), snd p)) (filter (fun p => matches V (snd p)) (enumerate s)))
  | Atom n => match flag_of_name n with
              | Some f => match get s f with
                          | Some v => if matches V v then RSols [(F, v)] else RSols []
                          | None => RSols []
                          end
              | None => RErr (EDomFlag F)
              end
  | _ => RErr (ETypeAtom F)
  end.

(* ---------------------------------------------------------------- behavioural effects *)
(* how the reader delivers a double-quoted text *)
Definition read_dq (d : dqv) (str : list N) : term :=
  match d with
  | DqChars => tstring str
  | DqCodes => tlist (map (fun c => Int (Z.of_N c)) str)
  | DqAtom => Atom str
  end.
Inductive ures := UUnified | UFailed | URaises.
(* X = f(X) *)
Definition unify_cyclic (o : occv) : ures := match o with OccFalse => UUnified | OccTrue => UFailed | OccError => URaises end.
(* calling a predicate that does not exist: Some formal = error, None = failure *)
Definition call_undefined (u : unkv) (name : list N) (arity : Z) : option term :=
  match u with
  | UnkError => Some (Cmp (nm "existence_error") [A "procedure"; Cmp (nm "/") [Atom name; Int arity]])
  | _ => None
  end.

(* ---------------------------------------------------------------- histories *)
Inductive op :=
| ORead (F V : term)
| OWrite (F V : term)
| OProbe (str : list N).

Inductive mobs :=
| MRead (r : rres)
| MWrite (F : term) (r : wres)
| MProbe (rd : term) (u : ures) (c : option term).

Definition step (s : state) (o : op) : state * mobs :=
  match o with
  | ORead F V => (s, MRead (current_call s F V))
  | OWrite F V => let (s', r) := set_call s F V in (s', MWrite F r)
  | OProbe str => (s, MProbe (read_dq (dq s) str) (unify_cyclic (occ s)) (call_undefined (unk s) (nm "c44_undefined_zz") 1))
  end.

Definition run (s : state) (ops : list op) : state := fold_left (fun s o => fst (step s o)) ops s.

(* ---------------------------------------------------------------- comparison with the implementation's observations *)
Inductive iobs :=
| IRead (l : list (term * term))          (* findall(F-V, current_prolog_flag(F,V), L) *)
| IErr (formal : term)                    (* error(formal, _) *)
| IWrite (succeeded : bool)               (* set_prolog_flag succeeded / failed *)
| IProbe (rd_query rd_chars : term)       (* "..." read by the query reader and by read_term from chars *)
         (u : ures)                       (* X = f(X) *)
         (uoc_fails : bool)               (* unify_with_occurs_check(X, f(X)) fails *)
         (c : option term)                (* calling an undefined predicate: error formal or failure *)
| IOther.

Definition pair_eqb (a b : term * term) : bool := term_eqb (fst a) (fst b) && term_eqb (snd a) (snd b).
Definition ures_eqb (a b : ures) : bool :=
  match a, b with UUnified, UUnified | UFailed, UFailed | URaises, URaises => true | _, _ => false end.
Definition opt_term_eqb (a b : option term) : bool :=
  match a, b with Some x, Some y => term_eqb x y | None, None => true | _, _ => false end.

Definition agree (m : mobs) (i : iobs) : bool :=
  match m, i with
  | MRead (RSols l), IRead l' => list_eqb pair_eqb l l'
  | MRead (RErr e), IErr t => term_eqb (err_term e) t
  | MWrite _ WOk, IWrite b => b
  | MWrite _ WRefused, IWrite b => negb b
  | MWrite F WRefused, IErr t => term_eqb (perm_modify_flag F) t
  | MWrite _ (WErr e), IErr t => term_eqb (err_term e) t
  | MProbe rd u c, IProbe rq rc u' uoc c' =>
      term_eqb rd rq && term_eqb rd rc && ures_eqb u u' && uoc && opt_term_eqb c c'
  | _, _ => false
  end.

Definition is_write (o : op) : bool := match o with OWrite _ _ => true | _ => false end.

(* One step of a history: [ws] are the writes that precede it (reads and probes do not change the state:
   Proofs.run_filter_writes), [o] the operation, [i] the implementation's observation of it. *)
Definition expected (ws : list op) (o : op) : mobs := snd (step (run init ws) o).
Definition check_step (ws : list op) (o : op) (i : iobs) : bool := agree (expected ws o) i.

(* does the model's enumeration current_prolog_flag(F, V), F unbound, after the writes ws list the flag of that name?
   (used to name the flag on which a disagreeing enumeration differs) *)
Definition enum_has (ws : list op) (V : term) (name : string) : bool :=
  match current_call (run init ws) (Var 0) V with
  | RSols l => existsb (fun p => term_eqb (fst p) (A name)) l
  | RErr _ => false
  end.

(* the same check stated on the whole history: step k (0-based) of ops *)
Definition check_at (k : nat) (ops : list op) (obs : list iobs) : bool :=
  match nth_error ops k, nth_error obs k with
  | Some o, Some i => agree (snd (step (run init (firstn k ops)) o)) i
  | _, _ => false
  end.
