(* C44 -- lemmas about the flag model *)
From Coq Require Import ZArith NArith List Bool String Ascii Lia.
From V Require Import Base.Term C44.Model.
Import ListNotations.

(* ---------------------------------------------------------------- decidable equality on terms *)
Lemma list_eqb_eq {X} (eqb : X -> X -> bool) :
  (forall x y, eqb x y = true <-> x = y) -> forall a b, list_eqb eqb a b = true <-> a = b.
Proof.
  intros H a. induction a as [|x a IH]; intros [|y b]; cbn; split; intro E; try congruence; try discriminate.
  - apply andb_true_iff in E. destruct E as [E1 E2]. apply H in E1. apply IH in E2. congruence.
  - inversion E; subst. apply andb_true_iff. split; [now apply H | now apply IH].
Qed.

Lemma name_eqb_eq a b : name_eqb a b = true <-> a = b.
Proof. apply list_eqb_eq. intros; apply N.eqb_eq. Qed.

Definition args_eqb : list term -> list term -> bool :=
  fix go (l l' : list term) : bool :=
    match l, l' with
    | [], [] => true
    | x :: r, y :: r' => term_eqb x y && go r r'
    | _, _ => false
    end.

Lemma term_eqb_cmp f l f' l' : term_eqb (Cmp f l) (Cmp f' l') = name_eqb f f' && args_eqb l l'.
Proof. reflexivity. Qed.

Lemma args_eqb_eq l : Forall (fun x => forall b, term_eqb x b = true <-> x = b) l ->
  forall l', args_eqb l l' = true <-> l = l'.
Proof.
  induction 1 as [|x r Hx Hr IH]; intros [|y r']; cbn; split; intro E; try congruence; try discriminate.
  - apply andb_true_iff in E. destruct E as [E1 E2]. apply Hx in E1. apply IH in E2. congruence.
  - inversion E; subst. apply andb_true_iff. split; [now apply Hx | now apply IH].
Qed.

Lemma term_eqb_eq : forall a b, term_eqb a b = true <-> a = b.
Proof.
  induction a as [v|z|n d|bits|s|f args IH] using term_ind'; intros b; destruct b as [v'|z'|n' d'|bits'|s'|f' args'];
    try (cbn; split; intro E; [discriminate | congruence]).
  - cbn. rewrite N.eqb_eq. split; congruence.
  - cbn. rewrite Z.eqb_eq. split; congruence.
  - cbn. rewrite andb_true_iff, !Z.eqb_eq. split; [intros [? ?]; congruence | intro E; inversion E; auto].
  - cbn. rewrite Z.eqb_eq. split; congruence.
  - cbn. rewrite name_eqb_eq. split; congruence.
  - rewrite term_eqb_cmp, andb_true_iff, name_eqb_eq, (args_eqb_eq args IH).
    split; [intros [? ?]; congruence | intro E; inversion E; auto].
Qed.

Lemma term_eqb_refl a : term_eqb a a = true.
Proof. now apply term_eqb_eq. Qed.

Lemma pair_eqb_eq a b : pair_eqb a b = true <-> a = b.
Proof.
  destruct a as [a1 a2], b as [b1 b2]. unfold pair_eqb; cbn [fst snd].
  rewrite andb_true_iff, !term_eqb_eq. split; [intros [? ?]; congruence | intro E; inversion E; auto].
Qed.

(* ---------------------------------------------------------------- names *)
Lemma flag_of_name_name f : flag_of_name (flag_name f) = Some f.
Proof. destruct f; vm_compute; reflexivity. Qed.

Lemma flag_of_name_sound n f : flag_of_name n = Some f -> n = flag_name f.
Proof.
  unfold flag_of_name. intro H. apply find_some in H. destruct H as [_ H]. apply name_eqb_eq in H. congruence.
Qed.

Lemma flag_name_inj f g : flag_name f = flag_name g -> f = g.
Proof.
  intro H. pose proof (flag_of_name_name f) as Hf. rewrite H, flag_of_name_name in Hf. congruence.
Qed.

(* ---------------------------------------------------------------- typed values <-> terms *)
Lemma dq_of_term_term d : dq_of_term (dq_term d) = Some d.
Proof. destruct d; vm_compute; reflexivity. Qed.
Lemma unk_of_term_term u : unk_of_term (unk_term u) = Some u.
Proof. destruct u; vm_compute; reflexivity. Qed.
Lemma occ_of_term_term o : occ_of_term (occ_term o) = Some o.
Proof. destruct o; vm_compute; reflexivity. Qed.

Lemma dq_of_term_sound t d : dq_of_term t = Some d -> t = dq_term d.
Proof.
  unfold dq_of_term. destruct (term_eqb t (A "chars")) eqn:E1; [|destruct (term_eqb t (A "codes")) eqn:E2; [|destruct (term_eqb t (A "atom")) eqn:E3]];
    intro H; inversion H; subst; cbn [dq_term]; now apply term_eqb_eq.
Qed.
Lemma unk_of_term_sound t u : unk_of_term t = Some u -> t = unk_term u.
Proof.
  unfold unk_of_term. destruct (term_eqb t (A "error")) eqn:E1; [|destruct (term_eqb t (A "fail")) eqn:E2; [|destruct (term_eqb t (A "warning")) eqn:E3]];
    intro H; inversion H; subst; cbn [unk_term]; now apply term_eqb_eq.
Qed.
Lemma occ_of_term_sound t o : occ_of_term t = Some o -> t = occ_term o.
Proof.
  unfold occ_of_term. destruct (term_eqb t (A "false")) eqn:E1; [|destruct (term_eqb t (A "true")) eqn:E2; [|destruct (term_eqb t (A "error")) eqn:E3]];
    intro H; inversion H; subst; cbn [occ_term]; now apply term_eqb_eq.
Qed.

(* ---------------------------------------------------------------- enumeration = lookup *)
Lemma enumerate_lookup s f v : In (f, v) (enumerate s) <-> get s f = Some v.
Proof.
  unfold enumerate. split.
  - intro H. cbn [In] in H.
    repeat (destruct H as [H|H]; [inversion H; subst; reflexivity|]). destruct H.
  - destruct f; cbn [get]; intro H; inversion H; subst; cbn [In]; tauto.
Qed.

Lemma enumerate_nodup_flags s : NoDup (map fst (enumerate s)).
Proof.
  unfold enumerate. cbn [map fst].
  repeat (constructor; [cbn [In]; intro H; repeat (destruct H as [H|H]; [discriminate|]); exact H|]).
  constructor.
Qed.

(* the same statement for the predicate on terms: with the value unbound, the flag given and the flag enumerated *)
Lemma matches_var x v : matches (Var x) v = true.
Proof. reflexivity. Qed.

Lemma current_call_enum_all s x y :
  current_call s (Var x) (Var y) = RSols (map (fun p => (flag_atom (fst p), snd p)) (enumerate s)).
Proof.
  reflexivity.
Qed.

Lemma current_call_lookup s f z :
  current_call s (flag_atom f) (Var z) = match get s f with Some v => RSols [(flag_atom f, v)] | None => RSols [] end.
Proof.
  unfold current_call, flag_atom. rewrite flag_of_name_name.
  destruct (get s f); reflexivity.
Qed.

Lemma lookup_call_equals_enumeration s f v x y z :
  In (flag_atom f, v) (match current_call s (Var x) (Var y) with RSols l => l | RErr _ => [] end)
  <-> current_call s (flag_atom f) (Var z) = RSols [(flag_atom f, v)].
Proof.
  rewrite current_call_enum_all, current_call_lookup.
  rewrite in_map_iff. split.
  - intros [[g w] [E Hin]]. cbn [fst snd] in E. inversion E as [[E1 E2]]. apply flag_name_inj in E1. subst.
    apply enumerate_lookup in Hin. rewrite Hin. reflexivity.
  - intro H. destruct (get s f) as [w|] eqn:G.
    + inversion H; subst. exists (f, v). split; [reflexivity|]. now apply enumerate_lookup.
    + discriminate.
Qed.

(* ---------------------------------------------------------------- set *)
Lemma holds_iff s f v : holds s f v = true <-> get s f = Some v.
Proof.
  unfold holds. destruct (get s f) as [w|].
  - rewrite term_eqb_eq. split; congruence.
  - split; discriminate.
Qed.

Lemma update_writable s f v s' : update s f v = Some s' -> writable f = true /\ in_domain f v = true.
Proof.
  destruct f; cbn [update writable in_domain]; try discriminate; intro H.
  - destruct (dq_of_term v); [auto|discriminate].
  - destruct (unk_of_term v); [auto|discriminate].
  - destruct (occ_of_term v); [auto|discriminate].
  - destruct (valid_options v); [auto|discriminate].
Qed.

Lemma update_get s f v s' : update s f v = Some s' -> get s' f = Some v.
Proof.
  destruct f; cbn [update]; try discriminate; intro H.
  - destruct (dq_of_term v) as [d|] eqn:E; inversion H; subst. cbn [get dq]. f_equal. symmetry. now apply dq_of_term_sound.
  - destruct (unk_of_term v) as [d|] eqn:E; inversion H; subst. cbn [get unk]. f_equal. symmetry. now apply unk_of_term_sound.
  - destruct (occ_of_term v) as [d|] eqn:E; inversion H; subst. cbn [get occ]. f_equal. symmetry. now apply occ_of_term_sound.
  - destruct (valid_options v); inversion H; subst. reflexivity.
Qed.

Lemma update_none_writable s f v : writable f = true -> update s f v = None -> in_domain f v = false.
Proof.
  destruct f; cbn [writable update in_domain]; try discriminate; intros _ H.
  - destruct (dq_of_term v); [discriminate|reflexivity].
  - destruct (unk_of_term v); [discriminate|reflexivity].
  - destruct (occ_of_term v); [discriminate|reflexivity].
  - destruct (valid_options v); [discriminate|reflexivity].
Qed.

Lemma update_frame s f v s' g : update s f v = Some s' -> g <> f -> get s' g = get s g.
Proof.
  destruct f; cbn [update]; try discriminate; intros H Hne.
  - destruct (dq_of_term v); inversion H; subst. destruct g; try reflexivity. congruence.
  - destruct (unk_of_term v); inversion H; subst. destruct g; try reflexivity. congruence.
  - destruct (occ_of_term v); inversion H; subst. destruct g; try reflexivity. congruence.
  - destruct (valid_options v); inversion H; subst. destruct g; try reflexivity. congruence.
Qed.

Lemma update_wf s f v s' : wf s -> update s f v = Some s' -> wf s'.
Proof.
  unfold wf. destruct f; cbn [update]; try discriminate; intros W H.
  - destruct (dq_of_term v); inversion H; subst. exact W.
  - destruct (unk_of_term v); inversion H; subst. exact W.
  - destruct (occ_of_term v); inversion H; subst. exact W.
  - destruct (valid_options v) eqn:E; inversion H; subst. exact E.
Qed.

(* every stored value lies in the domain of its flag *)
Lemma get_in_domain s f v : wf s -> get s f = Some v -> in_domain f v = true.
Proof.
  unfold wf. intros W H. destruct f; cbn [get] in H; inversion H; subst; cbn [in_domain]; try reflexivity.
  - rewrite dq_of_term_term. reflexivity.
  - rewrite unk_of_term_term. reflexivity.
  - rewrite occ_of_term_term. reflexivity.
  - exact W.
Qed.

Lemma set_flag_spec s f v s' r : wf s -> set_flag s f v = (s', r) ->
  (r = WOk <-> get s' f = Some v) /\ (r <> WOk -> s' = s).
Proof.
  intros W H. unfold set_flag in H. destruct (update s f v) as [s1|] eqn:U.
  - inversion H; subst. split; [|congruence]. split; [intros _; eapply update_get; eauto | reflexivity].
  - destruct (in_domain f v) eqn:D; cbn [negb] in H.
    + destruct (holds s f v) eqn:Hh; inversion H; subst.
      * split; [|reflexivity]. split; [intros _; now apply holds_iff | reflexivity].
      * split; [|reflexivity]. split; [discriminate|]. intro G. apply holds_iff in G. congruence.
    + inversion H; subst. split; [|reflexivity]. split; [discriminate|].
      intro G. apply (get_in_domain _ _ _ W) in G. congruence.
Qed.

Lemma set_flag_ok_iff s f v : wf s ->
  (snd (set_flag s f v) = WOk <-> in_domain f v = true /\ (writable f = true \/ get s f = Some v)).
Proof.
  intros W. unfold set_flag. destruct (update s f v) as [s1|] eqn:U.
  - cbn [snd]. apply update_writable in U. tauto.
  - destruct (in_domain f v) eqn:D; cbn [negb snd].
    + destruct (holds s f v) eqn:Hh; cbn [snd].
      * apply holds_iff in Hh. tauto.
      * split; [discriminate|]. intros [_ [Hw|Hg]].
        -- apply (update_none_writable s f v Hw) in U. congruence.
        -- apply holds_iff in Hg. congruence.
    + split; [discriminate|]. intros [? _]. discriminate.
Qed.

Lemma set_flag_readonly s f v : writable f = false -> fst (set_flag s f v) = s.
Proof.
  intro Hw. unfold set_flag. destruct (update s f v) as [s1|] eqn:U.
  - apply update_writable in U. destruct U; congruence.
  - destruct (negb (in_domain f v)); [reflexivity|]. destruct (holds s f v); reflexivity.
Qed.

Lemma set_flag_frame s f v g : g <> f -> get (fst (set_flag s f v)) g = get s g.
Proof.
  intro Hne. unfold set_flag. destruct (update s f v) as [s1|] eqn:U.
  - cbn [fst]. eapply update_frame; eauto.
  - destruct (negb (in_domain f v)); [reflexivity|]. destruct (holds s f v); reflexivity.
Qed.

Lemma set_flag_wf s f v : wf s -> wf (fst (set_flag s f v)).
Proof.
  intro W. unfold set_flag. destruct (update s f v) as [s1|] eqn:U.
  - cbn [fst]. eapply update_wf; eauto.
  - destruct (negb (in_domain f v)); [exact W|]. destruct (holds s f v); exact W.
Qed.

(* ---------------------------------------------------------------- set_call *)
Definition call_holds (s : state) (F V : term) : Prop := exists f, F = flag_atom f /\ get s f = Some V.

Lemma set_call_spec s F V s' r : wf s -> set_call s F V = (s', r) ->
  (r = WOk <-> call_holds s' F V) /\ (r <> WOk -> s' = s).
Proof.
  intros W H. unfold set_call in H.
  destruct (is_var F || is_var V) eqn:Ev.
  - inversion H; subst. split; [|reflexivity]. split; [discriminate|].
    intros [f [EF G]]. apply orb_true_iff in Ev. destruct Ev as [Ev|Ev].
    + subst. discriminate.
    + apply (get_in_domain _ _ _ W) in G. destruct V; try discriminate. destruct f; discriminate.
  - destruct F as [x|z|n d|b|n|g args]; try (inversion H; subst; split; [split; [discriminate | intros [f [EF _]]; discriminate] | reflexivity]).
    destruct (flag_of_name n) as [f|] eqn:Ef.
    + apply flag_of_name_sound in Ef. subst n.
      destruct (set_flag_spec s f V s' r W H) as [H1 H2]. split; [|exact H2].
      rewrite H1. split.
      * intro G. exists f. split; [reflexivity|exact G].
      * intros [f' [EF G]]. unfold flag_atom in EF. inversion EF as [EN]. apply flag_name_inj in EN. subst. exact G.
    + inversion H; subst. split; [|reflexivity]. split; [discriminate|].
      intros [f [EF _]]. unfold flag_atom in EF. inversion EF; subst. rewrite flag_of_name_name in Ef. discriminate.
Qed.

Lemma set_call_wf s F V : wf s -> wf (fst (set_call s F V)).
Proof.
  intro W. unfold set_call. destruct (is_var F || is_var V); [exact W|].
  destruct F; try exact W. destruct (flag_of_name s0); [|exact W]. now apply set_flag_wf.
Qed.

Lemma set_call_readonly s F V g : writable g = false -> get (fst (set_call s F V)) g = get s g.
Proof.
  intro Hw. unfold set_call. destruct (is_var F || is_var V); [reflexivity|].
  destruct F; try reflexivity. destruct (flag_of_name s0) as [f|] eqn:Ef; [|reflexivity].
  destruct (flag_eqb f g) eqn:E.
  - assert (f = g) by (destruct f, g; try discriminate; reflexivity). subst. now rewrite set_flag_readonly.
  - apply set_flag_frame. intro; subst. destruct f; discriminate.
Qed.

(* the error table *)
Lemma set_call_errors s F V :
  (is_var F || is_var V = true -> set_call s F V = (s, WErr EInst)) /\
  (is_var F || is_var V = false -> (forall n, F <> Atom n) -> set_call s F V = (s, WErr (ETypeAtom F))) /\
  (is_var V = false -> forall n, F = Atom n -> flag_of_name n = None -> set_call s F V = (s, WErr (EDomFlag F))) /\
  (is_var V = false -> forall f, F = flag_atom f -> in_domain f V = false -> set_call s F V = (s, WErr (EDomValue F V))) /\
  (is_var V = false -> forall f, F = flag_atom f -> in_domain f V = true ->
     snd (set_call s F V) = WOk \/ (set_call s F V = (s, WRefused) /\ writable f = false /\ get s f <> Some V)).
Proof.
  repeat split.
  - intro H. unfold set_call. now rewrite H.
  - intros H Hn. unfold set_call. rewrite H. destruct F; try reflexivity. now destruct (Hn s0).
  - intros Hv n EF Hf. subst. unfold set_call. cbn [is_var orb]. rewrite Hv, Hf. reflexivity.
  - intros Hv f EF Hd. subst. unfold set_call, flag_atom. cbn [is_var orb]. rewrite Hv, flag_of_name_name.
    unfold set_flag. destruct (update s f V) as [s1|] eqn:U.
    + apply update_writable in U. destruct U; congruence.
    + rewrite Hd. reflexivity.
  - intros Hv f EF Hd. subst. unfold set_call, flag_atom. cbn [is_var orb]. rewrite Hv, flag_of_name_name.
    unfold set_flag. destruct (update s f V) as [s1|] eqn:U; [left; reflexivity|].
    rewrite Hd. cbn [negb]. destruct (holds s f V) eqn:Hh; [left; reflexivity|]. right. split; [reflexivity|]. split.
    + destruct (writable f) eqn:Hw; [|reflexivity]. apply (update_none_writable s f V Hw) in U. congruence.
    + intro G. apply holds_iff in G. congruence.
Qed.

(* ---------------------------------------------------------------- histories *)
Lemma step_wf s o : wf s -> wf (fst (step s o)).
Proof.
  intro W. destruct o as [F V|F V|str]; cbn [step fst]; try exact W.
  pose proof (set_call_wf s F V W) as H. destruct (set_call s F V); exact H.
Qed.

Lemma step_readonly s o g : writable g = false -> get (fst (step s o)) g = get s g.
Proof.
  intro Hw. destruct o as [F V|F V|str]; cbn [step fst]; try reflexivity.
  pose proof (set_call_readonly s F V g Hw) as H. destruct (set_call s F V); exact H.
Qed.

Lemma run_wf ops : forall s, wf s -> wf (run s ops).
Proof.
  induction ops as [|o ops IH]; intros s W; [exact W|]. unfold run. cbn [fold_left]. apply IH. now apply step_wf.
Qed.

Lemma run_readonly ops : forall s g, writable g = false -> get (run s ops) g = get s g.
Proof.
  induction ops as [|o ops IH]; intros s g Hw; [reflexivity|]. unfold run. cbn [fold_left].
  change (get (run (fst (step s o)) ops) g = get s g). rewrite IH by exact Hw. now apply step_readonly.
Qed.

Lemma init_wf : wf init.
Proof. vm_compute. reflexivity. Qed.

Lemma run_init_in_domain ops f v : get (run init ops) f = Some v -> in_domain f v = true.
Proof. apply get_in_domain. apply run_wf. exact init_wf. Qed.

(* reads and probes never change the state *)
Lemma step_read_only_ops s o : (forall F V, o <> OWrite F V) -> fst (step s o) = s.
Proof. intro H. destruct o as [F V|F V|str]; try reflexivity. now destruct (H F V). Qed.

(* ---------------------------------------------------------------- effects follow the flag *)
Lemma set_double_quotes_effect s d str :
  let s' := fst (set_call s (flag_atom FDoubleQuotes) (dq_term d)) in
  snd (set_call s (flag_atom FDoubleQuotes) (dq_term d)) = WOk /\
  snd (step s' (OProbe str)) = MProbe (read_dq d str) (unify_cyclic (occ s)) (call_undefined (unk s) (nm "c44_undefined_zz") 1).
Proof. destruct d; split; reflexivity. Qed.

Lemma set_occurs_check_effect s o str :
  let s' := fst (set_call s (flag_atom FOccursCheck) (occ_term o)) in
  snd (set_call s (flag_atom FOccursCheck) (occ_term o)) = WOk /\
  snd (step s' (OProbe str)) = MProbe (read_dq (dq s) str) (unify_cyclic o) (call_undefined (unk s) (nm "c44_undefined_zz") 1).
Proof. destruct o; split; reflexivity. Qed.

Lemma set_unknown_effect s u str :
  let s' := fst (set_call s (flag_atom FUnknown) (unk_term u)) in
  snd (set_call s (flag_atom FUnknown) (unk_term u)) = WOk /\
  snd (step s' (OProbe str)) = MProbe (read_dq (dq s) str) (unify_cyclic (occ s)) (call_undefined u (nm "c44_undefined_zz") 1).
Proof. destruct u; split; reflexivity. Qed.

(* the three representations of a double-quoted text are pairwise different for a non-empty text *)
Lemma read_dq_distinguishes d d' c str : read_dq d (c :: str) = read_dq d' (c :: str) -> d = d'.
Proof. destruct d, d'; cbn; try reflexivity; intro H; discriminate. Qed.

(* ---------------------------------------------------------------- the comparison functions mean equality *)
Lemma agree_read_sols l l' : agree (MRead (RSols l)) (IRead l') = true <-> l = l'.
Proof. cbn [agree]. apply list_eqb_eq. apply pair_eqb_eq. Qed.

Lemma agree_read_err e i : agree (MRead (RErr e)) i = true <-> i = IErr (err_term e).
Proof.
  destruct i; cbn [agree]; try (split; [discriminate|congruence]).
  rewrite term_eqb_eq. split; congruence.
Qed.

Lemma agree_write_ok F i : agree (MWrite F WOk) i = true <-> i = IWrite true.
Proof. destruct i as [| |b| |]; cbn [agree]; try (split; [discriminate|congruence]). destruct b; split; congruence. Qed.

Lemma agree_write_err F e i : agree (MWrite F (WErr e)) i = true <-> i = IErr (err_term e).
Proof.
  destruct i; cbn [agree]; try (split; [discriminate|congruence]).
  rewrite term_eqb_eq. split; congruence.
Qed.

Lemma agree_write_refused F i : agree (MWrite F WRefused) i = true <-> i = IWrite false \/ i = IErr (perm_modify_flag F).
Proof.
  destruct i as [|t|b| |]; cbn [agree].
  - split; [discriminate|intros [?|?]; discriminate].
  - rewrite term_eqb_eq. split; [intro; right; congruence|intros [?|?]; congruence].
  - destruct b; cbn [negb]; split; try discriminate; try (intros [?|?]; congruence). intro; left; reflexivity.
  - split; [discriminate|intros [?|?]; discriminate].
  - split; [discriminate|intros [?|?]; discriminate].
Qed.

Lemma agree_meaning :
  (forall l l', agree (MRead (RSols l)) (IRead l') = true <-> l = l') /\
  (forall e i, agree (MRead (RErr e)) i = true <-> i = IErr (err_term e)) /\
  (forall F i, agree (MWrite F WOk) i = true <-> i = IWrite true) /\
  (forall F e i, agree (MWrite F (WErr e)) i = true <-> i = IErr (err_term e)) /\
  (forall F i, agree (MWrite F WRefused) i = true <-> i = IWrite false \/ i = IErr (perm_modify_flag F)).
Proof.
  split; [exact agree_read_sols|]. split; [exact agree_read_err|]. split; [exact agree_write_ok|].
  split; [exact agree_write_err|exact agree_write_refused].
Qed.

(* ---------------------------------------------------------------- the per-step check is the check on the whole history *)
Lemma run_filter_writes ops : forall s, run s (filter is_write ops) = run s ops.
Proof.
  induction ops as [|o ops IH]; intro s; [reflexivity|].
  destruct o as [F V|F V|str]; cbn [filter is_write].
  - rewrite IH. reflexivity.
  - unfold run. cbn [fold_left]. apply IH.
  - rewrite IH. reflexivity.
Qed.

Lemma check_step_is_check_at k ops obs o i : nth_error ops k = Some o -> nth_error obs k = Some i ->
  check_at k ops obs = check_step (filter is_write (firstn k ops)) o i.
Proof.
  intros Ho Hi. unfold check_at, check_step, expected. rewrite Ho, Hi, run_filter_writes. reflexivity.
Qed.
