(* C55 -- writeq/print quote exactly as ISO requires: executable model (definitions only).

   Part 1 (impl mirror): non_quoted_token / non_quoted_graphic_token / char_to_string / print_op_addendum of
           src/heap_print.rs, arm by arm, over the character classes regenerated from src/parser/macros.rs
           (Gen/CharClass.v).
   Part 2 (independent spec): the ISO 6.4.2 token grammar (letter digit token, graphic token, solo atoms) over
           character tables written down here from ISO 6.5, NOT taken from the generated file.
   Part 3: reference unescaper for quoted atoms (ISO 6.4.2.1) and the reference reader for one atom text.
   Part 4: functional-notation (canonical) reference writer, shared with C15. *)
From Coq Require Import NArith ZArith List Bool String Ascii.
From V Require Import Base.Term Gen.CharClass.
Import ListNotations.
Open Scope N_scope.
Open Scope bool_scope.

(* ------------------------------------------------------------------ numbers as digit strings *)
(* least significant digit first *)
Fixpoint digits_rev (base : N) (fuel : nat) (n : N) : list N :=
  match fuel with
  | O => []
  | S k => if n <? base then [n] else (n mod base) :: digits_rev base k (n / base)
  end.
Definition digit_char (d : N) : N := if d <? 10 then 48 + d else 87 + d.     (* 0-9 a-f (Rust {:x}) *)
Definition num_fuel (n : N) : nat := S (N.to_nat (N.size n)).
Definition to_base (base n : N) : list N := map digit_char (rev (digits_rev base (num_fuel n) n)).
Definition to_hex : N -> list N := to_base 16.
Definition to_dec : N -> list N := to_base 10.

(* ------------------------------------------------------------------ Part 1: impl mirror *)
(* fn non_quoted_graphic_token(iter, c) *)
Definition non_quoted_graphic_token (c : N) (rest : list N) : bool :=
  if c =? 47 then                                   (* '/' *)
    match rest with
    | [] => true
    | d :: r => if d =? 42 then false               (* starts a comment *)
                else if graphic_token_char d then forallb graphic_token_char r else false
    end
  else if c =? 46 then                              (* '.' *)
    match rest with
    | [] => false
    | d :: r => if graphic_token_char d then forallb graphic_token_char r else false
    end
  else forallb graphic_token_char rest.

(* fn non_quoted_token(iter) *)
Definition non_quoted_token (s : list N) : bool :=
  match s with
  | [] => false
  | c :: rest =>
    if small_letter_char c then forallb alpha_numeric_char rest
    else if graphic_token_char c then non_quoted_graphic_token c rest
    else if semicolon_char c || cut_char c then match rest with [] => true | _ => false end
    else if c =? 91 then match rest with [d] => d =? 93 | _ => false end
    else if c =? 123 then match rest with [d] => d =? 125 | _ => false end
    else if solo_char c then
      negb ((c =? 40) || (c =? 41) || (c =? 125) || (c =? 93) || (c =? 44) || (c =? 37) || (c =? 124))
    else false
  end.

Definition needs_quote_impl (s : list N) : bool := negb (non_quoted_token s).

(* fn char_to_string(is_quoted = true, c) *)
Definition esc_char (c : N) : list N :=
  if c =? 39 then [92; 39]
  else if c =? 10 then [92; 110]
  else if c =? 13 then [92; 114]
  else if c =? 9 then [92; 116]
  else if c =? 11 then [92; 118]
  else if c =? 12 then [92; 102]
  else if c =? 8 then [92; 98]
  else if c =? 7 then [92; 97]
  else if c =? 92 then [92; 92]
  else if (c =? 32) || (c =? 34) then [c]
  else if u_is_whitespace c || u_is_control c then 92 :: 120 :: to_hex c ++ [92]
  else [c].

(* fn char_to_string(is_quoted = false, c): used for the characters of strings only *)
Definition raw_char (c : N) : list N :=
  if (c =? 32) || (c =? 39) || (c =? 10) || (c =? 13) || (c =? 9) || (c =? 11) || (c =? 12) || (c =? 8) || (c =? 7)
     || (c =? 34) || (c =? 92) then [c]
  else if u_is_whitespace c || u_is_control c then 92 :: 120 :: to_hex c ++ [92]
  else [c].

Definition quote_text (s : list N) : list N := 39 :: flat_map esc_char s ++ [39].

(* print_op_addendum: the text of an atom under quoted(Q).  (The implementation has one more arm, `atom == "''"`,
   which prints the two-quote atom as the empty atom's text; the model follows the property, not that arm.) *)
Definition atom_text (quoted : bool) (s : list N) : list N :=
  if negb quoted || non_quoted_token s then s else quote_text s.

(* ------------------------------------------------------------------ Part 2: ISO token grammar, independent tables *)
(* ISO 6.5.2: small letters a..z, capital letters A..Z, digits, underscore; 6.5.1 graphic chars; 6.5.3 solo chars.
   Extended characters (6.5: processor defined): the non-ASCII members of the modelled alphabet, classified by their
   Unicode general category: letters that are not upper case count as small letters, upper case letters as capitals,
   other printing characters (numbers, symbols, format characters) as further alphanumerics. *)
Definition ext_small : list N := [223; 233; 453; 955; 26085; 26412].
Definition ext_capital : list N := [201; 937; 8551].
Definition ext_alnum : list N := [178; 8203; 8470; 128512].
Definition iso_small (c : N) : bool := ((97 <=? c) && (c <=? 122)) || mem_N c ext_small.
Definition iso_capital (c : N) : bool := ((65 <=? c) && (c <=? 90)) || mem_N c ext_capital.
Definition iso_digit (c : N) : bool := (48 <=? c) && (c <=? 57).
Definition iso_alnum (c : N) : bool := iso_small c || iso_capital c || iso_digit c || (c =? 95) || mem_N c ext_alnum.
(* # $ & * + - . / : < = > ? @ ^ ~ *)
Definition iso_graphic (c : N) : bool := mem_N c [35; 36; 38; 42; 43; 45; 46; 47; 58; 60; 61; 62; 63; 64; 94; 126].
(* graphic token char = graphic char | backslash char *)
Definition iso_symbol (c : N) : bool := iso_graphic c || (c =? 92).

Definition letter_digit (s : list N) : Prop :=
  exists c r, s = c :: r /\ iso_small c = true /\ Forall (fun d => iso_alnum d = true) r.
(* a graphic token that cannot be misread: not the end token, not the start of a bracketed comment *)
Definition safe_graphic (s : list N) : Prop :=
  s <> [] /\ Forall (fun d => iso_symbol d = true) s /\ s <> [46] /\ ~ (exists r, s = 47 :: 42 :: r).
(* [] {} ! ;   (the comma and the bar need quotes) *)
Definition solo (s : list N) : Prop := s = [91; 93] \/ s = [123; 125] \/ s = [33] \/ s = [59].

Definition in_alphabet (s : list N) : Prop := Forall (fun c => modelled c = true) s.

(* boolean recogniser of the same grammar *)
Definition starts_comment (s : list N) : bool := match s with a :: b :: _ => (a =? 47) && (b =? 42) | _ => false end.
Definition name_eq (a b : list N) : bool := list_eqb N.eqb a b.
Definition iso_unquoted_b (s : list N) : bool :=
  match s with
  | [] => false
  | c :: r =>
    (iso_small c && forallb iso_alnum r)
    || (forallb iso_symbol s && negb (name_eq s [46]) && negb (starts_comment s))
    || name_eq s [91; 93] || name_eq s [123; 125] || name_eq s [33] || name_eq s [59]
  end.

(* ------------------------------------------------------------------ Part 3: reference unescaper (ISO 6.4.2.1) *)
Inductive ustate := UNorm | UEsc | UHex (acc : option N) | UQuote.
Definition hex_val (c : N) : option N :=
  if (48 <=? c) && (c <=? 57) then Some (c - 48)
  else if (97 <=? c) && (c <=? 102) then Some (c - 87)
  else if (65 <=? c) && (c <=? 70) then Some (c - 55)
  else None.
Definition esc_val (c : N) : option N :=
  if c =? 110 then Some 10 else if c =? 114 then Some 13 else if c =? 116 then Some 9
  else if c =? 118 then Some 11 else if c =? 102 then Some 12 else if c =? 98 then Some 8
  else if c =? 97 then Some 7 else if c =? 92 then Some 92 else if c =? 39 then Some 39
  else if c =? 34 then Some 34 else if c =? 96 then Some 96 else None.
(* the text after the opening quote; succeeds only when the closing quote is the last character.
   A raw ASCII control character (including newline and tab) inside the quotes is rejected. *)
Fixpoint unq (st : ustate) (s : list N) : option (list N) :=
  match s with
  | [] => match st with UQuote => Some [] | _ => None end
  | c :: r =>
    match st with
    | UNorm => if c =? 39 then unq UQuote r
               else if c =? 92 then unq UEsc r
               else if (c <? 32) || (c =? 127) then None
               else option_map (cons c) (unq UNorm r)
    | UQuote => if c =? 39 then option_map (cons 39) (unq UNorm r) else None
    | UEsc => if c =? 120 then unq (UHex None) r
              else match esc_val c with Some v => option_map (cons v) (unq UNorm r) | None => None end
    | UHex acc =>
        if c =? 92 then match acc with Some v => option_map (cons v) (unq UNorm r) | None => None end
        else match hex_val c with
             | Some d => unq (UHex (Some (match acc with Some a => a * 16 + d | None => d end))) r
             | None => None
             end
    end
  end.
Definition unquote (s : list N) : option (list N) :=
  match s with c :: r => if c =? 39 then unq UNorm r else None | [] => None end.

(* reference reader for the text of ONE atom: a quoted item, or an unquoted ISO name token *)
Definition read_atom_ref (t : list N) : option (list N) :=
  match t with
  | c :: _ => if c =? 39 then unquote t else if iso_unquoted_b t then Some t else None
  | [] => None
  end.

(* ------------------------------------------------------------------ Part 4: canonical (functional notation) writer *)
Definition write_int (z : Z) : list N :=
  match z with
  | Z0 => to_dec 0
  | Zpos p => to_dec (Npos p)
  | Zneg p => 45 :: to_dec (Npos p)
  end.
Fixpoint join_args (l : list (list N)) : list N :=
  match l with
  | [] => []
  | [x] => x
  | x :: r => x ++ 44 :: join_args r
  end.
(* variables print as _G<n>; floats and rationals are outside the fragment (written as the empty text) *)
Fixpoint write_canonical_ref (t : term) : list N :=
  match t with
  | Var v => 95 :: 71 :: to_dec v
  | Int z => write_int z
  | Atom s => atom_text true s
  | Cmp f args => atom_text true f ++ 40 :: join_args (map write_canonical_ref args) ++ [41]
  | Rat _ _ => []
  | Flt _ => []
  end.

(* ------------------------------------------------------------------ comparison functions of the correspondence *)
(* code point lists are passed to the model as strings of decimal numbers separated by blanks (fast to elaborate) *)
Fixpoint codes_go (s : string) (cur : option N) : list N :=
  match s with
  | EmptyString => match cur with Some n => [n] | None => [] end
  | String a r =>
    let c := N_of_ascii a in
    if (48 <=? c) && (c <=? 57)
    then codes_go r (Some (match cur with Some n => n * 10 + (c - 48) | None => c - 48 end))
    else match cur with Some n => n :: codes_go r None | None => codes_go r None end
  end.
Definition codes (s : string) : list N := codes_go s None.
Definition text_eq (a b : list N) : bool := list_eqb N.eqb a b.
(* one atom: writeq text, write_term(quoted(true)) text, format ~q text, write text, what the implementation read back
   from the model's text, and the reference reader on the implementation's text *)
Definition check_atom (s wq wt fq w back : list N) : bool :=
  let m := atom_text true s in
  text_eq m wq && text_eq m wt && text_eq m fq && text_eq (atom_text false s) w && text_eq back s
  && match read_atom_ref wq with Some s' => text_eq s' s | None => false end.
Definition check_canonical (t : term) (out : list N) : bool := text_eq (write_canonical_ref t) out.
(* character classes: (is_alphabetic, is_uppercase, is_numeric, is_whitespace, is_control, alpha, alnum, graphic,
   graphic_token, layout, meta, solo, decimal_digit, symbolic_control) as observed through char_type/2 *)
Definition class_vector (c : N) : list bool :=
  [u_is_alphabetic c; u_is_uppercase c; u_is_numeric c; u_is_whitespace c; u_is_control c; alpha_char c;
   alpha_numeric_char c; graphic_char c; graphic_token_char c; layout_char c; meta_char c; solo_char c;
   decimal_digit_char c; symbolic_control_char c; hexadecimal_digit_char c; octal_digit_char c; binary_digit_char c;
   sign_char c; exponent_char c].
Definition check_class (c : N) (obs : list bool) : bool := list_eqb Bool.eqb (class_vector c) obs.
(* write/1 of a list of one-character atoms: raw characters between brackets (no quotes, no escapes) *)
Definition write_char_list (s : list N) : list N := 91 :: join_args (map (fun c => [c]) s) ++ [93].
Definition check_write_chars (s out_list out_string : list N) : bool :=
  text_eq (write_char_list s) out_list && text_eq (write_char_list s) out_string.
