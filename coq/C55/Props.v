(* C55 -- pinned property theorems (nothing else lives here) *)
From Coq Require Import List NArith Bool.
From V Require Import Base.Term Gen.CharClass C55.Model C55.Proofs C15.Model C15.Proofs.
Import ListNotations.
Open Scope N_scope.

(* The quoting decision of heap_print.rs (mirror of non_quoted_token over the character classes regenerated from
   src/parser/macros.rs) leaves an atom unquoted exactly when its text is an ISO letter-digit token starting with a small
   letter, a graphic token that is neither the end token nor the start of a comment, or one of the solo atoms [] {} ! ;
   -- for every string over the modelled alphabet (all of ASCII and the table of non-ASCII characters). *)
Theorem unquoted_iff_iso : forall s, in_alphabet s ->
  (needs_quote_impl s = false <-> letter_digit s \/ safe_graphic s \/ solo s).
Proof. exact unquoted_iff_iso_proof. Qed.
Print Assumptions unquoted_iff_iso.

(* The quoted form (mirror of char_to_string: \\ \' \n \r \t \v \f \b \a and \xHH\ for every other control or
   white-space character) is inverted by the reference unescaper, for EVERY string of code points; the unescaper rejects
   raw ASCII control characters, so none is emitted. *)
Theorem quoted_text_escapes : forall s, unquote (quote_text s) = Some s.
Proof. exact quoted_text_escapes_proof. Qed.
Print Assumptions quoted_text_escapes.

(* write/1 (quoted(false)) prints the raw text of an atom, whatever it contains *)
Theorem write_never_quotes : forall s, atom_text false s = s.
Proof. exact write_never_quotes_proof. Qed.
Print Assumptions write_never_quotes.

(* the text writeq gives an atom is read back as that atom by the reference atom reader (ISO name tokens and
   quoted items): quotes are present whenever they are needed *)
Theorem atom_text_reads_back : forall s, in_alphabet s -> read_atom_ref (atom_text true s) = Some s.
Proof. exact atom_text_reads_back_proof. Qed.
Print Assumptions atom_text_reads_back.

(* two different atoms never get the same writeq text *)
Theorem atom_text_injective : forall s1 s2, in_alphabet s1 -> in_alphabet s2 ->
  atom_text true s1 = atom_text true s2 -> s1 = s2.
Proof. exact atom_text_injective_proof. Qed.
Print Assumptions atom_text_injective.

(* write_canonical ignores operators: the functional-notation text of every term of the fragment (the text the
   implementation's write_canonical/1 is compared with) is read back by a reader that knows NO operator table *)
Theorem canonical_has_no_operators : forall t, wf t -> read_canonical_ref (write_canonical_ref t) = Some t.
Proof. exact canonical_roundtrip_proof. Qed.
Print Assumptions canonical_has_no_operators.

(* the comparison function of the correspondence means what it says *)
Theorem check_atom_meaning : forall s wq wt fq w back, check_atom s wq wt fq w back = true ->
  wq = atom_text true s /\ wt = atom_text true s /\ fq = atom_text true s /\ w = s /\ back = s.
Proof. exact check_atom_sound. Qed.
Print Assumptions check_atom_meaning.

(* non-vacuity: the alphabet has ASCII and non-ASCII members, and each class of the grammar is inhabited *)
Example alphabet_inhabited : in_alphabet [97; 233; 26085; 0; 127; 128512].
Proof. repeat constructor. Qed.
Example ex_letter_digit : letter_digit [97; 95; 66; 49].           (* a_B1 *)
Proof. exists 97, [95; 66; 49]. repeat split; repeat constructor. Qed.
Example ex_safe_graphic : safe_graphic [45; 45; 62].               (* --> *)
Proof.
  repeat split; try discriminate; repeat constructor. intros (r & H). discriminate.
Qed.
Example ex_solo : solo [91; 93].
Proof. left. reflexivity. Qed.
Example ex_needs_quote : needs_quote_impl [47; 42] = true /\ needs_quote_impl [46] = true /\ needs_quote_impl [44] = true
                         /\ needs_quote_impl [124] = true /\ needs_quote_impl [] = true /\ needs_quote_impl [65] = true.
Proof. vm_compute. repeat split. Qed.
Example ex_quote : quote_text [97; 39; 10; 1; 92] = [39; 97; 92; 39; 92; 110; 92; 120; 49; 92; 92; 92; 39].
Proof. vm_compute. reflexivity. Qed.
