(* C55 -- lemmas *)
From Coq Require Import NArith ZArith List Bool Lia.
From V Require Import Base.Term Gen.CharClass C55.Model.
Import ListNotations.
Open Scope N_scope.
Open Scope bool_scope.

(* ------------------------------------------------------------------ generic list facts *)
Lemma forallb_Forall {A} (f : A -> bool) l : forallb f l = true <-> Forall (fun x => f x = true) l.
Proof. rewrite forallb_forall, Forall_forall. tauto. Qed.

Lemma name_eq_iff a b : name_eq a b = true <-> a = b.
Proof.
  unfold name_eq. revert b. induction a as [|x a IH]; intros [|y b]; cbn [list_eqb]; try (split; congruence).
  rewrite andb_true_iff, N.eqb_eq, IH. split; [intros [-> ->]; auto | intros [= -> ->]; auto].
Qed.

Lemma text_eq_iff a b : text_eq a b = true <-> a = b.
Proof. exact (name_eq_iff a b). Qed.

Lemma starts_comment_iff s : starts_comment s = true <-> exists r, s = 47 :: 42 :: r.
Proof.
  unfold starts_comment. destruct s as [|a [|b r]].
  - split; [discriminate | intros (r & H); discriminate].
  - split; [discriminate | intros (r & H); discriminate].
  - rewrite andb_true_iff, !N.eqb_eq. split.
    + intros [-> ->]. eauto.
    + intros (r' & [= -> -> _]). auto.
Qed.

(* ------------------------------------------------------------------ the alphabet is finite: facts by enumeration *)
Definition alphabet : list N := map N.of_nat (seq 0 128) ++ u_table.

Lemma modelled_in_alphabet c : modelled c = true -> In c alphabet.
Proof.
  unfold modelled, alphabet. intros H. apply orb_true_iff in H. apply in_or_app. destruct H as [H|H].
  - left. apply N.ltb_lt in H. apply in_map_iff. exists (N.to_nat c). split.
    + apply Nnat.N2Nat.id.
    + apply in_seq. lia.
  - right. unfold mem_N in H. apply existsb_exists in H. destruct H as (x & Hin & Hx).
    apply N.eqb_eq in Hx. subst; auto.
Qed.

Lemma forall_alphabet (f : N -> bool) : forallb f alphabet = true -> forall c, modelled c = true -> f c = true.
Proof. intros H c Hc. rewrite forallb_forall in H. apply H. apply modelled_in_alphabet; auto. Qed.

(* what the proof needs about one character: the generated classes agree with the ISO tables *)
Definition char_ok (c : N) : bool :=
  Bool.eqb (small_letter_char c) (iso_small c)
  && Bool.eqb (alpha_numeric_char c) (iso_alnum c)
  && Bool.eqb (graphic_token_char c) (iso_symbol c)
  && Bool.eqb (solo_char c) (mem_N c [33; 40; 41; 44; 59; 91; 93; 123; 125; 124; 37])
  && Bool.eqb (semicolon_char c) (c =? 59)
  && Bool.eqb (cut_char c) (c =? 33).

Lemma char_ok_all : forallb char_ok alphabet = true.
Proof. vm_compute. reflexivity. Qed.

Lemma char_facts c : modelled c = true ->
  small_letter_char c = iso_small c /\ alpha_numeric_char c = iso_alnum c /\ graphic_token_char c = iso_symbol c
  /\ solo_char c = mem_N c [33; 40; 41; 44; 59; 91; 93; 123; 125; 124; 37]
  /\ semicolon_char c = (c =? 59) /\ cut_char c = (c =? 33).
Proof.
  intros H. pose proof (forall_alphabet char_ok char_ok_all c H) as K. unfold char_ok in K.
  repeat (apply andb_true_iff in K; destruct K as [K ?]).
  repeat match goal with H : Bool.eqb _ _ = true |- _ => apply Bool.eqb_prop in H end.
  repeat split; assumption.
Qed.

Lemma forallb_ext_modelled (f g : N -> bool) l :
  (forall c, modelled c = true -> f c = g c) -> in_alphabet l -> forallb f l = forallb g l.
Proof.
  intros E H. induction H as [|c l Hc Hl IH]; cbn [forallb]; [reflexivity|]. rewrite (E c Hc), IH. reflexivity.
Qed.

(* ------------------------------------------------------------------ the boolean recogniser is the ISO grammar *)
Lemma iso_unquoted_b_spec s : iso_unquoted_b s = true <-> letter_digit s \/ safe_graphic s \/ solo s.
Proof.
  unfold letter_digit, safe_graphic, solo. destruct s as [|c r].
  - cbn. split; [discriminate|].
    intros [(c & r & H & _)|[(H & _)|[H|[H|[H|H]]]]]; congruence.
  - unfold iso_unquoted_b. rewrite !orb_true_iff, !andb_true_iff, !negb_true_iff, !name_eq_iff, !forallb_Forall.
    assert (NE : name_eq (c :: r) [46] = false <-> c :: r <> [46]).
    { destruct (name_eq (c :: r) [46]) eqn:E.
      - apply name_eq_iff in E. split; [discriminate | intros K; contradiction].
      - split; auto. intros _ K. apply name_eq_iff in K. congruence. }
    assert (SC : starts_comment (c :: r) = false <-> ~ (exists r0, c :: r = 47 :: 42 :: r0)).
    { destruct (starts_comment (c :: r)) eqn:E.
      - apply starts_comment_iff in E. split; [discriminate | intros K; contradiction].
      - split; auto. intros _ K. apply starts_comment_iff in K. congruence. }
    rewrite NE, SC.
    split.
    + intros [[[[[[A B]|[[A B] C]]|A]|A]|A]|A].
      * left. exists c, r. auto.
      * right; left. repeat split; auto. congruence.
      * right; right. auto.
      * right; right. auto.
      * right; right. auto.
      * right; right. auto.
    + intros [(c' & r' & [= <- <-] & A & B)|[(_ & A & B & C)|[H|[H|[H|H]]]]].
      * do 5 left. auto.
      * do 4 left. right. auto.
      * do 3 left. right. auto.
      * do 2 left. right. auto.
      * left. right. auto.
      * right. auto.
Qed.

(* ------------------------------------------------------------------ the mirror computes the ISO recogniser *)
Lemma forallb_cons_b {A} (f : A -> bool) x l : forallb f (x :: l) = f x && forallb f l.
Proof. reflexivity. Qed.

Lemma mirror_is_iso s : in_alphabet s -> non_quoted_token s = iso_unquoted_b s.
Proof.
  intros H. destruct s as [|c r]; [reflexivity|].
  inversion H as [|c' r' Hc Hr]; subst.
  destruct (char_facts c Hc) as (F1 & F2 & F3 & F4 & F5 & F6).
  assert (EA : forallb alpha_numeric_char r = forallb iso_alnum r).
  { apply forallb_ext_modelled; auto. intros d Hd. apply (char_facts d Hd). }
  assert (EG : forallb graphic_token_char r = forallb iso_symbol r).
  { apply forallb_ext_modelled; auto. intros d Hd. apply (char_facts d Hd). }
  unfold non_quoted_token, iso_unquoted_b. rewrite F1, F3, F4, F5, F6, EA.
  assert (D : iso_small c && iso_symbol c = false).
  { pose proof (forall_alphabet (fun c => negb (iso_small c && iso_symbol c)) eq_refl c Hc) as K.
    cbn beta in K. apply negb_true_iff in K. exact K. }
  destruct (iso_small c) eqn:S1.
  - (* letter digit token *)
    cbn [andb] in D. rewrite forallb_cons_b, D. cbn [andb orb].
    destruct (name_eq (c :: r) [91; 93]) eqn:E1.
    { exfalso. apply name_eq_iff in E1. injection E1 as -> _. vm_compute in S1. discriminate. }
    destruct (name_eq (c :: r) [123; 125]) eqn:E2.
    { exfalso. apply name_eq_iff in E2. injection E2 as -> _. vm_compute in S1. discriminate. }
    destruct (name_eq (c :: r) [33]) eqn:E3.
    { exfalso. apply name_eq_iff in E3. injection E3 as -> _. vm_compute in S1. discriminate. }
    destruct (name_eq (c :: r) [59]) eqn:E4.
    { exfalso. apply name_eq_iff in E4. injection E4 as -> _. vm_compute in S1. discriminate. }
    rewrite !orb_false_r. reflexivity.
  - cbn [andb orb].
    destruct (iso_symbol c) eqn:S2.
    + (* graphic token *)
      assert (NS : name_eq (c :: r) [91; 93] = false /\ name_eq (c :: r) [123; 125] = false
                   /\ name_eq (c :: r) [33] = false /\ name_eq (c :: r) [59] = false).
      { repeat split; match goal with |- ?x = false => destruct x eqn:E; auto end;
          apply name_eq_iff in E; injection E as -> _; vm_compute in S2; discriminate. }
      destruct NS as (-> & -> & -> & ->). rewrite !orb_false_r.
      rewrite forallb_cons_b, S2. cbn [andb].
      unfold non_quoted_graphic_token.
      destruct (c =? 47) eqn:C47.
      * apply N.eqb_eq in C47. subst c. destruct r as [|d r2]; [reflexivity|].
        inversion Hr as [|d' r2' Hd Hr2]; subst.
        destruct (char_facts d Hd) as (_ & _ & G3 & _).
        assert (EG2 : forallb graphic_token_char r2 = forallb iso_symbol r2).
        { apply forallb_ext_modelled; auto. intros e He. apply (char_facts e He). }
        rewrite G3, EG2. cbn [starts_comment name_eq list_eqb forallb].
        change (47 =? 47) with true. change (47 =? 46) with false. cbn [andb negb].
        destruct (d =? 42) eqn:D42.
        -- rewrite andb_false_r. reflexivity.
        -- cbn [negb]. rewrite andb_true_r. destruct (iso_symbol d); cbn [andb]; rewrite ?andb_true_r, ?andb_false_r; reflexivity.
      * destruct (c =? 46) eqn:C46.
        -- apply N.eqb_eq in C46. subst c. destruct r as [|d r2]; [reflexivity|].
           inversion Hr as [|d' r2' Hd Hr2]; subst.
           destruct (char_facts d Hd) as (_ & _ & G3 & _).
           assert (EG2 : forallb graphic_token_char r2 = forallb iso_symbol r2).
           { apply forallb_ext_modelled; auto. intros e He. apply (char_facts e He). }
           rewrite G3, EG2. cbn [starts_comment name_eq list_eqb forallb].
           change (46 =? 47) with false. change (46 =? 46) with true. cbn [andb negb].
           rewrite andb_true_r. destruct (iso_symbol d); cbn [andb]; rewrite ?andb_true_r, ?andb_false_r; reflexivity.
        -- rewrite EG.
           assert (X1 : name_eq (c :: r) [46] = false).
           { destruct (name_eq (c :: r) [46]) eqn:E; auto. apply name_eq_iff in E. injection E as -> _.
             discriminate. }
           assert (X2 : starts_comment (c :: r) = false).
           { unfold starts_comment. destruct r; auto. rewrite C47. reflexivity. }
           rewrite X1, X2. cbn [negb]. rewrite !andb_true_r. reflexivity.
    + (* solo atoms *)
      rewrite forallb_cons_b, S2. cbn [andb orb].
      destruct (c =? 59) eqn:C59.
      { apply N.eqb_eq in C59. subst c. destruct r as [|d r2]; reflexivity. }
      destruct (c =? 33) eqn:C33.
      { apply N.eqb_eq in C33. subst c. destruct r as [|d r2]; reflexivity. }
      cbn [orb].
      assert (Y1 : name_eq (c :: r) [33] = false).
      { cbn [name_eq list_eqb]. unfold name_eq. cbn [list_eqb]. rewrite C33. reflexivity. }
      assert (Y2 : name_eq (c :: r) [59] = false).
      { unfold name_eq. cbn [list_eqb]. rewrite C59. reflexivity. }
      rewrite Y1, Y2, !orb_false_r.
      destruct (c =? 91) eqn:C91.
      { apply N.eqb_eq in C91. subst c. destruct r as [|d [|e r3]]; try reflexivity.
        unfold name_eq. cbn [list_eqb]. change (91 =? 91) with true. change (91 =? 123) with false.
        cbn [andb orb]. rewrite andb_true_r, orb_false_r. reflexivity.
        unfold name_eq. cbn [list_eqb]. change (91 =? 123) with false. rewrite !andb_false_r. reflexivity. }
      destruct (c =? 123) eqn:C123.
      { apply N.eqb_eq in C123. subst c. destruct r as [|d [|e r3]]; try reflexivity.
        unfold name_eq. cbn [list_eqb]. change (123 =? 91) with false. change (123 =? 123) with true.
        cbn [andb orb]. rewrite andb_true_r. reflexivity.
        unfold name_eq. cbn [list_eqb]. change (123 =? 91) with false. rewrite !andb_false_r. reflexivity. }
      assert (Y3 : name_eq (c :: r) [91; 93] = false).
      { unfold name_eq. cbn [list_eqb]. rewrite C91. reflexivity. }
      assert (Y4 : name_eq (c :: r) [123; 125] = false).
      { unfold name_eq. cbn [list_eqb]. rewrite C123. reflexivity. }
      rewrite Y3, Y4. cbn [orb].
      (* the last arm: a solo character that is not ; ! [ { is one of ( ) } ] , % | *)
      unfold mem_N. cbn [existsb]. rewrite C59, C33, C91, C123. cbn [orb].
      destruct (c =? 40), (c =? 41), (c =? 44), (c =? 93), (c =? 125), (c =? 124), (c =? 37); reflexivity.
Qed.

Lemma unquoted_iff_iso_proof s : in_alphabet s ->
  (needs_quote_impl s = false <-> letter_digit s \/ safe_graphic s \/ solo s).
Proof.
  intros H. unfold needs_quote_impl. rewrite negb_false_iff, (mirror_is_iso s H). apply iso_unquoted_b_spec.
Qed.

(* ------------------------------------------------------------------ digit strings *)
Section Digits.
  Variable base : N.
  Hypothesis base_gt1 : 1 < base.

  Lemma digits_rev_value fuel : forall n, n < base ^ N.of_nat fuel ->
    fold_right (fun d a => a * base + d) 0 (digits_rev base fuel n) = n.
  Proof.
    induction fuel as [|k IH]; intros n Hn.
    - cbn in Hn. cbn. lia.
    - cbn [digits_rev]. destruct (n <? base) eqn:E.
      + cbn. lia.
      + apply N.ltb_ge in E. cbn [fold_right]. rewrite IH.
        * pose proof (N.div_mod n base). lia.
        * rewrite Nnat.Nat2N.inj_succ, N.pow_succ_r' in Hn. apply N.div_lt_upper_bound; lia.
  Qed.

  Lemma digits_rev_lt fuel : forall n, Forall (fun d => d < base) (digits_rev base fuel n).
  Proof.
    induction fuel as [|k IH]; intros n; cbn [digits_rev]; [constructor|].
    destruct (n <? base) eqn:E.
    - constructor; [apply N.ltb_lt; exact E | constructor].
    - constructor; [apply N.mod_lt; lia | apply IH].
  Qed.

  Lemma digits_rev_nonempty fuel n : digits_rev base (S fuel) n <> [].
  Proof. cbn [digits_rev]. destruct (n <? base); discriminate. Qed.

  Lemma num_fuel_enough n : n < base ^ N.of_nat (num_fuel n).
  Proof.
    unfold num_fuel. rewrite Nnat.Nat2N.inj_succ, Nnat.N2Nat.id.
    pose proof (N.size_gt n) as G.
    assert (L1 : 2 ^ N.size n <= base ^ N.size n) by (apply N.pow_le_mono_l; lia).
    assert (L2 : base ^ N.size n <= base ^ N.succ (N.size n)) by (apply N.pow_le_mono_r; lia).
    lia.
  Qed.

  Definition digits_msf (n : N) : list N := rev (digits_rev base (num_fuel n) n).

  Lemma digits_msf_value n : fold_left (fun a d => a * base + d) (digits_msf n) 0 = n.
  Proof.
    unfold digits_msf.
    rewrite <- (rev_involutive (digits_rev base (num_fuel n) n)) at 1.
    rewrite <- fold_left_rev_right, !rev_involutive.
    apply digits_rev_value. apply num_fuel_enough.
  Qed.

  Lemma digits_msf_lt n : Forall (fun d => d < base) (digits_msf n).
  Proof. unfold digits_msf. apply Forall_rev. apply digits_rev_lt. Qed.

  Lemma digits_msf_nonempty n : digits_msf n <> [].
  Proof.
    unfold digits_msf, num_fuel. intros E. apply (f_equal (@rev N)) in E. rewrite rev_involutive in E. cbn [rev] in E.
    exact (digits_rev_nonempty _ _ E).
  Qed.
End Digits.

Lemma to_base_digits base n : to_base base n = map digit_char (digits_msf base n).
Proof. reflexivity. Qed.

Lemma forall_below (k : nat) (f : N -> bool) :
  forallb f (map N.of_nat (seq 0 k)) = true -> forall d, d < N.of_nat k -> f d = true.
Proof.
  intros H d Hd. rewrite forallb_forall in H. apply H. apply in_map_iff. exists (N.to_nat d). split.
  - apply Nnat.N2Nat.id.
  - apply in_seq. lia.
Qed.

Lemma hex_digit_ok d : d < 16 -> (digit_char d =? 92) = false /\ hex_val (digit_char d) = Some d.
Proof.
  intros H.
  pose proof (forall_below 16 (fun d => negb (digit_char d =? 92) &&
                 match hex_val (digit_char d) with Some v => v =? d | None => false end) eq_refl d H) as K.
  cbn beta in K. apply andb_true_iff in K. destruct K as [K1 K2]. apply negb_true_iff in K1. split; [exact K1|].
  destruct (hex_val (digit_char d)); [apply N.eqb_eq in K2; subst; reflexivity | discriminate].
Qed.

(* ------------------------------------------------------------------ the escapes are inverted by the reference unescaper *)
Lemma unq_hex_digits ds : forall acc rest, Forall (fun d => d < 16) ds ->
  unq (UHex (Some acc)) (map digit_char ds ++ 92 :: rest)
  = option_map (cons (fold_left (fun a d => a * 16 + d) ds acc)) (unq UNorm rest).
Proof.
  induction ds as [|d ds IH]; intros acc rest H.
  - reflexivity.
  - inversion H as [|d' ds' Hd Hds]; subst. destruct (hex_digit_ok d Hd) as [A B].
    cbn [map app unq fold_left]. rewrite A, B. apply IH. exact Hds.
Qed.

Lemma unq_hex_run n rest :
  unq (UHex None) (to_hex n ++ 92 :: rest) = option_map (cons n) (unq UNorm rest).
Proof.
  unfold to_hex. rewrite to_base_digits.
  pose proof (digits_msf_lt 16 eq_refl n) as HL. pose proof (digits_msf_nonempty 16 n) as HNE.
  pose proof (digits_msf_value 16 eq_refl n) as HV.
  remember (digits_msf 16 n) as ds0 eqn:Eds. clear Eds.
  destruct ds0 as [|d ds]; [congruence|].
  inversion HL as [|d' ds' Hd Hds]; subst d' ds'. destruct (hex_digit_ok d Hd) as [A B].
  cbn [map app unq]. rewrite A, B. rewrite unq_hex_digits by exact Hds.
  cbn [fold_left] in HV. change (0 * 16 + d) with d in HV. rewrite HV. reflexivity.
Qed.

Lemma not_control_ge32 c : u_is_whitespace c || u_is_control c = false -> (c <? 32) || (c =? 127) = false.
Proof.
  intros H. apply orb_false_iff in H. destruct H as [_ H]. unfold u_is_control in H.
  destruct (c <? 128) eqn:E.
  - apply orb_false_iff in H. destruct H as [H1 H2]. rewrite H2, orb_false_r.
    apply N.leb_gt in H1. apply N.ltb_ge. lia.
  - apply N.ltb_ge in E. apply orb_false_iff. split; [apply N.ltb_ge | apply N.eqb_neq]; lia.
Qed.

Lemma unq_esc c rest : unq UNorm (esc_char c ++ rest) = option_map (cons c) (unq UNorm rest).
Proof.
  unfold esc_char.
  destruct (c =? 39) eqn:E39; [apply N.eqb_eq in E39; subst; reflexivity|].
  destruct (c =? 10) eqn:E10; [apply N.eqb_eq in E10; subst; reflexivity|].
  destruct (c =? 13) eqn:E13; [apply N.eqb_eq in E13; subst; reflexivity|].
  destruct (c =? 9) eqn:E9; [apply N.eqb_eq in E9; subst; reflexivity|].
  destruct (c =? 11) eqn:E11; [apply N.eqb_eq in E11; subst; reflexivity|].
  destruct (c =? 12) eqn:E12; [apply N.eqb_eq in E12; subst; reflexivity|].
  destruct (c =? 8) eqn:E8; [apply N.eqb_eq in E8; subst; reflexivity|].
  destruct (c =? 7) eqn:E7; [apply N.eqb_eq in E7; subst; reflexivity|].
  destruct (c =? 92) eqn:E92; [apply N.eqb_eq in E92; subst; reflexivity|].
  destruct ((c =? 32) || (c =? 34)) eqn:E32.
  { apply orb_true_iff in E32. destruct E32 as [E|E]; apply N.eqb_eq in E; subst; reflexivity. }
  destruct (u_is_whitespace c || u_is_control c) eqn:EW.
  - cbn [app]. rewrite <- app_assoc. cbn [app].
    change (unq UNorm (92 :: 120 :: to_hex c ++ 92 :: rest)) with (unq (UHex None) (to_hex c ++ 92 :: rest)).
    apply unq_hex_run.
  - cbn [app unq]. rewrite E39, E92, (not_control_ge32 c EW). reflexivity.
Qed.

Lemma unq_body s : unq UNorm (flat_map esc_char s ++ [39]) = Some s.
Proof.
  induction s as [|c s IH].
  - reflexivity.
  - cbn [flat_map]. rewrite <- app_assoc, unq_esc, IH. reflexivity.
Qed.

Lemma quoted_text_escapes_proof s : unquote (quote_text s) = Some s.
Proof. unfold unquote, quote_text. change (39 =? 39) with true. cbn iota. apply unq_body. Qed.

Lemma write_never_quotes_proof s : atom_text false s = s.
Proof. reflexivity. Qed.

(* the text writeq produces for an atom is read back by the reference reader as that atom *)
Lemma atom_text_reads_back_proof s : in_alphabet s -> read_atom_ref (atom_text true s) = Some s.
Proof.
  intros H. unfold atom_text. cbn [negb orb]. destruct (non_quoted_token s) eqn:E.
  - rewrite (mirror_is_iso s H) in E. destruct s as [|c r]; [discriminate|].
    unfold read_atom_ref. destruct (c =? 39) eqn:C.
    + exfalso. apply N.eqb_eq in C. subst c. apply iso_unquoted_b_spec in E.
      destruct E as [(c & r' & [= <- <-] & A & _)|[(_ & A & _)|[A|[A|[A|A]]]]]; try discriminate.
      inversion A as [|x y A1 A2]; subst. discriminate.
    + rewrite E. reflexivity.
  - unfold read_atom_ref, quote_text. change (39 =? 39) with true. cbn iota.
    apply (quoted_text_escapes_proof s).
Qed.

Lemma atom_text_injective_proof s1 s2 : in_alphabet s1 -> in_alphabet s2 ->
  atom_text true s1 = atom_text true s2 -> s1 = s2.
Proof.
  intros H1 H2 E. pose proof (atom_text_reads_back_proof s1 H1) as R1.
  rewrite E, (atom_text_reads_back_proof s2 H2) in R1. congruence.
Qed.

(* the quoted form never contains a raw ASCII control character, and its only quote characters are the delimiters
   and the escaped ones: every character of the body is produced by one of the standard escapes *)
Lemma check_atom_sound s wq wt fq w back :
  check_atom s wq wt fq w back = true ->
  wq = atom_text true s /\ wt = atom_text true s /\ fq = atom_text true s /\ w = s /\ back = s.
Proof.
  unfold check_atom. rewrite !andb_true_iff, !text_eq_iff. intros [[[[[A B] C] D] E] _].
  rewrite write_never_quotes_proof in D. repeat split; congruence.
Qed.
