(* C43 -- pinned property theorems (nothing else lives here) *)
From Coq Require Import ZArith NArith List Bool String.
From V Require Import Base.Term Gen.DefaultOps C43.Model C43.Proofs.
Import ListNotations.
Open Scope Z_scope.

(* the regenerated default table: every line of the sources is a valid declaration; keys are unique, priorities lie in
   1..1200, no name is infix and postfix, [] and {} are not operators, '|' (if present) is infix >= 1001 *)
Theorem default_table_wf : default_all_valid = true /\ wf default_table.
Proof. exact default_table_both. Qed.
Print Assumptions default_table_wf.

(* every history of op/3 calls (valid or not, any arguments) from the default table keeps the table well-formed *)
Theorem history_keeps_table_wf : forall cs, wf (run default_table cs).
Proof. exact run_default_wf. Qed.
Print Assumptions history_keeps_table_wf.

Theorem no_infix_postfix_coexistence : forall cs n,
  has (run default_table cs) n Infix = true -> has (run default_table cs) n Postfix = true -> False.
Proof. exact history_no_coexistence. Qed.
Print Assumptions no_infix_postfix_coexistence.

(* ',' keeps its single definition over every history *)
Theorem comma_never_changes : forall cs, entries_named comma (run default_table cs) = [mkentry comma 1000 XFY].
Proof. exact history_comma. Qed.
Print Assumptions comma_never_changes.

(* [] and {} never become operators, '|' is only ever an infix operator of priority >= 1001, priorities stay in 1..1200 *)
Theorem brackets_braces_bar_restricted : forall cs e, In e (run default_table cs) ->
  e_name e <> nil_name /\ e_name e <> braces /\ (e_name e = bar -> cls_of (e_spec e) = Infix /\ 1001 <= e_prio e) /\ 1 <= e_prio e <= 1200.
Proof. exact history_specials. Qed.
Print Assumptions brackets_braces_bar_restricted.

(* priority 0 removes the operator of that name and class and nothing else *)
Theorem priority_zero_removes : forall t Sp n t' s, spec_of Sp = Some s -> op_call t (Int 0) Sp (Atom n) = (t', ROk) ->
  lookup t' n (cls_of s) = None /\ (forall n' c, ~ (n' = n /\ c = cls_of s) -> lookup t' n' c = lookup t n' c).
Proof. exact priority_zero_removes_atom. Qed.
Print Assumptions priority_zero_removes.

(* a rejected call (atom or list form) leaves the table unchanged and reports an error condition of the standard ... *)
Theorem rejected_call_leaves_table : forall t P Sp Nm t' e, op_call t P Sp Nm = (t', RErr e) ->
  t' = t /\ In e (applicable_errors t P Sp Nm).
Proof. exact rejected_call. Qed.
Print Assumptions rejected_call_leaves_table.

(* ... and an accepted call is applied to every name of the list (all or nothing), changing no other key *)
Theorem accepted_call_applies_all_names : forall t P Sp Nm t', op_call t P Sp Nm = (t', ROk) ->
  exists p s, prio_of P = Some p /\ spec_of Sp = Some s /\
    (forall n, In n (call_names Nm) -> lookup t' n (cls_of s) = if p =? 0 then None else Some (mkentry n p s)) /\
    (forall n c, ~ (In n (call_names Nm) /\ c = cls_of s) -> lookup t' n c = lookup t n c).
Proof. exact accepted_call_effect. Qed.
Print Assumptions accepted_call_applies_all_names.

(* a call is accepted exactly when no error condition applies; otherwise the first one in the order a) .. l) is the model's error *)
Theorem op_errors_in_iso_order :
  (forall t P Sp Nm, snd (op_call t P Sp Nm) = ROk <-> applicable_errors t P Sp Nm = []) /\
  (forall t P Sp Nm e l, applicable_errors t P Sp Nm = e :: l -> op_call t P Sp Nm = (t, RErr e)).
Proof. exact error_order_both. Qed.
Print Assumptions op_errors_in_iso_order.

(* current_op/3 with all arguments unbound enumerates exactly the table, each operator once ... *)
Theorem current_op_enumerates_table : forall cs e x y z,
  In e (current_op (run default_table cs) (Var x) (Var y) (Var z)) <->
  lookup (run default_table cs) (e_name e) (cls_of (e_spec e)) = Some e.
Proof. exact history_enumeration. Qed.
Print Assumptions current_op_enumerates_table.

Theorem current_op_enumerates_once : forall cs x y z, NoDup (current_op (run default_table cs) (Var x) (Var y) (Var z)).
Proof. exact history_enumeration_nodup. Qed.
Print Assumptions current_op_enumerates_once.

(* ... with bound arguments it selects the matching entries: all three bound = membership *)
Theorem current_op_selects : forall t P Sp Nm e, In e (current_op t P Sp Nm) <-> In e t /\ entry_matches P Sp Nm e = true.
Proof. exact current_op_In. Qed.
Print Assumptions current_op_selects.

Theorem current_op_fully_bound : forall t p s n e,
  In e (current_op t (Int p) (Atom (spec_name s)) (Atom n)) <-> e = mkentry n p s /\ In e t.
Proof. exact bound_query. Qed.
Print Assumptions current_op_fully_bound.

(* the comparison used by the correspondence: equal as sets, same number of answers *)
Theorem comparison_means_same_entries : forall m i, same_entries m i = true ->
  (forall e, In e m <-> In e i) /\ List.length m = List.length i.
Proof. exact same_entries_sound. Qed.
Print Assumptions comparison_means_same_entries.

(* ---------------------------------------------------------------- non-vacuity and the confirmed scenarios, on the model *)
Example accepted_single : snd (op_call default_table (Int 200) (A "xfy") (A "xx")) = ROk.
Proof. vm_compute. reflexivity. Qed.

Example accepted_list_applies_both :
  let t := fst (op_call default_table (Int 700) (A "xfx") (tlist [A "a"; A "xx"])) in
  lookup t (nm "a") Infix = Some (mkentry (nm "a") 700 XFX) /\ lookup t (nm "xx") Infix = Some (mkentry (nm "xx") 700 XFX).
Proof. vm_compute. split; reflexivity. Qed.

(* DESIGN.md section 10 item 6: op(200, xf, [aaa, +]) is rejected as a whole *)
Example list_form_all_or_nothing :
  op_call default_table (Int 200) (A "xf") (tlist [A "aaa"; A "+"]) = (default_table, RErr (EPermCreate (A "+"))).
Proof. vm_compute. reflexivity. Qed.

Example bar_in_a_list_is_restricted_too :
  snd (op_call default_table (Int 200) (A "xfy") (tlist [A "|"])) = RErr (EPermCreate (A "|")).
Proof. vm_compute. reflexivity. Qed.

Example bar_allowed_high : snd (op_call default_table (Int 1100) (A "xfy") (A "|")) = ROk.
Proof. vm_compute. reflexivity. Qed.

Example comma_rejected : snd (op_call default_table (Int 0) (A "xfx") (A ",")) = RErr (EPermModify (A ",")).
Proof. vm_compute. reflexivity. Qed.

Example removal : lookup (fst (op_call default_table (Int 0) (A "yfx") (A "mod"))) (nm "mod") Infix = None.
Proof. vm_compute. reflexivity. Qed.

Example several_errors_apply :
  applicable_errors default_table (A "foo") (A "bar") (Int 1) =
  [ETypeInteger (A "foo"); ETypeList (Int 1); EDomSpecifier (A "bar")].
Proof. vm_compute. reflexivity. Qed.

Example priority_bound_query :
  map show_entry (current_op default_table (Int 200) (Var 0) (Var 0)) =
  [(200, nm "xfx", nm "**"); (200, nm "xfy", nm "^"); (200, nm "fy", nm "+"); (200, nm "fy", nm "-"); (200, nm "fy", nm "\")].
Proof. vm_compute. reflexivity. Qed.
