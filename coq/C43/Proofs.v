(* C43 -- lemmas about the operator-table model *)
From Coq Require Import ZArith NArith List Bool String Ascii Lia.
From V Require Import Base.Term Gen.DefaultOps C43.Model.
Import ListNotations.
Open Scope Z_scope.

(* ---------------------------------------------------------------- equalities *)
Lemma list_eqb_eq {X} (eqb : X -> X -> bool) :
  (forall x y, eqb x y = true <-> x = y) -> forall a b, list_eqb eqb a b = true <-> a = b.
Proof.
  intros H a. induction a as [|x a IH]; intros [|y b]; cbn; split; intro E; try congruence; try discriminate.
  - apply andb_true_iff in E. destruct E as [E1 E2]. apply H in E1. apply IH in E2. congruence.
  - inversion E; subst. apply andb_true_iff. split; [now apply H | now apply IH].
Qed.

Lemma name_eqb_eq a b : name_eqb a b = true <-> a = b.
Proof. apply list_eqb_eq. intros; apply N.eqb_eq. Qed.

Lemma name_eqb_refl a : name_eqb a a = true.
Proof. now apply name_eqb_eq. Qed.

Lemma name_eqb_neq a b : name_eqb a b = false <-> a <> b.
Proof.
  split.
  - intros H E. apply name_eqb_eq in E. congruence.
  - intro H. destruct (name_eqb a b) eqn:E; [|reflexivity]. apply name_eqb_eq in E. contradiction.
Qed.

Lemma name_dec (a b : list N) : {a = b} + {a <> b}.
Proof. apply list_eq_dec. apply N.eq_dec. Qed.

Lemma cls_eqb_eq a b : cls_eqb a b = true <-> a = b.
Proof. destruct a, b; cbn; split; intro; congruence. Qed.

Lemma cls_dec (a b : cls) : {a = b} + {a <> b}.
Proof. decide equality. Qed.

Lemma key_is_iff n c e : key_is n c e = true <-> e_name e = n /\ cls_of (e_spec e) = c.
Proof. unfold key_is. rewrite andb_true_iff, name_eqb_eq, cls_eqb_eq. tauto. Qed.

Lemma key_is_false n c e : key_is n c e = false <-> ~ (e_name e = n /\ cls_of (e_spec e) = c).
Proof.
  split.
  - intros H K. apply key_is_iff in K. congruence.
  - intro H. destruct (key_is n c e) eqn:E; [|reflexivity]. apply key_is_iff in E. contradiction.
Qed.

Lemma existsb_false {X} (f : X -> bool) l : existsb f l = false <-> forall x, In x l -> f x = false.
Proof.
  induction l as [|a l IH]; cbn.
  - split; [intros _ x []|reflexivity].
  - rewrite orb_false_iff, IH. split.
    + intros [Ha Hl] x [E|Hin]; [subst; exact Ha|now apply Hl].
    + intro H. split; [apply H; now left|intros x Hin; apply H; now right].
Qed.

(* ---------------------------------------------------------------- has / lookup / remove / set *)
Lemma has_iff t n c : has t n c = true <-> exists e, In e t /\ e_name e = n /\ cls_of (e_spec e) = c.
Proof.
  unfold has. rewrite existsb_exists. split; intros [e [Hin K]]; exists e; split; auto; now apply key_is_iff.
Qed.

Lemma has_false t n c : has t n c = false <-> forall e, In e t -> ~ (e_name e = n /\ cls_of (e_spec e) = c).
Proof.
  unfold has. rewrite existsb_false. split; intros H e Hin; [apply key_is_false|apply key_is_false]; now apply H.
Qed.

Lemma In_remove t n c e : In e (remove t n c) <-> In e t /\ ~ (e_name e = n /\ cls_of (e_spec e) = c).
Proof.
  unfold remove. rewrite filter_In, negb_true_iff, key_is_false. tauto.
Qed.

Lemma In_set t n p s e : In e (set t n p s) <->
  e = mkentry n p s \/ (In e t /\ ~ (e_name e = n /\ cls_of (e_spec e) = cls_of s)).
Proof. unfold set. cbn [In]. rewrite In_remove. split; intros [H|H]; auto. Qed.

Lemma has_remove_same t n c : has (remove t n c) n c = false.
Proof. apply has_false. intros e Hin. apply In_remove in Hin. tauto. Qed.

Lemma has_remove_le t n c n' c' : has (remove t n c) n' c' = true -> has t n' c' = true.
Proof.
  rewrite !has_iff. intros [e [Hin K]]. apply In_remove in Hin. exists e. tauto.
Qed.

Lemma has_remove_other t n c n' c' : ~ (n' = n /\ c' = c) -> has (remove t n c) n' c' = has t n' c'.
Proof.
  intro Hne. destruct (has t n' c') eqn:E.
  - apply has_iff in E. destruct E as [e [Hin [E1 E2]]]. apply has_iff. exists e. split; [|tauto].
    apply In_remove. split; [exact Hin|]. intros [F1 F2]. apply Hne. split; congruence.
  - destruct (has (remove t n c) n' c') eqn:F; [|reflexivity]. apply has_remove_le in F. congruence.
Qed.

Lemma lookup_remove_same t n c : lookup (remove t n c) n c = None.
Proof.
  unfold lookup. destruct (find (key_is n c) (remove t n c)) as [e|] eqn:F; [|reflexivity].
  apply find_some in F. destruct F as [Hin K]. apply In_remove in Hin. apply key_is_iff in K. tauto.
Qed.

Lemma lookup_remove_other t n c n' c' : ~ (n' = n /\ c' = c) -> lookup (remove t n c) n' c' = lookup t n' c'.
Proof.
  intro Hne. unfold lookup, remove. induction t as [|a t IH]; [reflexivity|].
  cbn [filter find]. destruct (key_is n c a) eqn:K; cbn [negb].
  - destruct (key_is n' c' a) eqn:K'; [|exact IH].
    apply key_is_iff in K. apply key_is_iff in K'. exfalso. apply Hne. destruct K, K'. split; congruence.
  - cbn [find]. destruct (key_is n' c' a); [reflexivity|exact IH].
Qed.

(* ---------------------------------------------------------------- well-formedness as propositions *)
Fixpoint nodup_keys (t : table) : Prop :=
  match t with
  | [] => True
  | e :: r => has r (e_name e) (cls_of (e_spec e)) = false /\ nodup_keys r
  end.
Definition coexist_free (t : table) : Prop := forall n, has t n Infix = true -> has t n Postfix = true -> False.
Definition prios_ok (t : table) : Prop := forall e, In e t -> 1 <= e_prio e <= 1200.
Definition specials_ok (t : table) : Prop := forall e, In e t ->
  e_name e <> nil_name /\ e_name e <> braces /\ (e_name e = bar -> cls_of (e_spec e) = Infix /\ 1001 <= e_prio e).
Definition wf (t : table) : Prop := nodup_keys t /\ coexist_free t /\ prios_ok t /\ specials_ok t.

Lemma nodup_keys_b_sound t : nodup_keys_b t = true -> nodup_keys t.
Proof.
  induction t as [|e r IH]; cbn [nodup_keys_b nodup_keys]; [auto|].
  rewrite andb_true_iff, negb_true_iff. intros [H1 H2]. split; [exact H1|now apply IH].
Qed.

Lemma wf_b_sound t : wf_b t = true -> wf t.
Proof.
  unfold wf_b. rewrite !andb_true_iff. intros [[[H1 H2] H3] H4]. repeat split.
  - now apply nodup_keys_b_sound.
  - intros n Hi Hp. apply has_iff in Hi. destruct Hi as [e [Hin [E1 E2]]].
    unfold coexist_free_b in H3. rewrite forallb_forall in H3. specialize (H3 e Hin).
    rewrite E2 in H3. cbn [opposite] in H3. rewrite E1 in H3. rewrite Hp in H3. discriminate.
  - rewrite forallb_forall in H2. specialize (H2 e H). unfold prio_ok in H2. apply andb_true_iff in H2. lia.
  - rewrite forallb_forall in H2. specialize (H2 e H). unfold prio_ok in H2. apply andb_true_iff in H2. lia.
  - rewrite forallb_forall in H4. specialize (H4 e H). unfold special_ok in H4. rewrite !andb_true_iff in H4.
    destruct H4 as [[H4 _] _]. apply negb_true_iff in H4. now apply name_eqb_neq.
  - rewrite forallb_forall in H4. specialize (H4 e H). unfold special_ok in H4. rewrite !andb_true_iff in H4.
    destruct H4 as [[_ H4] _]. apply negb_true_iff in H4. now apply name_eqb_neq.
  - rewrite forallb_forall in H4. specialize (H4 e H). unfold special_ok in H4. rewrite !andb_true_iff in H4.
    destruct H4 as [_ H4]. apply name_eqb_eq in H0. rewrite H0 in H4. apply andb_true_iff in H4. destruct H4 as [H4 _].
    now apply cls_eqb_eq.
  - rewrite forallb_forall in H4. specialize (H4 e H). unfold special_ok in H4. rewrite !andb_true_iff in H4.
    destruct H4 as [_ H4]. apply name_eqb_eq in H0. rewrite H0 in H4. apply andb_true_iff in H4. destruct H4 as [_ H4]. lia.
Qed.

Lemma default_wf_b : wf_b default_table = true.
Proof. vm_compute. reflexivity. Qed.

Lemma default_valid : default_all_valid = true.
Proof. vm_compute. reflexivity. Qed.

Lemma default_wf : wf default_table.
Proof. apply wf_b_sound. exact default_wf_b. Qed.

(* remove and set keep the keys unique *)
Lemma nodup_remove t n c : nodup_keys t -> nodup_keys (remove t n c).
Proof.
  induction t as [|a t IH]; [auto|]. cbn [nodup_keys]. intros [H1 H2].
  unfold remove. cbn [filter]. destruct (key_is n c a); cbn [negb].
  - now apply IH.
  - cbn [nodup_keys]. split; [|now apply IH].
    destruct (has (filter (fun e => negb (key_is n c e)) t) (e_name a) (cls_of (e_spec a))) eqn:E; [|reflexivity].
    apply (has_remove_le t n c) in E. congruence.
Qed.

Lemma nodup_set t n p s : nodup_keys t -> nodup_keys (set t n p s).
Proof.
  intro H. unfold set. cbn [nodup_keys e_name e_spec]. split; [apply has_remove_same|now apply nodup_remove].
Qed.

Lemma nodup_apply1 p s t n : nodup_keys t -> nodup_keys (apply1 p s t n).
Proof. intro H. unfold apply1. destruct (p =? 0); [now apply nodup_remove|now apply nodup_set]. Qed.

(* entries of a table with unique keys are found by their key *)
Lemma In_lookup t e : nodup_keys t -> In e t -> lookup t (e_name e) (cls_of (e_spec e)) = Some e.
Proof.
  induction t as [|a t IH]; [intros _ []|]. cbn [nodup_keys]. intros [H1 H2] [E|Hin].
  - subst. unfold lookup. cbn [find]. assert (K : key_is (e_name e) (cls_of (e_spec e)) e = true) by (apply key_is_iff; auto).
    now rewrite K.
  - unfold lookup. cbn [find]. destruct (key_is (e_name e) (cls_of (e_spec e)) a) eqn:K.
    + apply key_is_iff in K. destruct K as [K1 K2]. rewrite has_false in H1. exfalso. apply (H1 e Hin). split; congruence.
    + now apply IH.
Qed.

Lemma lookup_In t n c e : lookup t n c = Some e -> In e t /\ e_name e = n /\ cls_of (e_spec e) = c.
Proof. unfold lookup. intro H. apply find_some in H. destruct H as [H K]. apply key_is_iff in K. tauto. Qed.

Lemma nodup_keys_NoDup t : nodup_keys t -> NoDup t.
Proof.
  induction t as [|a t IH]; [constructor|]. cbn [nodup_keys]. intros [H1 H2]. constructor; [|now apply IH].
  intro Hin. rewrite has_false in H1. apply (H1 a Hin). auto.
Qed.

(* ---------------------------------------------------------------- one name of an accepted call *)
Lemma has_apply1_other_class p s t n n' c : c <> cls_of s -> has (apply1 p s t n) n' c = has t n' c.
Proof.
  intro Hc. unfold apply1. destruct (p =? 0).
  - apply has_remove_other. intros [_ E]. contradiction.
  - unfold set, has. cbn [existsb]. assert (K : key_is n' c (mkentry n p s) = false).
    { apply key_is_false. cbn [e_name e_spec]. intros [_ E]. congruence. }
    rewrite K. cbn [orb]. apply has_remove_other. intros [_ E]. contradiction.
Qed.

Lemma opposite_neq c c' : opposite c = Some c' -> c' <> c.
Proof. destruct c; cbn; intro H; inversion H; discriminate. Qed.

Lemma clash_apply1 p s t n n' : clash (apply1 p s t n) s n' = clash t s n'.
Proof.
  unfold clash. destruct (opposite (cls_of s)) as [c|] eqn:E; [|reflexivity].
  apply has_apply1_other_class. now apply opposite_neq.
Qed.

Lemma lookup_apply1_same p s t n :
  lookup (apply1 p s t n) n (cls_of s) = if p =? 0 then None else Some (mkentry n p s).
Proof.
  unfold apply1. destruct (p =? 0); [apply lookup_remove_same|].
  unfold set, lookup. cbn [find]. assert (K : key_is n (cls_of s) (mkentry n p s) = true) by (apply key_is_iff; auto).
  now rewrite K.
Qed.

Lemma lookup_apply1_other p s t n n' c : ~ (n' = n /\ c = cls_of s) -> lookup (apply1 p s t n) n' c = lookup t n' c.
Proof.
  intro Hne. unfold apply1. destruct (p =? 0); [now apply lookup_remove_other|].
  unfold set. unfold lookup at 1. cbn [find]. assert (K : key_is n' c (mkentry n p s) = false).
  { apply key_is_false. cbn [e_name e_spec]. intros [E1 E2]. apply Hne. split; congruence. }
  rewrite K. now apply lookup_remove_other.
Qed.

Definition name_allowed (p : Z) (s : spec) (n : list N) : Prop :=
  n <> comma /\ n <> nil_name /\ n <> braces /\ (n = bar -> bar_allowed p s = true).

Lemma apply1_wf p s t n : wf t -> 0 <= p <= 1200 -> name_allowed p s n -> (p <> 0 -> clash t s n = false) ->
  wf (apply1 p s t n).
Proof.
  intros [W1 [W2 [W3 W4]]] Hp [Hc [Hn [Hb Hbar]]] Hcl. split; [now apply nodup_apply1|]. split; [|split].
  - (* coexistence *)
    unfold apply1. destruct (p =? 0) eqn:P0.
    + intros m Hi Hpo. apply has_remove_le in Hi. apply has_remove_le in Hpo. exact (W2 m Hi Hpo).
    + apply Z.eqb_neq in P0. specialize (Hcl P0). intros m Hi Hpo.
      apply has_iff in Hi. destruct Hi as [e1 [In1 [N1 C1]]]. apply has_iff in Hpo. destruct Hpo as [e2 [In2 [N2 C2]]].
      apply In_set in In1. apply In_set in In2. unfold clash in Hcl.
      destruct In1 as [E1|[In1 K1]]; destruct In2 as [E2|[In2 K2]].
      * subst e1 e2. cbn [e_spec] in C1, C2. congruence.
      * subst e1. cbn [e_name e_spec] in N1, C1. rewrite C1 in Hcl. cbn [opposite] in Hcl.
        rewrite has_false in Hcl. apply (Hcl e2 In2). split; congruence.
      * subst e2. cbn [e_name e_spec] in N2, C2. rewrite C2 in Hcl. cbn [opposite] in Hcl.
        rewrite has_false in Hcl. apply (Hcl e1 In1). split; congruence.
      * apply (W2 m); apply has_iff; [exists e1|exists e2]; auto.
  - (* priorities *)
    unfold apply1. destruct (p =? 0) eqn:P0; intros e Hin.
    + apply In_remove in Hin. apply W3. tauto.
    + apply Z.eqb_neq in P0. apply In_set in Hin. destruct Hin as [E|[Hin _]]; [subst; cbn [e_prio]; lia|now apply W3].
  - (* [] {} | *)
    unfold apply1. destruct (p =? 0) eqn:P0; intros e Hin.
    + apply In_remove in Hin. apply W4. tauto.
    + apply Z.eqb_neq in P0. apply In_set in Hin. destruct Hin as [E|[Hin _]]; [|now apply W4].
      subst e. cbn [e_name e_spec e_prio]. split; [exact Hn|]. split; [exact Hb|]. intro Eb. specialize (Hbar Eb).
      unfold bar_allowed in Hbar. apply andb_true_iff in Hbar. destruct Hbar as [B1 B2]. apply cls_eqb_eq in B1.
      split; [exact B1|]. apply orb_true_iff in B2. destruct B2 as [B2|B2]; [apply Z.eqb_eq in B2; lia|lia].
Qed.

Lemma apply_all_wf p s names : forall t, wf t -> 0 <= p <= 1200 -> Forall (name_allowed p s) names ->
  (p <> 0 -> forall n, In n names -> clash t s n = false) -> wf (apply_all p s t names).
Proof.
  induction names as [|n r IH]; intros t W Hp Hall Hcl; [exact W|].
  unfold apply_all. cbn [fold_left]. inversion Hall as [|? ? Hn Hr]; subst. apply IH; auto.
  - apply apply1_wf; auto. intro P0. apply Hcl; [exact P0|now left].
  - intros P0 m Hm. rewrite clash_apply1. apply Hcl; [exact P0|now right].
Qed.

(* the effect of an accepted call on every key *)
Lemma apply_all_lookup p s names : forall t,
  (forall n, In n names -> lookup (apply_all p s t names) n (cls_of s) = if p =? 0 then None else Some (mkentry n p s)) /\
  (forall n c, ~ (In n names /\ c = cls_of s) -> lookup (apply_all p s t names) n c = lookup t n c).
Proof.
  induction names as [|m r IH]; intro t.
  - split; [intros n []|reflexivity].
  - unfold apply_all. cbn [fold_left]. change (fold_left (apply1 p s) r (apply1 p s t m)) with (apply_all p s (apply1 p s t m) r).
    destruct (IH (apply1 p s t m)) as [IH1 IH2]. split.
    + intros n Hin. destruct (in_dec name_dec n r) as [Hr|Hr]; [now apply IH1|].
      destruct Hin as [E|Hin]; [subst|contradiction]. rewrite IH2 by tauto. apply lookup_apply1_same.
    + intros n c Hn. rewrite IH2 by (intros [Hr E]; apply Hn; split; [now right|exact E]).
      apply lookup_apply1_other. intros [E1 E2]. apply Hn. split; [left; congruence|exact E2].
Qed.

(* names other than m keep their entries: used for ',' *)
Definition entries_named (m : list N) (t : table) : table := filter (fun e => name_eqb (e_name e) m) t.

Lemma entries_named_apply1 p s t n m : n <> m -> entries_named m (apply1 p s t n) = entries_named m t.
Proof.
  intro Hne. assert (R : entries_named m (remove t n (cls_of s)) = entries_named m t).
  { unfold entries_named, remove. induction t as [|a t IH]; [reflexivity|]. cbn [filter].
    destruct (key_is n (cls_of s) a) eqn:K; cbn [negb].
    - apply key_is_iff in K. destruct K as [K _]. assert (F : name_eqb (e_name a) m = false) by (apply name_eqb_neq; congruence).
      rewrite F. exact IH.
    - cbn [filter]. destruct (name_eqb (e_name a) m); [f_equal|]; exact IH. }
  unfold apply1. destruct (p =? 0); [exact R|]. unfold set, entries_named. cbn [filter e_name].
  assert (F : name_eqb n m = false) by now apply name_eqb_neq. rewrite F. exact R.
Qed.

Lemma entries_named_apply_all p s names m : forall t, ~ In m names -> entries_named m (apply_all p s t names) = entries_named m t.
Proof.
  induction names as [|n r IH]; intros t Hm; [reflexivity|]. unfold apply_all. cbn [fold_left].
  change (fold_left (apply1 p s) r (apply1 p s t n)) with (apply_all p s (apply1 p s t n) r).
  rewrite IH by (intro; apply Hm; now right). apply entries_named_apply1. intro; apply Hm; now left.
Qed.

(* ---------------------------------------------------------------- a call without applicable error condition *)
Lemma when_nil {X} b (x : X) : when b x = [] -> b = false.
Proof. destruct b; [discriminate|reflexivity]. Qed.

Lemma map_filter_nil {X Y} (f : X -> Y) g l : map f (filter g l) = [] -> forall x, In x l -> g x = false.
Proof.
  intros H x Hin. destruct (g x) eqn:E; [|reflexivity].
  assert (Hf : In x (filter g l)) by (apply filter_In; auto). apply (in_map f) in Hf. rewrite H in Hf. destruct Hf.
Qed.

Definition call_names (Nm : term) : list (list N) := atom_names (elems_of (shape Nm) Nm).

Lemma valid_prio_of P :
  is_var P = false -> negb (is_var P) && negb (match P with Int _ => true | _ => false end) = false ->
  match P with Int z => negb ((0 <=? z) && (z <=? 1200)) | _ => false end = false ->
  exists p, prio_of P = Some p /\ 0 <= p <= 1200.
Proof.
  destruct P as [v|z|? ?|?|?|? ?]; cbn [is_var negb andb]; try discriminate. intros _ _ H.
  apply negb_false_iff in H. unfold prio_of. rewrite H. exists z. split; [reflexivity|]. apply andb_true_iff in H. lia.
Qed.

Lemma valid_spec_of Sp :
  is_var Sp = false -> negb (is_var Sp) && negb (is_atom Sp) = false ->
  match Sp with Atom n => match spec_of_name n with None => true | Some _ => false end | _ => false end = false ->
  exists s, spec_of Sp = Some s.
Proof.
  destruct Sp as [v|z|? ?|?|n|? ?]; cbn [is_var is_atom negb andb]; try discriminate. intros _ _.
  unfold spec_of. destruct (spec_of_name n) as [s|]; [intros _; exists s; reflexivity|discriminate].
Qed.

Lemma no_error_facts t P Sp Nm : applicable_errors t P Sp Nm = [] ->
  exists p s, prio_of P = Some p /\ spec_of Sp = Some s /\ 0 <= p <= 1200 /\
    Forall (name_allowed p s) (call_names Nm) /\ (p <> 0 -> forall n, In n (call_names Nm) -> clash t s n = false).
Proof.
  unfold applicable_errors. intro H.
  repeat (apply app_eq_nil in H; let H' := fresh "E" in destruct H as [H' H]).
  apply when_nil in E, E0, E2, E3, E6, E7, E8, E9, E10. clear E1 E4 E5.
  destruct (valid_prio_of P E E2 E6) as [p [HP Hp]].
  destruct (valid_spec_of Sp E0 E3 E7) as [s HS].
  rewrite HP, HS in H. apply app_eq_nil in H. destruct H as [Hbar Hcl].
  apply when_nil in Hbar. exists p, s. repeat split; auto; try lia.
  - apply Forall_forall. intros n Hin. unfold name_allowed. fold (call_names Nm) in E8, E9, E10, Hbar.
    rewrite existsb_false in E8, E9, E10. repeat split.
    + intro; subst. specialize (E8 _ Hin). rewrite name_eqb_refl in E8. discriminate.
    + intro; subst. specialize (E9 _ Hin). rewrite name_eqb_refl in E9. discriminate.
    + intro; subst. specialize (E10 _ Hin). rewrite name_eqb_refl in E10. discriminate.
    + intro; subst. apply andb_false_iff in Hbar. destruct Hbar as [Hbar|Hbar].
      * rewrite existsb_false in Hbar. specialize (Hbar _ Hin). rewrite name_eqb_refl in Hbar. discriminate.
      * now apply negb_false_iff in Hbar.
  - intros P0 n Hin. apply Z.eqb_neq in P0. rewrite P0 in Hcl. fold (call_names Nm) in Hcl.
    exact (map_filter_nil _ _ _ Hcl n Hin).
Qed.

Lemma op_call_ok t P Sp Nm t' : op_call t P Sp Nm = (t', ROk) ->
  applicable_errors t P Sp Nm = [] /\
  exists p s, prio_of P = Some p /\ spec_of Sp = Some s /\ t' = apply_all p s t (call_names Nm).
Proof.
  unfold op_call. destruct (applicable_errors t P Sp Nm) as [|e l] eqn:E; [|discriminate].
  destruct (no_error_facts t P Sp Nm E) as [p [s [HP [HS _]]]]. rewrite HP, HS. intro H. inversion H; subst.
  split; [reflexivity|]. exists p, s. auto.
Qed.

Lemma op_call_err t P Sp Nm t' e : op_call t P Sp Nm = (t', RErr e) ->
  t' = t /\ exists l, applicable_errors t P Sp Nm = e :: l.
Proof.
  unfold op_call. destruct (applicable_errors t P Sp Nm) as [|e0 l] eqn:E.
  - destruct (no_error_facts t P Sp Nm E) as [p [s [HP [HS _]]]]. rewrite HP, HS. discriminate.
  - intro H. inversion H; subst. split; [reflexivity|]. exists l. reflexivity.
Qed.

Lemma op_call_wf t P Sp Nm : wf t -> wf (fst (op_call t P Sp Nm)).
Proof.
  intro W. destruct (op_call t P Sp Nm) as [t' r] eqn:E. cbn [fst]. destruct r as [|e].
  - apply op_call_ok in E. destruct E as [E [p [s [HP [HS Ht]]]]].
    destruct (no_error_facts t P Sp Nm E) as [p' [s' [HP' [HS' [Hp [Hall Hcl]]]]]].
    assert (p' = p) by congruence. assert (s' = s) by congruence. subst. now apply apply_all_wf.
  - apply op_call_err in E. destruct E as [E _]. now subst.
Qed.

Lemma run_wf cs : forall t, wf t -> wf (run t cs).
Proof.
  induction cs as [|c cs IH]; intros t W; [exact W|]. unfold run. cbn [fold_left].
  change (wf (run (fst (step t c)) cs)). apply IH. destruct c as [P Sp Nm]. now apply op_call_wf.
Qed.

Lemma atom_names_In n l : In n (atom_names l) <-> In (Atom n) l.
Proof.
  unfold atom_names. rewrite in_flat_map. split.
  - intros [x [Hin Hx]]. destruct x as [?|?|? ?|?|s|? ?]; cbn [In] in Hx; try contradiction. destruct Hx as [E|[]]. now subst.
  - intro H. exists (Atom n). split; [exact H|now left].
Qed.

Lemma op_call_comma t P Sp Nm : entries_named comma (fst (op_call t P Sp Nm)) = entries_named comma t.
Proof.
  destruct (op_call t P Sp Nm) as [t' r] eqn:E. cbn [fst]. destruct r as [|e].
  - apply op_call_ok in E. destruct E as [E [p [s [HP [HS Ht]]]]]. subst t'.
    destruct (no_error_facts t P Sp Nm E) as [p' [s' [_ [_ [_ [Hall _]]]]]].
    apply entries_named_apply_all. intro Hin. rewrite Forall_forall in Hall. destruct (Hall _ Hin) as [Hc _]. now apply Hc.
  - apply op_call_err in E. destruct E as [E _]. now subst.
Qed.

Lemma run_comma cs : forall t, entries_named comma (run t cs) = entries_named comma t.
Proof.
  induction cs as [|c cs IH]; intro t; [reflexivity|]. unfold run. cbn [fold_left].
  change (entries_named comma (run (fst (step t c)) cs) = entries_named comma t). rewrite IH.
  destruct c as [P Sp Nm]. apply op_call_comma.
Qed.

Lemma default_comma : entries_named comma default_table = [mkentry comma 1000 XFY].
Proof. vm_compute. reflexivity. Qed.

(* ---------------------------------------------------------------- current_op *)
Lemma current_op_all t x y z : current_op t (Var x) (Var y) (Var z) = t.
Proof.
  unfold current_op. induction t as [|a t IH]; [reflexivity|]. cbn [filter entry_matches andb]. now rewrite IH.
Qed.

Lemma current_op_In t P Sp Nm e : In e (current_op t P Sp Nm) <-> In e t /\ entry_matches P Sp Nm e = true.
Proof. unfold current_op. apply filter_In. Qed.

Lemma spec_name_inj a b : spec_name a = spec_name b -> a = b.
Proof. destruct a, b; vm_compute; intro H; try reflexivity; discriminate. Qed.

Lemma spec_of_name_name s : spec_of_name (spec_name s) = Some s.
Proof. destruct s; vm_compute; reflexivity. Qed.

Lemma entry_matches_bound p s n e :
  entry_matches (Int p) (Atom (spec_name s)) (Atom n) e = true <-> e = mkentry n p s.
Proof.
  unfold entry_matches. rewrite !andb_true_iff, Z.eqb_eq, !name_eqb_eq. destruct e as [en ep es]. cbn [e_name e_prio e_spec]. split.
  - intros [[E1 E2] E3]. apply spec_name_inj in E2. congruence.
  - intro E. inversion E; subst. auto.
Qed.

(* ---------------------------------------------------------------- statements used by Props.v *)
Lemma accepted_call_effect t P Sp Nm t' : op_call t P Sp Nm = (t', ROk) ->
  exists p s, prio_of P = Some p /\ spec_of Sp = Some s /\
    (forall n, In n (call_names Nm) -> lookup t' n (cls_of s) = if p =? 0 then None else Some (mkentry n p s)) /\
    (forall n c, ~ (In n (call_names Nm) /\ c = cls_of s) -> lookup t' n c = lookup t n c).
Proof.
  intro H. apply op_call_ok in H. destruct H as [_ [p [s [HP [HS Ht]]]]]. exists p, s. subst t'.
  destruct (apply_all_lookup p s (call_names Nm) t) as [L1 L2]. auto.
Qed.

Lemma call_names_atom n : call_names (Atom n) = [n].
Proof. reflexivity. Qed.

Lemma priority_zero_removes_atom t Sp n t' s : spec_of Sp = Some s -> op_call t (Int 0) Sp (Atom n) = (t', ROk) ->
  lookup t' n (cls_of s) = None /\ (forall n' c, ~ (n' = n /\ c = cls_of s) -> lookup t' n' c = lookup t n' c).
Proof.
  intros HS H. apply accepted_call_effect in H. destruct H as [p [s' [HP [HS' [L1 L2]]]]].
  cbn in HP. inversion HP; subst p. assert (s' = s) by congruence. subst s'. rewrite call_names_atom in L1, L2. split.
  - apply (L1 n). now left.
  - intros n' c Hne. apply L2. intros [[E|[]] Ec]. apply Hne. split; congruence.
Qed.

Lemma rejected_call t P Sp Nm t' e : op_call t P Sp Nm = (t', RErr e) -> t' = t /\ In e (applicable_errors t P Sp Nm).
Proof.
  intro H. apply op_call_err in H. destruct H as [E [l Hl]]. split; [exact E|]. rewrite Hl. now left.
Qed.

Lemma accepted_iff_no_error t P Sp Nm : snd (op_call t P Sp Nm) = ROk <-> applicable_errors t P Sp Nm = [].
Proof.
  split.
  - intro H. destruct (op_call t P Sp Nm) as [t' r] eqn:E. cbn [snd] in H. subst r. apply op_call_ok in E. tauto.
  - intro H. unfold op_call. rewrite H. destruct (no_error_facts t P Sp Nm H) as [p [s [HP [HS _]]]]. now rewrite HP, HS.
Qed.

Lemma first_error_reported t P Sp Nm e l : applicable_errors t P Sp Nm = e :: l -> op_call t P Sp Nm = (t, RErr e).
Proof. intro H. unfold op_call. now rewrite H. Qed.

Lemma enumeration_is_table t e x y z : nodup_keys t ->
  (In e (current_op t (Var x) (Var y) (Var z)) <-> lookup t (e_name e) (cls_of (e_spec e)) = Some e).
Proof.
  intro W. rewrite current_op_all. split; [now apply In_lookup|]. intro H. apply lookup_In in H. tauto.
Qed.

Lemma run_default_wf cs : wf (run default_table cs).
Proof. apply run_wf. exact default_wf. Qed.

Lemma history_enumeration cs e x y z :
  In e (current_op (run default_table cs) (Var x) (Var y) (Var z)) <->
  lookup (run default_table cs) (e_name e) (cls_of (e_spec e)) = Some e.
Proof. apply enumeration_is_table. destruct (run_default_wf cs) as [W _]. exact W. Qed.

Lemma history_enumeration_nodup cs x y z : NoDup (current_op (run default_table cs) (Var x) (Var y) (Var z)).
Proof. rewrite current_op_all. apply nodup_keys_NoDup. destruct (run_default_wf cs) as [W _]. exact W. Qed.

Lemma bound_query t p s n e : In e (current_op t (Int p) (Atom (spec_name s)) (Atom n)) <-> e = mkentry n p s /\ In e t.
Proof. rewrite current_op_In, entry_matches_bound. tauto. Qed.

Lemma history_no_coexistence cs n :
  has (run default_table cs) n Infix = true -> has (run default_table cs) n Postfix = true -> False.
Proof. destruct (run_default_wf cs) as [_ [W _]]. apply W. Qed.

Lemma history_comma cs : entries_named comma (run default_table cs) = [mkentry comma 1000 XFY].
Proof. rewrite run_comma. exact default_comma. Qed.

Lemma history_specials cs e : In e (run default_table cs) ->
  e_name e <> nil_name /\ e_name e <> braces /\ (e_name e = bar -> cls_of (e_spec e) = Infix /\ 1001 <= e_prio e) /\ 1 <= e_prio e <= 1200.
Proof.
  destruct (run_default_wf cs) as [_ [_ [W3 W4]]]. intro H. destruct (W4 e H) as [A1 [A2 A3]]. pose proof (W3 e H). tauto.
Qed.

(* ---------------------------------------------------------------- the comparison of enumerations means equality as sets *)
Lemma spec_eqb_eq a b : spec_eqb a b = true <-> a = b.
Proof. destruct a, b; cbn; split; intro; congruence. Qed.

Lemma entry_eqb_eq a b : entry_eqb a b = true <-> a = b.
Proof.
  destruct a as [an ap asp], b as [bn bp bsp]. unfold entry_eqb. cbn [e_name e_prio e_spec].
  rewrite !andb_true_iff, name_eqb_eq, Z.eqb_eq, spec_eqb_eq. split; [intros [[? ?] ?]; congruence|intro E; inversion E; auto].
Qed.

Lemma mem_entry_iff e l : mem_entry e l = true <-> In e l.
Proof.
  unfold mem_entry. rewrite existsb_exists. split.
  - intros [x [Hin E]]. apply entry_eqb_eq in E. now subst.
  - intro H. exists e. split; [exact H|now apply entry_eqb_eq].
Qed.

Lemma same_entries_sound m i : same_entries m i = true -> (forall e, In e m <-> In e i) /\ List.length m = List.length i.
Proof.
  unfold same_entries. rewrite !andb_true_iff, !forallb_forall, Nat.eqb_eq. intros [[H1 H2] H3]. split; [|exact H3].
  intro e. split; intro H; [apply mem_entry_iff; now apply H1|apply mem_entry_iff; now apply H2].
Qed.

Lemma default_table_both : default_all_valid = true /\ wf default_table.
Proof. split; [exact default_valid|exact default_wf]. Qed.

Lemma error_order_both :
  (forall t P Sp Nm, snd (op_call t P Sp Nm) = ROk <-> applicable_errors t P Sp Nm = []) /\
  (forall t P Sp Nm e l, applicable_errors t P Sp Nm = e :: l -> op_call t P Sp Nm = (t, RErr e)).
Proof. split; [exact accepted_iff_no_error|exact first_error_reported]. Qed.
