(* C43 -- op/3 and current_op/3: executable reference model (definitions only).

   The operator table is a list of entries with at most one entry per (name, class), class in {prefix, infix, postfix}.
   op_call follows ISO/IEC 13211-1 8.14.3 with Cor.2 ('|', [] and {}): the error conditions a) .. l) are collected in
   the order of the standard; a call with no applicable error condition is applied to every name, priority 0 removing. *)
From Coq Require Import ZArith NArith List Bool String Ascii.
From V Require Import Base.Term Gen.DefaultOps.
Import ListNotations.
Open Scope Z_scope.

Definition nm (s : string) : list N := map N_of_ascii (list_ascii_of_string s).
Definition A (s : string) : term := Atom (nm s).

Inductive spec := XFX | XFY | YFX | FY | FX | XF | YF.
Inductive cls := Prefix | Infix | Postfix.

Definition cls_of (s : spec) : cls :=
  match s with XFX | XFY | YFX => Infix | FY | FX => Prefix | XF | YF => Postfix end.
Definition cls_eqb (a b : cls) : bool :=
  match a, b with Prefix, Prefix | Infix, Infix | Postfix, Postfix => true | _, _ => false end.
Definition spec_eqb (a b : spec) : bool :=
  match a, b with XFX, XFX | XFY, XFY | YFX, YFX | FY, FY | FX, FX | XF, XF | YF, YF => true | _, _ => false end.
Definition all_specs : list spec := [XFX; XFY; YFX; FY; FX; XF; YF].
Definition spec_name (s : spec) : list N :=
  match s with XFX => nm "xfx" | XFY => nm "xfy" | YFX => nm "yfx" | FY => nm "fy" | FX => nm "fx" | XF => nm "xf" | YF => nm "yf" end.
Definition spec_of_name (n : list N) : option spec := find (fun s => name_eqb (spec_name s) n) all_specs.
Definition opposite (c : cls) : option cls :=
  match c with Infix => Some Postfix | Postfix => Some Infix | Prefix => None end.

Record entry := mkentry { e_name : list N; e_prio : Z; e_spec : spec }.
Definition table := list entry.

Definition key_is (n : list N) (c : cls) (e : entry) : bool := name_eqb (e_name e) n && cls_eqb (cls_of (e_spec e)) c.
Definition lookup (t : table) (n : list N) (c : cls) : option entry := find (key_is n c) t.
Definition has (t : table) (n : list N) (c : cls) : bool := existsb (key_is n c) t.
Definition remove (t : table) (n : list N) (c : cls) : table := filter (fun e => negb (key_is n c e)) t.
Definition set (t : table) (n : list N) (p : Z) (s : spec) : table := mkentry n p s :: remove t n (cls_of s).
(* one name of a successful call *)
Definition apply1 (p : Z) (s : spec) (t : table) (n : list N) : table :=
  if p =? 0 then remove t n (cls_of s) else set t n p s.
Definition apply_all (p : Z) (s : spec) (t : table) (names : list (list N)) : table := fold_left (apply1 p s) names t.

(* ---------------------------------------------------------------- the initial table *)
Definition default_entry (x : Z * string * list N) : option entry :=
  match x with (p, s, n) => option_map (mkentry n p) (spec_of_name (nm s)) end.
Definition default_table : table :=
  flat_map (fun x => match default_entry x with Some e => [e] | None => [] end) default_ops.
Definition default_all_valid : bool := forallb (fun x => match default_entry x with Some _ => true | None => false end) default_ops.

(* ---------------------------------------------------------------- well-formedness (boolean, and as propositions in Proofs.v) *)
Fixpoint nodup_keys_b (t : table) : bool :=
  match t with
  | [] => true
  | e :: r => negb (has r (e_name e) (cls_of (e_spec e))) && nodup_keys_b r
  end.
Definition prio_ok (e : entry) : bool := (1 <=? e_prio e) && (e_prio e <=? 1200).
Definition coexist_free_b (t : table) : bool :=
  forallb (fun e => match opposite (cls_of (e_spec e)) with Some c => negb (has t (e_name e) c) | None => true end) t.
Definition comma : list N := nm ",".
Definition bar : list N := nm "|".
Definition braces : list N := nm "{}".
Definition special_ok (e : entry) : bool :=
  negb (name_eqb (e_name e) nil_name) && negb (name_eqb (e_name e) braces) &&
  (if name_eqb (e_name e) bar then cls_eqb (cls_of (e_spec e)) Infix && (1001 <=? e_prio e) else true).
Definition wf_b (t : table) : bool :=
  nodup_keys_b t && forallb prio_ok t && coexist_free_b t && forallb special_ok t.

(* ---------------------------------------------------------------- op/3 on arbitrary argument terms *)
Inductive err :=
| EInst
| ETypeInteger (t : term)
| ETypeAtom (t : term)
| ETypeList (t : term)
| EDomPriority (t : term)
| EDomSpecifier (t : term)
| EPermModify (t : term)
| EPermCreate (t : term).

Definition err_term (e : err) : term :=
  match e with
  | EInst => A "instantiation_error"
  | ETypeInteger t => Cmp (nm "type_error") [A "integer"; t]
  | ETypeAtom t => Cmp (nm "type_error") [A "atom"; t]
  | ETypeList t => Cmp (nm "type_error") [A "list"; t]
  | EDomPriority t => Cmp (nm "domain_error") [A "operator_priority"; t]
  | EDomSpecifier t => Cmp (nm "domain_error") [A "operator_specifier"; t]
  | EPermModify t => Cmp (nm "permission_error") [A "modify"; A "operator"; t]
  | EPermCreate t => Cmp (nm "permission_error") [A "create"; A "operator"; t]
  end.

Definition is_var (t : term) : bool := match t with Var _ => true | _ => false end.
Definition is_atom (t : term) : bool := match t with Atom _ => true | _ => false end.

(* the Operator argument: an atom, or a list (proper, partial or improper) *)
Inductive opshape :=
| ShVar                                  (* a variable *)
| ShAtom (n : list N)                    (* a single atom (including [] ) *)
| ShList (elems : list term)             (* a proper non-empty list *)
| ShPartial (elems : list term)          (* a list whose tail is a variable *)
| ShOther.                               (* anything else: number, compound, improper list *)

Definition shape (o : term) : opshape :=
  match o with
  | Var _ => ShVar
  | Atom n => ShAtom n
  | Cmp _ _ =>
      let (l, tl) := list_view (term_size o) o in
      match l, tl with
      | [], _ => ShOther
      | _, Atom [91%N; 93%N] => ShList l
      | _, Var _ => ShPartial l
      | _, _ => ShOther
      end
  | _ => ShOther
  end.

(* the elements to be examined, and the atoms among them *)
Definition elems_of (sh : opshape) (o : term) : list term :=
  match sh with ShAtom _ => [o] | ShList l => l | ShPartial l => l | _ => [] end.
Definition atom_names (l : list term) : list (list N) :=
  flat_map (fun t => match t with Atom n => [n] | _ => [] end) l.

Definition prio_of (p : term) : option Z := match p with Int z => if (0 <=? z) && (z <=? 1200) then Some z else None | _ => None end.
Definition spec_of (s : term) : option spec := match s with Atom n => spec_of_name n | _ => None end.

Definition clash (t : table) (s : spec) (n : list N) : bool :=
  match opposite (cls_of s) with Some c => has t n c | None => false end.

Definition bar_allowed (p : Z) (s : spec) : bool := cls_eqb (cls_of s) Infix && ((p =? 0) || (1001 <=? p)).

Definition when {X} (b : bool) (x : X) : list X := if b then [x] else [].

(* all error conditions of 8.14.3.3 (and Cor.2) that apply to the call, in the order a) .. l) *)
Definition applicable_errors (t : table) (P Sp Nm : term) : list err :=
  let sh := shape Nm in
  let els := elems_of sh Nm in
  let names := atom_names els in
  when (is_var P) EInst ++                                                                       (* a *)
  when (is_var Sp) EInst ++                                                                       (* b *)
  when (match sh with ShVar | ShPartial _ => true | _ => existsb is_var els end) EInst ++         (* c *)
  when (negb (is_var P) && negb (match P with Int _ => true | _ => false end)) (ETypeInteger P) ++   (* d *)
  when (negb (is_var Sp) && negb (is_atom Sp)) (ETypeAtom Sp) ++                                    (* e *)
  when (match sh with ShOther => true | _ => false end) (ETypeList Nm) ++                         (* f *)
  map ETypeAtom (filter (fun e => negb (is_var e) && negb (is_atom e)) els) ++                   (* g *)
  when (match P with Int z => negb ((0 <=? z) && (z <=? 1200)) | _ => false end) (EDomPriority P) ++   (* h *)
  when (match Sp with Atom n => match spec_of_name n with None => true | Some _ => false end | _ => false end) (EDomSpecifier Sp) ++   (* i *)
  when (existsb (name_eqb comma) names) (EPermModify (Atom comma)) ++                            (* j, k *)
  when (existsb (name_eqb nil_name) names) (EPermCreate (Atom nil_name)) ++                      (* Cor.2 *)
  when (existsb (name_eqb braces) names) (EPermCreate (Atom braces)) ++
  match prio_of P, spec_of Sp with
  | Some p, Some s =>
      when (existsb (name_eqb bar) names && negb (bar_allowed p s)) (EPermCreate (Atom bar)) ++  (* Cor.2: '|' *)
      (if p =? 0 then [] else map (fun n => EPermCreate (Atom n)) (filter (clash t s) names))    (* l *)
  | _, _ => []
  end.

Inductive result := ROk | RErr (e : err).

Definition op_call (t : table) (P Sp Nm : term) : table * result :=
  match applicable_errors t P Sp Nm with
  | e :: _ => (t, RErr e)
  | [] =>
      match prio_of P, spec_of Sp with
      | Some p, Some s => (apply_all p s t (atom_names (elems_of (shape Nm) Nm)), ROk)
      | _, _ => (t, ROk)      (* unreachable: without a valid priority and specifier some error applies (Proofs.no_error_valid) *)
      end
  end.

(* ---------------------------------------------------------------- current_op/3 *)
Definition entry_matches (P Sp Nm : term) (e : entry) : bool :=
  (match P with Var _ => true | Int z => z =? e_prio e | _ => false end) &&
  (match Sp with Var _ => true | Atom n => name_eqb n (spec_name (e_spec e)) | _ => false end) &&
  (match Nm with Var _ => true | Atom n => name_eqb n (e_name e) | _ => false end).
Definition current_op (t : table) (P Sp Nm : term) : list entry := filter (entry_matches P Sp Nm) t.

(* ---------------------------------------------------------------- histories *)
Inductive call := Call (P Sp Nm : term).
Definition step (t : table) (c : call) : table * result := match c with Call P Sp Nm => op_call t P Sp Nm end.
Definition run (t : table) (cs : list call) : table := fold_left (fun t c => fst (step t c)) cs t.

(* ---------------------------------------------------------------- comparison with the implementation *)
Definition entry_eqb (a b : entry) : bool :=
  name_eqb (e_name a) (e_name b) && (e_prio a =? e_prio b) && spec_eqb (e_spec a) (e_spec b).
Definition mem_entry (e : entry) (l : list entry) : bool := existsb (entry_eqb e) l.
(* the same entries, in any order, without repetition on the implementation's side *)
Definition same_entries (model impl : list entry) : bool :=
  forallb (fun e => mem_entry e impl) model && forallb (fun e => mem_entry e model) impl &&
  (Nat.eqb (List.length model) (List.length impl)).

(* an op(P, T, N) answer of current_op as observed: priority, specifier name, operator name *)
Definition obs_entry (x : Z * list N * list N) : option entry :=
  match x with (p, s, n) => option_map (mkentry n p) (spec_of_name s) end.
Fixpoint obs_entries (l : list (Z * list N * list N)) : option (list entry) :=
  match l with
  | [] => Some []
  | x :: r => match obs_entry x, obs_entries r with Some e, Some r' => Some (e :: r') | _, _ => None end
  end.

Inductive iobs :=
| ISucc                      (* the call succeeded *)
| IErr (formal : term)       (* error(formal, _) *)
| IOther.                    (* failure or anything else *)

(* the outcome of a call: the model's first error, or any other error condition of the standard that applies
   (7.12: which one is reported when several apply is implementation dependent) *)
Definition agree_result (t : table) (c : call) (i : iobs) : bool :=
  match c with Call P Sp Nm =>
    match applicable_errors t P Sp Nm, i with
    | [], ISucc => true
    | (_ :: _) as l, IErr f => existsb (fun e => term_eqb (err_term e) f) l
    | _, _ => false
    end
  end.

Definition in_play (names : list (list N)) (e : entry) : bool := existsb (name_eqb (e_name e)) names.

(* a current_op query after the calls cs: the implementation's answers against the model's *)
Definition check_enum (cs : list call) (P Sp Nm : term) (answers : list (Z * list N * list N)) : bool :=
  match obs_entries answers with
  | Some l => same_entries (current_op (run default_table cs) P Sp Nm) l
  | None => false
  end.
(* the full enumeration restricted to the names in play (the rest is compared with the machine's own initial enumeration) *)
Definition check_enum_in_play (cs : list call) (names : list (list N)) (answers : list (Z * list N * list N)) : bool :=
  match obs_entries answers with
  | Some l => same_entries (filter (in_play names) (run default_table cs)) l
  | None => false
  end.
(* the outcome of call c made after the calls cs *)
Definition check_call (cs : list call) (c : call) (i : iobs) : bool := agree_result (run default_table cs) c i.
(* the initial enumeration of a fresh machine is the regenerated default table *)
Definition check_default (answers : list (Z * list N * list N)) : bool :=
  default_all_valid && match obs_entries answers with Some l => same_entries default_table l | None => false end.

(* for reports *)
Definition expected_call (cs : list call) (c : call) : list err :=
  match c with Call P Sp Nm => applicable_errors (run default_table cs) P Sp Nm end.
Definition show_entry (e : entry) : Z * list N * list N := (e_prio e, spec_name (e_spec e), e_name e).
Definition expected_enum (cs : list call) (P Sp Nm : term) := map show_entry (current_op (run default_table cs) P Sp Nm).
