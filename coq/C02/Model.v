(* C02 -- model of float and mixed-type evaluation by is/2 (src/arithmetic.rs: rnd_i, rnd_f, result_f, classify_float,
   add_f/mul_f/div_f, Div for Number; src/machine/arithmetic_ops.rs: add, sub, mul, div, pow, float_pow, int_pow, max, min,
   unary_float_fn_template, sqrt, log, atan2, float, float_integer_part, float_fractional_part, floor, ceiling, truncate,
   round; src/forms.rs: Number::sign/is_zero/is_negative).  No proofs in this file.

   Doubles are Flocq's `binary_float 53 1024` (IEEE754.BinarySingleNaN: signed zeros, infinities, one NaN); the IEEE-754
   operations + - * / sqrt, rounding to an integral double (floor/round/trunc) and integer -> double are Flocq's
   Bplus/Bmult/Bdiv/Bsqrt/Bnearbyint/Btrunc/binary_normalize with round-to-nearest-even, which evaluate under vm_compute
   and come with Flocq's correctness theorems (used in Proofs.v).  Rational -> double is the correctly rounded quotient,
   computed as a 64-bit (or longer) integer quotient with a sticky bit ("round to odd") handed to binary_normalize.

   Transcendentals (exp log sin cos tan asin acos atan atan2 and powf behind ** and ^) are NOT modelled by value:
   `libm` is an arbitrary function from (function id, argument bits, argument bits) to result bits, and the model only
   decodes and classifies what it returns (finite -> value, infinite -> float_overflow, NaN -> undefined).  The one
   exception is the part of log's domain that the property names: log of zero is an infinite IEEE result and log of a
   negative number is NaN whatever the library does (C Annex F), so the model does not ask the oracle there. *)
From Coq Require Import ZArith List Bool.
From Flocq Require Import Core.Zaux Core.FLX IEEE754.BinarySingleNaN.
Import ListNotations.
Open Scope Z_scope.

Definition prec_gt_0_53 : Prec_gt_0 53 := eq_refl.
Definition prec_lt_emax_53_1024 : Prec_lt_emax 53 1024 := eq_refl.
#[global] Existing Instance prec_gt_0_53.
#[global] Existing Instance prec_lt_emax_53_1024.

Definition f64 := binary_float 53 1024.

(* ---------- numbers: integer (Fixnum or bignum cell: the split never changes a value here), rational n/d with d > 0
   (not necessarily in lowest terms), double *)
Inductive val := VI (z : Z) | VQ (n d : Z) | VF (f : f64).

Inductive err := EZeroDiv | EUndefined | EOverflow | ETypeFloat (z : Z) | ENoOracle.
Inductive result (A : Type) := Ok (a : A) | Err (e : err).
Arguments Ok {A} a.
Arguments Err {A} e.

Definition bind {A B} (r : result A) (f : A -> result B) : result B :=
  match r with Ok a => f a | Err e => Err e end.

(* ---------- bits <-> doubles *)
Definition f64_of_bits (b : Z) : f64 :=
  let s := Z.testbit b 63 in
  let ef := Z.land (Z.shiftr b 52) 2047 in
  let mf := Z.land b (Z.ones 52) in
  if ef =? 2047 then (if mf =? 0 then B754_infinity s else B754_nan)
  else if ef =? 0 then
         (if mf =? 0 then B754_zero s else binary_normalize 53 1024 _ _ mode_NE (cond_Zopp s mf) (-1074) false)
  else binary_normalize 53 1024 _ _ mode_NE (cond_Zopp s (2 ^ 52 + mf)) (ef - 1075) false.

Definition sign_bit (s : bool) : Z := if s then 2 ^ 63 else 0.
Definition bits_of_f64 (f : f64) : Z :=
  match f with
  | B754_zero s => sign_bit s
  | B754_infinity s => sign_bit s + 2047 * 2 ^ 52
  | B754_nan => 2047 * 2 ^ 52 + 2 ^ 51
  | B754_finite s m e _ =>
      sign_bit s + (if Z.pos m <? 2 ^ 52 then Z.pos m else (e + 1075) * 2 ^ 52 + (Z.pos m - 2 ^ 52))
  end.
(* the sign of zero is not observed (the answer channel and the float table do not keep it) *)
Definition canon (b : Z) : Z := if b =? 2 ^ 63 then 0 else b.

(* ---------- conversions to double (rnd_f): `i64 as f64`, IBig::to_f64, RBig::to_f64 = correctly rounded *)
Definition bitlen (z : Z) : Z := if z <=? 0 then 0 else Z.log2 z + 1.
Definition f64_of_z (z : Z) : f64 := binary_normalize 53 1024 _ _ mode_NE z 0 false.
Definition f64_of_q (n d : Z) : f64 :=          (* d > 0 *)
  let a := Z.abs n in
  if a =? 0 then B754_zero false
  else
    let k := Z.max 0 (64 + bitlen d - bitlen a) in
    let (q, r) := Z.div_eucl (a * 2 ^ k) d in
    let m := 2 * q + (if r =? 0 then 0 else 1) in
    binary_normalize 53 1024 _ _ mode_NE (if n <? 0 then - m else m) (- (k + 1)) false.

Definition to_flt (a : val) : f64 := match a with VI z => f64_of_z z | VQ n d => f64_of_q n d | VF f => f end.

(* classify_float *)
Definition classify (f : f64) : result f64 :=
  match f with B754_infinity _ => Err EOverflow | B754_nan => Err EUndefined | _ => Ok f end.
Definition mkf (f : f64) : result val := bind (classify f) (fun g => Ok (VF g)).
(* result_f = classify_float (rnd_f n) *)
Definition result_f (a : val) : result f64 := classify (to_flt a).

(* ---------- tests on numbers *)
Definition f_is_zero (f : f64) : bool := match f with B754_zero _ => true | _ => false end.
Definition f_is_neg (f : f64) : bool := match f with B754_finite true _ _ _ | B754_infinity true => true | _ => false end.
Definition is_flt (a : val) : bool := match a with VF _ => true | _ => false end.
Definition is_intv (a : val) : bool := match a with VI _ => true | _ => false end.
(* every finite number as an exact fraction vn / vd, vd > 0 *)
Definition vn (a : val) : Z :=
  match a with
  | VI z => z | VQ n _ => n
  | VF (B754_finite s m e _) => cond_Zopp s (Z.pos m) * 2 ^ Z.max 0 e
  | VF _ => 0
  end.
Definition vd (a : val) : Z :=
  match a with
  | VI _ => 1 | VQ _ d => d
  | VF (B754_finite s m e _) => 2 ^ Z.max 0 (- e)
  | VF _ => 1
  end.
Definition v_is_zero (a : val) : bool :=          (* Number::is_zero *)
  match a with VF f => f_is_zero f | _ => vn a =? 0 end.
Definition v_is_neg (a : val) : bool :=           (* Number::is_negative: false for -0.0 *)
  match a with VF f => f_is_neg f | _ => vn a <? 0 end.

(* ---------- double -> integral double, double -> integer *)
Definition f_floor (f : f64) : f64 := Bnearbyint mode_DN f.      (* f64::floor *)
Definition f_trunc (f : f64) : f64 := Bnearbyint mode_ZR f.      (* f64::trunc *)
Definition f_round (f : f64) : f64 := Bnearbyint mode_NA f.      (* f64::round: halfway cases away from zero *)
Definition f_fract (f : f64) : f64 := Bminus mode_NE f (f_trunc f).   (* f64::fract = self - self.trunc() *)
(* `f as i64` in Fixnum range, Integer::try_from(f) beyond it: exact on an integral double *)
Definition f_to_z (f : f64) : Z := Btrunc f.

Definition neg_v (a : val) : val :=
  match a with VI z => VI (- z) | VQ n d => VQ (- n) d | VF f => VF (Bopp f) end.
Definition abs_v (a : val) : val :=
  match a with VI z => VI (Z.abs z) | VQ n d => VQ (Z.abs n) d | VF f => VF (Babs f) end.
(* Number::sign: a float for a float, 0.0 for either zero *)
Definition sign_v (a : val) : val :=
  match a with
  | VF (B754_zero _) => VF (B754_zero false)
  | VF (B754_finite s _ _ _) => VF (f64_of_z (if s then -1 else 1))
  | VF f => VF f
  | _ => VI (Z.sgn (vn a))
  end.

(* rnd_i: floor, as an integer.  ceiling = neg (floor (neg x)); truncate = sign split around floor;
   round = rnd_i of the number rounded half away from zero *)
Definition rnd_i (a : val) : Z :=
  match a with VI z => z | VQ n d => n / d | VF f => f_to_z (f_floor f) end.
Definition ceiling_v (a : val) : Z := - rnd_i (neg_v a).
Definition truncate_v (a : val) : Z := if v_is_neg a then - rnd_i (abs_v a) else rnd_i a.
Definition round_v (a : val) : Z :=
  match a with
  | VI z => z
  | VQ n d => Z.sgn n * ((2 * Z.abs n + d) / (2 * d))          (* dashu RBig::round: half away from zero *)
  | VF f => rnd_i (VF (f_round f))
  end.

(* ---------- + - * : exact on integers and rationals, IEEE as soon as one operand is a float *)
Definition fbin (op : f64 -> f64 -> f64) (a b : val) : result val :=
  bind (result_f a) (fun fa => bind (result_f b) (fun fb => mkf (op fa fb))).

Definition add_v (a b : val) : result val :=
  if is_flt a || is_flt b then fbin (Bplus mode_NE) a b
  else if is_intv a && is_intv b then Ok (VI (vn a + vn b))
  else Ok (VQ (vn a * vd b + vn b * vd a) (vd a * vd b)).
Definition sub_v (a b : val) : result val := add_v a (neg_v b).
Definition mul_v (a b : val) : result val :=
  if is_flt a || is_flt b then fbin (Bmult mode_NE) a b
  else if is_intv a && is_intv b then Ok (VI (vn a * vn b))
  else Ok (VQ (vn a * vn b) (vd a * vd b)).

(* / : always a float.  arithmetic_ops::div tests the divisor for zero, then `impl Div for Number` converts both sides
   (left first), then div_f tests the converted divisor again *)
Definition div_v (a b : val) : result val :=
  if v_is_zero b then Err EZeroDiv
  else bind (result_f a) (fun fa => bind (result_f b) (fun fb =>
         if f_is_zero fb then Err EZeroDiv else mkf (Bdiv mode_NE fa fb))).

(* rdiv: exact quotient (floats are converted exactly by Rational::try_from) *)
Definition rdiv_v (a b : val) : result val :=
  if v_is_zero b then Err EZeroDiv
  else if vn b <? 0 then Ok (VQ (- (vn a * vd b)) (vd a * - vn b))
  else Ok (VQ (vn a * vd b) (vd a * vn b)).

(* ---------- the library: function ids 1 exp 2 log 3 sin 4 cos 5 tan 6 asin 7 acos 8 atan 9 pow 10 atan2 *)
Definition libm_t := Z -> Z -> Z -> Z.

(* decode + classify_float of a library result; a negative number stands for "the table has no such call" *)
Definition of_lib (b : Z) : result val :=
  if b <? 0 then Err ENoOracle else mkf (f64_of_bits b).

Definition key (f : f64) : Z := canon (bits_of_f64 f).
Definition call1 (libm : libm_t) (f : Z) (a : val) : result val :=
  bind (result_f a) (fun fa => of_lib (libm f (key fa) 0)).
Definition call2 (libm : libm_t) (f : Z) (fa fb : f64) : result val :=
  of_lib (libm f (key fa) (key fb)).

Definition log_v (libm : libm_t) (a : val) : result val :=
  bind (result_f a) (fun fa =>
    if v_is_zero a || f_is_zero fa then Err EOverflow            (* IEEE: log(+-0) = -infinity *)
    else if v_is_neg a || f_is_neg fa then Err EUndefined        (* IEEE: log(x < 0) = NaN *)
    else of_lib (libm 2 (key fa) 0)).

Definition sqrt_v (a : val) : result val :=
  if v_is_neg a then Err EUndefined
  else bind (result_f a) (fun fa => mkf (Bsqrt mode_NE fa)).

(* ** : arithmetic_ops::pow + float_pow *)
Definition pow_v (libm : libm_t) (a b : val) : result val :=
  if v_is_neg b && v_is_zero a then Err EUndefined
  else bind (result_f a) (fun fa => bind (result_f b) (fun fb => call2 libm 9 fa fb)).

(* binary_pow: square and multiply (Z.pow iterates `exponent` times, which does not evaluate for 0 ^ 2^1000) *)
Fixpoint pow_pos_sq (x : Z) (p : positive) : Z :=
  match p with
  | xH => x
  | xO p' => let y := pow_pos_sq x p' in y * y
  | xI p' => let y := pow_pos_sq x p' in x * (y * y)
  end.
Definition zpow (x y : Z) : Z := match y with Z0 => 1 | Zpos p => pow_pos_sq x p | Zneg _ => 0 end.

(* ^ : arithmetic_ops::int_pow.  integer ^ integer is exact (C01); every other combination goes through powf *)
Definition f_is_integral (f : f64) : bool :=      (* f == f.floor() *)
  match Bcompare f (f_floor f) with Some Eq => true | _ => false end.
Definition ipow_v (libm : libm_t) (a b : val) : result val :=
  if v_is_zero a && v_is_neg b then Err EUndefined
  else match a, b with
       | VI x, VI y =>
           if y <? 0 then
             (if x =? 1 then Ok (VI 1)
              else if x =? -1 then Ok (VI (if Z.even y then 1 else -1))
              else Err (ETypeFloat x))
           else Ok (VI (zpow x y))
       | _, _ =>
           bind (result_f b) (fun fb =>
             if v_is_neg a && negb (f_is_integral fb) then Err EUndefined
             else bind (result_f a) (fun fa => call2 libm 9 fa fb))
       end.

Definition atan2_v (libm : libm_t) (a b : val) : result val :=
  if v_is_zero a && v_is_zero b then Err EUndefined
  else bind (result_f a) (fun fa => bind (result_f b) (fun fb => call2 libm 10 fa fb)).

(* max / min: same-kind exact pairs are compared exactly; every other pair is compared as doubles and the winner is
   returned unconverted, a tie returns the float of the second (max) / first (min) argument *)
Definition max_v (a b : val) : result val :=
  match a, b with
  | VI x, VI y => Ok (VI (Z.max x y))
  | VQ n1 d1, VQ n2 d2 => Ok (if n2 * d1 <? n1 * d2 then a else b)
  | _, _ => bind (result_f a) (fun fa => bind (result_f b) (fun fb =>
              match Bcompare fa fb with
              | Some Lt => Ok b | Some Eq => Ok (VF fb) | Some Gt => Ok a | None => Err EUndefined
              end))
  end.
Definition min_v (a b : val) : result val :=
  match a, b with
  | VI x, VI y => Ok (VI (Z.min x y))
  | VQ n1 d1, VQ n2 d2 => Ok (if n2 * d1 <? n1 * d2 then b else a)
  | _, _ => bind (result_f a) (fun fa => bind (result_f b) (fun fb =>
              match Bcompare fa fb with
              | Some Lt => Ok a | Some Eq => Ok (VF fa) | Some Gt => Ok b | None => Err EUndefined
              end))
  end.

(* ---------- expressions *)
Inductive unop := UNeg | UPlus | UAbs | USign | UFloat | USqrt | UFip | UFfp | UFloor | UCeil | UTrunc | URound
                | ULog | ULibm (f : Z).
Inductive binop := BAdd | BSub | BMul | BDiv | BPow | BIPow | BMax | BMin | BAtan2 | BRdiv.
Inductive expr := LitI (z : Z) | LitF (bits : Z) | Un (o : unop) (e : expr) | Bin (o : binop) (a b : expr).

Definition un_v (libm : libm_t) (o : unop) (a : val) : result val :=
  match o with
  | UNeg => Ok (neg_v a)
  | UPlus => Ok a
  | UAbs => Ok (abs_v a)
  | USign => Ok (sign_v a)
  | UFloat => bind (result_f a) (fun fa => Ok (VF fa))
  | USqrt => sqrt_v a
  | UFip => bind (result_f a) (fun fa => mkf (f_trunc fa))      (* unary_float_fn_template: classify, apply, classify *)
  | UFfp => bind (result_f a) (fun fa => mkf (f_fract fa))
  | UFloor => Ok (VI (rnd_i a))
  | UCeil => Ok (VI (ceiling_v a))
  | UTrunc => Ok (VI (truncate_v a))
  | URound => Ok (VI (round_v a))
  | ULog => log_v libm a
  | ULibm f => call1 libm f a
  end.

Definition bin_v (libm : libm_t) (o : binop) (a b : val) : result val :=
  match o with
  | BAdd => add_v a b | BSub => sub_v a b | BMul => mul_v a b | BDiv => div_v a b
  | BPow => pow_v libm a b | BIPow => ipow_v libm a b
  | BMax => max_v a b | BMin => min_v a b
  | BAtan2 => atan2_v libm a b | BRdiv => rdiv_v a b
  end.

Fixpoint eval (libm : libm_t) (e : expr) : result val :=
  match e with
  | LitI z => Ok (VI z)
  | LitF b => mkf (f64_of_bits b)                   (* only finite literals exist *)
  | Un o a => bind (eval libm a) (un_v libm o)
  | Bin o a b => bind (eval libm a) (fun x => bind (eval libm b) (fun y => bin_v libm o x y))
  end.

(* ---------- what the statements talk about *)
Definition wf_val (a : val) : Prop :=
  match a with VI _ => True | VQ _ d => 0 < d | VF f => is_finite f = true end.

(* ---------- correspondence *)
(* the library as a finite table of the calls one case makes: (function, argument bits, argument bits, result bits) *)
Definition libm_tbl (t : list (Z * Z * Z * Z)) : libm_t := fun f a b =>
  match find (fun r => match r with (f', a', b', _) => (f' =? f) && (a' =? a) && (b' =? b) end) t with
  | Some (_, _, _, r) => r
  | None => -1
  end.

Inductive obs := OInt (z : Z) | ORat (n d : Z) | OFlt (bits : Z)
               | OZeroDiv | OUndefined | OOverflow | OTypeFloat (z : Z) | OOther.

Definition agrees (r : result val) (o : obs) : bool :=
  match r, o with
  | Ok (VI z), OInt z' => z =? z'
  | Ok (VQ n d), ORat n' d' => (0 <? d') && (n * d' =? n' * d)
  | Ok (VF f), OFlt b => canon (bits_of_f64 f) =? canon b
  | Err EZeroDiv, OZeroDiv => true
  | Err EUndefined, OUndefined => true
  | Err EOverflow, OOverflow => true
  | Err (ETypeFloat z), OTypeFloat z' => z =? z'
  | _, _ => false
  end.

Definition check (t : list (Z * Z * Z * Z)) (e : expr) (o : obs) : bool := agrees (eval (libm_tbl t) e) o.

(* display: the result with a float shown as its bits *)
Inductive shown := SInt (z : Z) | SRat (n d : Z) | SFlt (bits : Z) | SErr (e : err).
Definition show (t : list (Z * Z * Z * Z)) (e : expr) : shown :=
  match eval (libm_tbl t) e with
  | Ok (VI z) => SInt z | Ok (VQ n d) => SRat n d | Ok (VF f) => SFlt (bits_of_f64 f) | Err x => SErr x
  end.

(* big integers are written by the generator as little-endian lists of 60-bit limbs *)
Definition zl (ls : list Z) : Z := fold_right (fun l acc => l + 2 ^ 60 * acc) 0 ls.
