(* C02 -- lemmas about the model of float / mixed evaluation *)
From Coq Require Import ZArith List Bool Lia Reals Lra Psatz.
From Flocq Require Import Core.Core IEEE754.BinarySingleNaN.
From V Require Import C02.Model.
Import ListNotations.
Open Scope Z_scope.

(* ---------- classification: nothing but a finite double gets through *)
Lemma classify_ok f g : classify f = Ok g -> g = f /\ is_finite g = true.
Proof. destruct f; cbn [classify]; intros [= <-]; split; reflexivity. Qed.

Lemma classify_err f e : classify f = Err e -> e = EOverflow \/ e = EUndefined.
Proof. destruct f; cbn [classify]; intros [= <-]; auto. Qed.

Lemma mkf_ok f a : mkf f = Ok a -> a = VF f /\ is_finite f = true.
Proof.
  unfold mkf. destruct (classify f) as [g|e] eqn:C; cbn [bind]; [|discriminate].
  intros [= <-]. apply classify_ok in C. destruct C as [-> F]. auto.
Qed.

Lemma mkf_wf f a : mkf f = Ok a -> wf_val a.
Proof. intros H. apply mkf_ok in H. destruct H as [-> F]. exact F. Qed.

Lemma result_f_finite a f : result_f a = Ok f -> is_finite f = true.
Proof. unfold result_f. intros H. apply classify_ok in H. apply H. Qed.

Lemma of_lib_wf b a : of_lib b = Ok a -> wf_val a.
Proof. unfold of_lib. destruct (b <? 0); [discriminate|]. apply mkf_wf. Qed.

(* ---------- the invariant of evaluation *)
Lemma vd_pos a : wf_val a -> 0 < vd a.
Proof.
  destruct a as [z|n d|f]; [cbn [wf_val vd]; lia|cbn [wf_val vd]; lia|].
  intros _. destruct f; cbn [vd]; lia.
Qed.

Lemma vn_nonzero a : wf_val a -> v_is_zero a = false -> vn a <> 0.
Proof.
  destruct a as [z|n d|f]; cbn [wf_val v_is_zero vn].
  - intros _ H. apply Z.eqb_neq. exact H.
  - intros _ H. apply Z.eqb_neq. exact H.
  - destruct f as [s|s| |s m e B]; cbn [is_finite f_is_zero]; try discriminate.
    intros _ _. assert (0 < 2 ^ Z.max 0 e) by (apply Z.pow_pos_nonneg; lia).
    destruct s; cbn [cond_Zopp]; nia.
Qed.

Lemma neg_wf a : wf_val a -> wf_val (neg_v a).
Proof. destruct a; cbn [wf_val neg_v]; auto. rewrite is_finite_Bopp. auto. Qed.

Lemma abs_wf a : wf_val a -> wf_val (abs_v a).
Proof. destruct a; cbn [wf_val abs_v]; auto. rewrite is_finite_Babs. auto. Qed.

Lemma sign_wf a : wf_val a -> wf_val (sign_v a).
Proof.
  destruct a as [z|n d|f]; cbn [wf_val sign_v vn]; auto.
  destruct f as [s|s| |s m e B]; cbn [wf_val is_finite]; auto.
  intros _. destruct s; vm_compute; reflexivity.
Qed.

Ltac bind_ok H :=
  match type of H with
  | bind ?r _ = Ok _ => let x := fresh "x" in let E := fresh "E" in
                        destruct r as [x|] eqn:E; cbn [bind] in H; [|discriminate H]
  end.

Lemma fbin_wf op a b c : fbin op a b = Ok c -> wf_val c.
Proof. unfold fbin. intros H. bind_ok H. bind_ok H. eapply mkf_wf; eauto. Qed.

Lemma add_wf a b c : wf_val a -> wf_val b -> add_v a b = Ok c -> wf_val c.
Proof.
  intros Wa Wb. unfold add_v.
  destruct (is_flt a || is_flt b); [apply fbin_wf|].
  destruct (is_intv a && is_intv b); intros [= <-]; cbn [wf_val]; auto.
  pose proof (vd_pos a Wa). pose proof (vd_pos b Wb). nia.
Qed.

Lemma mul_wf a b c : wf_val a -> wf_val b -> mul_v a b = Ok c -> wf_val c.
Proof.
  intros Wa Wb. unfold mul_v.
  destruct (is_flt a || is_flt b); [apply fbin_wf|].
  destruct (is_intv a && is_intv b); intros [= <-]; cbn [wf_val]; auto.
  pose proof (vd_pos a Wa). pose proof (vd_pos b Wb). nia.
Qed.

Lemma div_wf a b c : div_v a b = Ok c -> wf_val c.
Proof.
  unfold div_v. destruct (v_is_zero b); [discriminate|]. intros H. bind_ok H. bind_ok H.
  destruct (f_is_zero x0); [discriminate|]. eapply mkf_wf; eauto.
Qed.

Lemma rdiv_wf a b c : wf_val a -> wf_val b -> rdiv_v a b = Ok c -> wf_val c.
Proof.
  intros Wa Wb. unfold rdiv_v. destruct (v_is_zero b) eqn:Z; [discriminate|].
  pose proof (vd_pos a Wa). pose proof (vn_nonzero b Wb Z).
  destruct (vn b <? 0) eqn:N; intros [= <-]; cbn [wf_val].
  - apply Z.ltb_lt in N. nia.
  - apply Z.ltb_ge in N. nia.
Qed.

Lemma call2_wf libm f fa fb c : call2 libm f fa fb = Ok c -> wf_val c.
Proof. unfold call2. apply of_lib_wf. Qed.

Lemma pow_wf libm a b c : pow_v libm a b = Ok c -> wf_val c.
Proof.
  unfold pow_v. destruct (v_is_neg b && v_is_zero a); [discriminate|]. intros H. bind_ok H. bind_ok H.
  eapply call2_wf; eauto.
Qed.

Lemma ipow_wf libm a b c : ipow_v libm a b = Ok c -> wf_val c.
Proof.
  unfold ipow_v. destruct (v_is_zero a && v_is_neg b); [discriminate|].
  assert (G : forall r, bind (result_f b) (fun fb =>
             if v_is_neg a && negb (f_is_integral fb) then Err EUndefined
             else bind (result_f a) (fun fa => call2 libm 9 fa fb)) = Ok r -> wf_val r).
  { intros r H. bind_ok H. destruct (v_is_neg a && negb (f_is_integral x)); [discriminate|]. bind_ok H.
    eapply call2_wf; eauto. }
  destruct a as [x|n d|f], b as [y|n' d'|f']; try apply G.
  destruct (y <? 0).
  - destruct (x =? 1); [intros [= <-]; exact I|]. destruct (x =? -1); [intros [= <-]; exact I|discriminate].
  - intros [= <-]; exact I.
Qed.

Lemma atan2_wf libm a b c : atan2_v libm a b = Ok c -> wf_val c.
Proof.
  unfold atan2_v. destruct (v_is_zero a && v_is_zero b); [discriminate|]. intros H. bind_ok H. bind_ok H.
  eapply call2_wf; eauto.
Qed.

Lemma max_wf a b c : wf_val a -> wf_val b -> max_v a b = Ok c -> wf_val c.
Proof.
  intros Wa Wb.
  assert (G : bind (result_f a) (fun fa => bind (result_f b) (fun fb =>
              match Bcompare fa fb with
              | Some Lt => Ok b | Some Eq => Ok (VF fb) | Some Gt => Ok a | None => Err EUndefined
              end)) = Ok c -> wf_val c).
  { intros H. bind_ok H. bind_ok H. apply result_f_finite in E0.
    destruct (Bcompare x x0) as [[]|]; inversion H; subst; auto. }
  unfold max_v. destruct a as [x|n d|f], b as [y|n' d'|f']; try exact G.
  - intros [= <-]; exact I.
  - destruct (n' * d <? n * d'); intros [= <-]; auto.
Qed.

Lemma min_wf a b c : wf_val a -> wf_val b -> min_v a b = Ok c -> wf_val c.
Proof.
  intros Wa Wb.
  assert (G : bind (result_f a) (fun fa => bind (result_f b) (fun fb =>
              match Bcompare fa fb with
              | Some Lt => Ok a | Some Eq => Ok (VF fa) | Some Gt => Ok b | None => Err EUndefined
              end)) = Ok c -> wf_val c).
  { intros H. bind_ok H. bind_ok H. apply result_f_finite in E.
    destruct (Bcompare x x0) as [[]|]; inversion H; subst; auto. }
  unfold min_v. destruct a as [x|n d|f], b as [y|n' d'|f']; try exact G.
  - intros [= <-]; exact I.
  - destruct (n' * d <? n * d'); intros [= <-]; auto.
Qed.

Lemma un_wf libm o a c : wf_val a -> un_v libm o a = Ok c -> wf_val c.
Proof.
  intros Wa. destruct o; cbn [un_v].
  - intros [= <-]. apply neg_wf; auto.
  - intros [= <-]. auto.
  - intros [= <-]. apply abs_wf; auto.
  - intros [= <-]. apply sign_wf; auto.
  - intros H. bind_ok H. inversion H; subst. cbn [wf_val]. eapply result_f_finite; eauto.
  - unfold sqrt_v. destruct (v_is_neg a); [discriminate|]. intros H. bind_ok H. eapply mkf_wf; eauto.
  - intros H. bind_ok H. eapply mkf_wf; eauto.
  - intros H. bind_ok H. eapply mkf_wf; eauto.
  - intros [= <-]. exact I.
  - intros [= <-]. exact I.
  - intros [= <-]. exact I.
  - intros [= <-]. exact I.
  - unfold log_v. intros H. bind_ok H.
    destruct (v_is_zero a || f_is_zero x); [discriminate|]. destruct (v_is_neg a || f_is_neg x); [discriminate|].
    eapply of_lib_wf; eauto.
  - unfold call1. intros H. bind_ok H. eapply of_lib_wf; eauto.
Qed.

Lemma bin_wf libm o a b c : wf_val a -> wf_val b -> bin_v libm o a b = Ok c -> wf_val c.
Proof.
  intros Wa Wb. destruct o; cbn [bin_v].
  - apply add_wf; auto.
  - unfold sub_v. apply add_wf; auto. apply neg_wf; auto.
  - apply mul_wf; auto.
  - apply div_wf.
  - apply pow_wf.
  - apply ipow_wf.
  - apply max_wf; auto.
  - apply min_wf; auto.
  - apply atan2_wf.
  - apply rdiv_wf; auto.
Qed.

Lemma eval_wf libm e : forall a, eval libm e = Ok a -> wf_val a.
Proof.
  induction e as [z|b|o e IH|o e1 IH1 e2 IH2]; cbn [eval]; intros a H.
  - inversion H; subst. exact I.
  - eapply mkf_wf; eauto.
  - bind_ok H. eapply un_wf; [apply (IH x eq_refl)|exact H].
  - bind_ok H. bind_ok H. eapply bin_wf; [apply (IH1 x eq_refl)|apply (IH2 x0 eq_refl)|exact H].
Qed.

(* whatever the library returns, a successful evaluation never yields an infinite or NaN double *)
Lemma float_result_finite_l (libm : libm_t) e f : eval libm e = Ok (VF f) -> is_finite f = true.
Proof. intros H. apply (eval_wf libm e (VF f) H). Qed.

(* ---------- the undefined-operation table *)
Lemma div_zero_l libm e1 e2 a b :
  eval libm e1 = Ok a -> eval libm e2 = Ok b -> v_is_zero b = true -> eval libm (Bin BDiv e1 e2) = Err EZeroDiv.
Proof. intros E1 E2 Z. cbn [eval]. rewrite E1, E2. cbn [bind bin_v]. unfold div_v. rewrite Z. reflexivity. Qed.

Lemma zero_cases : v_is_zero (VI 0) = true /\ v_is_zero (VF (B754_zero false)) = true /\ v_is_zero (VF (B754_zero true)) = true
  /\ forall d, v_is_zero (VQ 0 d) = true.
Proof. repeat split. Qed.

Lemma sqrt_neg_l libm e a : eval libm e = Ok a -> v_is_neg a = true -> eval libm (Un USqrt e) = Err EUndefined.
Proof. intros E N. cbn [eval]. rewrite E. cbn [bind un_v]. unfold sqrt_v. rewrite N. reflexivity. Qed.

Lemma to_flt_zero a : v_is_zero a = true -> f_is_zero (to_flt a) = true.
Proof.
  destruct a as [z|n d|f]; cbn [v_is_zero vn to_flt]; auto.
  - intros H. apply Z.eqb_eq in H. subst. reflexivity.
  - intros H. apply Z.eqb_eq in H. subst. reflexivity.
Qed.

Lemma log_zero_l libm e a : eval libm e = Ok a -> v_is_zero a = true -> eval libm (Un ULog e) = Err EOverflow.
Proof.
  intros E Z. cbn [eval]. rewrite E. cbn [bind un_v]. unfold log_v, result_f.
  pose proof (to_flt_zero a Z) as F. destruct (to_flt a); try discriminate F. cbn [classify bind].
  rewrite Z. reflexivity.
Qed.

Lemma log_neg_l libm e a : eval libm e = Ok a -> v_is_neg a = true ->
  eval libm (Un ULog e) = Err EUndefined \/ eval libm (Un ULog e) = Err EOverflow.
Proof.
  intros E N. cbn [eval]. rewrite E. cbn [bind un_v]. unfold log_v.
  destruct (result_f a) as [f|x] eqn:R; cbn [bind].
  - rewrite N. destruct (v_is_zero a || f_is_zero f); auto.
  - unfold result_f in R. apply classify_err in R. destruct R as [-> | ->]; auto.
Qed.

Lemma log_neg_float_l libm e f : eval libm e = Ok (VF f) -> f_is_neg f = true -> eval libm (Un ULog e) = Err EUndefined.
Proof.
  intros E N. pose proof (eval_wf libm e _ E) as W. cbn [wf_val] in W.
  cbn [eval]. rewrite E. cbn [bind un_v]. unfold log_v, result_f. cbn [to_flt].
  destruct f as [s|s| |s m x B]; try discriminate. cbn [classify bind v_is_zero f_is_zero orb v_is_neg].
  rewrite N. reflexivity.
Qed.

Lemma pow_zero_neg_l libm e1 e2 a b :
  eval libm e1 = Ok a -> eval libm e2 = Ok b -> v_is_zero a = true -> v_is_neg b = true ->
  eval libm (Bin BPow e1 e2) = Err EUndefined /\ eval libm (Bin BIPow e1 e2) = Err EUndefined.
Proof.
  intros E1 E2 Z N. cbn [eval]. rewrite E1, E2. cbn [bind bin_v]. unfold pow_v, ipow_v. rewrite Z, N. split; reflexivity.
Qed.

Lemma atan2_00_l libm e1 e2 a b :
  eval libm e1 = Ok a -> eval libm e2 = Ok b -> v_is_zero a = true -> v_is_zero b = true ->
  eval libm (Bin BAtan2 e1 e2) = Err EUndefined.
Proof.
  intros E1 E2 Z1 Z2. cbn [eval]. rewrite E1, E2. cbn [bind bin_v]. unfold atan2_v. rewrite Z1, Z2. reflexivity.
Qed.

(* ---------- float -> integer: exact *)
Local Open Scope R_scope.

Lemma rnd_i_floor (f : f64) : rnd_i (VF f) = Zfloor (B2R f).
Proof.
  cbn [rnd_i]. unfold f_to_z, f_floor. apply eq_IZR.
  rewrite (Btrunc_correct 53 1024 _).
  destruct (Bnearbyint_correct 53 1024 _ mode_DN f) as [H _]. rewrite H.
  rewrite !round_FIX_IZR. cbn [round_mode]. rewrite Ztrunc_IZR. reflexivity.
Qed.

Lemma floor_exact_l (f : f64) : IZR (rnd_i (VF f)) <= B2R f < IZR (rnd_i (VF f)) + 1.
Proof. rewrite rnd_i_floor. split; [apply Zfloor_lb|apply Zfloor_ub]. Qed.

Lemma ceiling_ceil (f : f64) : ceiling_v (VF f) = Zceil (B2R f).
Proof. unfold ceiling_v. cbn [neg_v]. rewrite rnd_i_floor, B2R_Bopp. reflexivity. Qed.

Lemma ceiling_exact_l (f : f64) : IZR (ceiling_v (VF f)) - 1 < B2R f <= IZR (ceiling_v (VF f)).
Proof.
  rewrite ceiling_ceil. split; [|apply Zceil_ub].
  pose proof (Zceil_lb (B2R f)). lra.
Qed.

Lemma f_is_neg_lt (f : f64) : is_finite f = true -> f_is_neg f = true -> B2R f < 0.
Proof.
  destruct f as [s|s| |s m e B]; cbn [is_finite f_is_neg]; try discriminate.
  destruct s; try discriminate. intros _ _. cbn [B2R]. apply F2R_lt_0. cbn [Fnum cond_Zopp]. lia.
Qed.

Lemma f_not_neg_ge (f : f64) : is_finite f = true -> f_is_neg f = false -> 0 <= B2R f.
Proof.
  destruct f as [s|s| |s m e B]; cbn [is_finite f_is_neg B2R]; try discriminate; try (intros; lra).
  destruct s; try discriminate. intros _ _. apply F2R_ge_0. cbn [Fnum cond_Zopp]. lia.
Qed.

Lemma truncate_trunc (f : f64) : is_finite f = true -> truncate_v (VF f) = Ztrunc (B2R f).
Proof.
  intros F. unfold truncate_v. cbn [v_is_neg]. destruct (f_is_neg f) eqn:N.
  - pose proof (f_is_neg_lt f F N) as L. cbn [abs_v]. rewrite rnd_i_floor, B2R_Babs.
    rewrite <- (Ztrunc_floor (Rabs (B2R f))) by apply Rabs_pos. rewrite Ztrunc_abs.
    assert (Ztrunc (B2R f) <= 0)%Z.
    { rewrite <- (Ztrunc_IZR 0). apply Ztrunc_le. lra. }
    lia.
  - pose proof (f_not_neg_ge f F N) as L. rewrite rnd_i_floor. symmetry. apply Ztrunc_floor. exact L.
Qed.

(* the truncation lies between zero and the value and is less than one away from it *)
Lemma truncate_exact_l (f : f64) : is_finite f = true ->
  let n := truncate_v (VF f) in
  Rabs (IZR n) <= Rabs (B2R f) < Rabs (IZR n) + 1 /\ 0 <= IZR n * B2R f.
Proof.
  intros F n. unfold n. rewrite truncate_trunc by exact F. set (x := B2R f).
  destruct (Rlt_or_le x 0) as [L|L].
  - rewrite (Ztrunc_ceil x) by lra. pose proof (Zceil_ub x). pose proof (Zceil_lb x).
    assert (IZR (Zceil x) <= 0).
    { apply IZR_le. rewrite <- (Zceil_IZR 0). apply Zceil_le. lra. }
    rewrite !Rabs_left1 by lra. split; [lra|]. nra.
  - rewrite (Ztrunc_floor x) by lra. pose proof (Zfloor_lb x). pose proof (Zfloor_ub x).
    assert (0 <= IZR (Zfloor x)).
    { apply IZR_le. rewrite <- (Zfloor_IZR 0). apply Zfloor_le. lra. }
    rewrite !Rabs_pos_eq by lra. split; [lra|]. nra.
Qed.

Lemma round_nearest (f : f64) : round_v (VF f) = ZnearestA (B2R f).
Proof.
  cbn [round_v]. rewrite rnd_i_floor. unfold f_round.
  destruct (Bnearbyint_correct 53 1024 _ mode_NA f) as [H _]. rewrite H.
  rewrite round_FIX_IZR. cbn [round_mode]. apply Zfloor_IZR.
Qed.

(* round: a nearest integer, and in a halfway case the one away from zero *)
Lemma round_exact_l (f : f64) :
  let n := round_v (VF f) in
  Rabs (B2R f - IZR n) <= / 2 /\ (Rabs (B2R f - IZR n) = / 2 -> Rabs (B2R f) < Rabs (IZR n)).
Proof.
  intros n. unfold n. rewrite round_nearest. set (x := B2R f). split; [apply Znearest_half|].
  intros T. unfold Znearest in *.
  pose proof (Zfloor_lb x) as LB. pose proof (Zfloor_ub x) as UB.
  destruct (Rcompare_spec (x - IZR (Zfloor x)) (/ 2)) as [C|C|C].
  - rewrite Rabs_pos_eq in T by lra. lra.
  - (* the halfway case *)
    destruct (0 <=? Zfloor x)%Z eqn:S.
    + apply Z.leb_le in S. apply IZR_le in S.
      assert (Zc : Zceil x = (Zfloor x + 1)%Z).
      { apply Zceil_imp. rewrite minus_IZR, plus_IZR. simpl (IZR 1). split; lra. }
      rewrite Zc, plus_IZR. simpl (IZR 1). rewrite !Rabs_pos_eq by lra. lra.
    + apply Z.leb_gt in S. assert (IZR (Zfloor x) <= -1).
      { apply IZR_le. lia. }
      rewrite (Rabs_left1 x) by lra. rewrite (Rabs_left1 (IZR (Zfloor x))) by lra. lra.
  - assert (Zc : Zceil x = (Zfloor x + 1)%Z).
    { apply Zceil_imp. rewrite minus_IZR, plus_IZR. simpl (IZR 1). split; lra. }
    rewrite Zc, plus_IZR in T. simpl (IZR 1) in T. rewrite Rabs_left1 in T by lra. lra.
Qed.

(* ---------- the four operations and sqrt: the correctly rounded IEEE result, or float_overflow *)
Definition rnd64 (x : R) : R := round radix2 (SpecFloat.fexp 53 1024) ZnearestE x.
Definition fits64 (x : R) : bool := Rlt_bool (Rabs (rnd64 x)) (bpow radix2 1024).

Lemma overflow_is_inf (r : f64) s : B2SF r = binary_overflow 53 1024 mode_NE s -> mkf r = Err EOverflow.
Proof. destruct r; cbn [B2SF]; unfold binary_overflow; cbn [overflow_to_inf]; intros H; inversion H; reflexivity. Qed.

Lemma finite_mkf (r : f64) : is_finite r = true -> mkf r = Ok (VF r).
Proof. destruct r; cbn [is_finite]; try discriminate; reflexivity. Qed.

Lemma add_correct_l (x y : f64) : is_finite x = true -> is_finite y = true ->
  if fits64 (B2R x + B2R y)
  then mkf (Bplus mode_NE x y) = Ok (VF (Bplus mode_NE x y)) /\ B2R (Bplus mode_NE x y) = rnd64 (B2R x + B2R y)
  else mkf (Bplus mode_NE x y) = Err EOverflow.
Proof.
  intros Fx Fy. pose proof (Bplus_correct 53 1024 _ _ mode_NE x y Fx Fy) as H.
  unfold fits64, rnd64. cbn [round_mode] in H.
  destruct (Rlt_bool _ _).
  - destruct H as [V [F _]]. split; [apply finite_mkf; exact F|exact V].
  - destruct H as [O _]. eapply overflow_is_inf; eauto.
Qed.

Lemma sub_correct_l (x y : f64) : is_finite x = true -> is_finite y = true ->
  if fits64 (B2R x - B2R y)
  then mkf (Bplus mode_NE x (Bopp y)) = Ok (VF (Bplus mode_NE x (Bopp y)))
       /\ B2R (Bplus mode_NE x (Bopp y)) = rnd64 (B2R x - B2R y)
  else mkf (Bplus mode_NE x (Bopp y)) = Err EOverflow.
Proof.
  intros Fx Fy. assert (Fy' : is_finite (Bopp y) = true) by (rewrite is_finite_Bopp; exact Fy).
  pose proof (add_correct_l x (Bopp y) Fx Fy') as H. rewrite B2R_Bopp in H. exact H.
Qed.

Lemma mul_correct_l (x y : f64) : is_finite x = true -> is_finite y = true ->
  if fits64 (B2R x * B2R y)
  then mkf (Bmult mode_NE x y) = Ok (VF (Bmult mode_NE x y)) /\ B2R (Bmult mode_NE x y) = rnd64 (B2R x * B2R y)
  else mkf (Bmult mode_NE x y) = Err EOverflow.
Proof.
  intros Fx Fy. pose proof (Bmult_correct 53 1024 _ _ mode_NE x y) as H.
  unfold fits64, rnd64. cbn [round_mode] in H.
  destruct (Rlt_bool _ _).
  - destruct H as [V [F _]]. rewrite Fx, Fy in F. split; [apply finite_mkf; exact F|exact V].
  - eapply overflow_is_inf; eauto.
Qed.

Lemma div_correct_l (x y : f64) : is_finite x = true -> is_finite y = true -> f_is_zero y = false ->
  if fits64 (B2R x / B2R y)
  then mkf (Bdiv mode_NE x y) = Ok (VF (Bdiv mode_NE x y)) /\ B2R (Bdiv mode_NE x y) = rnd64 (B2R x / B2R y)
  else mkf (Bdiv mode_NE x y) = Err EOverflow.
Proof.
  intros Fx Fy Z.
  assert (NZ : B2R y <> 0).
  { destruct y as [s|s| |s m e B]; try discriminate. cbn [B2R]. intros H. apply eq_0_F2R in H.
    cbn [Fnum] in H. destruct s; discriminate H. }
  pose proof (Bdiv_correct 53 1024 _ _ mode_NE x y NZ) as H.
  unfold fits64, rnd64. cbn [round_mode] in H.
  destruct (Rlt_bool _ _).
  - destruct H as [V [F _]]. rewrite Fx in F. split; [apply finite_mkf; exact F|exact V].
  - eapply overflow_is_inf; eauto.
Qed.

Lemma sqrt_correct_l (x : f64) : is_finite x = true -> f_is_neg x = false ->
  mkf (Bsqrt mode_NE x) = Ok (VF (Bsqrt mode_NE x)) /\ B2R (Bsqrt mode_NE x) = rnd64 (sqrt (B2R x)).
Proof.
  intros Fx N. destruct (Bsqrt_correct 53 1024 _ _ mode_NE x) as [V [F _]]. split; [|exact V].
  apply finite_mkf. rewrite F. destruct x as [s|s| |s m e B]; try discriminate; try reflexivity.
  destruct s; [discriminate N|reflexivity].
Qed.

(* integer -> double: the nearest double (ties to even), or float_overflow *)
Lemma int_to_float_l (z : Z) :
  if fits64 (IZR z)
  then result_f (VI z) = Ok (f64_of_z z) /\ B2R (f64_of_z z) = rnd64 (IZR z)
  else result_f (VI z) = Err EOverflow.
Proof.
  pose proof (binary_normalize_correct 53 1024 _ _ mode_NE z 0 false) as H. cbv zeta in H.
  assert (E : F2R (Float radix2 z 0) = IZR z).
  { unfold F2R. cbn [Fnum Fexp bpow]. ring. }
  rewrite E in H. unfold fits64, rnd64. cbn [round_mode] in H. unfold result_f. cbn [to_flt]. fold (f64_of_z z) in H.
  destruct (Rlt_bool _ _).
  - destruct H as [V [F _]]. split; [|exact V]. destruct (f64_of_z z); try discriminate F; reflexivity.
  - assert (M : mkf (f64_of_z z) = Err EOverflow) by (eapply overflow_is_inf; eauto).
    unfold mkf in M. destruct (classify (f64_of_z z)); cbn [bind] in M; congruence.
Qed.

(* float_integer_part: exactly the truncated value; float_fractional_part: the IEEE difference f - trunc f *)
Lemma fip_exact_l (f : f64) : is_finite f = true ->
  mkf (f_trunc f) = Ok (VF (f_trunc f)) /\ B2R (f_trunc f) = IZR (Ztrunc (B2R f)).
Proof.
  intros F. unfold f_trunc. destruct (Bnearbyint_correct 53 1024 _ mode_ZR f) as [V [Fi _]]. split.
  - apply finite_mkf. rewrite Fi. exact F.
  - rewrite V, round_FIX_IZR. reflexivity.
Qed.

Lemma ffp_correct_l (f : f64) : is_finite f = true ->
  if fits64 (B2R f - IZR (Ztrunc (B2R f)))
  then mkf (f_fract f) = Ok (VF (f_fract f)) /\ B2R (f_fract f) = rnd64 (B2R f - IZR (Ztrunc (B2R f)))
  else mkf (f_fract f) = Err EOverflow.
Proof.
  intros F. destruct (fip_exact_l f F) as [M V]. apply mkf_ok in M. destruct M as [_ Ft].
  pose proof (Bminus_correct 53 1024 _ _ mode_NE f (f_trunc f) F Ft) as H.
  unfold f_fract, fits64, rnd64. cbn [round_mode] in H. rewrite V in H.
  destruct (Rlt_bool _ _).
  - destruct H as [W [G _]]. split; [apply finite_mkf; exact G|exact W].
  - destruct H as [O _]. eapply overflow_is_inf; eauto.
Qed.

(* ---------- the statements above are about what eval computes *)
Lemma result_f_float (x : f64) : is_finite x = true -> result_f (VF x) = Ok x.
Proof. unfold result_f. cbn [to_flt]. destruct x; cbn [is_finite classify]; try discriminate; reflexivity. Qed.

Lemma eval_basic_ops_l libm e1 e2 (x y : f64) :
  eval libm e1 = Ok (VF x) -> eval libm e2 = Ok (VF y) ->
  eval libm (Bin BAdd e1 e2) = mkf (Bplus mode_NE x y) /\
  eval libm (Bin BSub e1 e2) = mkf (Bplus mode_NE x (Bopp y)) /\
  eval libm (Bin BMul e1 e2) = mkf (Bmult mode_NE x y) /\
  eval libm (Bin BDiv e1 e2) = (if f_is_zero y then Err EZeroDiv else mkf (Bdiv mode_NE x y)).
Proof.
  intros E1 E2. pose proof (float_result_finite_l libm e1 x E1) as Fx. pose proof (float_result_finite_l libm e2 y E2) as Fy.
  assert (Fy' : is_finite (Bopp y) = true) by (rewrite is_finite_Bopp; exact Fy).
  cbn [eval]. rewrite E1, E2. cbn [bind bin_v]. unfold sub_v, add_v, mul_v, div_v, fbin. cbn [neg_v is_flt orb v_is_zero].
  rewrite !result_f_float by assumption. cbn [bind]. repeat split. destruct (f_is_zero y); reflexivity.
Qed.

Lemma eval_float_to_int_l libm e (f : f64) : eval libm e = Ok (VF f) ->
  eval libm (Un UFloor e) = Ok (VI (Zfloor (B2R f))) /\
  eval libm (Un UCeil e) = Ok (VI (Zceil (B2R f))) /\
  eval libm (Un UTrunc e) = Ok (VI (Ztrunc (B2R f))) /\
  eval libm (Un URound e) = Ok (VI (ZnearestA (B2R f))).
Proof.
  intros E. pose proof (float_result_finite_l libm e f E) as F.
  cbn [eval]. rewrite E. cbn [bind un_v].
  rewrite rnd_i_floor, ceiling_ceil, truncate_trunc, round_nearest by exact F. repeat split.
Qed.

Lemma eval_sqrt_l libm e (f : f64) : eval libm e = Ok (VF f) -> f_is_neg f = false ->
  eval libm (Un USqrt e) = Ok (VF (Bsqrt mode_NE f)) /\ B2R (Bsqrt mode_NE f) = rnd64 (sqrt (B2R f)).
Proof.
  intros E N. pose proof (float_result_finite_l libm e f E) as F.
  cbn [eval]. rewrite E. cbn [bind un_v]. unfold sqrt_v. cbn [v_is_neg]. rewrite N.
  rewrite result_f_float by exact F. cbn [bind]. apply sqrt_correct_l; assumption.
Qed.

(* ---------- rational -> double: the quotient with a sticky bit that is handed to Flocq's rounding *)
Local Open Scope Z_scope.
Lemma bitlen_spec z : 0 < z -> 2 ^ (bitlen z - 1) <= z < 2 ^ bitlen z.
Proof.
  intros H. unfold bitlen. destruct (z <=? 0) eqn:E; [apply Z.leb_le in E; lia|].
  replace (Z.log2 z + 1 - 1) with (Z.log2 z) by lia. replace (Z.log2 z + 1) with (Z.succ (Z.log2 z)) by lia.
  apply Z.log2_spec. exact H.
Qed.

(* the quotient handed to binary_normalize has at least 64 bits, so its sticky bit sits far below the rounding position *)
Lemma quotient_long n d : 0 < d -> 0 < n ->
  let k := Z.max 0 (64 + bitlen d - bitlen n) in
  2 ^ 63 <= (n * 2 ^ k) / d.
Proof.
  intros Hd Hn k. pose proof (bitlen_spec n Hn) as [Ln _]. pose proof (bitlen_spec d Hd) as [_ Ud].
  apply Z.div_le_lower_bound; [exact Hd|].
  assert (Hk : 64 + bitlen d - bitlen n <= k) by (unfold k; lia).
  assert (K0 : 0 <= k) by (unfold k; lia).
  assert (B1 : 1 <= bitlen n) by (unfold bitlen; destruct (n <=? 0) eqn:E; [apply Z.leb_le in E; lia|]; pose proof (Z.log2_nonneg n); lia).
  assert (B2 : 0 <= bitlen d) by (unfold bitlen; destruct (d <=? 0); [lia|]; pose proof (Z.log2_nonneg d); lia).
  assert (P : 2 ^ (63 + bitlen d) <= 2 ^ (bitlen n - 1) * 2 ^ k).
  { rewrite <- Z.pow_add_r by lia. apply Z.pow_le_mono_r; lia. }
  rewrite Z.pow_add_r in P by lia.
  assert (0 < 2 ^ k) by (apply Z.pow_pos_nonneg; lia).
  assert (0 < 2 ^ 63) by (apply Z.pow_pos_nonneg; lia).
  nia.
Qed.

Lemma rat_to_float_l n d : 0 < d -> n <> 0 ->
  let a := Z.abs n in
  let k := Z.max 0 (64 + bitlen d - bitlen a) in
  let q := (a * 2 ^ k) / d in
  let r := (a * 2 ^ k) mod d in
  let m := 2 * q + (if r =? 0 then 0 else 1) in
  let x := F2R (Float radix2 (if n <? 0 then - m else m) (- (k + 1))) in
  (d * q <= a * 2 ^ k < d * (q + 1) /\ (r = 0 <-> d * q = a * 2 ^ k) /\ 2 ^ 63 <= q) /\
  (if fits64 x then result_f (VQ n d) = Ok (f64_of_q n d) /\ B2R (f64_of_q n d) = rnd64 x
   else result_f (VQ n d) = Err EOverflow).
Proof.
  intros Hd Hn a k q r m x.
  assert (Ha : 0 < a) by (unfold a; lia).
  split.
  - pose proof (Z.div_mod (a * 2 ^ k) d ltac:(lia)) as DM. pose proof (Z.mod_pos_bound (a * 2 ^ k) d Hd) as MB.
    fold q in DM. fold r in DM, MB.
    split; [nia|]. split; [split; intros H1; nia|]. apply quotient_long; assumption.
  - assert (E : f64_of_q n d = binary_normalize 53 1024 _ _ mode_NE (if n <? 0 then - m else m) (- (k + 1)) false).
    { unfold f64_of_q. fold a. destruct (a =? 0) eqn:A0; [apply Z.eqb_eq in A0; lia|]. fold k.
      unfold m, q, r, Z.div, Z.modulo. destruct (Z.div_eucl (a * 2 ^ k) d) as [q' r']. reflexivity. }
    pose proof (binary_normalize_correct 53 1024 _ _ mode_NE (if n <? 0 then - m else m) (- (k + 1)) false) as H.
    cbv zeta in H. fold x in H. rewrite <- E in H.
    unfold fits64, rnd64. cbn [round_mode] in H. unfold result_f. cbn [to_flt].
    destruct (Rlt_bool _ _).
    + destruct H as [V [F _]]. split; [|exact V]. destruct (f64_of_q n d); try discriminate F; reflexivity.
    + assert (M : mkf (f64_of_q n d) = Err EOverflow) by (eapply overflow_is_inf; eauto).
      unfold mkf in M. destruct (classify (f64_of_q n d)); cbn [bind] in M; congruence.
Qed.

Local Open Scope R_scope.

(* the square-and-multiply power of the model is Z.pow *)
Local Open Scope Z_scope.
Lemma pow_pos_sq_spec x p : pow_pos_sq x p = x ^ Z.pos p.
Proof.
  induction p as [p IH|p IH|]; cbn [pow_pos_sq].
  - rewrite IH. rewrite Pos2Z.inj_xI. rewrite Z.pow_add_r, Z.pow_1_r by lia. rewrite Z.pow_mul_r by lia.
    rewrite Z.pow_2_r. rewrite Z.pow_mul_l. ring.
  - rewrite IH. rewrite Pos2Z.inj_xO. rewrite Z.pow_mul_r by lia. rewrite Z.pow_2_r. rewrite Z.pow_mul_l. reflexivity.
  - rewrite Z.pow_1_r. reflexivity.
Qed.

Lemma zpow_spec x y : 0 <= y -> zpow x y = x ^ y.
Proof. destruct y; cbn [zpow]; intros H; [reflexivity|apply pow_pos_sq_spec|lia]. Qed.
Local Open Scope R_scope.

(* ---------- the comparison used by the correspondence means what it says *)
Lemma agrees_int r z : agrees r (OInt z) = true <-> r = Ok (VI z).
Proof.
  destruct r as [[x|n d|f]|[]]; cbn [agrees]; split; intros H; try discriminate H.
  - apply Z.eqb_eq in H. subst. reflexivity.
  - inversion H. apply Z.eqb_refl.
Qed.

Lemma agrees_err r : 
  (agrees r OZeroDiv = true <-> r = Err EZeroDiv) /\ (agrees r OUndefined = true <-> r = Err EUndefined) /\
  (agrees r OOverflow = true <-> r = Err EOverflow).
Proof.
  destruct r as [[x|n d|f]|[]]; cbn [agrees]; repeat split; try discriminate; try (intros [=]).
Qed.
