(* C02 -- pinned property theorems (nothing else lives here) *)
From Coq Require Import ZArith List Bool Reals.
From Flocq Require Import Core.Core IEEE754.BinarySingleNaN.
From V Require Import C02.Model C02.Proofs.
Import ListNotations.
Open Scope Z_scope.

(* for every expression and every library oracle, a successful evaluation never yields an infinite or NaN double *)
Theorem float_result_finite : forall (libm : libm_t) e f, eval libm e = Ok (VF f) -> is_finite f = true.
Proof. exact float_result_finite_l. Qed.
Print Assumptions float_result_finite.

(* ---------- the undefined-operation table *)
(* x / 0, x / 0.0, x / -0.0, x / (0 rdiv d) *)
Theorem div_zero_error : forall libm e1 e2 a b,
  eval libm e1 = Ok a -> eval libm e2 = Ok b -> v_is_zero b = true -> eval libm (Bin BDiv e1 e2) = Err EZeroDiv.
Proof. exact div_zero_l. Qed.
Print Assumptions div_zero_error.

Theorem sqrt_neg_undefined : forall libm e a,
  eval libm e = Ok a -> v_is_neg a = true -> eval libm (Un USqrt e) = Err EUndefined.
Proof. exact sqrt_neg_l. Qed.
Print Assumptions sqrt_neg_undefined.

(* log of zero: the IEEE result is -infinity, reported as float_overflow; log of a negative float: undefined;
   log of a negative integer or rational: undefined, or float_overflow when the operand does not fit a double *)
Theorem log_zero_error : forall libm e a,
  eval libm e = Ok a -> v_is_zero a = true -> eval libm (Un ULog e) = Err EOverflow.
Proof. exact log_zero_l. Qed.
Print Assumptions log_zero_error.

Theorem log_neg_error : forall libm e a, eval libm e = Ok a -> v_is_neg a = true ->
  eval libm (Un ULog e) = Err EUndefined \/ eval libm (Un ULog e) = Err EOverflow.
Proof. exact log_neg_l. Qed.
Print Assumptions log_neg_error.

Theorem log_neg_float_undefined : forall libm e f,
  eval libm e = Ok (VF f) -> f_is_neg f = true -> eval libm (Un ULog e) = Err EUndefined.
Proof. exact log_neg_float_l. Qed.
Print Assumptions log_neg_float_undefined.

(* 0 ** negative and 0 ^ negative, for every kind of zero and of negative number *)
Theorem pow_zero_neg_undefined : forall libm e1 e2 a b,
  eval libm e1 = Ok a -> eval libm e2 = Ok b -> v_is_zero a = true -> v_is_neg b = true ->
  eval libm (Bin BPow e1 e2) = Err EUndefined /\ eval libm (Bin BIPow e1 e2) = Err EUndefined.
Proof. exact pow_zero_neg_l. Qed.
Print Assumptions pow_zero_neg_undefined.

Theorem atan2_00_undefined : forall libm e1 e2 a b,
  eval libm e1 = Ok a -> eval libm e2 = Ok b -> v_is_zero a = true -> v_is_zero b = true ->
  eval libm (Bin BAtan2 e1 e2) = Err EUndefined.
Proof. exact atan2_00_l. Qed.
Print Assumptions atan2_00_undefined.

(* ---------- float -> integer is exact (B2R f is the real number the double denotes) *)
Theorem floor_exact : forall f : f64, (IZR (rnd_i (VF f)) <= B2R f < IZR (rnd_i (VF f)) + 1)%R.
Proof. exact floor_exact_l. Qed.
Print Assumptions floor_exact.

Theorem ceiling_exact : forall f : f64, (IZR (ceiling_v (VF f)) - 1 < B2R f <= IZR (ceiling_v (VF f)))%R.
Proof. exact ceiling_exact_l. Qed.
Print Assumptions ceiling_exact.

(* truncate: towards zero, less than one away *)
Theorem truncate_exact : forall f : f64, is_finite f = true ->
  let n := truncate_v (VF f) in
  (Rabs (IZR n) <= Rabs (B2R f) < Rabs (IZR n) + 1 /\ 0 <= IZR n * B2R f)%R.
Proof. exact truncate_exact_l. Qed.
Print Assumptions truncate_exact.

(* round: a nearest integer, the one away from zero in a halfway case *)
Theorem round_exact : forall f : f64,
  let n := round_v (VF f) in
  (Rabs (B2R f - IZR n) <= / 2 /\ (Rabs (B2R f - IZR n) = / 2 -> Rabs (B2R f) < Rabs (IZR n)))%R.
Proof. exact round_exact_l. Qed.
Print Assumptions round_exact.

(* the same four, as what is/2 returns: the sign-split / negate-floor-negate / round-then-floor compositions of the
   code compute the standard floor, ceiling, truncation and round-half-away of the exact value *)
Theorem float_to_int_eval : forall libm e (f : f64), eval libm e = Ok (VF f) ->
  eval libm (Un UFloor e) = Ok (VI (Zfloor (B2R f))) /\
  eval libm (Un UCeil e) = Ok (VI (Zceil (B2R f))) /\
  eval libm (Un UTrunc e) = Ok (VI (Ztrunc (B2R f))) /\
  eval libm (Un URound e) = Ok (VI (ZnearestA (B2R f))).
Proof. exact eval_float_to_int_l. Qed.
Print Assumptions float_to_int_eval.

(* ---------- + - * / sqrt: the IEEE-754 round-to-nearest-even result of the exact real operation, or float_overflow
   exactly when that rounded result does not fit (Flocq's B*_correct) *)
Theorem basic_ops_eval : forall libm e1 e2 (x y : f64),
  eval libm e1 = Ok (VF x) -> eval libm e2 = Ok (VF y) ->
  eval libm (Bin BAdd e1 e2) = mkf (Bplus mode_NE x y) /\
  eval libm (Bin BSub e1 e2) = mkf (Bplus mode_NE x (Bopp y)) /\
  eval libm (Bin BMul e1 e2) = mkf (Bmult mode_NE x y) /\
  eval libm (Bin BDiv e1 e2) = (if f_is_zero y then Err EZeroDiv else mkf (Bdiv mode_NE x y)).
Proof. exact eval_basic_ops_l. Qed.
Print Assumptions basic_ops_eval.

Theorem add_correctly_rounded : forall x y : f64, is_finite x = true -> is_finite y = true ->
  if fits64 (B2R x + B2R y)
  then mkf (Bplus mode_NE x y) = Ok (VF (Bplus mode_NE x y)) /\ B2R (Bplus mode_NE x y) = rnd64 (B2R x + B2R y)
  else mkf (Bplus mode_NE x y) = Err EOverflow.
Proof. exact add_correct_l. Qed.
Print Assumptions add_correctly_rounded.

Theorem sub_correctly_rounded : forall x y : f64, is_finite x = true -> is_finite y = true ->
  if fits64 (B2R x - B2R y)
  then mkf (Bplus mode_NE x (Bopp y)) = Ok (VF (Bplus mode_NE x (Bopp y)))
       /\ B2R (Bplus mode_NE x (Bopp y)) = rnd64 (B2R x - B2R y)
  else mkf (Bplus mode_NE x (Bopp y)) = Err EOverflow.
Proof. exact sub_correct_l. Qed.
Print Assumptions sub_correctly_rounded.

Theorem mul_correctly_rounded : forall x y : f64, is_finite x = true -> is_finite y = true ->
  if fits64 (B2R x * B2R y)
  then mkf (Bmult mode_NE x y) = Ok (VF (Bmult mode_NE x y)) /\ B2R (Bmult mode_NE x y) = rnd64 (B2R x * B2R y)
  else mkf (Bmult mode_NE x y) = Err EOverflow.
Proof. exact mul_correct_l. Qed.
Print Assumptions mul_correctly_rounded.

Theorem div_correctly_rounded : forall x y : f64, is_finite x = true -> is_finite y = true -> f_is_zero y = false ->
  if fits64 (B2R x / B2R y)
  then mkf (Bdiv mode_NE x y) = Ok (VF (Bdiv mode_NE x y)) /\ B2R (Bdiv mode_NE x y) = rnd64 (B2R x / B2R y)
  else mkf (Bdiv mode_NE x y) = Err EOverflow.
Proof. exact div_correct_l. Qed.
Print Assumptions div_correctly_rounded.

Theorem sqrt_correctly_rounded : forall libm e (f : f64), eval libm e = Ok (VF f) -> f_is_neg f = false ->
  eval libm (Un USqrt e) = Ok (VF (Bsqrt mode_NE f)) /\ B2R (Bsqrt mode_NE f) = rnd64 (sqrt (B2R f)).
Proof. exact eval_sqrt_l. Qed.
Print Assumptions sqrt_correctly_rounded.

(* integer -> double promotion: the nearest double (ties to even) of the integer, or float_overflow *)
Theorem int_to_float_nearest : forall z : Z,
  if fits64 (IZR z)
  then result_f (VI z) = Ok (f64_of_z z) /\ B2R (f64_of_z z) = rnd64 (IZR z)
  else result_f (VI z) = Err EOverflow.
Proof. exact int_to_float_l. Qed.
Print Assumptions int_to_float_nearest.

(* rational -> double (partial): the model's conversion is the nearest-even rounding of x = +-(2q+s) * 2^-(k+1), where q is the
   integer quotient of |n| * 2^k by d, at least 64 bits long, and s = 1 iff the division is inexact ("round to odd": x lies strictly
   between the same two 65-bit neighbours as n/d and equals n/d when that is exact).  Not proved: that rounding x and rounding n/d
   to 53 bits give the same double (the standard round-to-odd argument). *)
Theorem rat_to_float_partial : forall n d, 0 < d -> n <> 0 ->
  let a := Z.abs n in
  let k := Z.max 0 (64 + bitlen d - bitlen a) in
  let q := (a * 2 ^ k) / d in
  let r := (a * 2 ^ k) mod d in
  let m := 2 * q + (if r =? 0 then 0 else 1) in
  let x := F2R (Float radix2 (if n <? 0 then - m else m) (- (k + 1))) in
  (d * q <= a * 2 ^ k < d * (q + 1) /\ (r = 0 <-> d * q = a * 2 ^ k) /\ 2 ^ 63 <= q) /\
  (if fits64 x then result_f (VQ n d) = Ok (f64_of_q n d) /\ B2R (f64_of_q n d) = rnd64 x
   else result_f (VQ n d) = Err EOverflow).
Proof. exact rat_to_float_l. Qed.
Print Assumptions rat_to_float_partial.

(* float_integer_part is the truncated value exactly; float_fractional_part is the IEEE difference f - trunc f
   (partial: that this difference is exact, i.e. needs no rounding, is not proved) *)
Theorem float_integer_part_exact : forall f : f64, is_finite f = true ->
  mkf (f_trunc f) = Ok (VF (f_trunc f)) /\ B2R (f_trunc f) = IZR (Ztrunc (B2R f)).
Proof. exact fip_exact_l. Qed.
Print Assumptions float_integer_part_exact.

Theorem float_fractional_part_partial : forall f : f64, is_finite f = true ->
  if fits64 (B2R f - IZR (Ztrunc (B2R f)))
  then mkf (f_fract f) = Ok (VF (f_fract f)) /\ B2R (f_fract f) = rnd64 (B2R f - IZR (Ztrunc (B2R f)))
  else mkf (f_fract f) = Err EOverflow.
Proof. exact ffp_correct_l. Qed.
Print Assumptions float_fractional_part_partial.

(* the comparison used by the correspondence *)
Theorem agrees_errors : forall r,
  (agrees r OZeroDiv = true <-> r = Err EZeroDiv) /\ (agrees r OUndefined = true <-> r = Err EUndefined) /\
  (agrees r OOverflow = true <-> r = Err EOverflow).
Proof. exact agrees_err. Qed.
Print Assumptions agrees_errors.

(* ---------- examples / non-vacuity *)
Definition b_one : Z := 4607182418800017408.         (* 0x3FF0000000000000 *)
Definition b_max : Z := 9218868437227405311.         (* 0x7FEFFFFFFFFFFFFF *)
Definition b_2p5 : Z := 4612811918334230528.         (* 2.5 *)
Definition b_m2p5 : Z := 2 ^ 63 + b_2p5.             (* -2.5 *)

Example ex_zero_kinds : v_is_zero (VI 0) = true /\ v_is_zero (VF (B754_zero true)) = true /\ v_is_zero (VQ 0 7) = true.
Proof. repeat split. Qed.
Example ex_div_zero : show [] (Bin BDiv (LitF b_one) (LitI 0)) = SErr EZeroDiv
  /\ show [] (Bin BDiv (LitI 1) (LitF (2 ^ 63))) = SErr EZeroDiv.
Proof. vm_compute. split; reflexivity. Qed.
Example ex_overflow : show [] (Bin BMul (LitF b_max) (LitI 2)) = SErr EOverflow
  /\ show [] (Bin BAdd (LitI (2 ^ 1100)) (LitF b_one)) = SErr EOverflow
  /\ show [] (Bin BAdd (LitF b_max) (LitF 1)) = SFlt b_max.
Proof. vm_compute. repeat split. Qed.
Example ex_rounding : show [] (Un URound (LitF b_2p5)) = SInt 3 /\ show [] (Un URound (LitF b_m2p5)) = SInt (-3)
  /\ show [] (Un UTrunc (LitF b_m2p5)) = SInt (-2) /\ show [] (Un UFloor (LitF b_m2p5)) = SInt (-3)
  /\ show [] (Un UCeil (LitF b_m2p5)) = SInt (-2).
Proof. vm_compute. repeat split. Qed.
Example ex_bits_round_trip : map (fun b => bits_of_f64 (f64_of_bits b)) [0; 1; b_one; b_max; b_m2p5; 2 ^ 52 - 1; 2 ^ 52; 2 ^ 63]
  = [0; 1; b_one; b_max; b_m2p5; 2 ^ 52 - 1; 2 ^ 52; 2 ^ 63].
Proof. vm_compute. reflexivity. Qed.
(* 7/3 : the correctly rounded double is 0x4002AAAAAAAAAAAB *)
Example ex_rat : show [] (Un UFloat (Bin BRdiv (LitI 7) (LitI 3))) = SFlt 4612436618365282987.
Proof. vm_compute. reflexivity. Qed.
(* sqrt(2), 0.1 + 0.2, 1/3 *)
Example ex_values : show [] (Un USqrt (LitI 2)) = SFlt 4609047870845172685
  /\ show [] (Bin BAdd (LitF 4591870180066957722) (LitF 4596373779694328218)) = SFlt 4599075939470750516
  /\ show [] (Bin BDiv (LitI 1) (LitI 3)) = SFlt 4599676419421066581.
Proof. vm_compute. repeat split. Qed.
(* the library is only classified: an infinite answer is float_overflow, a NaN is undefined, a missing entry is flagged *)
Example ex_libm : show [(1, b_one, 0, 2047 * 2 ^ 52)] (Un (ULibm 1) (LitF b_one)) = SErr EOverflow
  /\ show [(6, b_one, 0, 2047 * 2 ^ 52 + 1)] (Un (ULibm 6) (LitF b_one)) = SErr EUndefined
  /\ show [] (Un (ULibm 6) (LitF b_one)) = SErr ENoOracle
  /\ show [] (Un ULog (LitI 0)) = SErr EOverflow /\ show [] (Un ULog (LitI (-1))) = SErr EUndefined.
Proof. vm_compute. repeat split. Qed.
