(* C27 -- pinned property theorems (nothing else lives here) *)
From Coq Require Import List NArith ZArith Bool Sorted.
From V Require C01.Model.
From V Require Import C27.Model C27.Proofs C27.IsLink.
Import ListNotations.
Open Scope Z_scope.

(* label/1 on a finite box: every listed tuple lies in the box and satisfies every posted goal; every valuation that
   lies in the box and satisfies every goal is listed (only the variables of the system matter); no duplicates;
   ascending lexicographic order with the leftmost labeled variable most significant *)
Theorem solutions_exact : forall vs box sys,
  (forall xs, In xs (solutions vs box sys) <-> in_box xs box /\ forall g, In g sys -> holds (env vs xs) g = true) /\
  (incl (sysvars sys) vs -> forall rho, in_box (map rho vs) box -> (forall g, In g sys -> holds rho g = true) ->
     In (map rho vs) (solutions vs box sys)) /\
  NoDup (solutions vs box sys) /\
  StronglySorted lex_lt (solutions vs box sys).
Proof.
  intros vs box sys. split; [intros xs; apply In_solutions|].
  split; [intros Hi rho; apply solutions_complete; exact Hi|].
  split; [apply solutions_NoDup | apply solutions_sorted].
Qed.
Print Assumptions solutions_exact.

(* a tuple of the right length determines the valuation of the labeled variables and vice versa *)
Theorem tuples_are_valuations : forall vs, NoDup vs ->
  (forall xs, length xs = length vs -> map (env vs xs) vs = xs) /\
  (forall (rho : N -> Z) v, In v vs -> env vs (map rho vs) v = rho v).
Proof. intros vs H. split; [apply map_env_id; exact H | intros rho v; apply env_map]. Qed.
Print Assumptions tuples_are_valuations.

Theorem only_occurring_variables_matter : forall r1 r2 sys,
  (forall v, In v (sysvars sys) -> r1 v = r2 v) -> sat r1 sys = sat r2 sys.
Proof. exact sat_ext. Qed.
Print Assumptions only_occurring_variables_matter.

(* a (ground) relation holds iff both sides are defined and their values are related; sum/3 likewise *)
Theorem ground_constraint_agrees_with_eval : forall rho r a b,
  holds rho (GC (CRel r a b)) = true <->
  exists x y, eval rho a = Some x /\ eval rho b = Some y /\ rel_prop r x y.
Proof. exact rel_holds. Qed.
Print Assumptions ground_constraint_agrees_with_eval.

Theorem sum_constraint_agrees_with_eval : forall rho vs r e,
  holds rho (GSum vs r e) = true <-> exists y, eval rho e = Some y /\ rel_prop r (zsum (map rho vs)) y.
Proof. exact sum_holds. Qed.
Print Assumptions sum_constraint_agrees_with_eval.

(* the evaluator is the is/2 specification of C01: same value, undefined exactly when is/2 raises an error *)
Theorem ground_expr_agrees_with_is : forall rho e,
  match C01.Model.eval_spec (to_is rho e) with
  | C01.Model.Ok z => eval rho e = Some z
  | C01.Model.Err _ => eval rho e = None
  end.
Proof.
  intros rho e. pose proof (eval_link rho e) as H.
  destruct (C01.Model.eval_spec (to_is rho e)); cbn [res_value] in H; symmetry; exact H.
Qed.
Print Assumptions ground_expr_agrees_with_is.

(* where expressions are undefined: division by zero, and negative powers of bases other than 1 and -1 *)
Theorem undefined_exactly : forall o x y,
  bin_sem o x y = None <->
  match o with
  | EQuot | EDiv | EMod | ERem => y = 0
  | EPow => y < 0 /\ x <> 1 /\ x <> -1
  | _ => False
  end.
Proof. exact bin_sem_defined. Qed.
Print Assumptions undefined_exactly.

(* an undefined subexpression makes the relation false and its negation true (parse_reified's definedness flag) *)
Theorem undefined_relation_is_false : forall rho r a b,
  eval rho a = None \/ eval rho b = None -> truth rho (CRel r a b) = false /\ truth rho (CNot (CRel r a b)) = true.
Proof. exact negated_undefined. Qed.
Print Assumptions undefined_relation_is_false.

(* reification: the connectives have their truth tables, and B #<==> C makes B the truth value of C *)
Theorem reif_truth_table : forall rho p q,
  (truth rho (CNot p) = true <-> truth rho p = false) /\
  (truth rho (CBin CAnd p q) = true <-> truth rho p = true /\ truth rho q = true) /\
  (truth rho (CBin COr p q) = true <-> truth rho p = true \/ truth rho q = true) /\
  (truth rho (CBin CImp p q) = true <-> (truth rho p = true -> truth rho q = true)) /\
  (truth rho (CBin CRimp p q) = true <-> (truth rho q = true -> truth rho p = true)) /\
  (truth rho (CBin CIff p q) = true <-> (truth rho p = true <-> truth rho q = true)) /\
  (truth rho (CBin CXor p q) = true <-> ~ (truth rho p = true <-> truth rho q = true)).
Proof. exact truth_table. Qed.
Print Assumptions reif_truth_table.

Theorem reified_boolean_is_truth_value : forall rho v c,
  holds rho (GC (CBin CIff (CBool v) c)) = true <->
  bools_ok rho c = true /\ ((rho v = 1 /\ truth rho c = true) \/ (rho v = 0 /\ truth rho c = false)).
Proof. exact reif_iff. Qed.
Print Assumptions reified_boolean_is_truth_value.

(* the comparison used by the correspondence is equality of the answer lists, order included *)
Theorem check_system_meaning : forall vs box sys o, check_system vs box sys o = true <-> o = solutions vs box sys.
Proof. exact check_system_spec. Qed.
Print Assumptions check_system_meaning.

(* ---------- non-vacuity / sanity *)
Example ex_square : solutions [0%N; 1%N] [(-3, 4); (0, 2)]
    [GC (CRel REq (EVar 0) (EBin ESub (EBin EMul (EVar 1) (EVar 1)) (EInt 1)))] = [[-1; 0]; [0; 1]; [3; 2]].
Proof. vm_compute. reflexivity. Qed.
Example ex_div_by_zero : solutions [0%N; 1%N] [(0, 1); (0, 1)] [GC (CNot (CRel REq (EBin EQuot (EVar 0) (EVar 1)) (EInt 1)))]
    = [[0; 0]; [0; 1]; [1; 0]]
  /\ solutions [0%N; 1%N] [(0, 1); (0, 1)] [GC (CRel RNe (EBin EQuot (EVar 0) (EVar 1)) (EInt 1))] = [[0; 1]].
Proof. vm_compute. auto. Qed.
Example ex_reified : solutions [0%N; 1%N] [(0, 2); (-1, 2)] [GC (CBin COr (CBool 1) (CRel RGt (EVar 0) (EInt 1)))]
    = [[0; 1]; [1; 1]; [2; 0]; [2; 1]].
Proof. vm_compute. reflexivity. Qed.
Example ex_pow : solutions [0%N; 1%N] [(-2, 2); (-2, 2)] [GC (CRel REq (EBin EPow (EVar 0) (EVar 1)) (EInt (-1)))] = [[-1; -1]; [-1; 1]].
Proof. vm_compute. reflexivity. Qed.
Example ex_sum : solutions [0%N; 1%N; 2%N] [(0, 2); (0, 2); (0, 5)] [GSum [0%N; 1%N; 0%N] REq (EBin EMul (EVar 2) (EInt 2))]
    = [[0; 0; 0]; [0; 2; 1]; [1; 0; 1]; [1; 2; 2]; [2; 0; 2]; [2; 2; 3]].
Proof. vm_compute. reflexivity. Qed.
Example ex_complete_hyps : incl (sysvars [GC (CRel RLt (EVar 0) (EVar 1))]) [1%N; 0%N] /\ NoDup [1%N; 0%N].
Proof. split; [intros v [H|[H|[]]]; subst; cbn; auto | repeat constructor; cbn; intuition discriminate]. Qed.
