(* C27 -- proofs about the finite-box model of CLP(Z) *)
From Coq Require Import List NArith ZArith Bool Lia Sorted.
From V Require Import C27.Model.
Import ListNotations.
Open Scope Z_scope.

(* ---------- only the occurring variables matter *)
Lemma eval_ext r1 r2 e : (forall v, In v (evars e) -> r1 v = r2 v) -> eval r1 e = eval r2 e.
Proof.
  induction e as [z|v|o a IHa|o a IHa b IHb]; intros H; cbn [eval evars] in *.
  - reflexivity.
  - rewrite H by (left; reflexivity). reflexivity.
  - rewrite IHa by exact H. reflexivity.
  - rewrite IHa, IHb; [reflexivity| |]; intros v Hv; apply H, in_or_app; auto.
Qed.

Lemma truth_ext r1 r2 c : (forall v, In v (cvars c) -> r1 v = r2 v) -> truth r1 c = truth r2 c.
Proof.
  induction c as [r a b|v|b|c IHc|o c IHc d IHd]; intros H; cbn [truth cvars] in *.
  - rewrite (eval_ext r1 r2 a), (eval_ext r1 r2 b); [reflexivity| |]; intros v Hv; apply H, in_or_app; auto.
  - rewrite H by (left; reflexivity). reflexivity.
  - reflexivity.
  - rewrite IHc by exact H. reflexivity.
  - rewrite IHc, IHd; [reflexivity| |]; intros v Hv; apply H, in_or_app; auto.
Qed.

Lemma bools_ok_ext r1 r2 c : (forall v, In v (cvars c) -> r1 v = r2 v) -> bools_ok r1 c = bools_ok r2 c.
Proof.
  induction c as [r a b|v|b|c IHc|o c IHc d IHd]; intros H; cbn [bools_ok cvars] in *.
  - reflexivity.
  - rewrite H by (left; reflexivity). reflexivity.
  - reflexivity.
  - apply IHc. exact H.
  - rewrite IHc, IHd; [reflexivity| |]; intros v Hv; apply H, in_or_app; auto.
Qed.

Lemma holds_ext r1 r2 g : (forall v, In v (gvars g) -> r1 v = r2 v) -> holds r1 g = holds r2 g.
Proof.
  destruct g as [c|vs r e]; intros H; cbn [holds gvars] in *.
  - rewrite (truth_ext r1 r2 c H), (bools_ok_ext r1 r2 c H). reflexivity.
  - rewrite (eval_ext r1 r2 e) by (intros v Hv; apply H, in_or_app; auto).
    assert (Hm : map r1 vs = map r2 vs) by (apply map_ext_in; intros v Hv; apply H, in_or_app; auto).
    rewrite Hm. reflexivity.
Qed.

Lemma sat_ext r1 r2 sys : (forall v, In v (sysvars sys) -> r1 v = r2 v) -> sat r1 sys = sat r2 sys.
Proof.
  unfold sat, sysvars. induction sys as [|g sys IH]; intros H; cbn [forallb flat_map] in *; [reflexivity|].
  rewrite (holds_ext r1 r2 g), IH; [reflexivity| |]; intros v Hv; apply H, in_or_app; auto.
Qed.

(* ---------- ranges and boxes *)
Lemma In_range lo hi x : In x (range lo hi) <-> lo <= x <= hi.
Proof.
  unfold range. rewrite in_map_iff. split.
  - intros [i [E Hi]]. apply in_seq in Hi. lia.
  - intros H. exists (Z.to_nat (x - lo)). split; [lia|]. apply in_seq. lia.
Qed.

Lemma SS_map_seq lo s n : StronglySorted Z.lt (map (fun i => lo + Z.of_nat i) (seq s n)).
Proof.
  revert s. induction n as [|n IH]; intros s; cbn [seq map]; constructor; [apply IH|].
  apply Forall_forall. intros y Hy. apply in_map_iff in Hy. destruct Hy as [i [E Hi]]. apply in_seq in Hi. lia.
Qed.

Lemma range_sorted lo hi : StronglySorted Z.lt (range lo hi).
Proof. apply SS_map_seq. Qed.

Lemma In_assignments box xs : In xs (assignments box) <-> in_box xs box.
Proof.
  revert xs. induction box as [|[lo hi] box IH]; intros xs; cbn [assignments].
  - destruct xs; cbn; [tauto|]. split; [intros [H|[]]; discriminate | tauto].
  - rewrite in_flat_map. split.
    + intros [x [Hx Hm]]. apply in_map_iff in Hm. destruct Hm as [ys [E Hy]]. subst.
      cbn. split; [apply In_range; exact Hx | apply IH; exact Hy].
    + destruct xs as [|x xs]; cbn; [tauto|]. intros [Hx Hb].
      exists x. split; [apply In_range; exact Hx|]. apply in_map. apply IH. exact Hb.
Qed.

Lemma in_box_length xs box : in_box xs box -> length xs = length box.
Proof.
  revert xs. induction box as [|[lo hi] box IH]; intros [|x xs]; cbn; try tauto.
  intros [_ H]. f_equal. apply IH. exact H.
Qed.

Lemma SS_app {A} (R : A -> A -> Prop) l1 l2 :
  StronglySorted R l1 -> StronglySorted R l2 -> (forall a b, In a l1 -> In b l2 -> R a b) ->
  StronglySorted R (l1 ++ l2).
Proof.
  intros H1 H2 H. induction H1 as [|a l1 Hs IH Hf]; cbn; [exact H2|].
  constructor.
  - apply IH. intros x y Hx Hy. apply H; [right; exact Hx | exact Hy].
  - apply Forall_app. split; [exact Hf|].
    apply Forall_forall. intros y Hy. apply H; [left; reflexivity | exact Hy].
Qed.

Lemma SS_map_cons x l : StronglySorted lex_lt l -> StronglySorted lex_lt (map (cons x) l).
Proof.
  intros H. induction H as [|a l Hs IH Hf]; cbn; constructor; [exact IH|].
  apply Forall_forall. intros y Hy. apply in_map_iff in Hy. destruct Hy as [z [E Hz]]. subst.
  cbn. right. split; [reflexivity|]. rewrite Forall_forall in Hf. apply Hf. exact Hz.
Qed.

Lemma SS_filter {A} (R : A -> A -> Prop) (p : A -> bool) l : StronglySorted R l -> StronglySorted R (filter p l).
Proof.
  intros H. induction H as [|a l Hs IH Hf]; cbn; [constructor|].
  destruct (p a); [|exact IH].
  constructor; [exact IH|].
  apply Forall_forall. intros y Hy. apply filter_In in Hy. rewrite Forall_forall in Hf. apply Hf, Hy.
Qed.

Lemma SS_flat_map (A : list (list Z)) l :
  StronglySorted lex_lt A -> StronglySorted Z.lt l ->
  StronglySorted lex_lt (flat_map (fun x => map (cons x) A) l).
Proof.
  intros HA Hl. induction Hl as [|x l Hs IH Hf]; cbn [flat_map]; [constructor|].
  apply SS_app; [apply SS_map_cons; exact HA | exact IH |].
  intros a b Ha Hb. apply in_map_iff in Ha. destruct Ha as [a' [Ea _]]. subst a.
  apply in_flat_map in Hb. destruct Hb as [y [Hy Hb]]. apply in_map_iff in Hb. destruct Hb as [b' [Eb _]]. subst b.
  cbn. left. rewrite Forall_forall in Hf. apply Hf. exact Hy.
Qed.

Lemma assignments_sorted box : StronglySorted lex_lt (assignments box).
Proof.
  induction box as [|[lo hi] box IH]; cbn [assignments].
  - constructor; constructor.
  - apply SS_flat_map; [exact IH | apply range_sorted].
Qed.

Lemma lex_lt_irrefl a : ~ lex_lt a a.
Proof.
  induction a as [|x a IH]; cbn; [tauto|].
  intros [H|[_ H]]; [lia | exact (IH H)].
Qed.

Lemma SS_NoDup l : StronglySorted lex_lt l -> NoDup l.
Proof.
  intros H. induction H as [|a l Hs IH Hf]; constructor; [|exact IH].
  intros Hin. rewrite Forall_forall in Hf. exact (lex_lt_irrefl a (Hf a Hin)).
Qed.

(* ---------- env *)
Lemma env_map (rho : N -> Z) vs v : In v vs -> env vs (map rho vs) v = rho v.
Proof.
  induction vs as [|x vs IH]; intros H; [destruct H|].
  cbn. destruct (N.eqb v x) eqn:E.
  - apply N.eqb_eq in E. subst. reflexivity.
  - apply IH. destruct H as [H|H]; [|exact H]. subst. rewrite N.eqb_refl in E. discriminate.
Qed.

Lemma map_env_id vs : NoDup vs -> forall xs, length xs = length vs -> map (env vs xs) vs = xs.
Proof.
  intros H. induction H as [|x vs Hx Hnd IH]; intros xs Hl.
  - destruct xs; [reflexivity | discriminate].
  - destruct xs as [|b xs]; [discriminate|]. cbn in Hl. cbn [map env]. rewrite N.eqb_refl. f_equal.
    transitivity (map (env vs xs) vs); [|apply IH; lia].
    apply map_ext_in. intros v Hv. cbn. destruct (N.eqb v x) eqn:E; [|reflexivity].
    apply N.eqb_eq in E. subst. contradiction.
Qed.

(* ---------- solutions *)
Lemma In_solutions vs box sys xs :
  In xs (solutions vs box sys) <-> in_box xs box /\ forall g, In g sys -> holds (env vs xs) g = true.
Proof.
  unfold solutions, sat. rewrite filter_In, In_assignments, forallb_forall. tauto.
Qed.

Lemma solutions_complete vs box sys rho :
  incl (sysvars sys) vs -> in_box (map rho vs) box -> (forall g, In g sys -> holds rho g = true) ->
  In (map rho vs) (solutions vs box sys).
Proof.
  intros Hi Hb Hs. unfold solutions. apply filter_In. split; [apply In_assignments; exact Hb|].
  rewrite (sat_ext _ rho).
  - unfold sat. apply forallb_forall. exact Hs.
  - intros v Hv. apply env_map. apply Hi. exact Hv.
Qed.

Lemma solutions_sorted vs box sys : StronglySorted lex_lt (solutions vs box sys).
Proof. apply SS_filter, assignments_sorted. Qed.

Lemma solutions_NoDup vs box sys : NoDup (solutions vs box sys).
Proof. apply SS_NoDup, solutions_sorted. Qed.

(* ---------- relations and expressions *)
Lemma rel_sem_prop r x y : rel_sem r x y = true <-> rel_prop r x y.
Proof.
  destruct r; cbn.
  - apply Z.eqb_eq.
  - rewrite negb_true_iff. apply Z.eqb_neq.
  - apply Z.ltb_lt.
  - apply Z.leb_le.
  - rewrite Z.ltb_lt. lia.
  - rewrite Z.leb_le. lia.
Qed.

Lemma rel_holds rho r a b :
  holds rho (GC (CRel r a b)) = true <->
  exists x y, eval rho a = Some x /\ eval rho b = Some y /\ rel_prop r x y.
Proof.
  cbn [holds bools_ok truth andb]. split.
  - destruct (eval rho a) as [x|]; [|discriminate]. destruct (eval rho b) as [y|]; [|discriminate].
    intros H. exists x, y. split; [reflexivity|]. split; [reflexivity|]. apply rel_sem_prop. exact H.
  - intros [x [y [Ha [Hb H]]]]. rewrite Ha, Hb. apply rel_sem_prop. exact H.
Qed.

Lemma sum_holds rho vs r e :
  holds rho (GSum vs r e) = true <-> exists y, eval rho e = Some y /\ rel_prop r (zsum (map rho vs)) y.
Proof.
  cbn [holds]. split.
  - destruct (eval rho e) as [y|]; [|discriminate]. intros H. exists y. split; [reflexivity|]. apply rel_sem_prop. exact H.
  - intros [y [He H]]. rewrite He. apply rel_sem_prop. exact H.
Qed.

Lemma negated_undefined rho r a b :
  eval rho a = None \/ eval rho b = None -> truth rho (CRel r a b) = false /\ truth rho (CNot (CRel r a b)) = true.
Proof.
  intros H. cbn [truth]. destruct (eval rho a) as [x|]; destruct (eval rho b) as [y|]; cbn; auto;
    destruct H as [H|H]; discriminate H.
Qed.

Lemma bin_sem_defined o x y :
  (bin_sem o x y = None <->
   match o with
   | EQuot | EDiv | EMod | ERem => y = 0
   | EPow => y < 0 /\ x <> 1 /\ x <> -1
   | _ => False
   end).
Proof.
  destruct o; cbn [bin_sem]; try (split; [discriminate | tauto]);
    try (destruct (Z.eqb_spec y 0); cbv beta iota; split; [tauto | reflexivity | discriminate | tauto]).
  unfold pow_sem. destruct (Z.ltb_spec y 0); cbv beta iota.
  - destruct (Z.eqb_spec x 1); cbv beta iota; [split; [discriminate | lia]|].
    destruct (Z.eqb_spec x (-1)); cbv beta iota; [split; [discriminate | lia]|].
    split; [intros _; lia | reflexivity].
  - split; [discriminate | lia].
Qed.

(* ---------- reification *)
Lemma reif_iff rho v c :
  holds rho (GC (CBin CIff (CBool v) c)) = true <->
  bools_ok rho c = true /\ ((rho v = 1 /\ truth rho c = true) \/ (rho v = 0 /\ truth rho c = false)).
Proof.
  cbn [holds bools_ok truth cop_sem]. rewrite !andb_true_iff, orb_true_iff, !Z.eqb_eq, eqb_true_iff.
  split.
  - intros [[[H|H] Hc] He]; (split; [exact Hc|]).
    + right. split; [exact H|]. rewrite <- He. apply Z.eqb_neq. lia.
    + left. split; [exact H|]. rewrite <- He. apply Z.eqb_eq. exact H.
  - intros [Hc [[H Ht]|[H Ht]]]; (split; [split; [|exact Hc]|]); auto; rewrite Ht.
    + apply Z.eqb_eq. exact H.
    + apply Z.eqb_neq. lia.
Qed.

Lemma truth_table rho p q :
  (truth rho (CNot p) = true <-> truth rho p = false) /\
  (truth rho (CBin CAnd p q) = true <-> truth rho p = true /\ truth rho q = true) /\
  (truth rho (CBin COr p q) = true <-> truth rho p = true \/ truth rho q = true) /\
  (truth rho (CBin CImp p q) = true <-> (truth rho p = true -> truth rho q = true)) /\
  (truth rho (CBin CRimp p q) = true <-> (truth rho q = true -> truth rho p = true)) /\
  (truth rho (CBin CIff p q) = true <-> (truth rho p = true <-> truth rho q = true)) /\
  (truth rho (CBin CXor p q) = true <-> ~ (truth rho p = true <-> truth rho q = true)).
Proof.
  cbn [truth cop_sem]. destruct (truth rho p), (truth rho q); cbn; intuition discriminate.
Qed.

(* ---------- the comparison function means equality *)
Lemma list_eqb_eq {A} (eqb : A -> A -> bool) :
  (forall x y, eqb x y = true <-> x = y) -> forall l m, list_eqb eqb l m = true <-> l = m.
Proof.
  intros He. induction l as [|x l IH]; intros [|y m]; cbn; try (split; discriminate).
  - tauto.
  - rewrite andb_true_iff, IH, He. split; [intros [? ?]; subst; reflexivity | intros E; inversion E; auto].
Qed.

Lemma check_system_spec vs box sys o : check_system vs box sys o = true <-> o = solutions vs box sys.
Proof.
  unfold check_system, tuples_eqb. apply list_eqb_eq. apply list_eqb_eq. apply Z.eqb_eq.
Qed.
