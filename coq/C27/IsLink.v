(* C27 -- the evaluator of the CLP(Z) model is the is/2 specification of C01 (eval_spec, which C01 proves equal
   to the mirror of arithmetic_ops.rs): a ground expression has the value is/2 computes, and it is undefined in
   the model exactly when is/2 raises an error. *)
From Coq Require Import List NArith ZArith Bool Lia.
From V Require C01.Model C01.Proofs.
From V Require Import C27.Model.
Import ListNotations.
Open Scope Z_scope.

Definition is_unop (o : unop) : C01.Model.unop :=
  match o with UNeg => C01.Model.ONeg | UAbs => C01.Model.OAbs | USign => C01.Model.OSign end.

Definition is_binop (o : eop) : C01.Model.binop :=
  match o with
  | EAdd => C01.Model.OAdd | ESub => C01.Model.OSub | EMul => C01.Model.OMul
  | EQuot => C01.Model.OIdiv | EDiv => C01.Model.ODiv | EMod => C01.Model.OMod | ERem => C01.Model.ORem
  | EMin => C01.Model.OMin | EMax => C01.Model.OMax | EPow => C01.Model.OPow
  end.

(* the expression with its variables replaced by their values, as an is/2 expression *)
Fixpoint to_is (rho : N -> Z) (e : expr) : C01.Model.expr :=
  match e with
  | EInt z => C01.Model.Lit (C01.Model.Big z)
  | EVar v => C01.Model.Lit (C01.Model.Big (rho v))
  | EUn o a => C01.Model.Un (is_unop o) (to_is rho a)
  | EBin o a b => C01.Model.Bin (is_binop o) (to_is rho a) (to_is rho b)
  end.

Definition res_value (r : C01.Model.res Z) : option Z :=
  match r with C01.Model.Ok z => Some z | C01.Model.Err _ => None end.

Lemma bin_link o x y : res_value (C01.Model.bin_spec (is_binop o) x y) = bin_sem o x y.
Proof.
  destruct o; cbn [is_binop C01.Model.bin_spec bin_sem res_value]; try reflexivity;
    try (destruct (y =? 0); reflexivity).
  unfold C01.Model.pow_spec, pow_sem.
  destruct (Z.ltb_spec y 0) as [Hy|Hy].
  - destruct (Z.eqb_spec x 0) as [Hx|Hx]; cbn [andb].
    + subst. reflexivity.
    + destruct (x =? 1); [reflexivity|]. destruct (x =? -1); reflexivity.
  - rewrite andb_false_r. cbn [res_value]. rewrite C01.Proofs.zpow_eq by exact Hy. reflexivity.
Qed.

Lemma eval_link rho e : res_value (C01.Model.eval_spec (to_is rho e)) = eval rho e.
Proof.
  induction e as [z|v|o a IHa|o a IHa b IHb]; cbn [to_is C01.Model.eval_spec eval].
  - reflexivity.
  - reflexivity.
  - rewrite <- IHa. destruct (C01.Model.eval_spec (to_is rho a)) as [x|err]; cbn [C01.Model.bind res_value]; [|reflexivity].
    destruct o; reflexivity.
  - rewrite <- IHa, <- IHb.
    destruct (C01.Model.eval_spec (to_is rho a)) as [x|ea]; cbn [C01.Model.bind res_value]; [|reflexivity].
    destruct (C01.Model.eval_spec (to_is rho b)) as [y|eb]; cbn [C01.Model.bind res_value]; [|reflexivity].
    apply bin_link.
Qed.
