(* C27 -- reference model of library(clpz) (src/lib/clpz.pl) on finite boxes: arithmetic expressions,
   the six arithmetic relations, sum/3, reified connectives with Boolean variables, and labeling
   (leftmost variable first, ascending values) as a filter over the enumerated box.
   Definitions only; the proofs are in Proofs.v. *)
From Coq Require Import List NArith ZArith Bool.
Import ListNotations.
Open Scope Z_scope.

(* ---------- expressions *)
Inductive unop := UNeg | UAbs | USign.
Inductive eop := EAdd | ESub | EMul | EQuot | EDiv | EMod | ERem | EMin | EMax | EPow.
Inductive expr :=
| EInt (z : Z)
| EVar (v : N)
| EUn (o : unop) (a : expr)            (* -E  abs(E)  sign(E) *)
| EBin (o : eop) (a b : expr).         (* E+E E-E E*E E//E E div E E mod E E rem E min(E,E) max(E,E) E^E *)

Definition un_sem (o : unop) (x : Z) : Z :=
  match o with UNeg => - x | UAbs => Z.abs x | USign => Z.sgn x end.

(* integer power as in is/2: negative exponents only for the bases 1 and -1 *)
Definition pow_sem (a b : Z) : option Z :=
  if b <? 0 then
    (if a =? 1 then Some 1
     else if a =? -1 then Some (if Z.even b then 1 else -1)
     else None)
  else Some (a ^ b).

(* None = undefined (division by zero, non-integer power): the relation has no solution there *)
Definition bin_sem (o : eop) (x y : Z) : option Z :=
  match o with
  | EAdd => Some (x + y)
  | ESub => Some (x - y)
  | EMul => Some (x * y)
  | EQuot => if y =? 0 then None else Some (Z.quot x y)      (* truncating *)
  | EDiv => if y =? 0 then None else Some (Z.div x y)        (* flooring *)
  | EMod => if y =? 0 then None else Some (Z.modulo x y)     (* sign of the divisor *)
  | ERem => if y =? 0 then None else Some (Z.rem x y)        (* sign of the dividend *)
  | EMin => Some (Z.min x y)
  | EMax => Some (Z.max x y)
  | EPow => pow_sem x y
  end.

Fixpoint eval (rho : N -> Z) (e : expr) : option Z :=
  match e with
  | EInt z => Some z
  | EVar v => Some (rho v)
  | EUn o a => match eval rho a with Some x => Some (un_sem o x) | None => None end
  | EBin o a b =>
      match eval rho a, eval rho b with
      | Some x, Some y => bin_sem o x y
      | _, _ => None
      end
  end.

(* ---------- constraints *)
Inductive rel := REq | RNe | RLt | RLe | RGt | RGe.

Definition rel_sem (r : rel) (x y : Z) : bool :=
  match r with
  | REq => x =? y
  | RNe => negb (x =? y)
  | RLt => x <? y
  | RLe => x <=? y
  | RGt => y <? x
  | RGe => y <=? x
  end.

Inductive cop := CAnd | COr | CImp | CRimp | CIff | CXor.   (* #/\  #\/  #==>  #<==  #<==>  #\ (binary) *)

(* reifiable constraints *)
Inductive cstr :=
| CRel (r : rel) (a b : expr)
| CBool (v : N)                 (* a variable used as a truth value: constrained to 0..1, true iff 1 *)
| CConst (b : bool)             (* the integers 0 and 1 *)
| CNot (c : cstr)               (* #\ C *)
| CBin (o : cop) (c d : cstr).

Definition cop_sem (o : cop) (p q : bool) : bool :=
  match o with
  | CAnd => andb p q
  | COr => orb p q
  | CImp => implb p q
  | CRimp => implb q p
  | CIff => Bool.eqb p q
  | CXor => xorb p q
  end.

(* truth value of a reified constraint: a relation is true iff both sides are defined and related *)
Fixpoint truth (rho : N -> Z) (c : cstr) : bool :=
  match c with
  | CRel r a b =>
      match eval rho a, eval rho b with
      | Some x, Some y => rel_sem r x y
      | _, _ => false
      end
  | CBool v => rho v =? 1
  | CConst b => b
  | CNot c => negb (truth rho c)
  | CBin o c d => cop_sem o (truth rho c) (truth rho d)
  end.

(* every variable used as a truth value is 0 or 1 *)
Fixpoint bools_ok (rho : N -> Z) (c : cstr) : bool :=
  match c with
  | CRel _ _ _ => true
  | CBool v => orb (rho v =? 0) (rho v =? 1)
  | CConst _ => true
  | CNot c => bools_ok rho c
  | CBin _ c d => andb (bools_ok rho c) (bools_ok rho d)
  end.

(* posted goals *)
Inductive goal :=
| GC (c : cstr)
| GSum (vs : list N) (r : rel) (e : expr).       (* sum(Vs, #r, E) *)

Definition zsum (l : list Z) : Z := fold_right Z.add 0 l.

Definition holds (rho : N -> Z) (g : goal) : bool :=
  match g with
  | GC c => andb (bools_ok rho c) (truth rho c)
  | GSum vs r e => match eval rho e with Some y => rel_sem r (zsum (map rho vs)) y | None => false end
  end.

Definition sat (rho : N -> Z) (sys : list goal) : bool := forallb (holds rho) sys.

(* ---------- variables *)
Fixpoint evars (e : expr) : list N :=
  match e with
  | EInt _ => []
  | EVar v => [v]
  | EUn _ a => evars a
  | EBin _ a b => evars a ++ evars b
  end.

Fixpoint cvars (c : cstr) : list N :=
  match c with
  | CRel _ a b => evars a ++ evars b
  | CBool v => [v]
  | CConst _ => []
  | CNot c => cvars c
  | CBin _ c d => cvars c ++ cvars d
  end.

Definition gvars (g : goal) : list N :=
  match g with
  | GC c => cvars c
  | GSum vs _ e => vs ++ evars e
  end.

Definition sysvars (sys : list goal) : list N := flat_map gvars sys.

(* ---------- boxes and labeling *)
(* lo..hi ascending *)
Definition range (lo hi : Z) : list Z := map (fun i => lo + Z.of_nat i) (seq 0 (Z.to_nat (hi - lo + 1))).

(* all points of the box, leftmost coordinate most significant, ascending: the order of label/1 *)
Fixpoint assignments (box : list (Z * Z)) : list (list Z) :=
  match box with
  | [] => [[]]
  | (lo, hi) :: t => flat_map (fun x => map (cons x) (assignments t)) (range lo hi)
  end.

Fixpoint env (vs : list N) (xs : list Z) (v : N) : Z :=
  match vs, xs with
  | y :: vs', x :: xs' => if N.eqb v y then x else env vs' xs' v
  | _, _ => 0
  end.

(* the answers of  V1 in L1..H1, ..., Vn in Ln..Hn, Goals, label([V1,...,Vn])  in order *)
Definition solutions (vs : list N) (box : list (Z * Z)) (sys : list goal) : list (list Z) :=
  filter (fun xs => sat (env vs xs) sys) (assignments box).

(* ---------- specification-level notions used by the theorems *)
Definition rel_prop (r : rel) (x y : Z) : Prop :=
  match r with
  | REq => x = y
  | RNe => x <> y
  | RLt => x < y
  | RLe => x <= y
  | RGt => x > y
  | RGe => x >= y
  end.

Fixpoint in_box (xs : list Z) (box : list (Z * Z)) : Prop :=
  match xs, box with
  | [], [] => True
  | x :: xs', (lo, hi) :: box' => lo <= x <= hi /\ in_box xs' box'
  | _, _ => False
  end.

(* strict lexicographic order on integer tuples, leftmost position most significant *)
Fixpoint lex_lt (a b : list Z) : Prop :=
  match a, b with
  | x :: a', y :: b' => x < y \/ (x = y /\ lex_lt a' b')
  | _, _ => False
  end.

(* ---------- comparison with the observations made on the implementation *)
Fixpoint list_eqb {A} (eqb : A -> A -> bool) (l m : list A) : bool :=
  match l, m with
  | [], [] => true
  | x :: l', y :: m' => andb (eqb x y) (list_eqb eqb l' m')
  | _, _ => false
  end.

Definition tuples_eqb := list_eqb (list_eqb Z.eqb).

(* findall(Vs, label(Vs), L) after the domains and the goals: exactly the model's list, in order *)
Definition check_system (vs : list N) (box : list (Z * Z)) (sys : list goal) (o : list (list Z)) : bool :=
  tuples_eqb o (solutions vs box sys).

(* a ground instance of one goal: success of the goal (directly and through call/1) *)
Definition check_ground (vs : list N) (xs : list Z) (g : goal) (o : bool) : bool :=
  Bool.eqb (holds (env vs xs) g) o.

(* ground relation against is/2 + comparison: Some b = comparison result, None = is/2 raised an evaluation or type error *)
Definition is_compare (rho : N -> Z) (r : rel) (a b : expr) : option bool :=
  match eval rho a, eval rho b with
  | Some x, Some y => Some (rel_sem r x y)
  | _, _ => None
  end.

Definition opt_eqb (a b : option bool) : bool :=
  match a, b with
  | None, None => true
  | Some x, Some y => Bool.eqb x y
  | _, _ => false
  end.

Definition check_is (vs : list N) (xs : list Z) (r : rel) (a b : expr) (o : option bool) : bool :=
  opt_eqb (is_compare (env vs xs) r a b) o.

(* the value of a ground expression against is/2 *)
Definition check_value (vs : list N) (xs : list Z) (a : expr) (o : option Z) : bool :=
  match eval (env vs xs) a, o with
  | Some x, Some y => x =? y
  | None, None => true
  | _, _ => false
  end.

(* all observations about one system: the answer list, and ground instances of its goals (referred to by position) *)
Inductive gobs :=
| GO (xs : list Z) (k : nat) (o : bool)             (* goal k instantiated at the point xs succeeded / failed *)
| GI (xs : list Z) (k : nat) (o : option bool).     (* goal k, a relation, evaluated with is/2 and compared; None = is/2 raised an error *)

Definition check_gobs (vs0 : list N) (sys : list goal) (x : gobs) : bool :=
  match x with
  | GO xs k o => match nth_error sys k with Some g => check_ground vs0 xs g o | None => false end
  | GI xs k o => match nth_error sys k with Some (GC (CRel r a b)) => check_is vs0 xs r a b o | _ => false end
  end.

Definition check_all (vs : list N) (box : list (Z * Z)) (sys : list goal) (o : list (list Z)) (vs0 : list N) (gs : list gobs) : bool :=
  andb (check_system vs box sys o) (forallb (check_gobs vs0 sys) gs).
