(* C21 -- proofs: inline packing is injective and invertible; interning yields one atom per text *)
From Coq Require Import List NArith Bool Arith Lia ZArith.
From V Require Import Gen.AtomParams C21.Model.
Import ListNotations.
Open Scope N_scope.
Ltac Zify.zify_post_hook ::= Z.to_euclidean_division_equations.
Local Arguments N.mul : simpl never.
Local Arguments N.add : simpl never.

Lemma text_eqb_eq a : forall b, text_eqb a b = true <-> a = b.
Proof.
  induction a as [|x a IH]; intros [|y b]; cbn [text_eqb]; split; intros H; try discriminate; auto.
  - apply andb_true_iff in H. destruct H as [H1 H2]. apply N.eqb_eq in H1. apply IH in H2. congruence.
  - inversion H; subst. apply andb_true_iff. split; [apply N.eqb_refl | apply IH; reflexivity].
Qed.

Lemma unpack_pack s : forall n, all_bytes s = true -> has_nul s = false -> (length s <= n)%nat ->
  unpack_n n (pack s) = s.
Proof.
  induction s as [|b r IH]; intros n Hb Hz Hn; cbn [pack].
  - destruct n; cbn [unpack_n]; auto.
  - cbn [all_bytes has_nul length] in *. apply andb_true_iff in Hb. destruct Hb as [Hb Hr].
    apply orb_false_iff in Hz. destruct Hz as [Hz Hzr]. apply N.ltb_lt in Hb. apply N.eqb_neq in Hz.
    destruct n as [|k]; [lia|]. cbn [unpack_n].
    assert (E1 : (b + 256 * pack r) mod 256 = b) by lia.
    assert (E2 : (b + 256 * pack r) / 256 = pack r) by lia.
    rewrite E1, E2. destruct (N.eqb_spec b 0); [contradiction|]. f_equal. apply IH; auto. lia.
Qed.

Lemma eligible_facts s : eligible s = true -> s <> [] /\ (length s <= N.to_nat rt_max_len)%nat /\ has_nul s = false.
Proof.
  unfold eligible. intros H. apply andb_true_iff in H. destruct H as [H H3]. apply andb_true_iff in H. destruct H as [H1 H2].
  apply N.leb_le in H2. apply negb_true_iff in H3. repeat split; auto; [destruct s; [discriminate|congruence] | lia].
Qed.

Lemma inline_roundtrip_proof s : all_bytes s = true -> eligible s = true -> unpack (pack s) = s.
Proof. intros Hb He. destruct (eligible_facts s He) as (_ & Hl & Hz). apply unpack_pack; auto. Qed.

Lemma inline_injective_proof s1 s2 : all_bytes s1 = true -> all_bytes s2 = true ->
  eligible s1 = true -> eligible s2 = true -> pack s1 = pack s2 -> s1 = s2.
Proof.
  intros B1 B2 E1 E2 H. rewrite <- (inline_roundtrip_proof s1 B1 E1), <- (inline_roundtrip_proof s2 B2 E2), H. reflexivity.
Qed.

Lemma pack_bound s : all_bytes s = true -> pack s < 256 ^ N.of_nat (length s).
Proof.
  induction s as [|b r IH]; intros Hb; cbn [pack length].
  - cbn. lia.
  - cbn [all_bytes] in Hb. apply andb_true_iff in Hb. destruct Hb as [Hb Hr]. apply N.ltb_lt in Hb.
    specialize (IH Hr). replace (N.of_nat (S (length r))) with (N.succ (N.of_nat (length r))) by lia.
    rewrite N.pow_succ_r'. lia.
Qed.

(* ---------- the table *)
Definition wf (tbl : list text) : Prop := NoDup tbl /\ Forall (fun t => eligible t = false) tbl.

Lemma lookup_some tbl s : forall i j, lookup tbl s i = Some j -> (i <= j)%nat /\ nth_error tbl (j - i) = Some s.
Proof.
  induction tbl as [|t r IH]; intros i j; cbn [lookup]; [discriminate|].
  destruct (text_eqb t s) eqn:E.
  - intros [= <-]. apply text_eqb_eq in E. subst. rewrite Nat.sub_diag. split; auto.
  - intros H. apply IH in H. destruct H as [H1 H2]. split; [lia|].
    replace (j - i)%nat with (S (j - S i)) by lia. exact H2.
Qed.

Lemma lookup_none tbl s : forall i, lookup tbl s i = None -> ~ In s tbl.
Proof.
  induction tbl as [|t r IH]; intros i; cbn [lookup]; [auto|].
  destruct (text_eqb t s) eqn:E; [discriminate|]. intros H [Ht|Hr].
  - subst. assert (text_eqb s s = true) by (apply text_eqb_eq; reflexivity). congruence.
  - exact (IH _ H Hr).
Qed.

Lemma lookup_in tbl s : forall i, In s tbl -> exists j, lookup tbl s i = Some j.
Proof.
  induction tbl as [|t r IH]; intros i H; [destruct H|]. cbn [lookup].
  destruct (text_eqb t s) eqn:E; [eauto|]. destruct H as [H|H].
  - subst. assert (text_eqb s s = true) by (apply text_eqb_eq; reflexivity). congruence.
  - apply IH; auto.
Qed.

Lemma nodup_snoc {A} (l : list A) x : NoDup l -> ~ In x l -> NoDup (l ++ [x]).
Proof.
  induction l as [|y l IH]; intros Hn Hx; cbn [app].
  - constructor; [auto | constructor].
  - inversion Hn as [|? ? Hy Hl]; subst. constructor.
    + intros H. apply in_app_or in H. destruct H as [H|[H|[]]]; [contradiction | subst; apply Hx; left; reflexivity].
    + apply IH; auto. intros H. apply Hx. right. exact H.
Qed.

Lemma intern_wf tbl s : wf tbl -> wf (snd (intern tbl s)).
Proof.
  intros [Hn Hf]. unfold intern. destruct (eligible s) eqn:E; cbn [snd]; [split; auto|].
  destruct (lookup tbl s 0) eqn:L; cbn [snd]; [split; auto|].
  apply lookup_none in L. split.
  - apply nodup_snoc; auto.
  - apply Forall_app. split; auto.
Qed.

Lemma intern_text tbl s : all_bytes s = true -> text_of (snd (intern tbl s)) (fst (intern tbl s)) = Some s.
Proof.
  intros Hb. unfold intern. destruct (eligible s) eqn:E; cbn [fst snd text_of].
  - f_equal. apply inline_roundtrip_proof; auto.
  - destruct (lookup tbl s 0) eqn:L; cbn [fst snd text_of].
    + apply lookup_some in L. rewrite Nat.sub_0_r in L. tauto.
    + rewrite nth_error_app2 by lia. rewrite Nat.sub_diag. reflexivity.
Qed.

Lemma intern_extends tbl s : exists ext, snd (intern tbl s) = tbl ++ ext.
Proof.
  unfold intern. destruct (eligible s); [exists []; cbn; rewrite app_nil_r; auto|].
  destruct (lookup tbl s 0); [exists []; cbn; rewrite app_nil_r; auto | exists [s]; auto].
Qed.

(* an atom keeps its text when the table grows *)
Lemma text_stable_proof tbl a t ext : text_of tbl a = Some t -> text_of (tbl ++ ext) a = Some t.
Proof.
  destruct a as [v|i]; cbn [text_of]; auto. intros H.
  rewrite nth_error_app1; auto. apply nth_error_Some. congruence.
Qed.

Lemma nodup_nth_inj (tbl : list text) i j t : NoDup tbl -> nth_error tbl i = Some t -> nth_error tbl j = Some t -> i = j.
Proof.
  intros Hn Hi Hj. apply (proj1 (NoDup_nth_error tbl) Hn); [apply nth_error_Some; congruence | congruence].
Qed.

(* interning a text again finds the atom it got the first time *)
Lemma intern_again tbl s : wf tbl -> fst (intern (snd (intern tbl s)) s) = fst (intern tbl s).
Proof.
  intros [Hn _]. unfold intern at 2 3. destruct (eligible s) eqn:El; cbn [fst snd].
  - unfold intern. rewrite El. reflexivity.
  - destruct (lookup tbl s 0) as [i|] eqn:L; cbn [fst snd].
    + unfold intern. rewrite El, L. reflexivity.
    + unfold intern. rewrite El.
      assert (H : In s (tbl ++ [s])) by (apply in_or_app; right; left; reflexivity).
      destruct (lookup_in _ _ 0%nat H) as [j Hj]. rewrite Hj. cbn [fst]. f_equal.
      apply lookup_some in Hj. rewrite Nat.sub_0_r in Hj. destruct Hj as [_ Hj].
      apply lookup_none in L.
      apply (nodup_nth_inj (tbl ++ [s]) _ _ s (nodup_snoc _ _ Hn L)); auto.
      rewrite nth_error_app2 by lia. rewrite Nat.sub_diag. reflexivity.
Qed.

(* two texts interned one after the other: same atom iff same text *)
Theorem identity_iff_text_proof tbl s1 s2 : wf tbl -> all_bytes s1 = true -> all_bytes s2 = true ->
  fst (intern tbl s1) = fst (intern (snd (intern tbl s1)) s2) <-> s1 = s2.
Proof.
  intros Hw B1 B2.
  pose proof (intern_text tbl s1 B1) as T1.
  pose proof (intern_text (snd (intern tbl s1)) s2 B2) as T2.
  destruct (intern_extends (snd (intern tbl s1)) s2) as [ext Hext].
  split.
  - intros E. apply (text_stable_proof _ _ _ ext) in T1. rewrite <- Hext, E in T1. congruence.
  - intros <-. symmetry. apply intern_again; auto.
Qed.
