(* C21 -- atom identity: the inline packing of short atoms (src/atom_table.rs AtomCell::new_inlined,
   inlined_to_str, AtomTable::build_with's eligibility test) and the table of all other atoms.
   No proofs in this file. *)
From Coq Require Import List NArith Bool.
From V Require Import Gen.AtomParams.
Import ListNotations.
Open Scope N_scope.

Definition text := list N.                       (* UTF-8 bytes of the atom's text *)

Fixpoint has_nul (s : text) : bool := match s with [] => false | b :: r => (b =? 0) || has_nul r end.
Fixpoint all_bytes (s : text) : bool := match s with [] => true | b :: r => (b <? 256) && all_bytes r end.

(* !s.is_empty() && s.len() <= INLINED_ATOM_MAX_LEN && !s.contains('\0') *)
Definition eligible (s : text) : bool :=
  negb (match s with [] => true | _ => false end) && (N.of_nat (length s) <=? rt_max_len) && negb (has_nul s).

(* u64::from_le_bytes of the bytes padded with zeros *)
Fixpoint pack (s : text) : N := match s with [] => 0 | b :: r => b + 256 * pack r end.

(* inlined_to_str: the bytes up to the first zero byte, at most INLINED_ATOM_MAX_LEN of them *)
Fixpoint unpack_n (n : nat) (v : N) : text :=
  match n with
  | O => []
  | S k => let b := v mod 256 in if b =? 0 then [] else b :: unpack_n k (v / 256)
  end.
Definition unpack (v : N) : text := unpack_n (N.to_nat rt_max_len) v.

(* an atom: stored inline, or an index into the table (static atoms are a prefix of the table) *)
Inductive atom := Inline (v : N) | Indexed (i : nat).

Fixpoint text_eqb (a b : text) : bool :=
  match a, b with [], [] => true | x :: a', y :: b' => (x =? y) && text_eqb a' b' | _, _ => false end.

Fixpoint lookup (tbl : list text) (s : text) (i : nat) : option nat :=
  match tbl with
  | [] => None
  | t :: r => if text_eqb t s then Some i else lookup r s (S i)
  end.

(* AtomTable::build_with *)
Definition intern (tbl : list text) (s : text) : atom * list text :=
  if eligible s then (Inline (pack s), tbl)
  else match lookup tbl s 0 with
       | Some i => (Indexed i, tbl)
       | None => (Indexed (length tbl), tbl ++ [s])
       end.

Definition text_of (tbl : list text) (a : atom) : option text :=
  match a with Inline v => Some (unpack v) | Indexed i => nth_error tbl i end.

(* interning a sequence of texts, left to right *)
Fixpoint intern_all (tbl : list text) (ss : list text) : list atom * list text :=
  match ss with
  | [] => ([], tbl)
  | s :: r => let (a, t1) := intern tbl s in let (l, t2) := intern_all t1 r in (a :: l, t2)
  end.

(* ---------- correspondence helpers *)
(* the raw index the implementation reports for an inline atom is (name << 1) | 1 *)
Definition check_inline (s : text) (inlined : bool) (raw_index : N) : bool :=
  Bool.eqb inlined (eligible s) && (if eligible s then raw_index =? 2 * pack s + 1 else raw_index mod 2 =? 0).
