(* C21 -- pinned property theorems (nothing else lives here) *)
From Coq Require Import List NArith Bool.
From V Require Import Gen.AtomParams C21.Model C21.Proofs.
Import ListNotations.
Open Scope N_scope.

(* the build-time and the run-time decision "this text is stored inline" use the same length limit, and a text of
   that length fits the 48 bits of the inline name field (regenerated constants) *)
Theorem build_and_runtime_agree : rt_max_len = bt_max_len /\ 8 * rt_max_len <= 48.
Proof. split; [reflexivity | vm_compute; discriminate]. Qed.
Print Assumptions build_and_runtime_agree.

Theorem inline_fits : forall s, all_bytes s = true -> pack s < 256 ^ N.of_nat (length s).
Proof. exact pack_bound. Qed.
Print Assumptions inline_fits.

(* an inline atom reads back as the text it was built from *)
Theorem inline_roundtrip : forall s, all_bytes s = true -> eligible s = true -> unpack (pack s) = s.
Proof. exact inline_roundtrip_proof. Qed.
Print Assumptions inline_roundtrip.

(* two inline atoms are the same cell iff their texts are equal *)
Theorem inline_injective : forall s1 s2, all_bytes s1 = true -> all_bytes s2 = true ->
  eligible s1 = true -> eligible s2 = true -> pack s1 = pack s2 -> s1 = s2.
Proof. exact inline_injective_proof. Qed.
Print Assumptions inline_injective.

(* interning: the atom returned for a text denotes that text ... *)
Theorem atom_denotes_text : forall tbl s, all_bytes s = true ->
  text_of (snd (intern tbl s)) (fst (intern tbl s)) = Some s.
Proof. exact intern_text. Qed.
Print Assumptions atom_denotes_text.

(* ... keeps denoting it however the table grows ... *)
Theorem text_stable : forall tbl a t ext, text_of tbl a = Some t -> text_of (tbl ++ ext) a = Some t.
Proof. exact text_stable_proof. Qed.
Print Assumptions text_stable.

(* ... and two texts interned one after the other get the same atom iff they are the same text, whichever
   representation (inline / table) they end up in; the table invariant (no text twice, no inline-eligible text) is kept *)
Theorem identity_iff_text : forall tbl s1 s2, wf tbl -> all_bytes s1 = true -> all_bytes s2 = true ->
  fst (intern tbl s1) = fst (intern (snd (intern tbl s1)) s2) <-> s1 = s2.
Proof. exact identity_iff_text_proof. Qed.
Print Assumptions identity_iff_text.

Theorem table_invariant_kept : forall tbl s, wf tbl -> wf (snd (intern tbl s)).
Proof. exact intern_wf. Qed.
Print Assumptions table_invariant_kept.

Example ex_inline : intern [] [97; 98; 99] = (Inline 6513249, []).
Proof. vm_compute. reflexivity. Qed.
Example ex_seven_bytes : fst (intern [] [97; 98; 99; 100; 101; 102; 103]) = Indexed 0.
Proof. vm_compute. reflexivity. Qed.
Example ex_nul_not_inline : fst (intern [] [97; 0; 98]) = Indexed 0.
Proof. vm_compute. reflexivity. Qed.
