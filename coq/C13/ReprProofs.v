(* C13 -- proofs about the representation-level mirror (Repr.v): on well-formed representations the loop of
   ParallelHeapIter::next / compare_term_test computes the reference order tcompare of the denoted terms. *)
From Coq Require Import ZArith NArith QArith List Bool Arith Lia.
From V Require Import Base.Term C13.Model C13.Proofs C13.Repr C18.Model C18.Proofs C33.Proofs C20.Model C20.Proofs.
Import ListNotations.
Local Open Scope nat_scope.

(* ------------------------------------------------------------------ comparison algebra *)
Lemma lex_assoc a b c : lex (lex a b) c = lex a (lex b c).
Proof. destruct a; reflexivity. Qed.
Lemma lex_ne c x : c <> Eq -> lex c x = c.
Proof. destruct c; intros H; try reflexivity. congruence. Qed.

(* ------------------------------------------------------------------ segments *)
(* a well-formed segment: the UTF-8 text of a non-empty sequence of non-NUL scalar values *)
Definition seg_wf (bs : list N) : Prop :=
  exists cs, bs = utf8 cs /\ cs <> [] /\ Forall scalar cs /\ Forall nonzero cs.

Lemma scalarb_spec c : scalarb c = true <-> scalar c.
Proof.
  unfold scalarb, scalar. rewrite orb_true_iff, andb_true_iff, !N.ltb_lt, N.leb_le. reflexivity.
Qed.
Lemma nonzerob_spec c : nonzerob c = true <-> nonzero c.
Proof. unfold nonzerob, nonzero. rewrite negb_true_iff, N.eqb_neq. reflexivity. Qed.

Lemma forallb_Forall {A} (f : A -> bool) (P : A -> Prop) : (forall x, f x = true <-> P x) ->
  forall l, forallb f l = true <-> Forall P l.
Proof.
  intros H. induction l as [|x l IH]; cbn [forallb].
  - split; auto.
  - rewrite andb_true_iff, H, IH. split; [intros [? ?]; constructor; auto | intros E; inversion E; auto].
Qed.

Lemma seg_okb_iff bs : seg_okb bs = true <-> seg_wf bs.
Proof.
  unfold seg_okb, seg_wf. split.
  - destruct (to_chars bs) as [cs|]; [|discriminate]. intros H.
    apply andb_true_iff in H as [H H4]. apply andb_true_iff in H as [H H3]. apply andb_true_iff in H as [H1 H2].
    exists cs. apply bytes_eqb_eq in H4.
    split; [auto|]. split; [destruct cs; [discriminate|discriminate]|].
    split; [apply (forallb_Forall scalarb scalar scalarb_spec); exact H2
           |apply (forallb_Forall nonzerob nonzero nonzerob_spec); exact H3].
  - intros (cs & E & Hn & Hs & Hz). subst bs. rewrite to_chars_utf8_proof by exact Hs.
    rewrite !andb_true_iff. repeat split.
    + destruct cs; [congruence|reflexivity].
    + apply (forallb_Forall scalarb scalar scalarb_spec); exact Hs.
    + apply (forallb_Forall nonzerob nonzero nonzerob_spec); exact Hz.
    + apply bytes_eqb_eq. reflexivity.
Qed.

Lemma chars_of_utf8 cs : Forall scalar cs -> chars_of (utf8 cs) = cs.
Proof. intros H. unfold chars_of. rewrite to_chars_utf8_proof by exact H. reflexivity. Qed.

Lemma utf8_cons c cs : utf8 (c :: cs) = encode_utf8 c ++ utf8 cs.
Proof. reflexivity. Qed.

Lemma utf8_cons_shape c cs : exists x r, utf8 (c :: cs) = x :: r.
Proof.
  rewrite utf8_cons. pose proof (encode_nonempty c) as H.
  destruct (encode_utf8 c) as [|x r]; [congruence|]. exists x, (r ++ utf8 cs). reflexivity.
Qed.

Lemma denote_pstr cs tl : Forall scalar cs -> denote (RPStr (utf8 cs) tl) = plist cs (denote tl).
Proof. intros H. cbn [denote]. rewrite chars_of_utf8 by exact H. reflexivity. Qed.

(* ------------------------------------------------------------------ peeling a character off a segment *)
Lemma peel_utf8 c cs tl : scalar c ->
  peel (utf8 (c :: cs)) tl = (c, match cs with [] => tl | _ => RPStr (utf8 cs) tl end).
Proof.
  intros Hc. unfold peel. rewrite utf8_cons, decode_encode_proof by exact Hc.
  rewrite <- encode_length, skipn_app_exact.
  destruct cs as [|c' t]; [reflexivity|].
  destruct (utf8_cons_shape c' t) as (x & r & E). rewrite E. reflexivity.
Qed.

(* the denotation of a segment = its first character consed onto the denotation of what peel continues with *)
Lemma denote_peel c cs tl : Forall scalar (c :: cs) ->
  denote (RPStr (utf8 (c :: cs)) tl) = tcons (Atom [c]) (denote (snd (peel (utf8 (c :: cs)) tl)))
  /\ fst (peel (utf8 (c :: cs)) tl) = c.
Proof.
  intros H. inversion H as [|? ? Hc Hcs]; subst.
  rewrite peel_utf8 by exact Hc. cbn [fst snd]. split; [|reflexivity].
  rewrite denote_pstr by exact H.
  destruct cs as [|c' t]; [reflexivity|]. rewrite denote_pstr by exact Hcs. reflexivity.
Qed.

(* ------------------------------------------------------------------ three-way comparison of sequences with remainders *)
Inductive cmp3 := C3Lt | C3Gt | C3Both | C3Left (rest2 : list N) | C3Right (rest1 : list N).

Fixpoint lcmp3 (s1 s2 : list N) : cmp3 :=
  match s1, s2 with
  | [], [] => C3Both
  | [], _ :: _ => C3Left s2
  | _ :: _, [] => C3Right s1
  | x :: r1, y :: r2 => match (x ?= y)%N with Eq => lcmp3 r1 r2 | Lt => C3Lt | Gt => C3Gt end
  end.

Definition map3 (f : list N -> list N) (r : cmp3) : cmp3 :=
  match r with C3Left x => C3Left (f x) | C3Right x => C3Right (f x) | o => o end.

Lemma lcmp3_left_suffix : forall s1 s2 r, lcmp3 s1 s2 = C3Left r -> s2 = s1 ++ r /\ r <> [].
Proof.
  induction s1 as [|x t IH]; intros [|y u] r H; cbn [lcmp3] in H; try discriminate.
  - injection H as <-. split; [reflexivity|discriminate].
  - destruct (N.compare_spec x y) as [E|E|E]; try discriminate. subst y.
    destruct (IH u r H) as [E1 E2]. subst u. split; [reflexivity|exact E2].
Qed.

Lemma lcmp3_right_suffix : forall s1 s2 r, lcmp3 s1 s2 = C3Right r -> s1 = s2 ++ r /\ r <> [].
Proof.
  induction s1 as [|x t IH]; intros [|y u] r H; cbn [lcmp3] in H; try discriminate.
  - injection H as <-. split; [reflexivity|discriminate].
  - destruct (N.compare_spec x y) as [E|E|E]; try discriminate. subst y.
    destruct (IH u r H) as [E1 E2]. subst t. split; [reflexivity|exact E2].
Qed.

(* open character lists compare by their characters, then by what remains *)
Lemma tc_cmp f l f' l' : tcompare (Cmp f l) (Cmp f' l') =
  lex (Nat.compare (length l) (length l')) (lex (name_compare f f') (lcompare tcompare l l')).
Proof. rewrite tcompare_unfold. reflexivity. Qed.

Lemma tc_cons h t h' t' : tcompare (tcons h t) (tcons h' t') = lex (tcompare h h') (tcompare t t').
Proof.
  unfold tcons. rewrite tc_cmp. cbn [length Nat.compare lex lcompare]. rewrite name_compare_refl. cbn [lex].
  rewrite lex_eq_r. reflexivity.
Qed.

Lemma tc_char c c' : tcompare (Atom [c]) (Atom [c']) = (c ?= c')%N.
Proof. rewrite tcompare_unfold. cbn [cat Nat.compare lex same_cat name_compare lcompare]. apply lex_eq_r. Qed.

Lemma plist_cmp3 : forall cs1 cs2 T1 T2,
  tcompare (plist cs1 T1) (plist cs2 T2) =
  match lcmp3 cs1 cs2 with
  | C3Lt => Lt | C3Gt => Gt
  | C3Both => tcompare T1 T2
  | C3Left r => tcompare T1 (plist r T2)
  | C3Right r => tcompare (plist r T1) T2
  end.
Proof.
  induction cs1 as [|c t IH]; intros [|c' t'] T1 T2; try reflexivity.
  change (plist (c :: t) T1) with (tcons (Atom [c]) (plist t T1)).
  change (plist (c' :: t') T2) with (tcons (Atom [c']) (plist t' T2)).
  rewrite tc_cons, tc_char. cbn [lcmp3]. destruct (c ?= c')%N; cbn [lex]; [apply IH|reflexivity|reflexivity].
Qed.

(* UTF-8 preserves the three-way comparison, remainders included *)
Ltac cmp_cases3 :=
  repeat match goal with
         | |- context [N.compare ?a ?b] => destruct (N.compare_spec a b)
         end; try reflexivity; try lia.

Lemma lcmp3_refl_app : forall p r1 r2, lcmp3 (p ++ r1) (p ++ r2) = lcmp3 r1 r2.
Proof. induction p as [|x p IH]; intros; cbn [app lcmp3]; [reflexivity|]. rewrite N.compare_refl. apply IH. Qed.

Ltac Zify.zify_post_hook ::= Z.to_euclidean_division_equations.

Lemma utf8_step3 c1 c2 r1 r2 :
  lcmp3 (encode_utf8 c1 ++ r1) (encode_utf8 c2 ++ r2) =
  match (c1 ?= c2)%N with Eq => lcmp3 r1 r2 | Lt => C3Lt | Gt => C3Gt end.
Proof.
  destruct (N.compare_spec c1 c2) as [E|L|G].
  - subst c2. apply lcmp3_refl_app.
  - unfold encode_utf8.
    destruct (N.ltb_spec c1 128) as [A1|A1]; [|destruct (N.ltb_spec c1 2048) as [A2|A2]; [|destruct (N.ltb_spec c1 65536) as [A3|A3]]];
    (destruct (N.ltb_spec c2 128) as [B1|B1]; [|destruct (N.ltb_spec c2 2048) as [B2|B2]; [|destruct (N.ltb_spec c2 65536) as [B3|B3]]]);
    try (exfalso; lia); cbn [app lcmp3]; cmp_cases3.
  - unfold encode_utf8.
    destruct (N.ltb_spec c1 128) as [A1|A1]; [|destruct (N.ltb_spec c1 2048) as [A2|A2]; [|destruct (N.ltb_spec c1 65536) as [A3|A3]]];
    (destruct (N.ltb_spec c2 128) as [B1|B1]; [|destruct (N.ltb_spec c2 2048) as [B2|B2]; [|destruct (N.ltb_spec c2 65536) as [B3|B3]]]);
    try (exfalso; lia); cbn [app lcmp3]; cmp_cases3.
Qed.

Lemma lcmp3_utf8 : forall cs1 cs2, lcmp3 (utf8 cs1) (utf8 cs2) = map3 utf8 (lcmp3 cs1 cs2).
Proof.
  induction cs1 as [|c1 t1 IH]; intros [|c2 t2].
  - reflexivity.
  - destruct (utf8_cons_shape c2 t2) as (x & r & E). cbn [lcmp3 map3]. rewrite E. reflexivity.
  - destruct (utf8_cons_shape c1 t1) as (x & r & E). cbn [lcmp3 map3]. rewrite E. reflexivity.
  - rewrite !utf8_cons, utf8_step3. cbn [lcmp3]. destruct (c1 ?= c2)%N; [apply IH|reflexivity|reflexivity].
Qed.

(* ------------------------------------------------------------------ compare_pstr_slices, with its continuations *)
Definition seg_result (r : cmpres) (s1 s2 : list N) : option cmp3 :=
  match r with
  | Less => Some C3Lt
  | Greater => Some C3Gt
  | Continue (TailIndex _) (TailIndex _) => Some C3Both
  | Continue (TailIndex _) (PStrOffset p) => Some (C3Left (skipn (N.to_nat p) s2))
  | Continue (PStrOffset p) (TailIndex _) => Some (C3Right (skipn (N.to_nat p) s1))
  | Continue (PStrOffset _) (PStrOffset _) => None
  end.

Definition dec3 (p : nat) (b1 b2 : N) (s1 s2 : list N) : option cmp3 :=
  if (b1 =? 0)%N then (if (b2 =? 0)%N then Some C3Both else Some (C3Left (skipn p s2)))
  else if (b2 =? 0)%N then Some (C3Right (skipn p s1))
  else if (b1 <? b2)%N then Some C3Lt else Some C3Gt.

Lemma seg_result_dec3 a1 a2 x y s1 s2 :
  seg_result (cmp_slices a1 a2 x y) s1 s2 = dec3 (mismatch x y) (nth (mismatch x y) x 0%N) (nth (mismatch x y) y 0%N) s1 s2.
Proof.
  unfold cmp_slices, dec3.
  destruct (nth (mismatch x y) x 0 =? 0)%N; destruct (nth (mismatch x y) y 0 =? 0)%N; cbn [seg_result];
    rewrite ?Nat2N.id; try reflexivity.
  destruct (nth (mismatch x y) x 0 <? nth (mismatch x y) y 0)%N; reflexivity.
Qed.

Lemma dec3_lcmp3 : forall s1 s2 r1 r2, nul_free s1 = true -> nul_free s2 = true ->
  dec3 (mismatch (s1 ++ 0%N :: r1) (s2 ++ 0%N :: r2))
       (nth (mismatch (s1 ++ 0%N :: r1) (s2 ++ 0%N :: r2)) (s1 ++ 0%N :: r1) 0%N)
       (nth (mismatch (s1 ++ 0%N :: r1) (s2 ++ 0%N :: r2)) (s2 ++ 0%N :: r2) 0%N) s1 s2 = Some (lcmp3 s1 s2).
Proof.
  induction s1 as [|a t1 IH]; intros [|b t2] r1 r2 H1 H2; cbn [app mismatch nth lcmp3 nul_free] in *.
  - reflexivity.
  - apply andb_true_iff in H2 as [Hb _]. apply negb_true_iff in Hb.
    cbn [N.eqb orb]. rewrite orb_true_r. cbn [orb nth]. unfold dec3. cbn [N.eqb]. rewrite Hb. reflexivity.
  - apply andb_true_iff in H1 as [Ha _]. apply negb_true_iff in Ha.
    cbn [N.eqb]. rewrite !orb_true_r. cbn [nth]. unfold dec3. rewrite Ha. reflexivity.
  - apply andb_true_iff in H1 as [Ha Ht1]. apply negb_true_iff in Ha.
    apply andb_true_iff in H2 as [Hb Ht2]. apply negb_true_iff in Hb.
    rewrite Ha, Hb, !orb_false_r.
    destruct (N.eqb_spec a b) as [E|E].
    + subst b. cbn [negb nth]. rewrite N.compare_refl.
      specialize (IH t2 r1 r2 Ht1 Ht2). unfold dec3 in *. cbn [skipn]. exact IH.
    + cbn [negb nth]. unfold dec3. rewrite Ha, Hb.
      destruct (N.ltb_spec a b) as [L|L].
      * apply N.compare_lt_iff in L. rewrite L. reflexivity.
      * assert (G : (b < a)%N) by lia. apply N.compare_gt_iff in G. rewrite G. reflexivity.
Qed.

(* the mirror of compare_pstr_slices on two segments in memory (any alignment, any bytes after the zero bytes):
   Less/Greater at the first differing byte; otherwise which string ended, and the unconsumed rest of the other *)
Lemma cmp_slices_cmp3 a1 a2 s1 s2 r1 r2 : nul_free s1 = true -> nul_free s2 = true ->
  seg_result (cmp_slices a1 a2 (s1 ++ 0%N :: r1) (s2 ++ 0%N :: r2)) s1 s2 = Some (lcmp3 s1 s2).
Proof. intros H1 H2. rewrite seg_result_dec3. apply dec3_lcmp3; assumption. Qed.

Lemma cmp_segments_cmp3 cs1 cs2 : cs1 <> [] -> cs2 <> [] -> Forall nonzero cs1 -> Forall nonzero cs2 ->
  seg_result (cmp_slices 0 0 (encode_segment (utf8 cs1)) (encode_segment (utf8 cs2))) (utf8 cs1) (utf8 cs2)
  = Some (map3 utf8 (lcmp3 cs1 cs2)).
Proof.
  intros N1 N2 Z1 Z2.
  destruct (encode_segment_shape (utf8 cs1) (utf8_nonempty cs1 N1)) as [p1 E1].
  destruct (encode_segment_shape (utf8 cs2) (utf8_nonempty cs2 N2)) as [p2 E2].
  rewrite E1, E2, cmp_slices_cmp3 by (apply utf8_nul_free; assumption).
  rewrite lcmp3_utf8. reflexivity.
Qed.

(* ------------------------------------------------------------------ what a stack of pairs stands for *)
Definition scompare (l : list (rterm * rterm)) : comparison :=
  fold_right (fun p acc => lex (tcompare (denote (fst p)) (denote (snd p))) acc) Eq l.

Lemma scompare_app l l' : scompare (l ++ l') = lex (scompare l) (scompare l').
Proof. induction l as [|p l IH]; cbn [app scompare fold_right]; [reflexivity|]. fold (scompare (l ++ l')). rewrite IH, lex_assoc. reflexivity. Qed.

Lemma psize_app l l' : psize (l ++ l') = psize l + psize l'.
Proof. induction l as [|p l IH]; cbn [app psize fold_right]; [reflexivity|]. fold (psize (l ++ l')). fold (psize l). lia. Qed.

(* the pairs on the stack: well-formed; and, for the code's Str-'.'/2 against Lis arm (hf = false), no Str-'.'/2 on the left *)
Definition okpair (hf : bool) (p : rterm * rterm) : Prop :=
  rwfb (fst p) = true /\ rwfb (snd p) = true /\ (hf = true \/ nodotb (fst p) = true).

Definition out_ok (hf : bool) (a b : rterm) (o : outcome) : Prop :=
  match o with
  | Done c => c <> Eq /\ tcompare (denote a) (denote b) = c
  | Push l => tcompare (denote a) (denote b) = scompare l /\ Forall (okpair hf) l /\ psize l < rsize a + rsize b
  end.

Lemma rsize_pos r : 1 <= rsize r.
Proof. destruct r; cbn [rsize]; lia. Qed.

Lemma atom_cmp_name s s' : atom_cmp s s' = name_compare s s'.
Proof. unfold atom_cmp, name_compare. apply utf8_lex. Qed.

Lemma of_cmp_gen hf a b c l X :
  tcompare (denote a) (denote b) = lex c X ->
  (c = Eq -> X = scompare l /\ Forall (okpair hf) l /\ psize l < rsize a + rsize b) ->
  out_ok hf a b (of_cmp c l).
Proof.
  intros H1 H2. destruct c; cbn [of_cmp out_ok lex] in *.
  - destruct (H2 eq_refl) as (E & F & S). rewrite H1. auto.
  - split; [discriminate|exact H1].
  - split; [discriminate|exact H1].
Qed.

Lemma of_cmp_leaf hf a b c : tcompare (denote a) (denote b) = c -> out_ok hf a b (of_cmp c []).
Proof.
  intros H. apply (of_cmp_gen hf a b c [] Eq).
  - rewrite lex_eq_r. exact H.
  - intros _. split; [reflexivity|]. split; [constructor|]. cbn [psize fold_right]. pose proof (rsize_pos a). lia.
Qed.

Lemma push2_ok hf a b x1 y1 x2 y2 :
  tcompare (denote a) (denote b) = lex (tcompare (denote x1) (denote y1)) (tcompare (denote x2) (denote y2)) ->
  okpair hf (x1, y1) -> okpair hf (x2, y2) ->
  rsize x1 + rsize y1 + (rsize x2 + rsize y2) < rsize a + rsize b ->
  out_ok hf a b (Push [(x1, y1); (x2, y2)]).
Proof.
  intros H O1 O2 S. cbn [out_ok scompare fold_right fst snd psize]. rewrite lex_eq_r.
  split; [exact H|]. split; [constructor; [exact O1|constructor; [exact O2|constructor]]|lia].
Qed.

(* ------------------------------------------------------------------ shapes of well-formed representations *)
Lemma rwfb_pstr bs tl : rwfb (RPStr bs tl) = true ->
  exists c cs, bs = utf8 (c :: cs) /\ Forall scalar (c :: cs) /\ Forall nonzero (c :: cs) /\ rwfb tl = true.
Proof.
  cbn [rwfb]. intros H. apply andb_true_iff in H as [H1 H2]. apply seg_okb_iff in H1 as (cs & E & Hn & Hs & Hz).
  destruct cs as [|c cs]; [congruence|]. exists c, cs. auto.
Qed.

Lemma seg_okb_utf8 cs : cs <> [] -> Forall scalar cs -> Forall nonzero cs -> seg_okb (utf8 cs) = true.
Proof. intros. apply seg_okb_iff. exists cs. auto. Qed.

Lemma cat_denote a : rwfb a = true -> cat (denote a) = rcat a.
Proof.
  destruct a as [x|z|n d|x|s|f args|h t|bs tl]; intros W; try reflexivity.
  - destruct args; reflexivity.
  - destruct (rwfb_pstr bs tl W) as (c & cs & E & Hs & _ & _). subst bs.
    rewrite denote_pstr by exact Hs. reflexivity.
Qed.

Lemma peel_facts c cs tl : Forall scalar (c :: cs) -> Forall nonzero (c :: cs) -> rwfb tl = true ->
  let succ := snd (peel (utf8 (c :: cs)) tl) in
  rwfb succ = true /\ nodotb succ = nodotb tl /\ rsize succ + 1 <= rsize (RPStr (utf8 (c :: cs)) tl).
Proof.
  intros Hs Hz W. inversion Hs as [|? ? Hc Hcs]; subst. inversion Hz as [|? ? Zc Zcs]; subst.
  rewrite peel_utf8 by exact Hc. cbn [snd].
  destruct cs as [|c' t].
  - split; [exact W|]. split; [reflexivity|]. cbn [rsize]. lia.
  - split; [cbn [rwfb]; rewrite seg_okb_utf8 by (auto; discriminate); exact W|]. split; [reflexivity|].
    cbn [rsize]. rewrite (utf8_cons c (c' :: t)), app_length.
    pose proof (encode_nonempty c) as Hne. destruct (encode_utf8 c); [congruence|]. cbn [length]. lia.
Qed.

Lemma scompare_combine : forall l l', length l = length l' ->
  scompare (combine l l') = lcompare tcompare (map denote l) (map denote l').
Proof.
  induction l as [|x l IH]; intros [|y l'] H; cbn [length] in H; try discriminate; [reflexivity|].
  cbn [combine scompare fold_right fst snd map lcompare]. fold (scompare (combine l l')). rewrite IH by lia. reflexivity.
Qed.

Definition sumsize (l : list rterm) : nat := fold_right (fun x n => rsize x + n) 0 l.

Lemma psize_combine : forall l l', psize (combine l l') <= sumsize l + sumsize l'.
Proof.
  induction l as [|x l IH]; intros [|y l']; cbn [combine psize sumsize fold_right fst snd]; try lia.
  fold (psize (combine l l')). fold (sumsize l). fold (sumsize l'). specialize (IH l'). lia.
Qed.

Lemma okpair_combine hf : forall l l', forallb rwfb l = true -> forallb rwfb l' = true ->
  (hf = true \/ forallb nodotb l = true) -> Forall (okpair hf) (combine l l').
Proof.
  induction l as [|x l IH]; intros [|y l'] W W' Nd; cbn [combine]; try constructor.
  - cbn [forallb] in *. apply andb_true_iff in W as [W1 W2]. apply andb_true_iff in W' as [W1' W2'].
    split; [exact W1|]. split; [exact W1'|]. destruct Nd as [Nd|Nd]; [left; exact Nd|right].
    apply andb_true_iff in Nd as [Nd _]. exact Nd.
  - cbn [forallb] in *. apply andb_true_iff in W as [W1 W2]. apply andb_true_iff in W' as [W1' W2'].
    apply IH; auto. destruct Nd as [Nd|Nd]; [left; exact Nd|right]. apply andb_true_iff in Nd as [_ Nd]. exact Nd.
Qed.

(* (arity, name) = (2, '.') forces the two-argument shape *)
Lemma fa_cmp_spec a1 n1 a2 n2 : fa_cmp a1 n1 a2 n2 = lex (Nat.compare a1 a2) (name_compare n1 n2).
Proof. unfold fa_cmp. rewrite atom_cmp_name. reflexivity. Qed.

Lemma fa_cmp_eq a1 n1 a2 n2 : fa_cmp a1 n1 a2 n2 = Eq -> a1 = a2 /\ n1 = n2.
Proof.
  rewrite fa_cmp_spec. intros H. apply lex_eq_iff in H as [H1 H2].
  apply Nat.compare_eq in H1. apply name_compare_eq_iff in H2. auto.
Qed.

Lemma length2 {A} (l : list A) : length l = 2 -> exists x y, l = [x; y].
Proof. destruct l as [|x [|y [|z l]]]; cbn [length]; intros H; try discriminate. eauto. Qed.

(* the denotation of a Str cell with arguments *)
Lemma denote_str f args : args <> [] -> denote (RStr f args) = Cmp f (map denote args).
Proof. destruct args; [congruence|reflexivity]. Qed.

(* ------------------------------------------------------------------ one iteration is correct *)
Section Arms.
  Variable hf : bool.

  Lemma arm_lis_lis h1 t1 h2 t2 : okpair hf (RLis h1 t1, RLis h2 t2) ->
    out_ok hf (RLis h1 t1) (RLis h2 t2) (Push [(h1, h2); (t1, t2)]).
  Proof.
    intros (Wa & Wb & Nd). cbn [fst snd rwfb nodotb] in *.
    apply andb_true_iff in Wa as [Wa1 Wa2]. apply andb_true_iff in Wb as [Wb1 Wb2].
    apply push2_ok.
    - cbn [denote]. apply tc_cons.
    - split; [exact Wa1|]. split; [exact Wb1|]. destruct Nd as [Nd|Nd]; [left; exact Nd|right]. apply andb_true_iff in Nd as [Nd _]; exact Nd.
    - split; [exact Wa2|]. split; [exact Wb2|]. destruct Nd as [Nd|Nd]; [left; exact Nd|right]. apply andb_true_iff in Nd as [_ Nd]; exact Nd.
    - cbn [rsize]. lia.
  Qed.

  Lemma arm_lis_pstr h1 t1 bs2 tl2 : okpair hf (RLis h1 t1, RPStr bs2 tl2) ->
    out_ok hf (RLis h1 t1) (RPStr bs2 tl2) (let (c, succ) := peel bs2 tl2 in Push [(h1, RAtom [c]); (t1, succ)]).
  Proof.
    intros (Wa & Wb & Nd). cbn [fst snd] in *.
    destruct (rwfb_pstr bs2 tl2 Wb) as (c & cs & E & Hs & Hz & Wtl). subst bs2.
    destruct (denote_peel c cs tl2 Hs) as [D F]. destruct (peel_facts c cs tl2 Hs Hz Wtl) as (P1 & P2 & P3).
    destruct (peel (utf8 (c :: cs)) tl2) as [c' succ]. cbn [fst snd] in *. subst c'.
    cbn [rwfb nodotb] in Wa, Nd. apply andb_true_iff in Wa as [Wa1 Wa2].
    apply push2_ok.
    - rewrite D. cbn [denote]. apply tc_cons.
    - split; [exact Wa1|]. split; [reflexivity|]. destruct Nd as [Nd|Nd]; [left; exact Nd|right]. apply andb_true_iff in Nd as [Nd _]; exact Nd.
    - split; [exact Wa2|]. split; [exact P1|]. destruct Nd as [Nd|Nd]; [left; exact Nd|right]. apply andb_true_iff in Nd as [_ Nd]; exact Nd.
    - cbn [rsize] in *. lia.
  Qed.

  Lemma arm_pstr_lis bs1 tl1 h2 t2 : okpair hf (RPStr bs1 tl1, RLis h2 t2) ->
    out_ok hf (RPStr bs1 tl1) (RLis h2 t2) (let (c, succ) := peel bs1 tl1 in Push [(RAtom [c], h2); (succ, t2)]).
  Proof.
    intros (Wa & Wb & Nd). cbn [fst snd] in *.
    destruct (rwfb_pstr bs1 tl1 Wa) as (c & cs & E & Hs & Hz & Wtl). subst bs1.
    destruct (denote_peel c cs tl1 Hs) as [D F]. destruct (peel_facts c cs tl1 Hs Hz Wtl) as (P1 & P2 & P3).
    destruct (peel (utf8 (c :: cs)) tl1) as [c' succ]. cbn [fst snd] in *. subst c'.
    cbn [rwfb nodotb] in Wb, Nd. apply andb_true_iff in Wb as [Wb1 Wb2].
    apply push2_ok.
    - rewrite D. cbn [denote]. apply tc_cons.
    - split; [reflexivity|]. split; [exact Wb1|]. destruct Nd as [Nd|Nd]; [left; exact Nd|right; reflexivity].
    - split; [exact P1|]. split; [exact Wb2|]. destruct Nd as [Nd|Nd]; [left; exact Nd|right]. cbn [fst]. rewrite P2. exact Nd.
    - cbn [rsize] in *. lia.
  Qed.

  Lemma arm_pstr_pstr bs1 tl1 bs2 tl2 : okpair hf (RPStr bs1 tl1, RPStr bs2 tl2) ->
    out_ok hf (RPStr bs1 tl1) (RPStr bs2 tl2)
      (match cmp_slices 0 0 (encode_segment bs1) (encode_segment bs2) with
       | Less => Done Lt
       | Greater => Done Gt
       | Continue c1 c2 => Push [(cont_term c1 bs1 tl1, cont_term c2 bs2 tl2)]
       end).
  Proof.
    intros (Wa & Wb & Nd). cbn [fst snd] in *.
    destruct (rwfb_pstr bs1 tl1 Wa) as (c1 & cs1 & E1 & Hs1 & Hz1 & Wtl1). subst bs1.
    destruct (rwfb_pstr bs2 tl2 Wb) as (c2 & cs2 & E2 & Hs2 & Hz2 & Wtl2). subst bs2.
    assert (SR := cmp_segments_cmp3 (c1 :: cs1) (c2 :: cs2) ltac:(discriminate) ltac:(discriminate) Hz1 Hz2).
    assert (TC : tcompare (denote (RPStr (utf8 (c1 :: cs1)) tl1)) (denote (RPStr (utf8 (c2 :: cs2)) tl2)) =
                 match lcmp3 (c1 :: cs1) (c2 :: cs2) with
                 | C3Lt => Lt | C3Gt => Gt
                 | C3Both => tcompare (denote tl1) (denote tl2)
                 | C3Left r => tcompare (denote tl1) (plist r (denote tl2))
                 | C3Right r => tcompare (plist r (denote tl1)) (denote tl2)
                 end).
    { rewrite !denote_pstr by assumption. apply plist_cmp3. }
    assert (Ndt : hf = true \/ nodotb tl1 = true) by (destruct Nd as [Nd|Nd]; [left|right]; exact Nd).
    set (b1 := utf8 (c1 :: cs1)) in *. set (b2 := utf8 (c2 :: cs2)) in *.
    destruct (lcmp3 (c1 :: cs1) (c2 :: cs2)) as [| | |r|r] eqn:EL; cbn [map3] in SR;
      destruct (cmp_slices 0 0 (encode_segment b1) (encode_segment b2)) as [| |[i1|p1] [i2|p2]];
      cbn [seg_result] in SR; try discriminate SR.
    - split; [discriminate|exact TC].
    - split; [discriminate|exact TC].
    - cbn [cont_term out_ok scompare fold_right fst snd psize]. rewrite lex_eq_r. split; [exact TC|].
      split; [constructor; [|constructor]; split; [exact Wtl1|split; [exact Wtl2|exact Ndt]]|].
      cbn [rsize]. lia.
    - injection SR as SR. apply lcmp3_left_suffix in EL as [ES RN].
      assert (Hsr : Forall scalar r) by (rewrite ES in Hs2; apply Forall_app in Hs2; tauto).
      assert (Hzr : Forall nonzero r) by (rewrite ES in Hz2; apply Forall_app in Hz2; tauto).
      cbn [cont_term]. rewrite SR.
      cbn [out_ok scompare fold_right fst snd psize]. rewrite lex_eq_r, denote_pstr by exact Hsr. split; [exact TC|].
      split; [constructor; [|constructor]; split; [exact Wtl1|split; [|exact Ndt]]|].
      + cbn [snd rwfb]. rewrite seg_okb_utf8 by assumption. exact Wtl2.
      + cbn [rsize]. rewrite <- SR, skipn_length. lia.
    - injection SR as SR. apply lcmp3_right_suffix in EL as [ES RN].
      assert (Hsr : Forall scalar r) by (rewrite ES in Hs1; apply Forall_app in Hs1; tauto).
      assert (Hzr : Forall nonzero r) by (rewrite ES in Hz1; apply Forall_app in Hz1; tauto).
      cbn [cont_term]. rewrite SR.
      cbn [out_ok scompare fold_right fst snd psize]. rewrite lex_eq_r, denote_pstr by exact Hsr. split; [exact TC|].
      split; [constructor; [|constructor]; split; [|split; [exact Wtl2|]]|].
      + cbn [fst rwfb]. rewrite seg_okb_utf8 by assumption. exact Wtl1.
      + destruct Ndt as [Ndt|Ndt]; [left; exact Ndt|right; exact Ndt].
      + cbn [rsize]. rewrite <- SR, skipn_length. lia.
  Qed.
End Arms.

Lemma nd_split hf x y : (hf = true \/ (nodotb x && nodotb y) = true) -> (hf = true \/ nodotb x = true) /\ (hf = true \/ nodotb y = true).
Proof. intros [H|H]; [auto|]. apply andb_true_iff in H as [H1 H2]. auto. Qed.

Section StrArms.
  Variable hf : bool.

  Lemma arm_lis_str h1 t1 f2 args2 : args2 <> [] -> okpair hf (RLis h1 t1, RStr f2 args2) ->
    out_ok hf (RLis h1 t1) (RStr f2 args2)
      (of_cmp (fa_cmp 2 dot (length args2) f2) (match args2 with [h2; t2] => [(h1, h2); (t1, t2)] | _ => [] end)).
  Proof.
    intros NE (Wa & Wb & Nd). cbn [fst snd] in *.
    apply of_cmp_gen with (X := lcompare tcompare [denote h1; denote t1] (map denote args2)).
    - rewrite denote_str by exact NE. cbn [denote]. unfold tcons. rewrite tc_cmp, map_length, fa_cmp_spec, lex_assoc. reflexivity.
    - intros E. apply fa_cmp_eq in E as [E1 E2]. symmetry in E1. destruct (length2 args2 E1) as (h2 & t2 & ->).
      split; [reflexivity|].
      cbn [rwfb nodotb forallb] in *. apply andb_true_iff in Wa as [Wa1 Wa2].
      apply andb_true_iff in Wb as [Wb1 Wb2]. apply andb_true_iff in Wb2 as [Wb2 _].
      apply nd_split in Nd as [Nd1 Nd2].
      split; [constructor; [|constructor; [|constructor]]; (split; [|split]); assumption|].
      cbn [psize fold_right fst snd rsize]. lia.
  Qed.

  Lemma arm_pstr_str bs1 tl1 f2 args2 : args2 <> [] -> okpair hf (RPStr bs1 tl1, RStr f2 args2) ->
    out_ok hf (RPStr bs1 tl1) (RStr f2 args2)
      (of_cmp (fa_cmp 2 dot (length args2) f2)
              (let (c, succ) := peel bs1 tl1 in
               match args2 with [h2; t2] => [(RAtom [c], h2); (succ, t2)] | _ => [] end)).
  Proof.
    intros NE (Wa & Wb & Nd). cbn [fst snd] in *.
    destruct (rwfb_pstr bs1 tl1 Wa) as (c & cs & E & Hs & Hz & Wtl). subst bs1.
    destruct (denote_peel c cs tl1 Hs) as [D F]. destruct (peel_facts c cs tl1 Hs Hz Wtl) as (P1 & P2 & P3).
    destruct (peel (utf8 (c :: cs)) tl1) as [c' succ]. cbn [fst snd] in *. subst c'.
    apply of_cmp_gen with (X := lcompare tcompare [Atom [c]; denote succ] (map denote args2)).
    - rewrite denote_str by exact NE. rewrite D. unfold tcons. rewrite tc_cmp, map_length, fa_cmp_spec, lex_assoc. reflexivity.
    - intros E. apply fa_cmp_eq in E as [E1 E2]. symmetry in E1. destruct (length2 args2 E1) as (h2 & t2 & ->).
      split; [reflexivity|].
      cbn [rwfb nodotb forallb] in Wb, Nd.
      apply andb_true_iff in Wb as [Wb1 Wb2]. apply andb_true_iff in Wb2 as [Wb2 _].
      split.
      + constructor; [|constructor; [|constructor]]; (split; [|split]); cbn [fst snd]; try assumption; try reflexivity.
        * right; reflexivity.
        * destruct Nd as [Nd|Nd]; [left; exact Nd|right; rewrite P2; exact Nd].
      + cbn [psize fold_right fst snd rsize] in *. lia.
  Qed.

  Lemma arm_str_lis f1 args1 h2 t2 : args1 <> [] -> okpair hf (RStr f1 args1, RLis h2 t2) ->
    out_ok hf (RStr f1 args1) (RLis h2 t2)
      (of_cmp (fa_cmp (length args1) f1 2 dot)
              (match args1 with
               | [h1; t1] => if hf then [(h1, h2); (t1, t2)] else [(t1, t2); (h1, h2)]
               | _ => []
               end)).
  Proof.
    intros NE (Wa & Wb & Nd). cbn [fst snd] in *.
    apply of_cmp_gen with (X := lcompare tcompare (map denote args1) [denote h2; denote t2]).
    - rewrite denote_str by exact NE. cbn [denote]. unfold tcons. rewrite tc_cmp, map_length, fa_cmp_spec, lex_assoc. reflexivity.
    - intros E. apply fa_cmp_eq in E as [E1 E2]. destruct (length2 args1 E1) as (h1 & t1 & ->). subst f1.
      destruct Nd as [Nd|Nd]; [|cbn in Nd; discriminate Nd]. subst hf.
      split; [reflexivity|].
      cbn [rwfb forallb] in *. apply andb_true_iff in Wb as [Wb1 Wb2].
      apply andb_true_iff in Wa as [Wa1 Wa2]. apply andb_true_iff in Wa2 as [Wa2 _].
      split; [constructor; [|constructor; [|constructor]]; (split; [|split]); cbn [fst snd]; auto|].
      cbn [psize fold_right fst snd rsize]. lia.
  Qed.

  Lemma arm_str_pstr f1 args1 bs2 tl2 : args1 <> [] -> okpair hf (RStr f1 args1, RPStr bs2 tl2) ->
    out_ok hf (RStr f1 args1) (RPStr bs2 tl2)
      (of_cmp (fa_cmp (length args1) f1 2 dot)
              (let (c, succ) := peel bs2 tl2 in
               match args1 with [h1; t1] => [(h1, RAtom [c]); (t1, succ)] | _ => [] end)).
  Proof.
    intros NE (Wa & Wb & Nd). cbn [fst snd] in *.
    destruct (rwfb_pstr bs2 tl2 Wb) as (c & cs & E & Hs & Hz & Wtl). subst bs2.
    destruct (denote_peel c cs tl2 Hs) as [D F]. destruct (peel_facts c cs tl2 Hs Hz Wtl) as (P1 & P2 & P3).
    destruct (peel (utf8 (c :: cs)) tl2) as [c' succ]. cbn [fst snd] in *. subst c'.
    apply of_cmp_gen with (X := lcompare tcompare (map denote args1) [Atom [c]; denote succ]).
    - rewrite denote_str by exact NE. rewrite D. unfold tcons. rewrite tc_cmp, map_length, fa_cmp_spec, lex_assoc. reflexivity.
    - intros E. apply fa_cmp_eq in E as [E1 E2]. destruct (length2 args1 E1) as (h1 & t1 & ->).
      split; [reflexivity|].
      cbn [rwfb nodotb forallb length] in Wa, Nd.
      apply andb_true_iff in Wa as [Wa1 Wa2]. apply andb_true_iff in Wa2 as [Wa2 _].
      assert (Nd' : (hf = true \/ nodotb h1 = true) /\ (hf = true \/ nodotb t1 = true)).
      { destruct Nd as [Nd|Nd]; [auto|]. apply andb_true_iff in Nd as [_ Nd]. apply andb_true_iff in Nd as [N1 N2].
        apply andb_true_iff in N2 as [N2 _]. auto. }
      destruct Nd' as [Nd1 Nd2].
      split.
      + constructor; [|constructor; [|constructor]]; (split; [|split]); cbn [fst snd]; try assumption; reflexivity.
      + cbn [psize fold_right fst snd rsize] in *. lia.
  Qed.

  Lemma arm_str_str f1 args1 f2 args2 : args1 <> [] -> args2 <> [] -> okpair hf (RStr f1 args1, RStr f2 args2) ->
    out_ok hf (RStr f1 args1) (RStr f2 args2)
      (of_cmp (fa_cmp (length args1) f1 (length args2) f2) (combine args1 args2)).
  Proof.
    intros NE1 NE2 (Wa & Wb & Nd). cbn [fst snd] in *.
    apply of_cmp_gen with (X := lcompare tcompare (map denote args1) (map denote args2)).
    - rewrite !denote_str by assumption. rewrite tc_cmp, !map_length, fa_cmp_spec, lex_assoc. reflexivity.
    - intros E. apply fa_cmp_eq in E as [E1 E2].
      split; [symmetry; apply scompare_combine; exact E1|].
      cbn [rwfb nodotb] in *.
      split.
      + apply okpair_combine; try assumption.
        destruct Nd as [Nd|Nd]; [left; exact Nd|right]. apply andb_true_iff in Nd as [_ Nd]. exact Nd.
      + pose proof (psize_combine args1 args2) as P. cbn [rsize]. fold (sumsize args1). fold (sumsize args2). lia.
  Qed.

  (* ------------------------------------------------------------------ ParallelHeapIter::next, one pair *)
  Lemma step_ok a b : okpair hf (a, b) -> out_ok hf a b (step hf a b).
  Proof.
    intros OK. pose proof OK as (Wa & Wb & Nd). cbn [fst snd] in Wa, Wb, Nd.
    pose proof (tcompare_unfold (denote a) (denote b)) as TU.
    rewrite (cat_denote a Wa), (cat_denote b Wb) in TU.
    unfold step. destruct (Nat.compare (rcat a) (rcat b)) eqn:EC; cbn [lex] in TU.
    2: { split; [discriminate|exact TU]. }
    2: { split; [discriminate|exact TU]. }
    apply Nat.compare_eq in EC.
    destruct a as [x|z|n d|x|s|f args|h t|bs tl].
    - (* variables *)
      destruct b as [y| | | | |f' args'| |]; cbn [rcat] in EC; try discriminate EC; [|destruct args'; discriminate EC].
      cbn [rcat]. apply of_cmp_leaf. exact TU.
    - (* integer *)
      destruct b as [ |z'|n' d'| | |f' args'| |]; cbn [rcat] in EC; try discriminate EC; try (destruct args'; discriminate EC);
        cbn [rcat]; apply of_cmp_leaf; exact TU.
    - (* rational *)
      destruct b as [ |z'|n' d'| | |f' args'| |]; cbn [rcat] in EC; try discriminate EC; try (destruct args'; discriminate EC);
        cbn [rcat]; apply of_cmp_leaf; exact TU.
    - (* float *)
      destruct b as [ | | |y| |f' args'| |]; cbn [rcat] in EC; try discriminate EC; [|destruct args'; discriminate EC].
      cbn [rcat]. apply of_cmp_leaf. exact TU.
    - (* atom cell *)
      destruct b as [ | | | |s'|f' args'| |]; cbn [rcat] in EC; try discriminate EC.
      + cbn [rcat atom_name]. apply of_cmp_leaf. rewrite atom_cmp_name. exact TU.
      + destruct args' as [|? ?]; [|discriminate EC]. cbn [rcat atom_name]. apply of_cmp_leaf. rewrite atom_cmp_name. exact TU.
    - (* Str *)
      destruct args as [|a0 args].
      + (* arity 0: an atom *)
        destruct b as [ | | | |s'|f' args'| |]; cbn [rcat] in EC; try discriminate EC.
        * cbn [rcat atom_name]. apply of_cmp_leaf. rewrite atom_cmp_name. exact TU.
        * destruct args' as [|? ?]; [|discriminate EC]. cbn [rcat atom_name]. apply of_cmp_leaf. rewrite atom_cmp_name. exact TU.
      + destruct b as [ | | | | |f' args'|h' t'|bs' tl']; cbn [rcat] in EC; try discriminate EC.
        * destruct args' as [|b0 args']; [discriminate EC|]. cbn [rcat step_compound].
          apply arm_str_str; [discriminate|discriminate|exact OK].
        * cbn [rcat step_compound]. apply arm_str_lis; [discriminate|exact OK].
        * cbn [rcat step_compound]. apply arm_str_pstr; [discriminate|exact OK].
    - (* Lis *)
      destruct b as [ | | | | |f' args'|h' t'|bs' tl']; cbn [rcat] in EC; try discriminate EC.
      + destruct args' as [|b0 args']; [discriminate EC|]. cbn [rcat step_compound].
        apply arm_lis_str; [discriminate|exact OK].
      + cbn [rcat step_compound]. apply arm_lis_lis. exact OK.
      + cbn [rcat step_compound]. apply arm_lis_pstr. exact OK.
    - (* PStrLoc *)
      destruct b as [ | | | | |f' args'|h' t'|bs' tl']; cbn [rcat] in EC; try discriminate EC.
      + destruct args' as [|b0 args']; [discriminate EC|]. cbn [rcat step_compound].
        apply arm_pstr_str; [discriminate|exact OK].
      + cbn [rcat step_compound]. apply arm_pstr_lis. exact OK.
      + cbn [rcat step_compound]. apply arm_pstr_pstr. exact OK.
  Qed.

  (* ------------------------------------------------------------------ the loop *)
  Lemma run_ok : forall fuel stk, Forall (okpair hf) stk -> psize stk < fuel -> run hf fuel stk = scompare stk.
  Proof.
    induction fuel as [|k IH]; intros stk Hok Hsz; [lia|].
    destruct stk as [|[a b] rest]; [reflexivity|].
    inversion Hok as [|? ? H1 H2]; subst.
    cbn [run]. pose proof (step_ok a b H1) as S.
    cbn [psize fold_right fst snd] in Hsz. fold (psize rest) in Hsz.
    destruct (step hf a b) as [c|l]; cbn [out_ok] in S.
    - destruct S as [Hne Hc]. cbn [scompare fold_right fst snd]. rewrite Hc. symmetry. apply lex_ne. exact Hne.
    - destruct S as (Hc & Hl & Hs). rewrite IH.
      + rewrite scompare_app. cbn [scompare fold_right fst snd]. rewrite Hc. reflexivity.
      + apply Forall_app. split; assumption.
      + rewrite psize_app. lia.
  Qed.
End StrArms.

(* ------------------------------------------------------------------ the theorems *)
Theorem rcompare_gen_correct hf a b : rwfb a = true -> rwfb b = true -> (hf = true \/ nodotb a = true) ->
  rcompare_gen hf a b = tcompare (denote a) (denote b).
Proof.
  intros Wa Wb Nd. unfold rcompare_gen. rewrite run_ok.
  - cbn [scompare fold_right fst snd]. apply lex_eq_r.
  - constructor; [|constructor]. split; [exact Wa|]. split; [exact Wb|exact Nd].
  - cbn [psize fold_right fst snd]. lia.
Qed.

(* the mirror of the code computes the reference order of the denoted terms, for every pair of well-formed
   representations whose LEFT operand contains no '.'/2 in the Str representation *)
Theorem rcompare_is_tcompare_partial a b : rwfb a = true -> rwfb b = true -> nodotb a = true ->
  rcompare a b = tcompare (denote a) (denote b).
Proof. intros Wa Wb Nd. apply rcompare_gen_correct; auto. Qed.

(* with the Str-'.'/2 against Lis arm visiting the head pair first: every pair of well-formed representations *)
Theorem rcompare_heads_first_is_tcompare a b : rwfb a = true -> rwfb b = true ->
  rcompare_heads_first a b = tcompare (denote a) (denote b).
Proof. intros Wa Wb. apply rcompare_gen_correct; auto. Qed.

(* the code's arm is not the standard order: '.'(a,[z]) held as a Str cell against the cons cells of [b,a] *)
Definition ex_dot_str : rterm := RStr dot [RAtom [97%N]; RLis (RAtom [122%N]) (RAtom nil_name)].
Definition ex_dot_lis : rterm := RLis (RAtom [98%N]) (RLis (RAtom [97%N]) (RAtom nil_name)).
Theorem rcompare_str_dot_against_lis_deviates :
  rwfb ex_dot_str = true /\ rwfb ex_dot_lis = true /\
  rcompare ex_dot_str ex_dot_lis = Gt /\ tcompare (denote ex_dot_str) (denote ex_dot_lis) = Lt /\
  rcompare ex_dot_lis ex_dot_str = Gt.
Proof. vm_compute. repeat split; reflexivity. Qed.

(* consequences: the mirror inherits the order laws on well-formed Str-'.'-free representations *)
Corollary rcompare_antisym a b : rwfb a = true -> rwfb b = true -> nodotb a = true -> nodotb b = true ->
  rcompare a b = CompOpp (rcompare b a).
Proof. intros. rewrite !rcompare_is_tcompare_partial by assumption. apply tcompare_antisym. Qed.

Corollary rcompare_trans a b c : rwfb a = true -> rwfb b = true -> rwfb c = true -> nodotb a = true -> nodotb b = true ->
  rcompare a b = Lt -> rcompare b c = Lt -> rcompare a c = Lt.
Proof. intros ? ? ? ? ?. rewrite !rcompare_is_tcompare_partial by assumption. apply tcompare_trans. Qed.

(* all representations of one term are Eq: a string, its cons cells, any mixture *)
Corollary rcompare_same_denotation a b : rwfb a = true -> rwfb b = true -> nodotb a = true ->
  denote a = denote b -> rcompare a b = Eq.
Proof. intros Wa Wb Nd E. rewrite rcompare_is_tcompare_partial by assumption. rewrite E. apply tcompare_refl. Qed.

(* the correspondence test: what rcheck3 = true says *)
Lemma term_eqb_sound : forall a b, term_eqb a b = true -> a = b.
Proof.
  induction a as [v|z|n d|x|s|f args IH] using term_ind'; intros b H; destruct b as [v'|z'|n' d'|x'|s'|f' args'];
    cbn [term_eqb] in H; try discriminate H.
  - apply N.eqb_eq in H. congruence.
  - apply Z.eqb_eq in H. congruence.
  - apply andb_true_iff in H as [H1 H2]. apply Z.eqb_eq in H1. apply Z.eqb_eq in H2. congruence.
  - apply Z.eqb_eq in H. congruence.
  - apply bytes_eqb_eq in H. congruence.
  - apply andb_true_iff in H as [H1 H2]. apply bytes_eqb_eq in H1. subst f'. f_equal.
    revert args' H2. induction IH as [|y l Hy _ IHl]; intros [|y' l'] H2; try discriminate H2; [reflexivity|].
    apply andb_true_iff in H2 as [A B]. f_equal; [apply Hy; exact A|apply IHl; exact B].
Qed.

Lemma rcheck3_sound t1 t2 t3 r1 r2 r3 obs : rcheck3 t1 t2 t3 r1 r2 r3 obs = true ->
  denote r1 = t1 /\ denote r2 = t2 /\ denote r3 = t3 /\ obs = rspec3 r1 r2 r3 /\ rspec3 r1 r2 r3 = spec3 t1 t2 t3.
Proof.
  unfold rcheck3. rewrite !andb_true_iff. intros [[[[[[[[[W1 W2] W3] N1] N2] N3] D1] D2] D3] L].
  apply term_eqb_sound in D1. apply term_eqb_sound in D2. apply term_eqb_sound in D3.
  apply (list_eqb_eq cmp_eqb cmp_eqb_eq) in L. repeat (split; [solve [auto]|]).
  unfold rspec3, spec3. rewrite !rcompare_is_tcompare_partial by assumption. subst. reflexivity.
Qed.
