(* C13 -- proofs: tcompare is a total preorder on ALL terms whose equivalence is, on well-formed terms,
   structural identity up to -0.0 = 0.0. *)
From Coq Require Import ZArith NArith QArith List Bool Lia Arith.
From V Require Import Base.Term C13.Model.
Import ListNotations.

(* ------------------------------------------------------------------ comparison algebra *)

(* the transitivity table of three comparison results ab, bc, ac *)
Definition T3 (ab bc ac : comparison) : Prop :=
  match ab, bc with
  | Eq, r => ac = r
  | r, Eq => ac = r
  | Lt, Lt => ac = Lt
  | Gt, Gt => ac = Gt
  | _, _ => True
  end.

Lemma T3_lex_cond : forall a1 b1 c1 a2 b2 c2,
  T3 a1 b1 c1 -> (a1 = Eq -> b1 = Eq -> T3 a2 b2 c2) -> T3 (lex a1 a2) (lex b1 b2) (lex c1 c2).
Proof.
  intros a1 b1 c1 a2 b2 c2 H1 H2.
  destruct a1, b1; cbn in *; subst; cbn; auto;
    try (specialize (H2 eq_refl eq_refl)); destruct a2, b2; cbn in *; auto.
Qed.

Lemma T3_lex : forall a1 b1 c1 a2 b2 c2,
  T3 a1 b1 c1 -> T3 a2 b2 c2 -> T3 (lex a1 a2) (lex b1 b2) (lex c1 c2).
Proof. intros; apply T3_lex_cond; auto. Qed.

Lemma lex_opp : forall a b, CompOpp (lex a b) = lex (CompOpp a) (CompOpp b).
Proof. destruct a; reflexivity. Qed.

Lemma lex_eq_iff : forall a b, lex a b = Eq <-> a = Eq /\ b = Eq.
Proof. destruct a; cbn; intuition congruence. Qed.

Lemma T3_Z : forall x y z : Z, T3 (x ?= y)%Z (y ?= z)%Z (x ?= z)%Z.
Proof.
  intros x y z.
  destruct (Z.compare_spec x y), (Z.compare_spec y z), (Z.compare_spec x z); cbn; auto; exfalso; lia.
Qed.

Lemma T3_N : forall x y z : N, T3 (x ?= y)%N (y ?= z)%N (x ?= z)%N.
Proof.
  intros x y z.
  destruct (N.compare_spec x y), (N.compare_spec y z), (N.compare_spec x z); cbn; auto; exfalso; lia.
Qed.

Lemma T3_nat : forall x y z : nat, T3 (Nat.compare x y) (Nat.compare y z) (Nat.compare x z).
Proof.
  intros x y z.
  destruct (Nat.compare_spec x y), (Nat.compare_spec y z), (Nat.compare_spec x z); cbn; auto; exfalso; lia.
Qed.

Lemma T3_Q : forall p q r : Q, T3 (p ?= q)%Q (q ?= r)%Q (p ?= r)%Q.
Proof.
  intros p q r.
  destruct (Qcompare_spec p q) as [H|H|H]; destruct (Qcompare_spec q r) as [H'|H'|H']; cbn; auto.
  - apply Qeq_alt. rewrite H. exact H'.
  - apply Qlt_alt. rewrite H. exact H'.
  - apply Qgt_alt. rewrite H. exact H'.
  - apply Qlt_alt. rewrite <- H'. exact H.
  - apply Qlt_alt. eapply Qlt_trans; eauto.
  - apply Qgt_alt. rewrite <- H'. exact H.
  - apply Qgt_alt. eapply Qlt_trans; eauto.
Qed.

(* ------------------------------------------------------------------ lists *)
Section Lists.
  Context {A : Type} (cmp : A -> A -> comparison).

  Lemma lcompare_refl : forall l, Forall (fun x => cmp x x = Eq) l -> lcompare cmp l l = Eq.
  Proof. induction 1 as [|x l Hx _ IH]; cbn; auto. rewrite Hx. exact IH. Qed.

  Lemma lcompare_antisym : forall l, Forall (fun x => forall y, cmp x y = CompOpp (cmp y x)) l ->
    forall l', lcompare cmp l l' = CompOpp (lcompare cmp l' l).
  Proof.
    induction 1 as [|x l Hx _ IH]; intros [|y l']; cbn; auto.
    rewrite lex_opp, <- Hx, <- IH. reflexivity.
  Qed.

  Lemma lcompare_T3 : forall l, Forall (fun x => forall y z, T3 (cmp x y) (cmp y z) (cmp x z)) l ->
    forall l' l'', T3 (lcompare cmp l l') (lcompare cmp l' l'') (lcompare cmp l l'').
  Proof.
    induction 1 as [|x l Hx _ IH]; intros [|y l'] [|z l'']; cbn [lcompare];
      try (apply T3_lex; auto; fail); try (cbn; auto; fail).
    - destruct (lex (cmp y z) (lcompare cmp l' l'')); cbn; auto.
    - destruct (lex (cmp x y) (lcompare cmp l l')); cbn; auto.
  Qed.

  Lemma lcompare_eq_iff : (forall x y, cmp x y = Eq <-> x = y) ->
    forall l l', lcompare cmp l l' = Eq <-> l = l'.
  Proof.
    intros Hc. induction l as [|x l IH]; intros [|y l']; cbn; try (split; congruence).
    rewrite lex_eq_iff, Hc, IH. split; [intros [? ?]; congruence | intros E; inversion E; auto].
  Qed.
End Lists.

Lemma name_compare_refl : forall s, name_compare s s = Eq.
Proof. intros; apply lcompare_refl. apply Forall_forall; intros; apply N.compare_refl. Qed.

Lemma name_compare_antisym : forall s s', name_compare s s' = CompOpp (name_compare s' s).
Proof. intros; apply lcompare_antisym. apply Forall_forall; intros; apply N.compare_antisym. Qed.

Lemma name_compare_T3 : forall s s' s'', T3 (name_compare s s') (name_compare s' s'') (name_compare s s'').
Proof. intros; apply lcompare_T3. apply Forall_forall; intros; apply T3_N. Qed.

Lemma name_compare_eq_iff : forall s s', name_compare s s' = Eq <-> s = s'.
Proof. apply lcompare_eq_iff. apply N.compare_eq_iff. Qed.

(* ------------------------------------------------------------------ unfolding *)
Lemma tcompare_unfold : forall a b, tcompare a b = lex (Nat.compare (cat a) (cat b)) (same_cat a b).
Proof.
  intros a b; destruct a, b; try reflexivity.
  cbn [tcompare same_cat cat]. do 3 f_equal.
  revert args0. induction args as [|x r IH]; intros [|y r']; cbn [lcompare]; auto.
  f_equal. apply IH.
Qed.

(* ------------------------------------------------------------------ reflexivity *)
Lemma tcompare_refl : forall t, tcompare t t = Eq.
Proof.
  induction t as [v|z|n d|b|s|f args IH] using term_ind'; rewrite tcompare_unfold, Nat.compare_refl; cbn [lex same_cat].
  - apply N.compare_refl.
  - apply Qeq_alt. reflexivity.
  - apply Qeq_alt. reflexivity.
  - apply Z.compare_refl.
  - apply name_compare_refl.
  - rewrite Nat.compare_refl, name_compare_refl. cbn [lex]. apply lcompare_refl. exact IH.
Qed.

(* ------------------------------------------------------------------ antisymmetry *)
Lemma tcompare_antisym : forall a b, tcompare a b = CompOpp (tcompare b a).
Proof.
  induction a as [v|z|n d|x|s|f args IH] using term_ind'; intros b;
    rewrite (tcompare_unfold _ b), (tcompare_unfold b), lex_opp, <- Nat.compare_antisym;
    destruct b as [v'|z'|n' d'|x'|s'|f' args']; try reflexivity; cbn [cat same_cat Nat.compare lex].
  - apply N.compare_antisym.
  - symmetry; apply Qcompare_antisym.
  - symmetry; apply Qcompare_antisym.
  - symmetry; apply Qcompare_antisym.
  - symmetry; apply Qcompare_antisym.
  - apply Z.compare_antisym.
  - apply name_compare_antisym.
  - rewrite !lex_opp, <- Nat.compare_antisym, <- name_compare_antisym.
    rewrite <- (lcompare_antisym tcompare args IH). reflexivity.
Qed.

(* ------------------------------------------------------------------ transitivity *)
Lemma tcompare_T3 : forall a b c, T3 (tcompare a b) (tcompare b c) (tcompare a c).
Proof.
  induction a as [v|z|n d|x|s|f args IH] using term_ind'; intros b c;
    rewrite (tcompare_unfold _ b), (tcompare_unfold b c), (tcompare_unfold _ c);
    (apply T3_lex_cond; [apply T3_nat|]); intros Hab Hbc;
    destruct b as [v'|z'|n' d'|x'|s'|f' args']; try discriminate Hab;
    destruct c as [v''|z''|n'' d''|x''|s''|f'' args'']; try discriminate Hbc; cbn [same_cat];
    try apply T3_Q.
  - apply T3_N.
  - apply T3_Z.
  - apply name_compare_T3.
  - apply T3_lex; [apply T3_nat|]. apply T3_lex; [apply name_compare_T3|].
    apply lcompare_T3. exact IH.
Qed.

Lemma tcompare_trans : forall a b c, tcompare a b = Lt -> tcompare b c = Lt -> tcompare a c = Lt.
Proof. intros a b c H1 H2. pose proof (tcompare_T3 a b c) as H. rewrite H1, H2 in H. exact H. Qed.

Lemma tcompare_eq_l : forall a b c, tcompare a b = Eq -> tcompare a c = tcompare b c.
Proof. intros a b c H1. pose proof (tcompare_T3 a b c) as H. rewrite H1 in H. exact H. Qed.

Lemma tcompare_eq_r : forall a b c, tcompare b c = Eq -> tcompare a c = tcompare a b.
Proof.
  intros a b c H1. pose proof (tcompare_T3 a b c) as H. rewrite H1 in H.
  destruct (tcompare a b); exact H.
Qed.

Lemma tcompare_le_trans : forall a b c, tcompare a b <> Gt -> tcompare b c <> Gt -> tcompare a c <> Gt.
Proof.
  intros a b c H1 H2. pose proof (tcompare_T3 a b c) as H.
  destruct (tcompare a b), (tcompare b c); cbn in H; try congruence.
Qed.

Lemma tcompare_le_lt_trans : forall a b c, tcompare a b <> Gt -> tcompare b c = Lt -> tcompare a c = Lt.
Proof.
  intros a b c H1 H2. pose proof (tcompare_T3 a b c) as H. rewrite H2 in H.
  destruct (tcompare a b); cbn in H; congruence.
Qed.

Lemma tcompare_total : forall a b, tcompare a b = Lt \/ tcompare a b = Eq \/ tcompare b a = Lt.
Proof.
  intros a b. rewrite (tcompare_antisym b a). destruct (tcompare a b); cbn; auto.
Qed.

(* ------------------------------------------------------------------ Eq <-> identical (well-formed terms) *)
Lemma fkey_eq_iff : forall x y, (0 <= x < two64)%Z -> (0 <= y < two64)%Z ->
  (fkey x = fkey y <-> (if (x =? two63)%Z then 0%Z else x) = (if (y =? two63)%Z then 0%Z else y)).
Proof.
  intros x y Hx Hy. unfold fkey, two63, two64 in *.
  destruct (Z.ltb_spec x 9223372036854775808), (Z.ltb_spec y 9223372036854775808),
           (Z.eqb_spec x 9223372036854775808), (Z.eqb_spec y 9223372036854775808); lia.
Qed.

Lemma int_rat_ne : forall z n d, (1 < d)%Z -> Z.gcd n d = 1%Z -> ~ ((z # 1) == (n # Z.to_pos d))%Q.
Proof.
  intros z n d Hd Hg E. unfold Qeq in E. cbn [Qnum Qden] in E.
  rewrite Z2Pos.id in E by lia. rewrite Z.mul_1_r in E.
  assert (Hdiv : (d | Z.gcd n d)%Z).
  { apply Z.gcd_greatest; [exists z; lia | apply Z.divide_refl]. }
  rewrite Hg in Hdiv. apply Z.divide_1_r_nonneg in Hdiv; lia.
Qed.

Lemma rat_rat_eq : forall n d n' d', (1 < d)%Z -> Z.gcd n d = 1%Z -> (1 < d')%Z -> Z.gcd n' d' = 1%Z ->
  ((n # Z.to_pos d) == (n' # Z.to_pos d'))%Q -> n = n' /\ d = d'.
Proof.
  intros n d n' d' Hd Hg Hd' Hg' E. unfold Qeq in E. cbn [Qnum Qden] in E.
  rewrite !Z2Pos.id in E by lia.
  assert (H1 : (d | d')%Z).
  { apply Z.gauss with (m := n); [exists n'; lia | rewrite Z.gcd_comm; exact Hg]. }
  assert (H2 : (d' | d)%Z).
  { apply Z.gauss with (m := n'); [exists n; lia | rewrite Z.gcd_comm; exact Hg']. }
  assert (Ed : d = d') by (apply Z.divide_antisym_nonneg; auto; lia).
  subst d'. split; auto. apply Z.mul_cancel_r with (p := d); lia.
Qed.

Definition eq_iff_at (a : term) : Prop :=
  wf a = true -> forall b, wf b = true -> (tcompare a b = Eq <-> canon a = canon b).

Lemma lcompare_canon : forall l, Forall eq_iff_at l -> forallb wf l = true ->
  forall l', forallb wf l' = true -> (lcompare tcompare l l' = Eq <-> map canon l = map canon l').
Proof.
  induction 1 as [|x l Hx _ IH]; intros Hw [|y l'] Hw'; cbn in *; try (split; congruence).
  apply andb_prop in Hw as [Hwx Hwl]. apply andb_prop in Hw' as [Hwy Hwl'].
  rewrite lex_eq_iff, (Hx Hwx y Hwy), (IH Hwl l' Hwl').
  split; [intros [? ?]; congruence | intros E; inversion E; auto].
Qed.

Lemma wf_cmp_args : forall f l, wf (Cmp f l) = true -> forallb wf l = true.
Proof. intros f [|x l] H; [discriminate | exact H]. Qed.

Lemma tcompare_eq_iff : forall a, eq_iff_at a.
Proof.
  induction a as [v|z|n d|x|s|f args IH] using term_ind'; intros Hwa b Hwb;
    rewrite tcompare_unfold;
    destruct b as [v'|z'|n' d'|x'|s'|f' args'];
    try (cbn [cat Nat.compare lex canon]; split; discriminate);
    cbn [cat Nat.compare lex same_cat canon numq].
  - rewrite N.compare_eq_iff. split; congruence.
  - rewrite <- Qeq_alt. unfold Qeq; cbn [Qnum Qden]. split; [intros E; f_equal; lia | intros E; inversion E; lia].
  - cbn [wf] in Hwb. apply andb_prop in Hwb as [H1 H2]. apply Z.ltb_lt in H1. apply Z.eqb_eq in H2.
    rewrite <- Qeq_alt. split; [intros E; exfalso; eapply int_rat_ne; eauto | discriminate].
  - cbn [wf] in Hwa. apply andb_prop in Hwa as [H1 H2]. apply Z.ltb_lt in H1. apply Z.eqb_eq in H2.
    rewrite <- Qeq_alt. split; [intros E; exfalso; symmetry in E; eapply int_rat_ne; eauto | discriminate].
  - cbn [wf] in Hwa, Hwb.
    apply andb_prop in Hwa as [H1 H2]. apply Z.ltb_lt in H1. apply Z.eqb_eq in H2.
    apply andb_prop in Hwb as [H1' H2']. apply Z.ltb_lt in H1'. apply Z.eqb_eq in H2'.
    rewrite <- Qeq_alt. split.
    + intros E. destruct (rat_rat_eq _ _ _ _ H1 H2 H1' H2' E); congruence.
    + intros E; inversion E; subst. reflexivity.
  - cbn [wf] in Hwa, Hwb.
    apply andb_prop in Hwa as [H1 H2]. apply Z.leb_le in H1. apply Z.ltb_lt in H2.
    apply andb_prop in Hwb as [H1' H2']. apply Z.leb_le in H1'. apply Z.ltb_lt in H2'.
    rewrite Z.compare_eq_iff, (fkey_eq_iff x x') by lia. split; [congruence | intros E; inversion E; auto].
  - rewrite name_compare_eq_iff. split; congruence.
  - apply wf_cmp_args in Hwa. apply wf_cmp_args in Hwb.
    rewrite !lex_eq_iff, name_compare_eq_iff, (lcompare_canon args IH Hwa args' Hwb), Nat.compare_eq_iff.
    split.
    + intros (_ & Ef & El). congruence.
    + intros E; inversion E as [[Ef El]]. repeat split; auto.
      rewrite <- (map_length canon args), <- (map_length canon args'), El. reflexivity.
Qed.

(* identical terms are Eq; Eq terms without negative zero are identical *)
Fixpoint no_negzero (t : term) : bool :=
  match t with
  | Flt b => negb (b =? two63)%Z
  | Cmp _ l => forallb no_negzero l
  | _ => true
  end.

Lemma canon_id : forall t, no_negzero t = true -> canon t = t.
Proof.
  induction t as [v|z|n d|x|s|f args IH] using term_ind'; cbn [no_negzero canon]; intros H; auto.
  - destruct (x =? two63)%Z; [discriminate | reflexivity].
  - f_equal. induction IH as [|y l Hy _ IHl]; cbn in *; auto.
    apply andb_prop in H as [H1 H2]. rewrite Hy, IHl; auto.
Qed.

Lemma tcompare_eq_identical : forall a b, wf a = true -> wf b = true -> no_negzero a = true -> no_negzero b = true ->
  (tcompare a b = Eq <-> a = b).
Proof.
  intros a b Ha Hb Na Nb. rewrite (tcompare_eq_iff a Ha b Hb), !canon_id by assumption. reflexivity.
Qed.

(* ------------------------------------------------------------------ the six operators *)
Lemma ops_consistent : forall a b,
  op_ne a b = negb (op_eq a b) /\
  op_le a b = (op_lt a b || op_eq a b) /\
  op_gt a b = op_lt b a /\
  op_ge a b = op_le b a /\
  op_lt a b = negb (op_ge a b) /\
  op_eq a b = op_eq b a /\
  (op_eq a b = true <-> tcompare a b = Eq).
Proof.
  intros a b. unfold op_ne, op_eq, op_le, op_lt, op_gt, op_ge.
  rewrite (tcompare_antisym b a). destruct (tcompare a b); cbn; intuition congruence.
Qed.

(* ------------------------------------------------------------------ strings are ordered as their code-point lists *)
Lemma string_order : forall s s', tcompare (tstring s) (tstring s') = lcompare N.compare s s'.
Proof.
  unfold tstring, tlist.
  induction s as [|c s IH]; intros [|c' s']; try reflexivity.
  cbn [map tlist_tail lcompare]. unfold tcons at 1 2. rewrite tcompare_unfold.
  cbn [cat Nat.compare lex same_cat length lcompare].
  rewrite name_compare_refl. cbn [lex]. rewrite IH.
  unfold tchar. rewrite tcompare_unfold. cbn [cat Nat.compare lex same_cat name_compare lcompare].
  destruct (c ?= c')%N; cbn [lex]; auto. destruct (lcompare N.compare s s'); reflexivity.
Qed.

(* ------------------------------------------------------------------ the correspondence test is exact *)
Lemma list_eqb_eq : forall {A} (eqb : A -> A -> bool), (forall x y, eqb x y = true <-> x = y) ->
  forall l l', list_eqb eqb l l' = true <-> l = l'.
Proof.
  intros A eqb H. induction l as [|x l IH]; intros [|y l']; cbn; try (split; congruence).
  rewrite andb_true_iff, H, IH. split; [intros [? ?]; congruence | intros E; inversion E; auto].
Qed.

Lemma cmp_eqb_eq : forall x y, cmp_eqb x y = true <-> x = y.
Proof. destruct x, y; cbn; split; congruence. Qed.

Lemma check3_exact : forall t1 t2 t3 obs flags,
  check3 t1 t2 t3 obs flags = true <-> (obs = spec3 t1 t2 t3 /\ flags = ops t1 t2).
Proof.
  intros. unfold check3. rewrite andb_true_iff, (list_eqb_eq cmp_eqb cmp_eqb_eq), (list_eqb_eq Bool.eqb Bool.eqb_true_iff).
  split; intros [? ?]; split; congruence.
Qed.
