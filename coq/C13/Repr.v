(* C13 -- representation-level mirror of the term comparison:
   src/heap_iter.rs `ParallelHeapIter::next` (one loop iteration = `step`), src/machine/machine_state_impl.rs
   `compare_term_test` (the loop around it = `run`), src/types.rs `order_category` (= `rcat`),
   src/machine/heap.rs `last_str_char_and_tail` (= `peel`), `compare_pstr_segments` (C20's `cmp_slices`),
   src/atom_table.rs `Ord for Atom` (= `atom_cmp`, byte order of the UTF-8 texts).

   The subject is a datatype of *representation terms*: what the heap cells of a term look like to the iterator
   (Lis cons cells, PStrLoc partial strings = a byte segment + a tail cell, Str structures -- also of name '.' and
   arity 2 --, atoms, numbers, variables), with a denotation into the reference terms of V.Base.Term.
   Not modelled: addresses (hence the tabu list that cuts cycles and shared sub-pairs; rterms are finite trees),
   cells without an order category (`Unordered`).  Definitions only. *)
From Coq Require Import ZArith NArith QArith List Bool Arith.
From V Require Import Base.Term C13.Model C18.Model C20.Model.
Import ListNotations.
Local Open Scope nat_scope.

Inductive rterm :=
| RVar (v : N)
| RInt (z : Z)
| RRat (n d : Z)
| RFlt (bits : Z)
| RAtom (s : list N)                        (* an atom cell of arity 0 (also an inlined character) *)
| RStr (f : list N) (args : list rterm)     (* Str -> functor cell f/length args, then the argument cells *)
| RLis (h t : rterm)                        (* Lis -> two cells *)
| RPStr (bytes : list N) (tail : rterm).    (* PStrLoc -> the bytes of a segment up to its zero padding, then the tail cell *)

Section rterm_ind_nested.
  Variable P : rterm -> Prop.
  Hypothesis HVar : forall v, P (RVar v).
  Hypothesis HInt : forall z, P (RInt z).
  Hypothesis HRat : forall n d, P (RRat n d).
  Hypothesis HFlt : forall b, P (RFlt b).
  Hypothesis HAtom : forall s, P (RAtom s).
  Hypothesis HStr : forall f args, Forall P args -> P (RStr f args).
  Hypothesis HLis : forall h t, P h -> P t -> P (RLis h t).
  Hypothesis HPStr : forall bs t, P t -> P (RPStr bs t).
  Fixpoint rterm_ind' (t : rterm) : P t :=
    match t with
    | RVar v => HVar v | RInt z => HInt z | RRat n d => HRat n d | RFlt b => HFlt b | RAtom s => HAtom s
    | RStr f args => HStr f args ((fix go (l : list rterm) : Forall P l :=
                                     match l with [] => Forall_nil P | x :: r => Forall_cons x (rterm_ind' x) (go r) end) args)
    | RLis h t => HLis h t (rterm_ind' h) (rterm_ind' t)
    | RPStr bs t => HPStr bs t (rterm_ind' t)
    end.
End rterm_ind_nested.

(* ---------------------------------------------------------------- denotation *)
(* the characters of a segment (UTF-8 decoding with C18's decoder, C20's to_chars) *)
Definition chars_of (bs : list N) : list N := match to_chars bs with Some cs => cs | None => [] end.

Fixpoint denote (r : rterm) : term :=
  match r with
  | RVar v => Var v
  | RInt z => Int z
  | RRat n d => Rat n d
  | RFlt b => Flt b
  | RAtom s => Atom s
  | RStr f args => match args with [] => Atom f | _ => Cmp f (map denote args) end
  | RLis h t => tcons (denote h) (denote t)
  | RPStr bs tl => tlist_tail (map tchar (chars_of bs)) (denote tl)
  end.

(* ---------------------------------------------------------------- well-formed representations *)
Definition scalarb (c : N) : bool := (c <? 55296)%N || ((57344 <=? c)%N && (c <? 1114112)%N).
Definition nonzerob (c : N) : bool := negb (c =? 0)%N.

(* a segment: the UTF-8 encoding of a non-empty sequence of non-NUL Unicode scalar values *)
Definition seg_okb (bs : list N) : bool :=
  match to_chars bs with
  | Some cs => match cs with [] => false | _ => true end
               && forallb scalarb cs && forallb nonzerob cs && bytes_eqb (utf8 cs) bs
  | None => false
  end.

Fixpoint rwfb (r : rterm) : bool :=
  match r with
  | RStr _ args => forallb rwfb args
  | RLis h t => rwfb h && rwfb t
  | RPStr bs tl => seg_okb bs && rwfb tl
  | _ => true
  end.

(* no '.'/2 in the Str representation *)
Definition is_dot2 (f : list N) (n : nat) : bool := name_eqb f dot && Nat.eqb n 2.
Fixpoint nodotb (r : rterm) : bool :=
  match r with
  | RStr f args => negb (is_dot2 f (length args)) && forallb nodotb args
  | RLis h t => nodotb h && nodotb t
  | RPStr _ tl => nodotb tl
  | _ => true
  end.

Fixpoint rsize (r : rterm) : nat :=
  match r with
  | RStr _ args => S (fold_right (fun x n => rsize x + n) 0 args)
  | RLis h t => S (rsize h + rsize t)
  | RPStr bs tl => S (length bs + rsize tl)
  | _ => 1
  end.

(* ---------------------------------------------------------------- order_category (types.rs) *)
(* Variable = 0 < FloatingPoint = 1 < Integer = 2 < Atom = 3 < Compound = 4 (derive(Ord) on the enum) *)
Definition rcat (r : rterm) : nat :=
  match r with
  | RVar _ => 0
  | RFlt _ => 1
  | RInt _ | RRat _ _ => 2
  | RAtom _ => 3
  | RStr _ args => match args with [] => 3 | _ => 4 end     (* Str: arity == 0 ? Atom : Compound *)
  | RLis _ _ | RPStr _ _ => 4
  end.

(* ---------------------------------------------------------------- leaves *)
Definition rnumq (r : rterm) : Q :=
  match r with
  | RInt z => z # 1
  | RRat n d => n # (Z.to_pos d)
  | _ => 0
  end.

(* Ord for Atom: as_str().cmp() -- byte-lexicographic on the UTF-8 texts *)
Definition atom_cmp (s s' : list N) : comparison := lcompare N.compare (utf8 s) (utf8 s').

(* (arity, name) tuples, as compared by parallel_cmp((a1, n1), (a2, n2), ..) *)
Definition fa_cmp (a1 : nat) (n1 : list N) (a2 : nat) (n2 : list N) : comparison :=
  lex (Nat.compare a1 a2) (atom_cmp n1 n2).

(* the name cell of an Atom-category term: an Atom cell, or a Str pointing at an arity-0 functor cell *)
Definition atom_name (r : rterm) : option (list N) :=
  match r with
  | RAtom s => Some s
  | RStr f [] => Some f
  | _ => None
  end.

(* ---------------------------------------------------------------- last_str_char_and_tail (heap.rs) *)
(* the first character of the segment and the cell to continue with: the tail cell when the segment ends after it
   (next char is None or NUL), else PStrLoc(loc + len_utf8(c)) = the rest of the segment with the same tail *)
Definition peel (bs : list N) (tl : rterm) : N * rterm :=
  match decode1 bs with
  | DChar c w => (c, match skipn w bs with [] => tl | rest => RPStr rest tl end)
  | _ => (0%N, tl)                                   (* chars().next().unwrap() on a non-empty valid segment *)
  end.

(* PStrContinuable::offset_by: TailIndex -> the tail cell; PStrOffset(p) -> PStrLoc(loc + p) *)
Definition cont_term (c : contin) (bs : list N) (tl : rterm) : rterm :=
  match c with
  | TailIndex _ => tl
  | PStrOffset p => RPStr (skipn (N.to_nat p) bs) tl
  end.

(* ---------------------------------------------------------------- one iteration of ParallelHeapIter::next *)
Inductive outcome :=
| Done (c : comparison)                     (* stack.clear(); Some(Less/Greater) -- or Vars(v1,v2), v1 != v2, decided by the caller *)
| Push (l : list (rterm * rterm)).          (* pairs pushed, listed in the order in which they will be popped *)

Definition of_cmp (c : comparison) (l : list (rterm * rterm)) : outcome :=
  match c with Eq => Push l | _ => Done c end.

(* hf: the Str-'.'/2 against Lis arm.  The code pushes (s1+1, l2) and THEN (s1+2, l2+1), so the tail pair is popped
   first: hf = false is the code; hf = true visits the head pair first like the other eight arms. *)
Definition step_compound (hf : bool) (a b : rterm) : outcome :=
  match a with
  | RLis h1 t1 =>
    match b with
    | RPStr bs2 tl2 =>
        let (c, succ) := peel bs2 tl2 in Push [(h1, RAtom [c]); (t1, succ)]
    | RLis h2 t2 => Push [(h1, h2); (t1, t2)]
    | RStr f2 args2 =>
        of_cmp (fa_cmp 2 dot (length args2) f2)
               (match args2 with [h2; t2] => [(h1, h2); (t1, t2)] | _ => [] end)
    | _ => Push []                                   (* unreachable!() *)
    end
  | RPStr bs1 tl1 =>
    match b with
    | RPStr bs2 tl2 =>
        match cmp_slices 0 0 (encode_segment bs1) (encode_segment bs2) with
        | Less => Done Lt
        | Greater => Done Gt
        | Continue c1 c2 => Push [(cont_term c1 bs1 tl1, cont_term c2 bs2 tl2)]
        end
    | RLis h2 t2 =>
        let (c, succ) := peel bs1 tl1 in Push [(RAtom [c], h2); (succ, t2)]
    | RStr f2 args2 =>
        of_cmp (fa_cmp 2 dot (length args2) f2)
               (let (c, succ) := peel bs1 tl1 in
                match args2 with [h2; t2] => [(RAtom [c], h2); (succ, t2)] | _ => [] end)
    | _ => Push []
    end
  | RStr f1 args1 =>
    match b with
    | RStr f2 args2 =>
        of_cmp (fa_cmp (length args1) f1 (length args2) f2) (combine args1 args2)
    | RLis h2 t2 =>
        of_cmp (fa_cmp (length args1) f1 2 dot)
               (match args1 with
                | [h1; t1] => if hf then [(h1, h2); (t1, t2)] else [(t1, t2); (h1, h2)]
                | _ => []
                end)
    | RPStr bs2 tl2 =>
        of_cmp (fa_cmp (length args1) f1 2 dot)
               (let (c, succ) := peel bs2 tl2 in
                match args1 with [h1; t1] => [(h1, RAtom [c]); (t1, succ)] | _ => [] end)
    | _ => Push []
    end
  | _ => Push []
  end.

Definition step (hf : bool) (a b : rterm) : outcome :=
  match Nat.compare (rcat a) (rcat b) with              (* parallel_cmp(order_cat_v1, order_cat_v2) *)
  | Lt => Done Lt
  | Gt => Done Gt
  | Eq =>
    match rcat a with
    | 0 => match a, b with RVar x, RVar y => of_cmp (x ?= y)%N [] | _, _ => Push [] end
    | 1 => match a, b with RFlt x, RFlt y => of_cmp (fkey x ?= fkey y)%Z [] | _, _ => Push [] end
    | 2 => of_cmp (rnumq a ?= rnumq b)%Q []
    | 3 => match atom_name a, atom_name b with
           | Some n1, Some n2 => of_cmp (atom_cmp n1 n2) []
           | _, _ => Push []
           end
    | _ => step_compound hf a b
    end
  end.

(* ---------------------------------------------------------------- the loop (compare_term_test over the iterator) *)
Fixpoint run (hf : bool) (fuel : nat) (stk : list (rterm * rterm)) : comparison :=
  match fuel with
  | O => Eq
  | S k =>
    match stk with
    | [] => Eq                                            (* iterator exhausted: Some(Ordering::Equal) *)
    | (a, b) :: rest =>
      match step hf a b with
      | Done c => c
      | Push l => run hf k (l ++ rest)
      end
    end
  end.

Definition psize (l : list (rterm * rterm)) : nat :=
  fold_right (fun p n => rsize (fst p) + rsize (snd p) + n) 0 l.

Definition rcompare_gen (hf : bool) (a b : rterm) : comparison := run hf (S (rsize a + rsize b)) [(a, b)].

(* the mirror of the code, and the variant whose Str-'.'/2 against Lis arm visits the heads first *)
Definition rcompare : rterm -> rterm -> comparison := rcompare_gen false.
Definition rcompare_heads_first : rterm -> rterm -> comparison := rcompare_gen true.

(* ---------------------------------------------------------------- correspondence *)
(* obs: compare/3 on (1,2) (2,1) (2,3) (3,2) (1,3) (3,1) (1,1) (2,2) (3,3), as in Model.check3 *)
Definition rspec3 (r1 r2 r3 : rterm) : list comparison :=
  [rcompare r1 r2; rcompare r2 r1; rcompare r2 r3; rcompare r3 r2; rcompare r1 r3; rcompare r3 r1;
   rcompare r1 r1; rcompare r2 r2; rcompare r3 r3].

(* the representations are well-formed, contain no Str-'.'/2, denote the terms of the case, and the mirror gives
   the observed answers *)
Definition rcheck3 (t1 t2 t3 : term) (r1 r2 r3 : rterm) (obs : list comparison) : bool :=
  rwfb r1 && rwfb r2 && rwfb r3 && nodotb r1 && nodotb r2 && nodotb r3
  && term_eqb (denote r1) t1 && term_eqb (denote r2) t2 && term_eqb (denote r3) t3
  && list_eqb cmp_eqb (rspec3 r1 r2 r3) obs.
