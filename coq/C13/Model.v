(* C13 -- reference model of the standard order of terms as scryer-prolog implements it
   (src/types.rs order_category, src/heap_iter.rs ParallelHeapIter, src/arithmetic.rs Ord for Number,
   src/atom_table.rs Ord for Atom).  Definitions only. *)
From Coq Require Import ZArith NArith QArith List Bool.
From V Require Import Base.Term.
Import ListNotations.

(* lexicographic combination of two comparison results *)
Definition lex (c1 c2 : comparison) : comparison := match c1 with Eq => c2 | _ => c1 end.

(* lexicographic order of lists; a proper prefix is smaller *)
Fixpoint lcompare {A} (cmp : A -> A -> comparison) (l1 l2 : list A) : comparison :=
  match l1, l2 with
  | [], [] => Eq
  | [], _ :: _ => Lt
  | _ :: _, [] => Gt
  | x :: r1, y :: r2 => lex (cmp x y) (lcompare cmp r1 r2)
  end.

(* atoms: code-point sequences (= byte order of their UTF-8 encodings) *)
Definition name_compare : list N -> list N -> comparison := lcompare N.compare.

(* floats: sign-magnitude key of the bit pattern; -0.0 and 0.0 get the same key *)
Definition two63 : Z := 9223372036854775808.
Definition two64 : Z := 18446744073709551616.
Definition fkey (bits : Z) : Z := if (bits <? two63)%Z then bits else (two63 - bits)%Z.

(* integers and rationals: one class, compared exactly (Qcompare is cross-multiplication) *)
Definition numq (t : term) : Q :=
  match t with
  | Int z => z # 1
  | Rat n d => n # (Z.to_pos d)
  | _ => 0
  end.

(* TermOrderCategory: Variable < FloatingPoint < Integer (incl. Rational) < Atom < Compound *)
Definition cat (t : term) : nat :=
  match t with
  | Var _ => 0
  | Flt _ => 1
  | Int _ | Rat _ _ => 2
  | Atom _ => 3
  | Cmp _ _ => 4
  end.

Fixpoint tcompare (a b : term) : comparison :=
  lex (Nat.compare (cat a) (cat b))
    (match a, b with
     | Var x, Var y => (x ?= y)%N
     | Flt x, Flt y => (fkey x ?= fkey y)%Z
     | Atom s, Atom s' => name_compare s s'
     | Cmp f l, Cmp f' l' =>
         lex (Nat.compare (length l) (length l'))
           (lex (name_compare f f')
              ((fix go (l l' : list term) : comparison :=
                  match l, l' with
                  | [], [] => Eq
                  | [], _ :: _ => Lt
                  | _ :: _, [] => Gt
                  | x :: r, y :: r' => lex (tcompare x y) (go r r')
                  end) l l'))
     | _, _ => (numq a ?= numq b)%Q
     end).

(* the same function with the argument loop written with lcompare (proved equal in Proofs.v) *)
Definition same_cat (a b : term) : comparison :=
  match a, b with
  | Var x, Var y => (x ?= y)%N
  | Flt x, Flt y => (fkey x ?= fkey y)%Z
  | Atom s, Atom s' => name_compare s s'
  | Cmp f l, Cmp f' l' =>
      lex (Nat.compare (length l) (length l')) (lex (name_compare f f') (lcompare tcompare l l'))
  | _, _ => (numq a ?= numq b)%Q
  end.

(* the six comparison operators *)
Definition op_eq (a b : term) : bool := match tcompare a b with Eq => true | _ => false end.   (* ==  *)
Definition op_ne (a b : term) : bool := match tcompare a b with Eq => false | _ => true end.   (* \== *)
Definition op_lt (a b : term) : bool := match tcompare a b with Lt => true | _ => false end.   (* @<  *)
Definition op_le (a b : term) : bool := match tcompare a b with Gt => false | _ => true end.   (* @=< *)
Definition op_gt (a b : term) : bool := match tcompare a b with Gt => true | _ => false end.   (* @>  *)
Definition op_ge (a b : term) : bool := match tcompare a b with Lt => false | _ => true end.   (* @>= *)
Definition ops (a b : term) : list bool := [op_eq a b; op_ne a b; op_lt a b; op_le a b; op_gt a b; op_ge a b].

(* well-formed terms: rationals in lowest terms with denominator > 1, float bit patterns in range,
   compounds have arguments *)
Fixpoint wf (t : term) : bool :=
  match t with
  | Var _ | Int _ | Atom _ => true
  | Rat n d => (1 <? d)%Z && (Z.gcd n d =? 1)%Z
  | Flt b => (0 <=? b)%Z && (b <? two64)%Z
  | Cmp _ l => match l with [] => false | _ => forallb wf l end
  end.

(* canonical form: the only identification the order makes between well-formed terms is -0.0 = 0.0 *)
Fixpoint canon (t : term) : term :=
  match t with
  | Flt b => Flt (if (b =? two63)%Z then 0%Z else b)
  | Cmp f l => Cmp f (map canon l)
  | _ => t
  end.

(* ---- correspondence: compare the implementation's observations with the model ---- *)
Definition cmp_eqb (x y : comparison) : bool :=
  match x, y with Eq, Eq | Lt, Lt | Gt, Gt => true | _, _ => false end.

Definition spec3 (t1 t2 t3 : term) : list comparison :=
  [tcompare t1 t2; tcompare t2 t1; tcompare t2 t3; tcompare t3 t2; tcompare t1 t3; tcompare t3 t1;
   tcompare t1 t1; tcompare t2 t2; tcompare t3 t3].

(* obs: compare/3 results for the ordered pairs (1,2) (2,1) (2,3) (3,2) (1,3) (3,1) (1,1) (2,2) (3,3);
   flags: truth of T1 == T2, \==, @<, @=<, @>, @>= *)
Definition check3 (t1 t2 t3 : term) (obs : list comparison) (flags : list bool) : bool :=
  list_eqb cmp_eqb (spec3 t1 t2 t3) obs && list_eqb Bool.eqb (ops t1 t2) flags.
