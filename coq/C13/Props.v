(* C13 -- pinned property theorems (nothing else lives here) *)
From Coq Require Import ZArith NArith QArith List Bool.
From V Require Import Base.Term C13.Model C13.Proofs.
Import ListNotations.

(* compare(=, T, T) for every term (variables, numbers of every representation, atoms, compounds) *)
Theorem tcompare_refl : forall t, tcompare t t = Eq.
Proof. exact Proofs.tcompare_refl. Qed.
Print Assumptions tcompare_refl.

(* antisymmetry: swapping the arguments of compare/3 swaps < and > (for ALL terms, no hypothesis) *)
Theorem tcompare_antisym : forall a b, tcompare a b = CompOpp (tcompare b a).
Proof. exact Proofs.tcompare_antisym. Qed.
Print Assumptions tcompare_antisym.

(* transitivity, for ALL terms *)
Theorem tcompare_trans : forall a b c, tcompare a b = Lt -> tcompare b c = Lt -> tcompare a c = Lt.
Proof. exact Proofs.tcompare_trans. Qed.
Print Assumptions tcompare_trans.

(* @=< is transitive and = is a congruence for the order: tcompare is a total preorder *)
Theorem tcompare_le_trans : forall a b c, tcompare a b <> Gt -> tcompare b c <> Gt -> tcompare a c <> Gt.
Proof. exact Proofs.tcompare_le_trans. Qed.
Print Assumptions tcompare_le_trans.

Theorem tcompare_eq_congruence : forall a b c, tcompare a b = Eq -> tcompare a c = tcompare b c /\ tcompare c a = tcompare c b.
Proof. intros a b c H. split; [exact (Proofs.tcompare_eq_l a b c H) | symmetry; exact (Proofs.tcompare_eq_r c a b H)]. Qed.
Print Assumptions tcompare_eq_congruence.

Theorem tcompare_total : forall a b, tcompare a b = Lt \/ tcompare a b = Eq \/ tcompare b a = Lt.
Proof. exact Proofs.tcompare_total. Qed.
Print Assumptions tcompare_total.

(* T1 == T2 (compare gives =) iff the terms are structurally identical up to -0.0 = 0.0, for well-formed terms
   (rationals in lowest terms with denominator > 1: an integer never equals a rational; one value, one term) *)
Theorem eq_iff_identical : forall a b, wf a = true -> wf b = true -> (tcompare a b = Eq <-> canon a = canon b).
Proof. intros a b Ha Hb. exact (Proofs.tcompare_eq_iff a Ha b Hb). Qed.
Print Assumptions eq_iff_identical.

Theorem eq_iff_identical_no_negzero : forall a b, wf a = true -> wf b = true ->
  no_negzero a = true -> no_negzero b = true -> (tcompare a b = Eq <-> a = b).
Proof. exact Proofs.tcompare_eq_identical. Qed.
Print Assumptions eq_iff_identical_no_negzero.

(* ==, \==, @<, @=<, @>, @>= are the six readings of the one order *)
Theorem six_operators_consistent : forall a b,
  op_ne a b = negb (op_eq a b) /\
  op_le a b = (op_lt a b || op_eq a b) /\
  op_gt a b = op_lt b a /\
  op_ge a b = op_le b a /\
  op_lt a b = negb (op_ge a b) /\
  op_eq a b = op_eq b a /\
  (op_eq a b = true <-> tcompare a b = Eq).
Proof. exact Proofs.ops_consistent. Qed.
Print Assumptions six_operators_consistent.

(* strings (lists of one-character atoms) are ordered as their code-point sequences, a proper prefix first *)
Theorem string_order_is_codepoint_lex : forall s s', tcompare (tstring s) (tstring s') = lcompare N.compare s s'.
Proof. exact Proofs.string_order. Qed.
Print Assumptions string_order_is_codepoint_lex.

(* the correspondence test accepts exactly the model's answers *)
Theorem check3_exact : forall t1 t2 t3 obs flags,
  check3 t1 t2 t3 obs flags = true <-> (obs = spec3 t1 t2 t3 /\ flags = ops t1 t2).
Proof. exact Proofs.check3_exact. Qed.
Print Assumptions check3_exact.

(* non-vacuity and the category order Var < Float < Integer/Rational < Atom < Compound *)
Example ex_wf : wf (Cmp [102%N] [Rat 1 3; Flt two63; Var 0; Atom []; Int (2 ^ 70)]) = true.
Proof. vm_compute. reflexivity. Qed.
Example ex_categories :
  map (fun p => tcompare (fst p) (snd p))
    [(Var 7, Flt 4607182418800017408); (Flt 4607182418800017408, Int 0); (Int 5, Atom [97%N]); (Atom [97%N], Cmp [97%N] [Var 0]);
     (Flt 4607182418800017408, Int 1); (Rat 1 3, Int 1); (Int 0, Rat 1 3); (Flt two63, Flt 0); (Flt (two63 + 1), Flt 0);
     (Cmp [122%N] [Int 1], Cmp [97%N] [Int 1; Int 1]); (tstring [97%N; 98%N], tlist [Atom [97%N]; Atom [98%N]])]
  = [Lt; Lt; Lt; Lt; Lt; Lt; Lt; Eq; Lt; Lt; Eq].
Proof. vm_compute. reflexivity. Qed.
