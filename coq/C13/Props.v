(* C13 -- pinned property theorems (nothing else lives here) *)
From Coq Require Import ZArith NArith QArith List Bool.
From V Require Import Base.Term C13.Model C13.Proofs.
From V Require Import C18.Model C18.Proofs C33.Proofs C20.Model C20.Proofs C13.Repr C13.ReprProofs.
Import ListNotations.

(* compare(=, T, T) for every term (variables, numbers of every representation, atoms, compounds) *)
Theorem tcompare_refl : forall t, tcompare t t = Eq.
Proof. exact Proofs.tcompare_refl. Qed.
Print Assumptions tcompare_refl.

(* antisymmetry: swapping the arguments of compare/3 swaps < and > (for ALL terms, no hypothesis) *)
Theorem tcompare_antisym : forall a b, tcompare a b = CompOpp (tcompare b a).
Proof. exact Proofs.tcompare_antisym. Qed.
Print Assumptions tcompare_antisym.

(* transitivity, for ALL terms *)
Theorem tcompare_trans : forall a b c, tcompare a b = Lt -> tcompare b c = Lt -> tcompare a c = Lt.
Proof. exact Proofs.tcompare_trans. Qed.
Print Assumptions tcompare_trans.

(* @=< is transitive and = is a congruence for the order: tcompare is a total preorder *)
Theorem tcompare_le_trans : forall a b c, tcompare a b <> Gt -> tcompare b c <> Gt -> tcompare a c <> Gt.
Proof. exact Proofs.tcompare_le_trans. Qed.
Print Assumptions tcompare_le_trans.

Theorem tcompare_eq_congruence : forall a b c, tcompare a b = Eq -> tcompare a c = tcompare b c /\ tcompare c a = tcompare c b.
Proof. intros a b c H. split; [exact (Proofs.tcompare_eq_l a b c H) | symmetry; exact (Proofs.tcompare_eq_r c a b H)]. Qed.
Print Assumptions tcompare_eq_congruence.

Theorem tcompare_total : forall a b, tcompare a b = Lt \/ tcompare a b = Eq \/ tcompare b a = Lt.
Proof. exact Proofs.tcompare_total. Qed.
Print Assumptions tcompare_total.

(* T1 == T2 (compare gives =) iff the terms are structurally identical up to -0.0 = 0.0, for well-formed terms
   (rationals in lowest terms with denominator > 1: an integer never equals a rational; one value, one term) *)
Theorem eq_iff_identical : forall a b, wf a = true -> wf b = true -> (tcompare a b = Eq <-> canon a = canon b).
Proof. intros a b Ha Hb. exact (Proofs.tcompare_eq_iff a Ha b Hb). Qed.
Print Assumptions eq_iff_identical.

Theorem eq_iff_identical_no_negzero : forall a b, wf a = true -> wf b = true ->
  no_negzero a = true -> no_negzero b = true -> (tcompare a b = Eq <-> a = b).
Proof. exact Proofs.tcompare_eq_identical. Qed.
Print Assumptions eq_iff_identical_no_negzero.

(* ==, \==, @<, @=<, @>, @>= are the six readings of the one order *)
Theorem six_operators_consistent : forall a b,
  op_ne a b = negb (op_eq a b) /\
  op_le a b = (op_lt a b || op_eq a b) /\
  op_gt a b = op_lt b a /\
  op_ge a b = op_le b a /\
  op_lt a b = negb (op_ge a b) /\
  op_eq a b = op_eq b a /\
  (op_eq a b = true <-> tcompare a b = Eq).
Proof. exact Proofs.ops_consistent. Qed.
Print Assumptions six_operators_consistent.

(* strings (lists of one-character atoms) are ordered as their code-point sequences, a proper prefix first *)
Theorem string_order_is_codepoint_lex : forall s s', tcompare (tstring s) (tstring s') = lcompare N.compare s s'.
Proof. exact Proofs.string_order. Qed.
Print Assumptions string_order_is_codepoint_lex.

(* the correspondence test accepts exactly the model's answers *)
Theorem check3_exact : forall t1 t2 t3 obs flags,
  check3 t1 t2 t3 obs flags = true <-> (obs = spec3 t1 t2 t3 /\ flags = ops t1 t2).
Proof. exact Proofs.check3_exact. Qed.
Print Assumptions check3_exact.

(* non-vacuity and the category order Var < Float < Integer/Rational < Atom < Compound *)
Example ex_wf : wf (Cmp [102%N] [Rat 1 3; Flt two63; Var 0; Atom []; Int (2 ^ 70)]) = true.
Proof. vm_compute. reflexivity. Qed.
Example ex_categories :
  map (fun p => tcompare (fst p) (snd p))
    [(Var 7, Flt 4607182418800017408); (Flt 4607182418800017408, Int 0); (Int 5, Atom [97%N]); (Atom [97%N], Cmp [97%N] [Var 0]);
     (Flt 4607182418800017408, Int 1); (Rat 1 3, Int 1); (Int 0, Rat 1 3); (Flt two63, Flt 0); (Flt (two63 + 1), Flt 0);
     (Cmp [122%N] [Int 1], Cmp [97%N] [Int 1; Int 1]); (tstring [97%N; 98%N], tlist [Atom [97%N]; Atom [98%N]])]
  = [Lt; Lt; Lt; Lt; Lt; Lt; Lt; Eq; Lt; Lt; Eq].
Proof. vm_compute. reflexivity. Qed.

(* ------------------------------------------------------------------------------------------------------------
   Representation level (Repr.v): rterm = what the heap cells of a term look like to ParallelHeapIter (Lis cons cells,
   PStrLoc segments of UTF-8 bytes with a tail cell, Str structures, atoms, numbers, variables); denote : rterm -> term;
   rcompare = the loop of compare_term_test over the arms of ParallelHeapIter::next (order_category dispatch, one arm
   per pair of {Lis, PStrLoc, Str}, compare_pstr_slices for string/string, last_str_char_and_tail for string/cons). *)

(* THE GOAL, partial: the mirror of the code computes the reference order of the denoted terms for every pair of
   well-formed representations -- strings, partial strings, cons cells and any mixture are ordered as the lists they
   denote -- PROVIDED the left operand contains no '.'/2 held as a Str cell.  What is missing is exactly the
   Str-'.'/2 against Lis arm (see rcompare_str_dot_against_lis_deviates); no construction path observed builds such a
   cell (reader, =.., functor/3, copy_term/2, assertz/1, findall/3 all build Lis). *)
Theorem rcompare_is_tcompare_partial : forall a b, rwfb a = true -> rwfb b = true -> nodotb a = true ->
  rcompare a b = tcompare (denote a) (denote b).
Proof. exact ReprProofs.rcompare_is_tcompare_partial. Qed.
Print Assumptions rcompare_is_tcompare_partial.

(* the same loop with that one arm visiting the head pair before the tail pair: EVERY pair of well-formed representations *)
Theorem rcompare_heads_first_is_tcompare : forall a b, rwfb a = true -> rwfb b = true ->
  rcompare_heads_first a b = tcompare (denote a) (denote b).
Proof. exact ReprProofs.rcompare_heads_first_is_tcompare. Qed.
Print Assumptions rcompare_heads_first_is_tcompare.

(* the arm as written (tail pair popped first) is not the standard order: '.'(a,[z]) as a Str cell against the cons
   cells of [b,a] gives > in both directions, the order says < *)
Theorem rcompare_str_dot_against_lis_deviates :
  rwfb ex_dot_str = true /\ rwfb ex_dot_lis = true /\
  rcompare ex_dot_str ex_dot_lis = Gt /\ tcompare (denote ex_dot_str) (denote ex_dot_lis) = Lt /\
  rcompare ex_dot_lis ex_dot_str = Gt.
Proof. exact ReprProofs.rcompare_str_dot_against_lis_deviates. Qed.
Print Assumptions rcompare_str_dot_against_lis_deviates.

(* all representations of one term compare equal *)
Theorem rcompare_same_denotation : forall a b, rwfb a = true -> rwfb b = true -> nodotb a = true ->
  denote a = denote b -> rcompare a b = Eq.
Proof. exact ReprProofs.rcompare_same_denotation. Qed.
Print Assumptions rcompare_same_denotation.

(* C20's mirror of compare_pstr_slices on two segments in memory (any alignment, any bytes after the zero bytes):
   Less/Greater exactly at a first differing byte; otherwise it reports which segment ended (TailIndex) and
   PStrOffset(p) leaves exactly the unconsumed rest of the other one *)
Theorem compare_pstr_slices_continuations : forall a1 a2 s1 s2 r1 r2, nul_free s1 = true -> nul_free s2 = true ->
  seg_result (cmp_slices a1 a2 (s1 ++ 0%N :: r1) (s2 ++ 0%N :: r2)) s1 s2 = Some (lcmp3 s1 s2).
Proof. exact ReprProofs.cmp_slices_cmp3. Qed.
Print Assumptions compare_pstr_slices_continuations.

(* UTF-8 byte-lexicographic three-way comparison (with remainders) = the code-point one: the bytes left over are the
   encoding of the characters left over *)
Theorem utf8_preserves_order_with_rests : forall cs1 cs2, lcmp3 (utf8 cs1) (utf8 cs2) = map3 utf8 (lcmp3 cs1 cs2).
Proof. exact ReprProofs.lcmp3_utf8. Qed.
Print Assumptions utf8_preserves_order_with_rests.

(* Ord for Atom (byte order of the UTF-8 texts) is the code-point order of the reference *)
Theorem atom_byte_order_is_codepoint_order : forall s s', atom_cmp s s' = name_compare s s'.
Proof. exact ReprProofs.atom_cmp_name. Qed.
Print Assumptions atom_byte_order_is_codepoint_order.

(* last_str_char_and_tail: peeling a character off a segment *)
Theorem peel_char : forall c cs tl, scalar c ->
  peel (utf8 (c :: cs)) tl = (c, match cs with [] => tl | _ => RPStr (utf8 cs) tl end).
Proof. exact ReprProofs.peel_utf8. Qed.
Print Assumptions peel_char.

(* the representation-level correspondence test: when it accepts, the representations denote the case's terms and
   the observed answers are the mirror's answers, which are the reference's *)
Theorem rcheck3_sound : forall t1 t2 t3 r1 r2 r3 obs, rcheck3 t1 t2 t3 r1 r2 r3 obs = true ->
  denote r1 = t1 /\ denote r2 = t2 /\ denote r3 = t3 /\ obs = rspec3 r1 r2 r3 /\ rspec3 r1 r2 r3 = spec3 t1 t2 t3.
Proof. exact ReprProofs.rcheck3_sound. Qed.
Print Assumptions rcheck3_sound.

(* non-vacuity: "aé😀" as one segment, as a segment continued by cons cells into a second segment, as cons cells,
   and as '.'/2 Str cells (right operand only); an open partial string *)
Definition ex_seg : rterm := RPStr [97; 195; 169; 240; 159; 152; 128]%N (RAtom nil_name).
Definition ex_mixed : rterm := RPStr [97]%N (RLis (RAtom [233%N]) (RPStr [240; 159; 152; 128]%N (RAtom nil_name))).
Definition ex_cells : rterm := RLis (RAtom [97%N]) (RLis (RAtom [233%N]) (RLis (RAtom [128512%N]) (RAtom nil_name))).
Definition ex_strs : rterm := RStr dot [RAtom [97%N]; RStr dot [RAtom [233%N]; RStr dot [RAtom [128512%N]; RAtom nil_name]]].
Definition ex_open : rterm := RPStr [97; 195; 169]%N (RVar 5).
Example ex_repr_wf :
  map rwfb [ex_seg; ex_mixed; ex_cells; ex_strs; ex_open] = [true; true; true; true; true] /\
  map nodotb [ex_seg; ex_mixed; ex_cells; ex_strs; ex_open] = [true; true; true; false; true] /\
  map denote [ex_seg; ex_mixed; ex_cells; ex_strs] = repeat (tstring [97; 233; 128512]%N) 4.
Proof. vm_compute. repeat split; reflexivity. Qed.
Example ex_repr_compare :
  [rcompare ex_seg ex_mixed; rcompare ex_mixed ex_seg; rcompare ex_seg ex_cells; rcompare ex_cells ex_mixed; rcompare ex_seg ex_strs;
   rcompare ex_mixed ex_strs; rcompare ex_cells ex_strs; rcompare ex_open ex_seg; rcompare ex_seg ex_open;
   rcompare (RPStr [97; 98]%N (RAtom nil_name)) (RPStr [97; 98; 99]%N (RAtom nil_name));
   rcompare (RPStr [97; 195; 170]%N (RAtom nil_name)) ex_seg]
  = [Eq; Eq; Eq; Eq; Eq; Eq; Eq; Lt; Gt; Lt; Gt].
Proof. vm_compute. reflexivity. Qed.
