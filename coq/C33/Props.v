(* C33 -- pinned property theorems (nothing else lives here) *)
From Coq Require Import List NArith Bool Lia.
From V Require Import C33.Model C33.Proofs.
Import ListNotations.
Open Scope N_scope.

(* For every sequence of heap operations, every fill level and every behaviour of the allocator (the k-th growth
   request succeeds or fails as the oracle says): every byte range written lies inside the reserved capacity, and
   the accounting invariant (len <= cap, both multiples of the cell size) is maintained. *)
Theorem writes_within_capacity : forall ok ops h hf ext e,
  inv h -> run ok h ops = Some (hf, ext, e) ->
  inv hf /\ Forall (fun x => fst x <= snd x /\ snd x <= bcap hf) ext.
Proof. exact run_safe. Qed.
Print Assumptions writes_within_capacity.

(* one operation: what it writes fits the capacity it has made sure of *)
Theorem step_writes_within_capacity : forall ok h o r, inv h -> step ok h o = Some r ->
  match r with
  | HOk h' lo hi => inv h' /\ lo <= hi /\ hi <= bcap h'
  | HErr h' => inv h' /\ blen h' = blen h
  end.
Proof. exact step_safe. Qed.
Print Assumptions step_writes_within_capacity.

(* an operation that reports AllocError has written nothing and has not moved the length (used by C30) *)
Theorem alloc_failure_atomic : forall ok h o h', inv h -> step ok h o = Some (HErr h') -> blen h' = blen h /\ inv h'.
Proof. exact alloc_failure_atomic_proof. Qed.
Print Assumptions alloc_failure_atomic.

(* the growth loop's fuel in the model is sufficient for every request that fits a 64-bit address space *)
Theorem never_out_of_fuel : forall ok h o, inv h -> need_of o + blen h < 2 ^ 64 ->
  (forall n, o = Truncate n -> 8 * n <= blen h) -> step ok h o <> None.
Proof. exact step_never_out_of_fuel. Qed.
Print Assumptions never_out_of_fuel.

(* the cells a string occupies never exceed what compute_pstr_size returns *)
Theorem pstr_cells_within_size : forall s, cells_written s <= compute_pstr_size s.
Proof. exact cells_written_le_size. Qed.
Print Assumptions pstr_cells_within_size.

(* for strings without NUL characters compute_pstr_size is exact: the string cells plus the tail cell *)
Theorem pstr_size_exact_nul_free : forall s, nul_free s = true -> s <> [] ->
  compute_pstr_size s = 8 * cells_written s + 8.
Proof.
  intros s H Hs. unfold compute_pstr_size, cells_written.
  destruct (nul_free_exact s 0 false H) as [A B]. rewrite A, B.
  destruct s; [congruence|]. cbn [length]. destruct (N.eqb_spec (0 + N.of_nat (S (length s))) 0); [exfalso; lia|]. lia.
Qed.
Print Assumptions pstr_size_exact_nul_free.

(* with embedded NULs the byte size returned is NOT an upper bound of the bytes written: only the (8-fold)
   over-reservation of reserve(size_in_bytes) keeps allocate_pstr inside the reserved region *)
Theorem pstr_size_in_bytes_insufficient : exists s, compute_pstr_size s < 8 * cells_written s.
Proof. exists [97; 98; 0; 99; 100; 0; 101; 102; 0]. vm_compute. reflexivity. Qed.
Print Assumptions pstr_size_in_bytes_insufficient.

(* non-vacuity: the fill level at which the unrepaired copy_pstr_within wrote past the capacity *)
Example ex_copy_at_exact_fit :
  match run (fun _ => true) {| blen := 0; bcap := 32; grows := 0 |}
            (AllocPstr [97;98;99;100;101;102;103] :: repeat PushCell 29 ++ [CopyPstrWithin 7]) with
  | Some (hf, ext, false) => (blen hf =? 264) && (bcap hf =? 512) && (snd (last ext (0, 0)) =? 264)
  | _ => false
  end = true.
Proof. vm_compute. reflexivity. Qed.
Example ex_alloc_failure :
  run (fun _ => false) {| blen := 0; bcap := 8; grows := 0 |} [PushCell; PushCell]
  = Some ({| blen := 8; bcap := 8; grows := 1 |}, [(0, 8)], true).
Proof. vm_compute. reflexivity. Qed.
