(* C33 -- proofs: no operation writes past the reserved capacity, at any fill level, for any allocator behaviour *)
From Coq Require Import List NArith Bool Arith Lia ZArith.
From V Require Import C33.Model.
Import ListNotations.
Open Scope N_scope.
Ltac Zify.zify_post_hook ::= Z.to_euclidean_division_equations.
Local Arguments N.mul : simpl never.
Local Arguments N.add : simpl never.
Local Arguments N.sub : simpl never.
Local Arguments N.pow : simpl never.

Lemma sentinel_range l : 1 <= sentinel l <= 8 /\ (l + sentinel l) mod 8 = 0.
Proof. unfold sentinel. destruct (N.eqb_spec (l mod 8) 0); lia. Qed.

Lemma seg_cells_bytes l : 8 * seg_cells l = l + sentinel l + (if sentinel l =? 1 then 8 else 0).
Proof.
  unfold seg_cells. pose proof (sentinel_range l) as [Hr Hm].
  destruct (N.eqb_spec (sentinel l) 1); lia.
Qed.

Lemma seg_cells_pos l : 1 <= seg_cells l.
Proof. pose proof (seg_cells_bytes l). pose proof (sentinel_range l). destruct (sentinel l =? 1); lia. Qed.

(* the cells push_pstr writes never exceed the number compute_pstr_size returns (which reserve() then
   multiplies by the cell size once more) *)
Lemma pstr_cells_le_size s : forall cur st, pstr_cells s cur st <= size_aux s cur.
Proof.
  induction s as [|b r IH]; intros cur st; cbn [pstr_cells size_aux].
  - destruct (N.eqb_spec cur 0); [lia|]. pose proof (seg_cells_pos cur). destruct st; lia.
  - destruct (N.eqb_spec b 0).
    + specialize (IH 0 true). destruct (N.eqb_spec cur 0).
      * destruct st; lia.
      * pose proof (seg_cells_pos cur). destruct st; lia.
    + apply IH.
Qed.

Lemma cells_written_le_size s : cells_written s <= compute_pstr_size s.
Proof. unfold cells_written, compute_pstr_size. pose proof (pstr_cells_le_size s 0 false). lia. Qed.

(* NUL-free strings: compute_pstr_size is exact (the string cells plus the tail cell) *)
Fixpoint nul_free (s : list N) : bool := match s with [] => true | b :: r => negb (b =? 0) && nul_free r end.

Lemma nul_free_exact s : forall cur st, nul_free s = true ->
  pstr_cells s cur st = (if cur + N.of_nat (length s) =? 0 then 0 else (if st then 1 else 0) + seg_cells (cur + N.of_nat (length s)))
  /\ size_aux s cur = (if cur + N.of_nat (length s) =? 0 then 0 else 8 * seg_cells (cur + N.of_nat (length s))).
Proof.
  induction s as [|b r IH]; intros cur st H; cbn [pstr_cells size_aux length nul_free] in *.
  - replace (cur + N.of_nat 0) with cur by lia. auto.
  - apply andb_true_iff in H. destruct H as [Hb Hr]. apply negb_true_iff in Hb. rewrite Hb.
    replace (cur + N.of_nat (S (length r))) with (cur + 1 + N.of_nat (length r)) by lia. apply IH; auto.
Qed.

(* ---------- growth loop *)
Lemma ensure_ok ok f need : forall h h', ensure ok f need h = inl (Some h') ->
  blen h' = blen h /\ need <= bcap h' - blen h' /\ bcap h <= bcap h' /\ (bcap h mod 8 = 0 -> bcap h' mod 8 = 0).
Proof.
  induction f as [|f IH]; intros h h'; cbn [ensure].
  - destruct (N.leb_spec need (bcap h - blen h)); [|discriminate]. intros E; inversion E; subst. repeat split; auto; lia.
  - destruct (N.leb_spec need (bcap h - blen h)).
    + intros E; inversion E; subst. repeat split; auto; lia.
    + unfold grow. destruct (ok (grows h)); [|discriminate]. intros E. apply IH in E. cbn [blen bcap] in E.
      destruct E as (E1 & E2 & E3 & E4). repeat split; auto.
      * destruct (N.eqb_spec (bcap h) 0); lia.
      * intros Hm. apply E4. destruct (N.eqb_spec (bcap h) 0); [reflexivity|]. lia.
Qed.

Lemma ensure_err ok f need : forall h h', ensure ok f need h = inr h' ->
  blen h' = blen h /\ bcap h <= bcap h' /\ (bcap h mod 8 = 0 -> bcap h' mod 8 = 0).
Proof.
  induction f as [|f IH]; intros h h'; cbn [ensure].
  - destruct (need <=? bcap h - blen h); discriminate.
  - destruct (need <=? bcap h - blen h); [discriminate|].
    unfold grow. destruct (ok (grows h)).
    + intros E. apply IH in E. cbn [blen bcap] in E. destruct E as (E1 & E2 & E3). repeat split; auto.
      * destruct (N.eqb_spec (bcap h) 0); lia.
      * intros Hm. apply E3. destruct (N.eqb_spec (bcap h) 0); [reflexivity|]. lia.
    + intros E; inversion E; subst; cbn [blen bcap]. repeat split; auto; lia.
Qed.

(* the fuel of the growth loop is sufficient for every request that fits the address space *)
Definition enough (f : nat) (need : N) (h : heap) : Prop :=
  need <= bcap h - blen h \/
  exists f', f = S f' /\ need + blen h <= 2 ^ N.of_nat f' * (if bcap h =? 0 then 524288 else 2 * bcap h).

Lemma ensure_fuel ok f need : forall h, blen h <= bcap h -> enough f need h -> ensure ok f need h <> inl None.
Proof.
  induction f as [|f IH]; intros h Hle He; cbn [ensure].
  - destruct He as [He|(f' & Hf & _)]; [|discriminate].
    apply N.leb_le in He. rewrite He. discriminate.
  - destruct (N.leb_spec need (bcap h - blen h)); [discriminate|].
    destruct He as [He|(f' & Hf & He)]; [lia|]. inversion Hf; subst f'.
    unfold grow. destruct (ok (grows h)); [|discriminate].
    apply IH; cbn [blen bcap].
    + destruct (N.eqb_spec (bcap h) 0); lia.
    + unfold enough; cbn [blen bcap].
      set (c' := if bcap h =? 0 then 524288 else 2 * bcap h) in *.
      assert (Hc : c' <> 0) by (subst c'; destruct (N.eqb_spec (bcap h) 0); lia).
      destruct f as [|f''].
      * left. change (N.of_nat 0) with 0 in He. rewrite N.pow_0_r in He. lia.
      * right. exists f''. split; auto.
        destruct (N.eqb_spec c' 0); [contradiction|].
        replace (N.of_nat (S f'')) with (N.succ (N.of_nat f'')) in He by lia.
        rewrite N.pow_succ_r' in He. lia.
Qed.

Lemma enough_200 need h : need + blen h < 2 ^ 64 -> enough 200 need h.
Proof.
  intros H. right. exists 199%nat. split; auto.
  assert (E : 2 ^ 64 <= 2 ^ N.of_nat 199) by (apply N.pow_le_mono_r; lia).
  destruct (N.eqb_spec (bcap h) 0); [lia|].
  assert (2 ^ N.of_nat 199 * 1 <= 2 ^ N.of_nat 199 * (2 * bcap h)) by (apply N.mul_le_mono_l; lia). lia.
Qed.

(* ---------- one step *)
Definition need_of (o : hop) : N :=
  match o with
  | PushCell => 8 | Reserve n => 8 * n | AllocPstr s => 8 * compute_pstr_size s
  | AllocCstr s => 8 * (compute_pstr_size s + 1)
  | CopyPstrWithin l => l + sentinel l + (if sentinel l =? 1 then 8 else 0)
  | CopySliceToEnd n => 8 * n | Append n => 8 * n | Truncate _ => 0
  end.

Lemma with_space_ok ok need written h r : inv h -> written <= need -> written mod 8 = 0 ->
  with_space ok need written h = Some r ->
  match r with
  | HOk h' lo hi => inv h' /\ lo = blen h /\ hi = blen h + written /\ hi <= bcap h' /\ blen h' = hi
  | HErr h' => inv h' /\ blen h' = blen h
  end.
Proof.
  intros (Hle & Hl & Hc) Hw Hm. unfold with_space.
  destruct (ensure ok 200 need h) as [[h'|]|h'] eqn:E; [| discriminate |].
  - apply ensure_ok in E. destruct E as (E1 & E2 & E3 & E4). intros R; inversion R; subst; clear R.
    unfold inv; cbn [blen bcap]. rewrite E1. repeat split; auto; try lia.
  - apply ensure_err in E. destruct E as (E1 & E2 & E3). intros R; inversion R; subst; clear R.
    unfold inv. rewrite E1. repeat split; auto; lia.
Qed.

Lemma step_safe ok h o r : inv h -> step ok h o = Some r ->
  match r with
  | HOk h' lo hi => inv h' /\ lo <= hi /\ hi <= bcap h'
  | HErr h' => inv h' /\ blen h' = blen h
  end.
Proof.
  intros HI. pose proof HI as (Hle & Hl & Hc). destruct o; cbn [step].
  - (* push_cell *)
    destruct (N.eqb_spec (blen h) (bcap h)) as [E|E].
    + unfold grow. destruct (ok (grows h)); intros [= <-]; unfold inv; cbn [blen bcap].
      * destruct (N.eqb_spec (bcap h) 0); repeat split; try lia.
      * repeat split; auto.
    + intros [= <-]; unfold inv; cbn [blen bcap]. repeat split; lia.
  - intros R. apply (with_space_ok ok _ _ h r HI) in R; [|lia|reflexivity].
    destruct r; [destruct R as (A & B & C & D & _); subst; split; [exact A | split; lia] | auto].
  - intros R. apply (with_space_ok ok _ _ h r HI) in R.
    + destruct r; [destruct R as (A & B & C & D & _); subst; split; [exact A | split; lia] | auto].
    + pose proof (cells_written_le_size s). lia.
    + lia.
  - intros R. apply (with_space_ok ok _ _ h r HI) in R.
    + destruct r; [destruct R as (A & B & C & D & _); subst; split; [exact A | split; lia] | auto].
    + pose proof (cells_written_le_size s). destruct (cells_written s =? 0); lia.
    + lia.
  - intros R. apply (with_space_ok ok _ _ h r HI) in R.
    + destruct r; [destruct R as (A & B & C & D & _); subst; split; [exact A | split; lia] | auto].
    + lia.
    + pose proof (sentinel_range s_len). destruct (sentinel s_len =? 1); lia.
  - intros R. apply (with_space_ok ok _ _ h r HI) in R; [|lia|lia].
    destruct r; [destruct R as (A & B & C & D & _); subst; split; [exact A | split; lia] | auto].
  - intros R. apply (with_space_ok ok _ _ h r HI) in R; [|lia|lia].
    destruct r; [destruct R as (A & B & C & D & _); subst; split; [exact A | split; lia] | auto].
  - destruct (N.leb_spec (8 * cells) (blen h)); [|discriminate].
    intros R; inversion R; subst; clear R; unfold inv; cbn [blen bcap]. repeat split; lia.
Qed.

(* capacity never shrinks *)
Lemma with_space_cap ok need written h r : with_space ok need written h = Some r ->
  bcap h <= bcap (match r with HOk h' _ _ => h' | HErr h' => h' end).
Proof.
  unfold with_space. destruct (ensure ok 200 need h) as [[hh|]|hh] eqn:E; intros [= <-].
  - apply ensure_ok in E. cbn [bcap]. lia.
  - apply ensure_err in E. lia.
Qed.

Lemma step_cap ok h o r : step ok h o = Some r ->
  bcap h <= bcap (match r with HOk h' _ _ => h' | HErr h' => h' end).
Proof.
  destruct o; cbn [step]; try apply with_space_cap.
  - destruct (blen h =? bcap h).
    + unfold grow. destruct (ok (grows h)); intros [= <-]; cbn [bcap]; [destruct (N.eqb_spec (bcap h) 0)|]; lia.
    + intros [= <-]; cbn [bcap]; lia.
  - destruct (8 * cells <=? blen h); [|discriminate]. intros [= <-]; cbn [bcap]; lia.
Qed.

Lemma run_cap ok ops : forall h hf ext e, run ok h ops = Some (hf, ext, e) -> bcap h <= bcap hf.
Proof.
  induction ops as [|o r IH]; intros h hf ext e; cbn [run].
  - intros [= <- _ _]. lia.
  - destruct (step ok h o) as [[h' lo hi|h']|] eqn:Es; [| |discriminate].
    + apply step_cap in Es. destruct (run ok h' r) as [[[hf' ext'] e']|] eqn:Er; [|discriminate].
      intros [= <- _ _]. apply IH in Er. lia.
    + apply step_cap in Es. intros [= <- _ _]. exact Es.
Qed.

(* ---------- any sequence of operations, any allocator *)
Theorem run_safe ok ops : forall h hf ext e, inv h -> run ok h ops = Some (hf, ext, e) ->
  inv hf /\ Forall (fun x => fst x <= snd x /\ snd x <= bcap hf) ext.
Proof.
  induction ops as [|o r IH]; intros h hf ext e HI; cbn [run].
  - intros [= <- <- _]. split; auto.
  - destruct (step ok h o) as [[h' lo hi|h']|] eqn:Es; [| |discriminate].
    + apply (step_safe ok h o _ HI) in Es. destruct Es as (HI' & Hlo & Hhi).
      destruct (run ok h' r) as [[[hf' ext'] e']|] eqn:Er; [|discriminate].
      intros [= <- <- _].
      destruct (IH _ _ _ _ HI' Er) as [HIf Hall]. split; auto. constructor; auto. cbn [fst snd].
      apply run_cap in Er. split; [auto | lia].
    + apply (step_safe ok h o _ HI) in Es. destruct Es as (HI' & _).
      intros [= <- <- _]. split; auto.
Qed.

(* a failed allocation changes neither the length nor the contents: nothing was written *)
Theorem alloc_failure_atomic_proof ok h o h' : inv h -> step ok h o = Some (HErr h') -> blen h' = blen h /\ inv h'.
Proof. intros HI Es. apply (step_safe ok h o _ HI) in Es. destruct Es; auto. Qed.

Theorem step_never_out_of_fuel ok h o : inv h -> need_of o + blen h < 2 ^ 64 ->
  (forall n, o = Truncate n -> 8 * n <= blen h) -> step ok h o <> None.
Proof.
  intros (Hle & _) Hn Ht. destruct o; cbn [step need_of] in *;
    try (unfold with_space; match goal with |- context [ensure ok 200 ?need h] =>
           pose proof (ensure_fuel ok 200 need h Hle) as Hf; destruct (ensure ok 200 need h) as [[?|]|?] end;
         [discriminate | exfalso; apply Hf; [apply enough_200; lia | reflexivity] | discriminate]).
  - destruct (blen h =? bcap h); [unfold grow; destruct (ok (grows h))|]; discriminate.
  - specialize (Ht cells eq_refl). apply N.leb_le in Ht. rewrite Ht. discriminate.
Qed.
