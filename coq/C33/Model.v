(* C33 -- impl-mirror model of the capacity accounting of src/machine/heap.rs: (byte_len, byte_cap), every growing
   operation with its space check, its growth loop and the extent of the bytes it writes.  The allocator is an
   oracle: the k-th growth request succeeds or not.  No proofs in this file. *)
From Coq Require Import List NArith Bool Arith.
Import ListNotations.
Open Scope N_scope.

Record heap := { blen : N; bcap : N; grows : nat (* growth requests made so far *) }.

(* pstr_sentinel_length *)
Definition sentinel (l : N) : N := let r := l mod 8 in if r =? 0 then 8 else 8 - r.

(* cells written by push_pstr_segment for a non-empty NUL-free segment of l bytes
   (= tail_idx of scan_slice_to_str_from_start) *)
Definition seg_cells (l : N) : N :=
  let s := sentinel l in (l + s) / 8 + (if s =? 1 then 1 else 0).

(* ReservedHeapSection::push_pstr: cells written for a byte string that may contain NULs.
   cur = length of the NUL-free segment being scanned, started = something has been emitted before it *)
Fixpoint pstr_cells (s : list N) (cur : N) (started : bool) : N :=
  match s with
  | [] => if cur =? 0 then 0 else (if started then 1 else 0) + seg_cells cur
  | b :: r =>
    if b =? 0 then
      (if cur =? 0 then (if started then 1 else 0) + 1
       else (if started then 1 else 0) + seg_cells cur + 2) + pstr_cells r 0 true
    else pstr_cells r (cur + 1) started
  end.
Definition cells_written (s : list N) : N := pstr_cells s 0 false.

(* Heap::compute_pstr_size, in BYTES *)
Fixpoint size_aux (s : list N) (cur : N) : N :=
  match s with
  | [] => if cur =? 0 then 0 else 8 * seg_cells cur
  | b :: r => if b =? 0 then (if cur =? 0 then 0 else 8 * seg_cells cur) + 16 + size_aux r 0
              else size_aux r (cur + 1)
  end.
Definition compute_pstr_size (s : list N) : N := size_aux s 0 + 8.

(* ---------- operations *)
Inductive hop :=
| PushCell
| Reserve (cells : N)
| AllocPstr (s : list N)
| AllocCstr (s : list N)
| CopyPstrWithin (s_len : N)          (* the scanned length of the string segment at the given location *)
| CopySliceToEnd (cells : N)
| Append (cells : N)
| Truncate (cells : N).

Inductive hres := HOk (h : heap) (lo hi : N)     (* new heap, bytes [lo, hi) were written *)
                | HErr (h : heap).              (* AllocError *)

(* InnerHeap::grow with the allocator as an oracle *)
Definition grow (ok : nat -> bool) (h : heap) : option heap :=
  if ok (grows h) then
    Some {| blen := blen h; bcap := (if bcap h =? 0 then 524288 else 2 * bcap h); grows := S (grows h) |}
  else None.

(* `loop { if free_space() >= need { ... } else if !grow() { return Err } }`; fuel bounds the doublings *)
Fixpoint ensure (ok : nat -> bool) (fuel : nat) (need : N) (h : heap) : option heap + heap :=
  if need <=? bcap h - blen h then inl (Some h)
  else match fuel with
       | O => inl None
       | S f => match grow ok h with
                | Some h' => ensure ok f need h'
                | None => inr {| blen := blen h; bcap := bcap h; grows := S (grows h) |}
                end
       end.

Definition with_space (ok : nat -> bool) (need written : N) (h : heap) : option hres :=
  match ensure ok 200 need h with
  | inl None => None                              (* out of fuel: excluded by theorem for need < 2^190 *)
  | inl (Some h') => Some (HOk {| blen := blen h' + written; bcap := bcap h'; grows := grows h' |} (blen h') (blen h' + written))
  | inr h' => Some (HErr h')
  end.

Definition step (ok : nat -> bool) (h : heap) (o : hop) : option hres :=
  match o with
  | PushCell =>
      (* `if byte_len == byte_cap && !grow() { Err }` then write one cell *)
      if blen h =? bcap h then
        match grow ok h with
        | Some h' => Some (HOk {| blen := blen h' + 8; bcap := bcap h'; grows := grows h' |} (blen h') (blen h' + 8))
        | None => Some (HErr {| blen := blen h; bcap := bcap h; grows := S (grows h) |})
        end
      else Some (HOk {| blen := blen h + 8; bcap := bcap h; grows := grows h |} (blen h) (blen h + 8))
  | Reserve n => with_space ok (8 * n) 0 h
  | AllocPstr s => with_space ok (8 * compute_pstr_size s) (8 * cells_written s) h      (* reserve(size_in_bytes) *)
  | AllocCstr s => with_space ok (8 * (compute_pstr_size s + 1))
                     (8 * (cells_written s + (if cells_written s =? 0 then 0 else 1))) h
  | CopyPstrWithin l =>
      let a := sentinel l in
      let w := l + a + (if a =? 1 then 8 else 0) in
      with_space ok w w h
  | CopySliceToEnd n => with_space ok (8 * n) (8 * n) h
  | Append n => with_space ok (8 * n) (8 * n) h
  | Truncate n => if 8 * n <=? blen h then Some (HOk {| blen := 8 * n; bcap := bcap h; grows := grows h |} 0 0) else None
  end.

(* run a sequence; collect the extents written; stop at the first AllocError *)
Fixpoint run (ok : nat -> bool) (h : heap) (ops : list hop) : option (heap * list (N * N) * bool (* ended in error *)) :=
  match ops with
  | [] => Some (h, [], false)
  | o :: r =>
    match step ok h o with
    | None => None
    | Some (HErr h') => Some (h', [], true)
    | Some (HOk h' lo hi) =>
        match run ok h' r with
        | None => None
        | Some (hf, ext, e) => Some (hf, (lo, hi) :: ext, e)
        end
    end
  end.

Definition inv (h : heap) : Prop := blen h <= bcap h /\ blen h mod 8 = 0 /\ bcap h mod 8 = 0.

(* ---------- correspondence: the (byte_len, byte_cap) the implementation reports after each operation *)
Fixpoint trace (ok : nat -> bool) (h : heap) (ops : list hop) : list (N * N * bool) :=
  match ops with
  | [] => []
  | o :: r =>
    match step ok h o with
    | None => []
    | Some (HErr h') => [(blen h', bcap h', false)]
    | Some (HOk h' _ _) => (blen h', bcap h', true) :: trace ok h' r
    end
  end.
Fixpoint obs_eqb (a b : list (N * N * bool)) : bool :=
  match a, b with
  | [], [] => true
  | (l1, c1, f1) :: a', (l2, c2, f2) :: b' => (l1 =? l2) && (c1 =? c2) && Bool.eqb f1 f2 && obs_eqb a' b'
  | _, _ => false
  end.
Definition check_trace (cap_cells : N) (ops : list hop) (observed : list (N * N * bool)) : bool :=
  obs_eqb (trace (fun _ => true) {| blen := 0; bcap := 8 * cap_cells; grows := 0 |} ops) observed.
