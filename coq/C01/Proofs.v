(* C01 -- proofs: the impl-mirror equals the exact specification. *)
From Coq Require Import ZArith List Bool Lia Znumtheory.
From V Require Import Gen.Fixnum C01.Model.
Open Scope Z_scope.

Ltac Zify.zify_post_hook ::= Z.div_mod_to_equations.

(* facts about the regenerated Fixnum bounds (re-proved against the source on every run) *)
Lemma fix_bounds_in_i64 : i64_min <= fix_min /\ fix_max <= i64_max.
Proof. vm_compute. split; discriminate. Qed.
Lemma fix_bounds_symmetric : fix_min = - fix_max - 1.
Proof. vm_compute. reflexivity. Qed.
Lemma fix_bounds_contain_units : fix_min <= -1 /\ 1 <= fix_max.
Proof. vm_compute. split; discriminate. Qed.
Lemma fix_min_val : fix_min = -36028797018963968. Proof. reflexivity. Qed.
Lemma fix_max_val : fix_max = 36028797018963967. Proof. reflexivity. Qed.

Lemma in_fix_iff z : in_fix z = true <-> fix_min <= z <= fix_max.
Proof. unfold in_fix. rewrite andb_true_iff, !Z.leb_le. tauto. Qed.
Lemma in_fix_false z : in_fix z = false <-> ~ (fix_min <= z <= fix_max).
Proof. rewrite <- in_fix_iff. destruct (in_fix z); intuition congruence. Qed.
Lemma in_i64_iff z : in_i64 z = true <-> i64_min <= z <= i64_max.
Proof. unfold in_i64. rewrite andb_true_iff, !Z.leb_le. tauto. Qed.

Lemma ival_norm z : ival (norm z) = z.
Proof. unfold norm. destruct (in_fix z); reflexivity. Qed.
Lemma wf_norm z : wf (norm z).
Proof. unfold norm. destruct (in_fix z) eqn:E; simpl; auto. Qed.

Lemma checked_some z r : checked z = Some r -> r = z.
Proof. unfold checked. destruct (in_i64 z); congruence. Qed.

#[global] Hint Resolve wf_norm : c01.

Definition good (n : num) (z : Z) : Prop := wf n /\ ival n = z.

Lemma good_norm z : good (norm z) z.
Proof. split; [apply wf_norm | apply ival_norm]. Qed.
Lemma good_big z z' : z = z' -> good (Big z) z'.
Proof. intros ->. split; simpl; auto. Qed.

Ltac smp := cbn [ival wf add neg abs sub mul sign max_ min_ good] in *.

Ltac chk := match goal with
  | |- context [match checked ?z with _ => _ end] =>
      let E := fresh "E" in destruct (checked z) eqn:E; [apply checked_some in E; subst|]
  end.

Lemma add_exact a b : wf a -> wf b -> good (add a b) (ival a + ival b).
Proof. destruct a, b; smp; intros; try chk; try apply good_norm; apply good_big; lia. Qed.

Lemma neg_exact a : wf a -> good (neg a) (- ival a).
Proof. destruct a; smp; intros; try chk; try apply good_norm; apply good_big; lia. Qed.

Lemma sub_exact a b : wf a -> wf b -> good (sub a b) (ival a - ival b).
Proof.
  intros Ha Hb. unfold sub. destruct (neg_exact b Hb) as [W E].
  destruct (add_exact a (neg b) Ha W) as [W' E']. split; auto. rewrite E', E. lia.
Qed.

Lemma mul_exact a b : wf a -> wf b -> good (mul a b) (ival a * ival b).
Proof. destruct a, b; smp; intros; try chk; try apply good_norm; apply good_big; lia. Qed.

Lemma abs_exact a : wf a -> good (abs a) (Z.abs (ival a)).
Proof.
  destruct a; smp; intros H; [|apply good_big; reflexivity].
  destruct (in_fix (Z.abs z)) eqn:E.
  - split; smp; auto.
  - apply good_big. apply in_fix_iff in H. apply in_fix_false in E.
    pose proof fix_bounds_symmetric. pose proof fix_bounds_contain_units. lia.
Qed.

Lemma sign_exact a : wf a -> good (sign a) (Z.sgn (ival a)).
Proof.
  intros _. unfold sign. pose proof fix_bounds_contain_units as [? ?].
  destruct (0 <? ival a) eqn:E1; [|destruct (ival a <? 0) eqn:E2];
    (split; [smp; apply in_fix_iff; lia | smp; lia]).
Qed.

Lemma max_exact a b : wf a -> wf b -> good (max_ a b) (Z.max (ival a) (ival b)).
Proof.
  destruct a as [x|x], b as [y|y]; smp; intros Ha Hb;
    repeat match goal with |- context [if ?c then _ else _] => destruct c eqn:? end;
    split; smp; auto; lia.
Qed.

Lemma min_exact a b : wf a -> wf b -> good (min_ a b) (Z.min (ival a) (ival b)).
Proof.
  destruct a as [x|x], b as [y|y]; smp; intros Ha Hb;
    repeat match goal with |- context [if ?c then _ else _] => destruct c eqn:? end;
    split; smp; auto; lia.
Qed.

(* ---------- division family *)
Lemma eqb0 y : (y =? 0) = false -> y <> 0. Proof. apply Z.eqb_neq. Qed.

Definition good_res (r : res num) (s : res Z) : Prop :=
  match r, s with
  | Ok n, Ok z => good n z
  | Err e, Err e' => e = e'
  | _, _ => False
  end.

Lemma idiv_exact a b : wf a -> wf b ->
  good_res (idiv a b) (if ival b =? 0 then Err ZeroDiv else Ok (Z.quot (ival a) (ival b))).
Proof.
  destruct a as [x|x], b as [y|y]; cbn [idiv ival]; intros Ha Hb;
    destruct (y =? 0) eqn:E; cbn [good_res]; auto; try chk;
    try apply good_norm; apply good_big; reflexivity.
Qed.

Lemma rem_exact a b : wf a -> wf b ->
  good_res (remainder a b) (if ival b =? 0 then Err ZeroDiv else Ok (Z.rem (ival a) (ival b))).
Proof.
  destruct a as [x|x], b as [y|y]; cbn [remainder ival]; intros Ha Hb;
    destruct (y =? 0) eqn:E; cbn [good_res]; auto;
    try apply good_norm; apply good_big; reflexivity.
Qed.

Lemma ibig_rem_floor_exact x y : y <> 0 -> ibig_rem_floor x y = x mod y.
Proof.
  intros Hy. unfold ibig_rem_floor.
  pose proof (Z.quot_rem x y Hy) as Hq.
  pose proof (Z.rem_bound_abs x y Hy) as Hb.
  set (r := Z.rem x y) in *. set (q := Z.quot x y) in *.
  destruct (r =? 0) eqn:Er; cbn [negb andb].
  - apply Z.eqb_eq in Er. apply Z.mod_unique with q; lia.
  - apply Z.eqb_neq in Er.
    destruct (r <? 0) eqn:Ea; destruct (y <? 0) eqn:Eb; cbn [Bool.eqb negb andb];
      try apply Z.ltb_lt in Ea; try apply Z.ltb_ge in Ea; try apply Z.ltb_lt in Eb; try apply Z.ltb_ge in Eb.
    + apply Z.mod_unique with q; lia.
    + apply Z.mod_unique with (q - 1); lia.
    + apply Z.mod_unique with (q - 1); lia.
    + apply Z.mod_unique with q; lia.
Qed.

Lemma mod_exact a b : wf a -> wf b ->
  good_res (modulus a b) (if ival b =? 0 then Err ZeroDiv else Ok ((ival a) mod (ival b))).
Proof.
  destruct a as [x|x], b as [y|y]; cbn [modulus ival]; intros Ha Hb;
    destruct (y =? 0) eqn:E; cbn [good_res]; auto;
    try apply good_norm; apply good_big; apply ibig_rem_floor_exact; apply eqb0; auto.
Qed.

Lemma floor_div_identity a b : b <> 0 -> Z.quot (a - a mod b) b = a / b.
Proof.
  intros Hb. replace (a - a mod b) with ((a / b) * b).
  - apply Z.quot_mul; auto.
  - pose proof (Z.div_mod a b Hb). lia.
Qed.

Lemma div_exact a b : wf a -> wf b ->
  good_res (int_floor_div a b) (if ival b =? 0 then Err ZeroDiv else Ok ((ival a) / (ival b))).
Proof.
  intros Ha Hb. unfold int_floor_div.
  pose proof (mod_exact a b Ha Hb) as Hm.
  destruct (ival b =? 0) eqn:E.
  - destruct (modulus a b); cbn [good_res bind] in *; auto. contradiction.
  - destruct (modulus a b) as [m|]; cbn [good_res bind] in *; [|contradiction].
    destruct Hm as [Wm Em].
    pose proof (sub_exact a m Ha Wm) as [Ws Es].
    pose proof (idiv_exact (sub a m) b Ws Hb) as Hd. rewrite E in Hd.
    destruct (idiv (sub a m) b); cbn [good_res] in *; auto.
    destruct Hd as [W1 E1]. split; auto. rewrite E1, Es, Em.
    apply floor_div_identity. apply eqb0; auto.
Qed.

(* ---------- bitwise *)
Lemma bitop_exact f a b : wf a -> wf b -> good (bitop f a b) (f (ival a) (ival b)).
Proof. destruct a, b; cbn [bitop ival]; intros; try apply good_norm; apply good_big; reflexivity. Qed.

Lemma bnot_exact a : wf a -> good (bnot a) (Z.lnot (ival a)).
Proof.
  destruct a as [x|x]; cbn [bnot ival wf]; intros H; [|apply good_big; reflexivity].
  split; cbn [wf ival]; auto. apply in_fix_iff in H. apply in_fix_iff.
  pose proof fix_bounds_symmetric. unfold Z.lnot. lia.
Qed.

(* ---------- power *)
Lemma binary_pow_loop_spec p : forall n o, binary_pow_loop n o p = o * n ^ (Zpos p).
Proof.
  induction p as [p IH|p IH|]; intros n o; cbn [binary_pow_loop].
  - rewrite IH. replace (Zpos p~1) with (2 * Zpos p + 1) by lia.
    rewrite Z.pow_add_r, Z.pow_mul_r, Z.pow_1_r by lia. replace (n ^ 2) with (n * n) by (rewrite Z.pow_2_r; reflexivity). ring.
  - rewrite IH. replace (Zpos p~0) with (2 * Zpos p) by lia.
    rewrite Z.pow_mul_r by lia. replace (n ^ 2) with (n * n) by (rewrite Z.pow_2_r; reflexivity). ring.
  - rewrite Z.pow_1_r. ring.
Qed.

Lemma binary_pow_spec n p : binary_pow n p = n ^ (Z.abs p).
Proof.
  unfold binary_pow. destruct (Z.abs p) eqn:E.
  - reflexivity.
  - rewrite binary_pow_loop_spec. ring.
  - pose proof (Z.abs_nonneg p). lia.
Qed.

Lemma pow_m1 k : 0 <= k -> (-1) ^ k = if Z.even k then 1 else -1.
Proof.
  intros Hk. destruct (Z.even k) eqn:E.
  - apply Z.even_spec in E. destruct E as [m ->].
    rewrite Z.pow_mul_r by lia. replace ((-1) ^ 2) with 1 by reflexivity. apply Z.pow_1_l. lia.
  - assert (Z.odd k = true) as O by (rewrite <- Z.negb_even, E; reflexivity).
    apply Z.odd_spec in O. destruct O as [m ->].
    rewrite Z.pow_add_r, Z.pow_mul_r by lia. replace ((-1) ^ 2) with 1 by reflexivity.
    rewrite Z.pow_1_l by lia. reflexivity.
Qed.

Lemma even_abs k : Z.even (Z.abs k) = Z.even k.
Proof. destruct k; reflexivity. Qed.

Lemma int_pow_exact a b : wf a -> wf b -> good_res (int_pow a b) (pow_spec (ival a) (ival b)).
Proof.
  intros Ha Hb. unfold int_pow, pow_spec.
  destruct ((ival a =? 0) && (ival b <? 0)) eqn:E0; [reflexivity|].
  destruct (ival b <? 0) eqn:Eb.
  - (* negative exponent *)
    apply Z.ltb_lt in Eb.
    unfold is_unit.
    destruct (ival a =? 1) eqn:E1.
    + apply Z.eqb_eq in E1. cbn [orb negb andb].
      assert (good_res (Ok (Big (binary_pow (ival a) (ival b)))) (Ok 1)) as G.
      { cbn [good_res]. apply good_big. rewrite binary_pow_spec, E1. apply Z.pow_1_l. lia. }
      destruct a as [x|x], b as [y|y]; cbn [ival] in *; auto.
      replace ((0 <=? y) && (y <=? u32_max)) with false by (symmetry; apply andb_false_iff; left; apply Z.leb_gt; lia).
      exact G.
    + destruct (ival a =? 0) eqn:Ez.
      { cbn [andb] in E0. discriminate. }
      destruct (ival a =? -1) eqn:Em; cbn [orb negb andb]; [|reflexivity].
      apply Z.eqb_eq in Em.
      assert (good_res (Ok (Big (binary_pow (ival a) (ival b)))) (Ok (if Z.even (ival b) then 1 else -1))) as G.
      { cbn [good_res]. apply good_big. rewrite binary_pow_spec, Em, pow_m1, even_abs by lia. reflexivity. }
      destruct a as [x|x], b as [y|y]; cbn [ival] in *; auto.
      replace ((0 <=? y) && (y <=? u32_max)) with false by (symmetry; apply andb_false_iff; left; apply Z.leb_gt; lia).
      exact G.
  - (* non-negative exponent *)
    apply Z.ltb_ge in Eb. rewrite andb_false_r.
    assert (good_res (Ok (Big (binary_pow (ival a) (ival b)))) (Ok (zpow (ival a) (ival b)))) as G.
    { cbn [good_res]. apply good_big. reflexivity. }
    destruct a as [x|x], b as [y|y]; cbn [ival] in *; auto.
    destruct ((0 <=? y) && (y <=? u32_max)); auto.
    destruct (checked (zpow x y)) eqn:Ec; auto.
    apply checked_some in Ec. subst. cbn [good_res]. apply good_norm.
Qed.


Lemma zpow_eq a b : 0 <= b -> zpow a b = a ^ b.
Proof. intros H. unfold zpow. rewrite binary_pow_spec, Z.abs_eq by lia. reflexivity. Qed.
