(* C01 -- nested expressions: the mirror of is/2 on integers equals the exact semantics *)
From Coq Require Import ZArith List Bool Lia.
From V Require Import Gen.Fixnum C01.Model C01.Proofs C01.Shift C01.Gcd.
Open Scope Z_scope.

Lemma good_res_ok n z : good n z -> good_res (Ok n) (Ok z).
Proof. auto. Qed.

Lemma un_exact o a : wf a -> good_res (un_impl o a) (un_spec o (ival a)).
Proof.
  intros Ha. destruct o; cbn [un_impl un_spec]; apply good_res_ok.
  - apply neg_exact; auto.
  - apply abs_exact; auto.
  - apply sign_exact; auto.
  - apply bnot_exact; auto.
  - split; auto.
Qed.

Lemma bin_exact o a b : wf a -> wf b -> good_res (bin_impl o a b) (bin_spec o (ival a) (ival b)).
Proof.
  intros Ha Hb. destruct o; cbn [bin_impl bin_spec].
  - apply good_res_ok, add_exact; auto.
  - apply good_res_ok, sub_exact; auto.
  - apply good_res_ok, mul_exact; auto.
  - apply idiv_exact; auto.
  - apply div_exact; auto.
  - apply mod_exact; auto.
  - apply rem_exact; auto.
  - apply gcd_exact; auto.
  - apply good_res_ok, min_exact; auto.
  - apply good_res_ok, max_exact; auto.
  - apply int_pow_exact; auto.
  - apply good_res_ok, shl_exact; auto.
  - apply good_res_ok, shr_exact; auto.
  - apply good_res_ok. apply (bitop_exact Z.land); auto.
  - apply good_res_ok. apply (bitop_exact Z.lor); auto.
  - apply good_res_ok. apply (bitop_exact Z.lxor); auto.
Qed.

Lemma eval_good e : wf_expr e -> good_res (eval_impl e) (eval_spec e).
Proof.
  induction e as [n|o a IHa|o a IHa b IHb]; cbn [eval_impl eval_spec wf_expr].
  - intros H. split; auto.
  - intros H. specialize (IHa H).
    destruct (eval_impl a) as [x|], (eval_spec a) as [z|]; cbn [good_res bind] in *; try contradiction; auto.
    destruct IHa as [W <-]. apply un_exact; auto.
  - intros [H1 H2]. specialize (IHa H1). specialize (IHb H2).
    destruct (eval_impl a) as [x|], (eval_spec a) as [z|]; cbn [good_res bind] in *; try contradiction; auto.
    destruct (eval_impl b) as [y|], (eval_spec b) as [w|]; cbn [good_res bind] in *; try contradiction; auto.
    destruct IHa as [W1 <-], IHb as [W2 <-]. apply bin_exact; auto.
Qed.

Lemma eval_exact_obs e : wf_expr e -> obs (eval_impl e) = eval_spec e.
Proof.
  intros H. pose proof (eval_good e H) as G.
  destruct (eval_impl e), (eval_spec e); cbn [good_res obs] in *; try contradiction.
  - destruct G as [_ ->]. reflexivity.
  - congruence.
Qed.

Lemma eval_wf e n : wf_expr e -> eval_impl e = Ok n -> wf n.
Proof.
  intros H E. pose proof (eval_good e H) as G. rewrite E in G.
  destruct (eval_spec e); cbn [good_res] in G; [apply G|contradiction].
Qed.

Lemma eval_never_out_of_fuel e : wf_expr e -> eval_impl e <> Err NoFuel.
Proof.
  intros H E. pose proof (eval_exact_obs e H) as G. rewrite E in G. cbn in G.
  clear E H. revert G. induction e as [n|o a IHa|o a IHa b IHb]; cbn [eval_spec].
  - discriminate.
  - destruct (eval_spec a); cbn [bind]; auto. destruct o; discriminate.
  - destruct (eval_spec a) as [x|]; cbn [bind]; auto.
    destruct (eval_spec b) as [y|]; cbn [bind]; auto.
    destruct o; cbn [bin_spec]; try discriminate;
      try (destruct (y =? 0); discriminate).
    unfold pow_spec.
    repeat match goal with |- context [if ?c then _ else _] => destruct c end; discriminate.
Qed.
