(* C01 -- impl-mirror model of integer arithmetic (src/machine/arithmetic_ops.rs,
   src/arithmetic.rs binary_pow, src/forms.rs ArenaFrom) and its exact specification.
   No proofs in this file. *)
From Coq Require Import ZArith List Bool.
From V Require Import Gen.Fixnum.
Import ListNotations.
Open Scope Z_scope.

(* ---------- numbers: a Fixnum cell or a bignum cell (dashu IBig, modelled by Z) *)
Inductive num := Fix (z : Z) | Big (z : Z).

Definition ival (n : num) : Z := match n with Fix z => z | Big z => z end.

Definition in_fix (z : Z) : bool := (fix_min <=? z) && (z <=? fix_max).
Definition wf (n : num) : Prop := match n with Fix z => in_fix z = true | Big _ => True end.

(* ---------- i64 primitives *)
Definition i64_min : Z := - 2 ^ 63.
Definition i64_max : Z := 2 ^ 63 - 1.
Definition in_i64 (z : Z) : bool := (i64_min <=? z) && (z <=? i64_max).
Definition checked (z : Z) : option Z := if in_i64 z then Some z else None.
Definition usize_max : Z := 2 ^ 64 - 1.
Definition u32_max : Z := 2 ^ 32 - 1.

(* Rust's `x << s` on i64 silently drops the bits shifted out: two's-complement wrap *)
Definition wrap64 (z : Z) : Z := (z + 2 ^ 63) mod 2 ^ 64 - 2 ^ 63.

(* Number::arena_from(i64) / fixnum!(Number, n, arena): Fixnum when it fits, else a bignum cell *)
Definition norm (z : Z) : num := if in_fix z then Fix z else Big z.

Inductive err := ZeroDiv | Undefined | MustBeFloat (culprit : Z) | NoFuel.
Inductive res (A : Type) := Ok (a : A) | Err (e : err).
Arguments Ok {A} a. Arguments Err {A} e.

Definition bind {A B} (r : res A) (f : A -> res B) : res B :=
  match r with Ok a => f a | Err e => Err e end.

(* ---------- add / neg / abs / sub / mul *)
Definition add (a b : num) : num :=
  match a, b with
  | Fix x, Fix y => match checked (x + y) with Some r => norm r | None => Big (x + y) end
  | Fix x, Big y => Big (x + y)
  | Big x, Fix y => Big (y + x)
  | Big x, Big y => Big (x + y)
  end.

Definition neg (a : num) : num :=
  match a with
  | Fix x => match checked (- x) with Some r => norm r | None => Big (- x) end
  | Big x => Big (- x)
  end.

Definition abs (a : num) : num :=
  match a with
  | Fix x => if in_fix (Z.abs x) then Fix (Z.abs x) else Big (fix_max + 1)
  | Big x => Big (Z.abs x)
  end.

Definition sub (a b : num) : num := add a (neg b).

Definition mul (a b : num) : num :=
  match a, b with
  | Fix x, Fix y => match checked (x * y) with Some r => norm r | None => Big (x * y) end
  | Fix x, Big y => Big (x * y)
  | Big x, Fix y => Big (y * x)
  | Big x, Big y => Big (x * y)
  end.

Definition sign (a : num) : num :=
  if 0 <? ival a then Fix 1 else if ival a <? 0 then Fix (-1) else Fix 0.

Definition max_ (a b : num) : num :=
  match a, b with
  | Fix x, Fix y => if y <? x then Fix x else Fix y
  | Fix x, Big y => if x <? y then Big y else Fix x
  | Big x, Fix y => if y <? x then Big x else Fix y
  | Big x, Big y => Big (Z.max x y)
  end.

Definition min_ (a b : num) : num :=
  match a, b with
  | Fix x, Fix y => if x <? y then Fix x else Fix y
  | Fix x, Big y => if y <? x then Big y else Fix x
  | Big x, Fix y => if x <? y then Big x else Fix y
  | Big x, Big y => Big (Z.min x y)
  end.

(* ---------- // rem mod div *)
Definition idiv (a b : num) : res num :=
  match a, b with
  | Fix x, Fix y =>
      if y =? 0 then Err ZeroDiv
      else match checked (Z.quot x y) with Some r => Ok (norm r) | None => Ok (Big (Z.quot x y)) end
  | Fix x, Big y => if y =? 0 then Err ZeroDiv else Ok (Big (Z.quot x y))
  | Big x, Fix y => if y =? 0 then Err ZeroDiv else Ok (Big (Z.quot x y))
  | Big x, Big y => if y =? 0 then Err ZeroDiv else Ok (Big (Z.quot x y))
  end.

Definition remainder (a b : num) : res num :=
  match a, b with
  | Fix x, Fix y => if y =? 0 then Err ZeroDiv else Ok (norm (Z.rem x y))
  | Fix x, Big y | Big x, Fix y | Big x, Big y => if y =? 0 then Err ZeroDiv else Ok (Big (Z.rem x y))
  end.

(* ibig_rem_floor: dashu's truncating %, then shifted into the divisor's sign *)
Definition ibig_rem_floor (n1 n2 : Z) : Z :=
  let r := Z.rem n1 n2 in
  if negb (r =? 0) && negb (Bool.eqb (r <? 0) (n2 <? 0)) then r + n2 else r.

Definition modulus (a b : num) : res num :=
  match a, b with
  | Fix x, Fix y => if y =? 0 then Err ZeroDiv else Ok (norm (x mod y))   (* i64::rem_floor *)
  | Fix x, Big y | Big x, Fix y | Big x, Big y =>
      if y =? 0 then Err ZeroDiv else Ok (Big (ibig_rem_floor x y))
  end.

Definition int_floor_div (a b : num) : res num :=
  bind (modulus a b) (fun m => idiv (sub a m) b).

(* ---------- gcd: isize_gcd is a binary gcd with three loops; each loop gets explicit fuel *)
Fixpoint strip_twos (fuel : nat) (n : Z) : option Z :=
  match fuel with
  | O => None
  | S f => if Z.even n then strip_twos f (Z.shiftr n 1) else Some n
  end.

Fixpoint common_twos (fuel : nat) (n1 n2 shift : Z) : option (Z * Z * Z) :=
  match fuel with
  | O => None
  | S f => if Z.even (Z.lor n1 n2) then common_twos f (Z.shiftr n1 1) (Z.shiftr n2 1) (shift + 1)
           else Some (n1, n2, shift)
  end.

Fixpoint gcd_loop (fuel : nat) (n1 n2 : Z) : option Z :=
  match fuel with
  | O => None
  | S f =>
      match strip_twos 70 n2 with
      | None => None
      | Some n2 =>
          let '(n1, n2) := if n2 <? n1 then (n2, n1) else (n1, n2) in
          let n2 := n2 - n1 in
          if n2 =? 0 then Some n1 else gcd_loop f n1 n2
      end
  end.

Definition checked_abs (z : Z) : option Z := checked (Z.abs z).

(* Some (Some r) = returned Some(r); Some None = returned None; None = out of fuel *)
Definition isize_gcd (n1 n2 : Z) : option (option Z) :=
  if n1 =? 0 then Some (checked_abs n2)
  else if n2 =? 0 then Some (checked_abs n1)
  else match checked_abs n1, checked_abs n2 with
       | Some n1, Some n2 =>
           match common_twos 70 n1 n2 0 with
           | None => None
           | Some (n1, n2, shift) =>
               match strip_twos 70 n1 with
               | None => None
               | Some n1 =>
                   match gcd_loop 140 n1 n2 with
                   | None => None
                   | Some g => Some (Some (wrap64 (Z.shiftl g shift)))
                   end
               end
           end
       | _, _ => Some None
       end.

Definition gcd_ (a b : num) : res num :=
  match a, b with
  | Fix x, Fix y =>
      match isize_gcd x y with
      | None => Err NoFuel
      | Some (Some r) => Ok (norm r)
      | Some None => Ok (Big (Z.gcd x y))
      end
  | Fix x, Big y | Big y, Fix x => Ok (Big (Z.gcd y x))
  | Big x, Big y => Ok (Big (Z.gcd x y))
  end.

(* ---------- shifts *)
(* computable forms of Z.shiftr / Z.shiftl (the library versions iterate `count` times, which cannot
   be evaluated for counts like 2^64-1); proved equal to them in C01/Shift.v *)
Definition zshr (x n : Z) : Z := if Z.log2 (Z.abs x) <? n then (if x <? 0 then -1 else 0) else Z.shiftr x n.
Definition zshl (x n : Z) : Z := if x =? 0 then 0 else Z.shiftl x n.

Definition clamp (z top : Z) : Z := if z <=? top then z else top.   (* try_into().unwrap_or(top), z >= 0 *)

(* i64::leading_zeros for x >= 0 *)
Definition leading_zeros (x : Z) : Z := if x =? 0 then 64 else 63 - Z.log2 x.

Definition checked_signed_shl (x shift : Z) : option Z :=
  if shift =? 0 then Some x
  else if 0 <=? x then
         (if shift <? leading_zeros x then Some (wrap64 (Z.shiftl x shift)) else None)
       else match checked (- x) with
            | None => None
            | Some y => if shift <? leading_zeros y then checked (- (wrap64 (Z.shiftl y shift))) else None
            end.

Definition shr_pos (a : num) (c : Z) : num :=      (* c >= 0 *)
  match a with
  | Fix x => let r := clamp c u32_max in
             norm (if r <? 64 then zshr x r else (if x <? 0 then -1 else 0))
  | Big x => Big (zshr x (clamp c usize_max))
  end.

Definition shl_pos (a : num) (c : Z) : num :=      (* c >= 0 *)
  let r := clamp c usize_max in
  match a with
  | Fix x => match checked_signed_shl x r with
             | Some v => norm v
             | None => Big (zshl x r)
             end
  | Big x => Big (zshl x r)
  end.

Definition shr (a b : num) : num :=
  if ival b <? 0 then shl_pos a (ival (neg b)) else shr_pos a (ival b).
Definition shl (a b : num) : num :=
  if ival b <? 0 then shr_pos a (ival (neg b)) else shl_pos a (ival b).

(* ---------- bitwise *)
Definition bitop (f : Z -> Z -> Z) (a b : num) : num :=
  match a, b with
  | Fix x, Fix y => norm (f x y)
  | _, _ => Big (f (ival a) (ival b))
  end.
Definition band := bitop Z.land.
Definition bor := bitop Z.lor.
Definition bxor := bitop Z.lxor.
Definition bnot (a : num) : num := match a with Fix x => Fix (Z.lnot x) | Big x => Big (Z.lnot x) end.

(* ---------- ^ : int_pow with binary_pow *)
Fixpoint binary_pow_loop (n oddand : Z) (power : positive) : Z :=
  match power with
  | xH => n * oddand
  | xO p => binary_pow_loop (n * n) oddand p
  | xI p => binary_pow_loop (n * n) (oddand * n) p
  end.
Definition binary_pow (n power : Z) : Z :=
  match Z.abs power with
  | Z0 => 1
  | Zpos p => binary_pow_loop n 1 p
  | Zneg _ => 1
  end.

(* computable power (square and multiply); proved equal to Z.pow for non-negative exponents *)
Definition zpow (a b : Z) : Z := binary_pow a b.

Definition is_unit (x : Z) : bool := (x =? 1) || (x =? 0) || (x =? -1).

Definition int_pow (a b : num) : res num :=
  if (ival a =? 0) && (ival b <? 0) then Err Undefined
  else if negb (is_unit (ival a)) && (ival b <? 0) then Err (MustBeFloat (ival a))
  else match a, b with
       | Fix x, Fix y =>
           let via_checked :=
             if (0 <=? y) && (y <=? u32_max) then
               match checked (zpow x y) with Some r => Some (norm r) | None => None end
             else None in
           match via_checked with
           | Some r => Ok r
           | None => Ok (Big (binary_pow x y))
           end
       | _, _ => Ok (Big (binary_pow (ival a) (ival b)))
       end.

(* ---------- expressions *)
Inductive unop := ONeg | OAbs | OSign | OBnot | OPlus.
Inductive binop := OAdd | OSub | OMul | OIdiv | ODiv | OMod | ORem | OGcd | OMin | OMax
                 | OPow | OShl | OShr | OAnd | OOr | OXor.
Inductive expr := Lit (n : num) | Un (o : unop) (e : expr) | Bin (o : binop) (a b : expr).

Definition un_impl (o : unop) (a : num) : res num :=
  match o with
  | ONeg => Ok (neg a) | OAbs => Ok (abs a) | OSign => Ok (sign a) | OBnot => Ok (bnot a) | OPlus => Ok a
  end.

Definition bin_impl (o : binop) (a b : num) : res num :=
  match o with
  | OAdd => Ok (add a b) | OSub => Ok (sub a b) | OMul => Ok (mul a b)
  | OIdiv => idiv a b | ODiv => int_floor_div a b | OMod => modulus a b | ORem => remainder a b
  | OGcd => gcd_ a b | OMin => Ok (min_ a b) | OMax => Ok (max_ a b)
  | OPow => int_pow a b | OShl => Ok (shl a b) | OShr => Ok (shr a b)
  | OAnd => Ok (band a b) | OOr => Ok (bor a b) | OXor => Ok (bxor a b)
  end.

Fixpoint eval_impl (e : expr) : res num :=
  match e with
  | Lit n => Ok n
  | Un o a => bind (eval_impl a) (un_impl o)
  | Bin o a b => bind (eval_impl a) (fun x => bind (eval_impl b) (fun y => bin_impl o x y))
  end.

(* ---------- the exact specification over Z *)
Definition shr_spec (x c : Z) : Z := zshr x (clamp c usize_max).
Definition shl_spec (x c : Z) : Z := zshl x (clamp c usize_max).

Definition pow_spec (a b : Z) : res Z :=
  if (a =? 0) && (b <? 0) then Err Undefined
  else if b <? 0 then
         (if a =? 1 then Ok 1
          else if a =? -1 then Ok (if Z.even b then 1 else -1)
          else Err (MustBeFloat a))
       else Ok (zpow a b).

Definition un_spec (o : unop) (a : Z) : res Z :=
  match o with
  | ONeg => Ok (- a) | OAbs => Ok (Z.abs a) | OSign => Ok (Z.sgn a) | OBnot => Ok (Z.lnot a) | OPlus => Ok a
  end.

Definition bin_spec (o : binop) (a b : Z) : res Z :=
  match o with
  | OAdd => Ok (a + b) | OSub => Ok (a - b) | OMul => Ok (a * b)
  | OIdiv => if b =? 0 then Err ZeroDiv else Ok (Z.quot a b)
  | ODiv => if b =? 0 then Err ZeroDiv else Ok (Z.div a b)
  | OMod => if b =? 0 then Err ZeroDiv else Ok (Z.modulo a b)
  | ORem => if b =? 0 then Err ZeroDiv else Ok (Z.rem a b)
  | OGcd => Ok (Z.gcd a b) | OMin => Ok (Z.min a b) | OMax => Ok (Z.max a b)
  | OPow => pow_spec a b
  | OShl => Ok (if b <? 0 then shr_spec a (- b) else shl_spec a b)
  | OShr => Ok (if b <? 0 then shl_spec a (- b) else shr_spec a b)
  | OAnd => Ok (Z.land a b) | OOr => Ok (Z.lor a b) | OXor => Ok (Z.lxor a b)
  end.

Fixpoint eval_spec (e : expr) : res Z :=
  match e with
  | Lit n => Ok (ival n)
  | Un o a => bind (eval_spec a) (un_spec o)
  | Bin o a b => bind (eval_spec a) (fun x => bind (eval_spec b) (fun y => bin_spec o x y))
  end.

Fixpoint wf_expr (e : expr) : Prop :=
  match e with
  | Lit n => wf n
  | Un _ a => wf_expr a
  | Bin _ a b => wf_expr a /\ wf_expr b
  end.

(* observable of an implementation result: the integer value, or the error *)
Definition obs (r : res num) : res Z := match r with Ok n => Ok (ival n) | Err e => Err e end.

(* ---------- correspondence helper: compare the model with what the implementation printed *)
Inductive impl_out := IVal (z : Z) | IZeroDiv | IUndefined | IMustBeFloat (c : Z) | IOther.

Definition agrees (e : expr) (o : impl_out) : bool :=
  match eval_impl e, o with
  | Ok n, IVal z => ival n =? z
  | Err ZeroDiv, IZeroDiv => true
  | Err Undefined, IUndefined => true
  | Err (MustBeFloat c), IMustBeFloat c' => c =? c'
  | _, _ => false
  end.

Definition spec_agrees (e : expr) (o : impl_out) : bool :=
  match eval_spec e, o with
  | Ok n, IVal z => n =? z
  | Err ZeroDiv, IZeroDiv => true
  | Err Undefined, IUndefined => true
  | Err (MustBeFloat c), IMustBeFloat c' => c =? c'
  | _, _ => false
  end.
