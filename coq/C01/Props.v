(* C01 -- pinned property theorems (nothing else lives here) *)
From Coq Require Import ZArith List Bool.
From V Require Import Gen.Fixnum C01.Model C01.Proofs C01.Shift C01.Gcd C01.Eval.
Open Scope Z_scope.

(* Every nested integer expression: the mirror of arithmetic_ops.rs returns exactly the value (or the
   error) of the mathematical semantics eval_spec (Z.quot/Z.rem truncate, Z.div/Z.modulo floor). *)
Theorem eval_exact : forall e, wf_expr e -> obs (eval_impl e) = eval_spec e.
Proof. exact eval_exact_obs. Qed.
Print Assumptions eval_exact.

(* A small-integer cell always holds a value inside the small-integer range: never wrapped or truncated. *)
Theorem results_wellformed : forall e n, wf_expr e -> eval_impl e = Ok n -> wf n.
Proof. exact eval_wf. Qed.
Print Assumptions results_wellformed.

(* the fuel given to the three loops of the binary gcd is sufficient: the model never reports NoFuel *)
Theorem never_out_of_fuel : forall e, wf_expr e -> eval_impl e <> Err NoFuel.
Proof. exact eval_never_out_of_fuel. Qed.
Print Assumptions never_out_of_fuel.

Theorem gcd_fuel_sufficient : forall x y, Z.abs x <= i64_max -> Z.abs y <= i64_max ->
  isize_gcd x y = Some (Some (Z.gcd x y)).
Proof. exact isize_gcd_exact. Qed.
Print Assumptions gcd_fuel_sufficient.

(* the shift-count clamps (u32::MAX, usize::MAX) of the code are invisible in eval_spec *)
Theorem shr_is_floor_shift : forall x c, 0 <= c -> Z.log2 (Z.abs x) < usize_max -> shr_spec x c = Z.shiftr x c.
Proof. exact shr_clamp_invisible. Qed.
Print Assumptions shr_is_floor_shift.

Theorem shl_is_exact_shift : forall x c, 0 <= c -> c <= usize_max \/ x = 0 -> shl_spec x c = Z.shiftl x c.
Proof. exact shl_clamp_invisible. Qed.
Print Assumptions shl_is_exact_shift.

(* the computable power used by eval_spec is the mathematical power *)
Theorem zpow_is_pow : forall a b, 0 <= b -> zpow a b = a ^ b.
Proof. exact zpow_eq. Qed.
Print Assumptions zpow_is_pow.

Theorem zshr_is_shiftr : forall x n, zshr x n = Z.shiftr x n.
Proof. exact zshr_eq. Qed.
Print Assumptions zshr_is_shiftr.

Theorem zshl_is_shiftl : forall x n, zshl x n = Z.shiftl x n.
Proof. exact zshl_eq. Qed.
Print Assumptions zshl_is_shiftl.

(* the regenerated small-integer bounds fit the machine word and are symmetric (needed by \ and abs) *)
Theorem fixnum_bounds_ok : i64_min <= fix_min /\ fix_max <= i64_max /\ fix_min = - fix_max - 1.
Proof. exact (conj (proj1 fix_bounds_in_i64) (conj (proj2 fix_bounds_in_i64) fix_bounds_symmetric)). Qed.
Print Assumptions fixnum_bounds_ok.

(* non-vacuity: boundary operands satisfy the hypotheses and the results cross the boundaries *)
Example ex_cross_fix : eval_impl (Bin OAdd (Lit (Fix fix_max)) (Lit (Fix 1))) = Ok (Big (2 ^ 55)).
Proof. vm_compute. reflexivity. Qed.
Example ex_cross_i64 : obs (eval_impl (Bin OMul (Lit (Fix (2 ^ 40))) (Lit (Fix (2 ^ 40))))) = Ok (2 ^ 80).
Proof. vm_compute. reflexivity. Qed.
Example ex_shr_neg : obs (eval_impl (Bin OShr (Lit (Fix (-1))) (Lit (Fix 70)))) = Ok (-1).
Proof. vm_compute. reflexivity. Qed.
Example ex_wf : wf_expr (Bin OGcd (Lit (Fix fix_min)) (Lit (Big (2 ^ 64)))).
Proof. vm_compute. auto. Qed.
