(* C01 -- the binary gcd of isize_gcd: partial correctness and sufficiency of the fuel *)
From Coq Require Import ZArith List Bool Lia Znumtheory.
From V Require Import Gen.Fixnum C01.Model C01.Proofs C01.Shift.
Open Scope Z_scope.

Lemma pow2_ge1 j : 0 <= j -> 1 <= 2 ^ j.
Proof. intros H. pose proof (Z.pow_pos_nonneg 2 j). lia. Qed.

Lemma odd_rel_prime_2 k : Z.odd k = true -> rel_prime k 2.
Proof.
  intros H. apply Z.odd_spec in H. destruct H as [j ->].
  apply bezout_rel_prime. apply Bezout_intro with 1 (- j). ring.
Qed.

Lemma gcd_odd_double k m : Z.odd k = true -> Z.gcd k (2 * m) = Z.gcd k m.
Proof.
  intros Hk. apply Z.gcd_unique.
  - apply Z.gcd_nonneg.
  - apply Z.gcd_divide_l.
  - apply Z.divide_mul_r. apply Z.gcd_divide_r.
  - intros q Hqa Hqb. apply Z.gcd_greatest; auto.
    apply Gauss with 2; auto. apply rel_prime_div with k; auto using odd_rel_prime_2.
Qed.

Lemma shiftr1_double h : Z.shiftr (2 * h) 1 = h.
Proof. rewrite Z.shiftr_div_pow2 by lia. rewrite Z.pow_1_r, Z.mul_comm. apply Z.div_mul. lia. Qed.

Lemma strip_twos_spec fuel : forall n m, 0 < n -> strip_twos fuel n = Some m ->
  0 < m /\ Z.odd m = true /\ (forall k, Z.odd k = true -> Z.gcd k m = Z.gcd k n) /\
  (exists j, 0 <= j /\ n = m * 2 ^ j /\ (Z.even n = true -> 1 <= j)).
Proof.
  induction fuel as [|f IH]; intros n m Hn; cbn [strip_twos]; [discriminate|].
  destruct (Z.even n) eqn:E.
  - pose proof E as E'. apply Z.even_spec in E'. destruct E' as [h ->].
    rewrite shiftr1_double. intros Hs. apply IH in Hs; [|lia].
    destruct Hs as (Hm & Ho & Hg & j & Hj & Hh & _).
    repeat split; auto.
    + intros k Hk. rewrite gcd_odd_double by auto. auto.
    + exists (j + 1). repeat split; try lia. rewrite Z.pow_add_r by lia. rewrite Z.pow_1_r. rewrite Hh at 1. ring.
  - intros [= <-]. repeat split; auto.
    + rewrite <- Z.negb_even, E. reflexivity.
    + exists 0. repeat split; try lia.
Qed.

Lemma strip_twos_total fuel : forall n, 0 < n < 2 ^ (Z.of_nat fuel) -> exists m, strip_twos fuel n = Some m.
Proof.
  induction fuel as [|f IH]; intros n Hn.
  - cbn in Hn. lia.
  - cbn [strip_twos]. destruct (Z.even n) eqn:E; [|eauto].
    apply Z.even_spec in E. destruct E as [h ->]. rewrite shiftr1_double. apply IH.
    rewrite Nat2Z.inj_succ, Z.pow_succ_r in Hn by lia. lia.
Qed.

Lemma strip_twos_odd fuel n : Z.odd n = true -> strip_twos (S fuel) n = Some n.
Proof. intros H. cbn [strip_twos]. rewrite <- Z.negb_odd, H. reflexivity. Qed.

Lemma even_lor a b : Z.even (Z.lor a b) = Z.even a && Z.even b.
Proof. rewrite <- !Z.negb_odd, <- !Z.bit0_odd, Z.lor_spec, negb_orb. reflexivity. Qed.

Lemma common_twos_spec fuel : forall n1 n2 s m1 m2 s', 0 < n1 -> 0 < n2 ->
  common_twos fuel n1 n2 s = Some (m1, m2, s') ->
  exists j, 0 <= j /\ s' = s + j /\ n1 = m1 * 2 ^ j /\ n2 = m2 * 2 ^ j /\ 0 < m1 /\ 0 < m2 /\
            (Z.odd m1 = true \/ Z.odd m2 = true).
Proof.
  induction fuel as [|f IH]; intros n1 n2 s m1 m2 s' H1 H2; cbn [common_twos]; [discriminate|].
  rewrite even_lor. destruct (Z.even n1) eqn:E1; [destruct (Z.even n2) eqn:E2|]; cbn [andb].
  - apply Z.even_spec in E1, E2. destruct E1 as [h1 ->], E2 as [h2 ->]. rewrite !shiftr1_double.
    intros Hc. apply IH in Hc; try lia. destruct Hc as (j & Hj & Hs & Ha & Hb & Hm1 & Hm2 & Ho).
    exists (j + 1). repeat split; auto; try lia.
    + rewrite Z.pow_add_r by lia. rewrite Z.pow_1_r. rewrite Ha at 1. ring.
    + rewrite Z.pow_add_r by lia. rewrite Z.pow_1_r. rewrite Hb at 1. ring.
  - intros [= <- <- <-]. exists 0. repeat split; auto; try lia.
    right. rewrite <- Z.negb_even, E2. reflexivity.
  - intros [= <- <- <-]. exists 0. repeat split; auto; try lia.
    left. rewrite <- Z.negb_even, E1. reflexivity.
Qed.

Lemma common_twos_total fuel : forall n1 n2 s, 0 < n1 < 2 ^ (Z.of_nat fuel) -> 0 < n2 ->
  exists r, common_twos fuel n1 n2 s = Some r.
Proof.
  induction fuel as [|f IH]; intros n1 n2 s H1 H2.
  - cbn in H1. lia.
  - cbn [common_twos]. rewrite even_lor.
    destruct (Z.even n1) eqn:E1; [destruct (Z.even n2) eqn:E2|]; cbn [andb]; eauto.
    apply Z.even_spec in E1, E2. destruct E1 as [h1 ->], E2 as [h2 ->]. rewrite !shiftr1_double.
    apply IH; try lia. rewrite Nat2Z.inj_succ, Z.pow_succ_r in H1 by lia. lia.
Qed.

Lemma gcd_loop_spec fuel : forall n1 n2 g, 0 < n1 -> Z.odd n1 = true -> 0 < n2 ->
  gcd_loop fuel n1 n2 = Some g -> g = Z.gcd n1 n2.
Proof.
  induction fuel as [|f IH]; intros n1 n2 g H1 Ho H2; cbn [gcd_loop]; [discriminate|].
  destruct (strip_twos 70 n2) as [m|] eqn:Es; [|discriminate].
  apply strip_twos_spec in Es; auto. destruct Es as (Hm & Hom & Hg & _).
  rewrite <- (Hg n1 Ho).
  destruct (m <? n1) eqn:Ec.
  - apply Z.ltb_lt in Ec. destruct (n1 - m =? 0) eqn:Ez; [apply Z.eqb_eq in Ez; lia|].
    intros Hl. apply IH in Hl; auto; try lia.
    rewrite Hl, Z.gcd_sub_diag_r. apply Z.gcd_comm.
  - apply Z.ltb_ge in Ec. destruct (m - n1 =? 0) eqn:Ez.
    + apply Z.eqb_eq in Ez. intros [= <-]. replace m with n1 by lia. rewrite Z.gcd_diag. lia.
    + apply Z.eqb_neq in Ez. intros Hl. apply IH in Hl; auto; try lia.
      rewrite Hl, Z.gcd_sub_diag_r. reflexivity.
Qed.

Lemma odd_sub_even a b : Z.odd a = true -> Z.odd b = true -> Z.even (b - a) = true.
Proof. intros Ha Hb. rewrite Z.even_sub, <- !Z.negb_odd, Ha, Hb. reflexivity. Qed.

Lemma gcd_loop_total fuel : forall n1 n2 m, 0 < n1 < 2 ^ 64 -> Z.odd n1 = true -> 0 < n2 < 2 ^ 64 ->
  strip_twos 70 n2 = Some m -> Z.log2 n1 + Z.log2 m < Z.of_nat fuel ->
  exists g, gcd_loop fuel n1 n2 = Some g.
Proof.
  induction fuel as [|f IH]; intros n1 n2 m H1 Ho H2 Es Hmeas.
  - pose proof (Z.log2_nonneg n1). pose proof (Z.log2_nonneg m). cbn in Hmeas. lia.
  - cbn [gcd_loop]. rewrite Es.
    pose proof Es as Es'. apply strip_twos_spec in Es'; [|lia].
    destruct Es' as (Hm & Hom & _ & j & Hj & Hn2 & _).
    assert (m <= n2) as Hle.
    { rewrite Hn2. pose proof (pow2_ge1 j Hj). nia. }
    (* a = min, b = max, both odd *)
    assert (forall a b, 0 < a -> a < b -> b < 2 ^ 64 -> Z.odd a = true -> Z.odd b = true ->
                        Z.log2 a + Z.log2 b < Z.of_nat (S f) ->
                        exists g, gcd_loop f a (b - a) = Some g) as Step.
    { intros a b Ha Hab Hb Hoa Hob Hme.
      destruct (strip_twos_total 70 (b - a)) as [m' Em'].
      { split; [lia|]. apply Z.lt_trans with (2 ^ 64); [lia|]. apply Z.pow_lt_mono_r; lia. }
      pose proof Em' as Em''. apply strip_twos_spec in Em''; [|lia].
      destruct Em'' as (Hm' & _ & _ & j' & Hj' & Hd & Hev).
      specialize (Hev (odd_sub_even a b Hoa Hob)).
      apply (IH a (b - a) m'); auto; try lia.
      assert (2 * m' <= b - a).
      { rewrite Hd. replace j' with ((j' - 1) + 1) by lia. rewrite Z.pow_add_r by lia. rewrite Z.pow_1_r.
        assert (1 <= 2 ^ (j' - 1)) by (apply pow2_ge1; lia). nia. }
      assert (Z.log2 (2 * m') <= Z.log2 b) by (apply Z.log2_le_mono; lia).
      rewrite Z.log2_double in H0 by lia. rewrite Nat2Z.inj_succ in Hme. lia. }
    destruct (m <? n1) eqn:Ec.
    + apply Z.ltb_lt in Ec. destruct (n1 - m =? 0) eqn:Ez; [eauto|].
      apply Step; auto; try lia.
    + apply Z.ltb_ge in Ec. destruct (m - n1 =? 0) eqn:Ez; [eauto|]. apply Z.eqb_neq in Ez.
      apply Step; auto; try lia.
Qed.

Lemma log2_lt_63 n : 0 < n < 2 ^ 63 -> Z.log2 n <= 62.
Proof. intros H. assert (Z.log2 n < 63) by (apply Z.log2_lt_pow2; lia). lia. Qed.

Lemma isize_gcd_pos n1 n2 : 0 < n1 <= i64_max -> 0 < n2 <= i64_max ->
  match common_twos 70 n1 n2 0 with
  | None => None
  | Some (n1, n2, shift) =>
      match strip_twos 70 n1 with
      | None => None
      | Some n1 => match gcd_loop 140 n1 n2 with
                   | None => None
                   | Some g => Some (Some (wrap64 (Z.shiftl g shift)))
                   end
      end
  end = Some (Some (Z.gcd n1 n2)).
Proof.
  unfold i64_max. intros H1 H2.
  assert (2 ^ 63 < 2 ^ 70) as P by (apply Z.pow_lt_mono_r; lia).
  destruct (common_twos_total 70 n1 n2 0) as [[[m1 m2] s] Ec]; try lia.
  rewrite Ec. apply common_twos_spec in Ec; try lia.
  destruct Ec as (j & Hj & -> & Hn1 & Hn2 & Hm1 & Hm2 & Hodd).
  assert (1 <= 2 ^ j) as Pj by (apply pow2_ge1; lia).
  assert (m1 <= n1) by nia. assert (m2 <= n2) by nia.
  destruct (strip_twos_total 70 m1) as [o1 Eo]. { change (Z.of_nat 70) with 70. lia. }
  rewrite Eo. pose proof Eo as Eo'. apply strip_twos_spec in Eo'; auto.
  destruct Eo' as (Ho1 & Hoo1 & Hg1 & i & Hi & Hm1' & _).
  assert (1 <= 2 ^ i) as Pi by (apply pow2_ge1; lia).
  assert (o1 <= m1) by nia.
  destruct (strip_twos_total 70 m2) as [o2 Eo2]. { change (Z.of_nat 70) with 70. lia. }
  pose proof Eo2 as Eo2'. apply strip_twos_spec in Eo2'; auto.
  destruct Eo2' as (Ho2 & _ & _ & i2 & Hi2 & Hm2' & _).
  assert (1 <= 2 ^ i2) as Pi2 by (apply pow2_ge1; lia).
  assert (o2 <= m2) by nia.
  destruct (gcd_loop_total 140 o1 m2 o2) as [g Eg]; auto; try lia.
  { pose proof (log2_lt_63 o1). pose proof (log2_lt_63 o2). change (Z.of_nat 140) with 140. lia. }
  rewrite Eg. apply gcd_loop_spec in Eg; auto.
  assert (Z.gcd o1 m2 = Z.gcd m1 m2) as Hsame.
  { destruct Hodd as [Hod|Hod].
    - rewrite (strip_twos_odd 69 m1 Hod) in Eo. congruence.
    - rewrite (Z.gcd_comm o1), (Z.gcd_comm m1). apply Hg1; auto. }
  assert (Z.gcd n1 n2 = g * 2 ^ j) as Hfin.
  { rewrite Hn1, Hn2, Z.gcd_mul_mono_r_nonneg by lia. congruence. }
  replace (0 + j) with j by lia. rewrite Z.shiftl_mul_pow2 by lia. rewrite <- Hfin.
  rewrite wrap64_id; auto.
  unfold i64_min, i64_max. pose proof (Z.gcd_nonneg n1 n2).
  assert (Z.gcd n1 n2 <= n1) by (apply Z.divide_pos_le; [lia | apply Z.gcd_divide_l]). lia.
Qed.

Lemma isize_gcd_exact x y : Z.abs x <= i64_max -> Z.abs y <= i64_max ->
  isize_gcd x y = Some (Some (Z.gcd x y)).
Proof.
  intros Hx Hy. unfold isize_gcd, checked_abs, checked.
  assert (in_i64 (Z.abs x) = true) as -> by (apply in_i64_iff; unfold i64_min; lia).
  assert (in_i64 (Z.abs y) = true) as -> by (apply in_i64_iff; unfold i64_min; lia).
  destruct (x =? 0) eqn:Ex.
  - apply Z.eqb_eq in Ex. subst. try rewrite Z.gcd_0_l. reflexivity.
  - destruct (y =? 0) eqn:Ey.
    + apply Z.eqb_eq in Ey. subst. try rewrite Z.gcd_0_r. reflexivity.
    + apply Z.eqb_neq in Ex, Ey. rewrite isize_gcd_pos by lia.
      rewrite Z.gcd_abs_l, Z.gcd_abs_r. reflexivity.
Qed.

Lemma gcd_exact a b : wf a -> wf b -> good_res (gcd_ a b) (Ok (Z.gcd (ival a) (ival b))).
Proof.
  destruct a as [x|x], b as [y|y]; cbn [gcd_ ival wf good_res]; intros Ha Hb;
    try (apply good_big; auto using Z.gcd_comm; fail).
  apply in_fix_iff in Ha, Hb. rewrite fix_min_val, fix_max_val in Ha, Hb.
  rewrite isize_gcd_exact by (unfold i64_max; lia). apply good_norm.
Qed.
