(* C01 -- proofs about shifts *)
From Coq Require Import ZArith List Bool Lia Znumtheory.
From V Require Import Gen.Fixnum C01.Model C01.Proofs.
Open Scope Z_scope.
Ltac Zify.zify_post_hook ::= Z.div_mod_to_equations.
(* ---------- shifts *)
Lemma shiftr_all_bits x n : Z.log2 (Z.abs x) < n -> Z.shiftr x n = if x <? 0 then -1 else 0.
Proof.
  intros Hl. assert (0 <= n) by (pose proof (Z.log2_nonneg (Z.abs x)); lia).
  rewrite Z.shiftr_div_pow2 by lia.
  assert (Z.abs x < 2 ^ n).
  { destruct (Z.eq_dec x 0) as [->|Hx]; [apply Z.pow_pos_nonneg; lia|].
    assert (0 < Z.abs x) as Hp by lia. pose proof (Z.log2_spec (Z.abs x) Hp) as [_ Hu].
    apply Z.lt_le_trans with (2 ^ Z.succ (Z.log2 (Z.abs x))); auto.
    apply Z.pow_le_mono_r; lia. }
  destruct (x <? 0) eqn:Ex.
  - apply Z.ltb_lt in Ex. symmetry. apply (Z.div_unique_pos x (2 ^ n) (-1) (x + 2 ^ n)); lia.
  - apply Z.ltb_ge in Ex. apply Z.div_small. lia.
Qed.

Lemma zshr_eq x n : zshr x n = Z.shiftr x n.
Proof.
  unfold zshr. destruct (Z.log2 (Z.abs x) <? n) eqn:E; [|reflexivity].
  apply Z.ltb_lt in E. symmetry. apply shiftr_all_bits. exact E.
Qed.

Lemma zshl_eq x n : zshl x n = Z.shiftl x n.
Proof.
  unfold zshl. destruct (x =? 0) eqn:E; [|reflexivity].
  apply Z.eqb_eq in E. subst. rewrite Z.shiftl_0_l. reflexivity.
Qed.
Lemma wrap64_id z : i64_min <= z <= i64_max -> wrap64 z = z.
Proof.
  unfold wrap64, i64_min, i64_max. intros H.
  rewrite Z.mod_small; lia.
Qed.

Lemma shl_no_overflow x s : 0 <= x <= i64_max -> 0 < s -> s < leading_zeros x ->
  i64_min <= Z.shiftl x s <= i64_max.
Proof.
  intros Hx Hs Hl. rewrite Z.shiftl_mul_pow2 by lia. unfold leading_zeros in Hl.
  destruct (x =? 0) eqn:E.
  - apply Z.eqb_eq in E. subst. unfold i64_min, i64_max. lia.
  - apply Z.eqb_neq in E. assert (0 < x) as Hp by lia.
    pose proof (Z.log2_spec x Hp) as [_ Hu].
    pose proof (Z.log2_nonneg x).
    assert (x * 2 ^ s < 2 ^ 63).
    { apply Z.lt_le_trans with (2 ^ Z.succ (Z.log2 x) * 2 ^ s).
      - apply Z.mul_lt_mono_pos_r; [apply Z.pow_pos_nonneg; lia | exact Hu].
      - rewrite <- Z.pow_add_r by lia. apply Z.pow_le_mono_r; lia. }
    unfold i64_min, i64_max. split; [|lia].
    assert (0 <= x * 2 ^ s) by (apply Z.mul_nonneg_nonneg; [lia | apply Z.pow_nonneg; lia]). lia.
Qed.

Lemma checked_signed_shl_exact x s v : i64_min <= x <= i64_max -> 0 <= s ->
  checked_signed_shl x s = Some v -> v = Z.shiftl x s.
Proof.
  intros Hx Hs. unfold checked_signed_shl.
  destruct (s =? 0) eqn:E0.
  - apply Z.eqb_eq in E0. subst. intros [= <-]. rewrite Z.shiftl_0_r. reflexivity.
  - apply Z.eqb_neq in E0.
    destruct (0 <=? x) eqn:Ex.
    + apply Z.leb_le in Ex. destruct (s <? leading_zeros x) eqn:El; [|discriminate].
      apply Z.ltb_lt in El. intros [= <-]. apply wrap64_id. apply shl_no_overflow; lia.
    + apply Z.leb_gt in Ex. destruct (checked (- x)) as [y|] eqn:Ec; [|discriminate].
      pose proof Ec as Ec'. apply checked_some in Ec'. subst y.
      unfold checked in Ec. destruct (in_i64 (- x)) eqn:Ei; [|discriminate]. apply in_i64_iff in Ei.
      destruct (s <? leading_zeros (- x)) eqn:El; [|discriminate].
      apply Z.ltb_lt in El. intros Hc. apply checked_some in Hc. subst v.
      rewrite wrap64_id by (apply shl_no_overflow; lia).
      rewrite !Z.shiftl_mul_pow2 by lia. ring.
Qed.

Lemma fix_in_i64 x : in_fix x = true -> i64_min <= x <= i64_max.
Proof. intros H. apply in_fix_iff in H. pose proof fix_bounds_in_i64. lia. Qed.

Lemma clamp_nonneg c top : 0 <= c -> 0 <= top -> 0 <= clamp c top.
Proof. unfold clamp. destruct (c <=? top); lia. Qed.

Lemma shl_pos_exact a c : wf a -> 0 <= c -> good (shl_pos a c) (shl_spec (ival a) c).
Proof.
  intros Ha Hc. unfold shl_pos, shl_spec.
  assert (0 <= clamp c usize_max) by (apply clamp_nonneg; [auto | unfold usize_max; lia]).
  destruct a as [x|x]; cbn [ival wf] in *; rewrite ?zshl_eq; [|apply good_big; reflexivity].
  destruct (checked_signed_shl x (clamp c usize_max)) as [v|] eqn:E.
  - apply checked_signed_shl_exact in E; auto using fix_in_i64. subst. apply good_norm.
  - apply good_big. reflexivity.
Qed.

Lemma shiftr_big x n : - 2 ^ 63 <= x < 2 ^ 63 -> 64 <= n -> Z.shiftr x n = if x <? 0 then -1 else 0.
Proof.
  intros Hx Hn. rewrite Z.shiftr_div_pow2 by lia.
  assert (2 ^ 64 <= 2 ^ n) by (apply Z.pow_le_mono_r; lia).
  assert (0 < 2 ^ n) by lia.
  destruct (x <? 0) eqn:E.
  - apply Z.ltb_lt in E. symmetry. apply (Z.div_unique_pos x (2 ^ n) (-1) (x + 2 ^ n)); lia.
  - apply Z.ltb_ge in E. apply Z.div_small. lia.
Qed.

Lemma shr_pos_exact a c : wf a -> 0 <= c -> good (shr_pos a c) (shr_spec (ival a) c).
Proof.
  intros Ha Hc. unfold shr_pos, shr_spec.
  destruct a as [x|x]; cbn [ival wf] in *; rewrite ?zshr_eq; [|apply good_big; reflexivity].
  replace (Z.shiftr x (clamp c usize_max)) with
      (if clamp c u32_max <? 64 then Z.shiftr x (clamp c u32_max) else if x <? 0 then -1 else 0).
  - apply good_norm.
  - apply fix_in_i64 in Ha. unfold i64_min, i64_max in Ha. unfold clamp, u32_max, usize_max.
    destruct (c <=? 2 ^ 32 - 1) eqn:E1; destruct (c <=? 2 ^ 64 - 1) eqn:E2;
      try apply Z.leb_le in E1; try apply Z.leb_gt in E1; try apply Z.leb_le in E2; try apply Z.leb_gt in E2; try lia.
    + destruct (c <? 64) eqn:E3; auto. apply Z.ltb_ge in E3. symmetry. apply shiftr_big; lia.
    + replace (2 ^ 32 - 1 <? 64) with false by reflexivity. symmetry. apply shiftr_big; lia.
    + replace (2 ^ 32 - 1 <? 64) with false by reflexivity. symmetry. apply shiftr_big; lia.
Qed.

Lemma shr_exact a b : wf a -> wf b ->
  good (shr a b) (if ival b <? 0 then shl_spec (ival a) (- ival b) else shr_spec (ival a) (ival b)).
Proof.
  intros Ha Hb. unfold shr. destruct (ival b <? 0) eqn:E.
  - apply Z.ltb_lt in E. destruct (neg_exact b Hb) as [_ ->]. apply shl_pos_exact; auto. lia.
  - apply Z.ltb_ge in E. apply shr_pos_exact; auto.
Qed.

Lemma shl_exact a b : wf a -> wf b ->
  good (shl a b) (if ival b <? 0 then shr_spec (ival a) (- ival b) else shl_spec (ival a) (ival b)).
Proof.
  intros Ha Hb. unfold shl. destruct (ival b <? 0) eqn:E.
  - apply Z.ltb_lt in E. destruct (neg_exact b Hb) as [_ ->]. apply shr_pos_exact; auto. lia.
  - apply Z.ltb_ge in E. apply shl_pos_exact; auto.
Qed.

(* the count clamps are invisible: every representable integer has far fewer than 2^64 bits *)
Lemma shr_clamp_invisible x c : 0 <= c -> Z.log2 (Z.abs x) < usize_max -> shr_spec x c = Z.shiftr x c.
Proof.
  intros Hc Hl. unfold shr_spec, clamp. rewrite zshr_eq. destruct (c <=? usize_max) eqn:E; [reflexivity|].
  apply Z.leb_gt in E.
  assert (forall n, usize_max <= n -> Z.shiftr x n = if x <? 0 then -1 else 0) as K.
  { intros n Hn. rewrite Z.shiftr_div_pow2 by (unfold usize_max in *; lia).
    assert (Z.abs x < 2 ^ n).
    { destruct (Z.eq_dec x 0) as [->|Hx]; [apply Z.pow_pos_nonneg; unfold usize_max in *; lia|].
      assert (0 < Z.abs x) by lia. pose proof (Z.log2_spec (Z.abs x) H) as [_ Hu].
      apply Z.lt_le_trans with (2 ^ Z.succ (Z.log2 (Z.abs x))); auto.
      apply Z.pow_le_mono_r; lia. }
    destruct (x <? 0) eqn:Ex.
    - apply Z.ltb_lt in Ex. symmetry. apply (Z.div_unique_pos x (2 ^ n) (-1) (x + 2 ^ n)); lia.
    - apply Z.ltb_ge in Ex. apply Z.div_small. lia. }
  rewrite (K usize_max) by lia. rewrite (K c) by lia. reflexivity.
Qed.

Lemma shl_clamp_invisible x c : 0 <= c -> c <= usize_max \/ x = 0 -> shl_spec x c = Z.shiftl x c.
Proof.
  intros Hc [H|H]; unfold shl_spec, clamp; rewrite zshl_eq.
  - apply Z.leb_le in H. rewrite H. reflexivity.
  - subst. rewrite !Z.shiftl_0_l. reflexivity.
Qed.
