(* C05 -- pinned property theorems (nothing else lives here) *)
From Coq Require Import ZArith List Bool.
From V Require Import Gen.Fixnum C01.Model C05.Model C05.Proofs.
Import ListNotations.
Open Scope Z_scope.

(* a bignum cell holding a small-integer value is indistinguishable from the small-integer cell ... *)
Theorem repr_irrelevant_unify : forall z c, unify_int (Big z) c = unify_int (Fix z) c.
Proof. exact unify_repr. Qed.
Print Assumptions repr_irrelevant_unify.

Theorem repr_irrelevant_compare : forall z c, cmp_int (Big z) c = cmp_int (Fix z) c /\ eq_int (Big z) c = eq_int (Fix z) c.
Proof. exact (fun z c => conj (cmp_repr z c) (eq_repr z c)). Qed.
Print Assumptions repr_irrelevant_compare.

Theorem repr_irrelevant_sortkey : forall d z before after,
  map ival (nsort d (before ++ Big z :: after)) = map ival (nsort d (before ++ Fix z :: after)).
Proof. exact sort_repr. Qed.
Print Assumptions repr_irrelevant_sortkey.

Theorem repr_irrelevant_indexkey : forall prog z, select prog (Big z) = select prog (Fix z).
Proof. exact select_repr. Qed.
Print Assumptions repr_irrelevant_indexkey.

Theorem repr_irrelevant_typetest : forall z, type_tests (Big z) = type_tests (Fix z).
Proof. exact types_repr. Qed.
Print Assumptions repr_irrelevant_typetest.

Theorem repr_irrelevant_arith : forall o z b, in_fix z = true -> wf b ->
  obs (bin_impl o (Big z) b) = obs (bin_impl o (Fix z) b) /\ obs (bin_impl o b (Big z)) = obs (bin_impl o b (Fix z)).
Proof. exact (fun o z b Hz Hb => conj (arith_repr_l o z b Hz Hb) (arith_repr_r o z b Hz Hb)). Qed.
Print Assumptions repr_irrelevant_arith.

(* ... under every consumer at once *)
Theorem repr_irrelevant_all : forall k z, in_fix z = true -> wf_consumer k -> run k (Big z) = run k (Fix z).
Proof. exact run_repr. Qed.
Print Assumptions repr_irrelevant_all.

(* every result of the arithmetic mirror of C01 (which does NOT renormalise bignum results) is consumed as if
   it had been normalised; and equal values are interchangeable *)
Theorem results_normalised_or_irrelevant : forall e n k,
  wf_expr e -> eval_impl e = Ok n -> wf_consumer k -> run k n = run k (norm (ival n)).
Proof. exact results_norm. Qed.
Print Assumptions results_normalised_or_irrelevant.

Theorem equal_values_interchangeable : forall k a b, wf a -> wf b -> wf_consumer k -> ival a = ival b -> run k a = run k b.
Proof. exact run_same_value. Qed.
Print Assumptions equal_values_interchangeable.

(* the mirrors compare by value *)
Theorem unify_by_value : forall a b, unify_int a (CInt b) = UOk <-> ival a = ival b.
Proof. exact Proofs.unify_by_value. Qed.
Print Assumptions unify_by_value.

Theorem compare_by_value : forall a b, cmp_int a (CInt b) = Some (ival a ?= ival b).
Proof. exact cmp_by_value. Qed.
Print Assumptions compare_by_value.

Theorem sort_by_value : forall d l, map ival (nsort d l) = zsort d (map ival l).
Proof. exact sort_is_value_sort. Qed.
Print Assumptions sort_by_value.

(* non-vacuity: the shrink-back result 2^60 - 2^60 + 2 IS a bignum cell in the mirror, and it selects the clause keyed 2 *)
Example ex_shrink_back : eval_impl (Bin OAdd (Bin OSub (Bin OPow (Lit (Fix 2)) (Lit (Fix 60))) (Bin OPow (Lit (Fix 2)) (Lit (Fix 60)))) (Lit (Fix 2))) = Ok (Big 2).
Proof. vm_compute. reflexivity. Qed.
Example ex_select : select [KInt 1180591620717411303424; KInt 2; KAtom 0%N; KFlt 0; KAny] (Big 2) = [1%N; 4%N]
  /\ select [KInt 1180591620717411303424; KInt 2; KAtom 0%N; KFlt 0; KAny] (Big (2 ^ 70)) = [0%N; 4%N].
Proof. vm_compute. split; reflexivity. Qed.
Example ex_sort : map ival (nsort true [Fix 3; Big 2; Fix 2; Big 1]) = [1; 2; 3] /\ map ival (nsort false [Fix 3; Big 2; Fix 2; Big 1]) = [1; 2; 2; 3].
Proof. vm_compute. split; reflexivity. Qed.
Example ex_hyp : in_fix 2 = true /\ wf_consumer (KArithL OMul (Big (2 ^ 64))).
Proof. vm_compute. auto. Qed.
