(* C05 -- equal integers behave identically however produced.
   Consumers of an integer cell as functions of its representation `num := Fix z | Big z` (C01.Model):
   unification (unify.rs unify_fixnum / unify_big_integer), standard-order comparison and == (heap_iter.rs:
   Integer category, compared through Number::cmp), sorting (msort/sort/keysort = that comparison),
   first-argument clause selection (indexing.rs constant_key_alternatives + dispatch.rs switch_on_constant,
   modelled BY VALUE: the key of an integer is its value), type tests, arithmetic (C01).  No proofs here. *)
From Coq Require Import ZArith List Bool.
From V Require Import Gen.Fixnum C01.Model.
Import ListNotations.
Open Scope Z_scope.

(* the other cell met by a consumer *)
Inductive cell :=
| CInt (n : num)            (* integer cell of either representation *)
| CRat (n d : Z)            (* rational cell n/d, d > 0 *)
| CFlt (bits : Z)
| CAtom (a : N)
| CVar (v : N).

(* ---------- unification: unify_fixnum(n1, value) / unify_big_integer(n1, value) *)
Inductive ures := UBind (z : Z) | UOk | UFail.

Definition unify_int (a : num) (c : cell) : ures :=
  match a, c with
  | _, CVar _ => UBind (ival a)                                   (* value.as_var(): bind *)
  | Fix x, CInt (Fix y) => if x =? y then UOk else UFail          (* n1.get_num() == n2.get_num() *)
  | Fix x, CInt (Big y) => if y =? x then UOk else UFail          (* n2.num_eq(n1) *)
  | Big x, CInt (Fix y) => if x =? y then UOk else UFail          (* n1.num_eq(n2) *)
  | Big x, CInt (Big y) => if x =? y then UOk else UFail
  | Fix x, CRat n d => if n =? x * d then UOk else UFail          (* n2.num_eq(Integer::from(n1)) *)
  | Big x, CRat n d => if n =? x * d then UOk else UFail
  | _, _ => UFail
  end.

(* ---------- standard order against another cell: Var < Number < Atom; integers and rationals share the
   Integer category and are compared by Number::cmp (exact) *)
Definition cmp_int (a : num) (c : cell) : option comparison :=
  match a, c with
  | _, CVar _ => Some Gt
  | _, CAtom _ => Some Lt
  | Fix x, CInt (Fix y) => Some (x ?= y)
  | Fix x, CInt (Big y) => Some (x ?= y)
  | Big x, CInt (Fix y) => Some (x ?= y)
  | Big x, CInt (Big y) => Some (x ?= y)
  | Fix x, CRat n d => Some (x * d ?= n)
  | Big x, CRat n d => Some (x * d ?= n)
  | _, CFlt _ => None                      (* integer against float: not this property (C04) *)
  end.

Definition eq_int (a : num) (c : cell) : option bool :=      (* ==/2 *)
  match cmp_int a c with Some Eq => Some true | Some _ => Some false | None => None end.

(* ---------- sorting integer cells with that comparison (insertion sort; msort keeps duplicates, sort drops
   elements that compare equal) *)
Definition num_cmp (a b : num) : comparison :=
  match a, b with
  | Fix x, Fix y | Fix x, Big y | Big x, Fix y | Big x, Big y => x ?= y
  end.

Fixpoint ninsert (dedup : bool) (a : num) (l : list num) : list num :=
  match l with
  | [] => [a]
  | b :: r => match num_cmp a b with
              | Lt => a :: b :: r
              | Eq => if dedup then b :: r else a :: b :: r
              | Gt => b :: ninsert dedup a r
              end
  end.
Definition nsort (dedup : bool) (l : list num) : list num := fold_right (ninsert dedup) [] l.

Fixpoint zinsert (dedup : bool) (a : Z) (l : list Z) : list Z :=
  match l with
  | [] => [a]
  | b :: r => match a ?= b with
              | Lt => a :: b :: r
              | Eq => if dedup then b :: r else a :: b :: r
              | Gt => b :: zinsert dedup a r
              end
  end.
Definition zsort (dedup : bool) (l : list Z) : list Z := fold_right (zinsert dedup) [] l.

(* ---------- first-argument clause selection, by value *)
Inductive hkey := KInt (z : Z) | KAtom (a : N) | KFlt (bits : Z) | KAny.   (* first argument of a clause head *)

Definition key_matches (a : num) (k : hkey) : bool :=
  match k with
  | KInt z => ival a =? z
  | KAny => true
  | _ => false
  end.

(* indices (from 0) of the clauses selected for a call whose first argument is the integer cell a *)
Fixpoint select_from (i : N) (prog : list hkey) (a : num) : list N :=
  match prog with
  | [] => []
  | k :: r => if key_matches a k then i :: select_from (i + 1)%N r a else select_from (i + 1)%N r a
  end.
Definition select (prog : list hkey) (a : num) : list N := select_from 0%N prog a.

(* ---------- type tests: integer/1 number/1 atomic/1 float/1 atom/1 var/1 *)
Definition type_tests (a : num) : list bool :=
  match a with
  | Fix _ => [true; true; true; false; false; false]
  | Big _ => [true; true; true; false; false; false]
  end.

(* ---------- all consumers under one roof *)
Inductive consumer :=
| KUnify (c : cell) | KCompare (c : cell) | KEq (c : cell)
| KSort (dedup : bool) (before after : list num)     (* sorted values of before ++ [x] ++ after *)
| KSelect (prog : list hkey)
| KType
| KArithL (o : binop) (b : num) | KArithR (o : binop) (b : num) | KArithU (o : unop).

Inductive outcome :=
| OU (u : ures) | OC (c : option comparison) | OB (b : option bool) | OZs (l : list Z) | ONs (l : list N)
| OBs (l : list bool) | OR (r : res Z).

Definition run (k : consumer) (a : num) : outcome :=
  match k with
  | KUnify c => OU (unify_int a c)
  | KCompare c => OC (cmp_int a c)
  | KEq c => OB (eq_int a c)
  | KSort d before after => OZs (map ival (nsort d (before ++ a :: after)))
  | KSelect prog => ONs (select prog a)
  | KType => OBs (type_tests a)
  | KArithL o b => OR (obs (bin_impl o a b))
  | KArithR o b => OR (obs (bin_impl o b a))
  | KArithU o => OR (obs (un_impl o a))
  end.

Definition wf_cell (c : cell) : Prop := match c with CInt n => wf n | CRat _ d => 0 < d | _ => True end.
Definition wf_consumer (k : consumer) : Prop :=
  match k with
  | KArithL _ b | KArithR _ b => wf b
  | _ => True
  end.

(* ---------- correspondence helpers (observed values come from the implementation) *)
Definition cmp_code (c : option comparison) : Z :=
  match c with Some Lt => -1 | Some Eq => 0 | Some Gt => 1 | None => 2 end.
Fixpoint zlist_eqb (a b : list Z) : bool :=
  match a, b with [], [] => true | x :: r, y :: s => (x =? y) && zlist_eqb r s | _, _ => false end.
Fixpoint nlist_eqb (a b : list N) : bool :=
  match a, b with [], [] => true | x :: r, y :: s => N.eqb x y && nlist_eqb r s | _, _ => false end.
Fixpoint blist_eqb (a b : list bool) : bool :=
  match a, b with [], [] => true | x :: r, y :: s => Bool.eqb x y && blist_eqb r s | _, _ => false end.

Definition check_unify (a : num) (lit : Z) (unifies : bool) : bool :=
  Bool.eqb (match unify_int a (CInt (norm lit)) with UOk => true | _ => false end) unifies.
Definition check_compare (a : num) (lit : Z) (code : Z) : bool := cmp_code (cmp_int a (CInt (norm lit))) =? code.
Definition check_sort (dedup : bool) (a : num) (before after : list Z) (observed : list Z) : bool :=
  zlist_eqb (map ival (nsort dedup (map norm before ++ a :: map norm after))) observed.
Definition check_select (prog : list hkey) (a : num) (observed : list N) : bool := nlist_eqb (select prog a) observed.
Definition check_types (a : num) (observed : list bool) : bool := blist_eqb (type_tests a) observed.
Definition check_arith_eq (a : num) (lit : Z) (holds : bool) : bool := Bool.eqb (ival a =? lit) holds.

(* big integers as little-endian 60-bit limbs (long literals parse slowly) *)
Definition zl (ls : list Z) : Z := fold_right (fun l acc => l + 2 ^ 60 * acc) 0 ls.
