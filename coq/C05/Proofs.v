(* C05 -- proofs: every consumer sees only the value of an integer cell *)
From Coq Require Import ZArith List Bool Lia.
From V Require Import Gen.Fixnum C01.Model C01.Proofs C01.Eval C05.Model.
Import ListNotations.
Open Scope Z_scope.

Lemma unify_repr z c : unify_int (Big z) c = unify_int (Fix z) c.
Proof. destruct c as [[y|y]| | | |]; cbn [unify_int ival]; try reflexivity. rewrite (Z.eqb_sym y z). reflexivity. Qed.

Lemma unify_by_value a b : unify_int a (CInt b) = UOk <-> ival a = ival b.
Proof.
  destruct a as [x|x], b as [y|y]; cbn [unify_int ival];
    (destruct (_ =? _) eqn:E; [apply Z.eqb_eq in E | apply Z.eqb_neq in E]); split; intros H; try discriminate; try reflexivity; try lia.
Qed.

Lemma cmp_repr z c : cmp_int (Big z) c = cmp_int (Fix z) c.
Proof. destruct c as [[y|y]| | | |]; reflexivity. Qed.

Lemma cmp_by_value a b : cmp_int a (CInt b) = Some (ival a ?= ival b).
Proof. destruct a, b; reflexivity. Qed.

Lemma eq_repr z c : eq_int (Big z) c = eq_int (Fix z) c.
Proof. unfold eq_int. rewrite cmp_repr. reflexivity. Qed.

Lemma num_cmp_val a b : num_cmp a b = (ival a ?= ival b).
Proof. destruct a, b; reflexivity. Qed.

Lemma ninsert_ival d a l : map ival (ninsert d a l) = zinsert d (ival a) (map ival l).
Proof.
  induction l as [|b r IH]; cbn [ninsert zinsert map]; [reflexivity|].
  rewrite num_cmp_val. destruct (ival a ?= ival b); cbn [map]; try reflexivity.
  - destruct d; reflexivity.
  - rewrite IH. reflexivity.
Qed.

(* sorting cells with the mirrored comparison = sorting their values *)
Lemma sort_is_value_sort d l : map ival (nsort d l) = zsort d (map ival l).
Proof.
  unfold nsort, zsort. induction l as [|a r IH]; cbn [fold_right map]; [reflexivity|].
  rewrite ninsert_ival, IH. reflexivity.
Qed.

Lemma sort_repr d z before after :
  map ival (nsort d (before ++ Big z :: after)) = map ival (nsort d (before ++ Fix z :: after)).
Proof. rewrite !sort_is_value_sort, !map_app. reflexivity. Qed.

Lemma select_from_repr i prog z : select_from i prog (Big z) = select_from i prog (Fix z).
Proof. revert i. induction prog as [|k r IH]; intros i; cbn [select_from]; [reflexivity|]. rewrite IH. destruct k; reflexivity. Qed.

Lemma select_repr prog z : select prog (Big z) = select prog (Fix z).
Proof. apply select_from_repr. Qed.

Lemma types_repr z : type_tests (Big z) = type_tests (Fix z).
Proof. reflexivity. Qed.

(* arithmetic: from C01's exactness theorem -- the observable result is a function of the values *)
Lemma bin_obs o a b : wf a -> wf b -> obs (bin_impl o a b) = bin_spec o (ival a) (ival b).
Proof.
  intros Ha Hb. pose proof (eval_exact_obs (Bin o (Lit a) (Lit b)) (conj Ha Hb)) as H.
  cbn [eval_impl eval_spec bind] in H. exact H.
Qed.
Lemma un_obs o a : wf a -> obs (un_impl o a) = un_spec o (ival a).
Proof.
  intros Ha. pose proof (eval_exact_obs (Un o (Lit a)) Ha) as H.
  cbn [eval_impl eval_spec bind] in H. exact H.
Qed.

Lemma in_fix_wf z : in_fix z = true -> wf (Fix z).
Proof. intros H. exact H. Qed.

Lemma arith_repr_l o z b : in_fix z = true -> wf b -> obs (bin_impl o (Big z) b) = obs (bin_impl o (Fix z) b).
Proof. intros Hz Hb. rewrite !bin_obs; auto. exact I. Qed.
Lemma arith_repr_r o z b : in_fix z = true -> wf b -> obs (bin_impl o b (Big z)) = obs (bin_impl o b (Fix z)).
Proof. intros Hz Hb. rewrite !bin_obs; auto. exact I. Qed.
Lemma arith_repr_u o z : in_fix z = true -> obs (un_impl o (Big z)) = obs (un_impl o (Fix z)).
Proof. intros Hz. rewrite !un_obs; auto. exact I. Qed.

Lemma run_repr k z : in_fix z = true -> wf_consumer k -> run k (Big z) = run k (Fix z).
Proof.
  intros Hz Hk. destruct k; cbn [run wf_consumer] in *.
  - rewrite unify_repr. reflexivity.
  - rewrite cmp_repr. reflexivity.
  - rewrite eq_repr. reflexivity.
  - rewrite sort_repr. reflexivity.
  - rewrite select_repr. reflexivity.
  - reflexivity.
  - rewrite arith_repr_l; auto.
  - rewrite arith_repr_r; auto.
  - rewrite arith_repr_u; auto.
Qed.

(* every result of the arithmetic mirror behaves, under every consumer, like its normalised form *)
Lemma run_norm k n : wf n -> wf_consumer k -> run k n = run k (norm (ival n)).
Proof.
  intros Hn Hk. destruct n as [z|z]; cbn [ival].
  - cbn [wf] in Hn. unfold norm. rewrite Hn. reflexivity.
  - unfold norm. destruct (in_fix z) eqn:E; [apply run_repr; assumption | reflexivity].
Qed.

Lemma results_norm e n k : wf_expr e -> eval_impl e = Ok n -> wf_consumer k -> run k n = run k (norm (ival n)).
Proof. intros He Hn Hk. apply run_norm; [exact (eval_wf e n He Hn) | exact Hk]. Qed.

(* two cells with the same value are interchangeable whatever their representations *)
Lemma run_same_value k a b : wf a -> wf b -> wf_consumer k -> ival a = ival b -> run k a = run k b.
Proof. intros Ha Hb Hk E. rewrite (run_norm k a Ha Hk), (run_norm k b Hb Hk), E. reflexivity. Qed.
