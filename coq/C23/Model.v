(* C23 -- reference model of the term construction / inspection builtins
   functor/3, arg/3, =../2, copy_term/2, term_variables/2, ground/1, subsumes_term/2
   over the shared term datatype, each by mode with its ISO error table (ISO/IEC 13211-1 8.5.1-8.5.3 with
   Cor.2, 8.5.4, 7.12.2), as implemented in machine_state_impl.rs try_functor / try_arg, builtins.pl
   univ_errors / term_variables / subsumes_term, copier.rs.
   A call either raises one of a list of admissible errors (when several error conditions hold at once
   ISO does not fix which one is reported), fails, or succeeds after unifying computed terms with the
   arguments: the result is then a list of equations handed to the unification model of C10.
   No proofs in this file. *)
From Coq Require Import ZArith NArith List Bool String Ascii.
From V Require Import Base.Term C10.Model.
Import ListNotations.

Definition nm (s : string) : list N := map (fun c => N_of_ascii c) (list_ascii_of_string s).

(* ------------------------------------------------------------------ error formals as terms *)
Definition inst_err : term := Atom (nm "instantiation_error").
Definition type_err (ty : string) (culprit : term) : term := Cmp (nm "type_error") [Atom (nm ty); culprit].
Definition dom_err (d : string) (culprit : term) : term := Cmp (nm "domain_error") [Atom (nm d); culprit].
Definition rep_err (w : string) : term := Cmp (nm "representation_error") [Atom (nm w)].

Definition max_arity : Z := 255.

Inductive out :=
| OErr (formals : list term)     (* raises error(F, _) with F one of these (non-empty) *)
| OFail
| OUnify (eqs : list eqn).       (* succeeds iff these equations unify; the bindings are their mgu *)

Definition is_var (t : term) : bool := match t with Var _ => true | _ => false end.
Definition is_atom (t : term) : bool := match t with Atom _ => true | _ => false end.
Definition is_compound (t : term) : bool := match t with Cmp _ _ => true | _ => false end.
Definition is_atomic (t : term) : bool := match t with Var _ | Cmp _ _ => false | _ => true end.
Definition is_int (t : term) : bool := match t with Int _ => true | _ => false end.

Definition when (c : bool) (e : term) : list term := if c then [e] else [].

(* ------------------------------------------------------------------ pure inspection functions *)
(* principal functor: name (a term: the atom, or the atomic term itself) and arguments *)
Definition name_args (t : term) : option (term * list term) :=
  match t with
  | Var _ => None
  | Cmp f l => Some (Atom f, l)
  | _ => Some (t, [])
  end.

Definition functor_of (t : term) : option (term * Z) :=
  match name_args t with Some (f, l) => Some (f, Z.of_nat (List.length l)) | None => None end.

Definition arg_of (i : Z) (t : term) : option term :=
  match t with
  | Cmp _ l => if ((1 <=? i) && (i <=? Z.of_nat (List.length l)))%Z then nth_error l (Z.to_nat (i - 1)) else None
  | _ => None
  end.

Definition univ_of (t : term) : option (list term) :=
  match name_args t with Some (f, l) => Some (f :: l) | None => None end.

(* '.'/2 chain: elements and the first non-cons tail *)
Fixpoint lview (t : term) : list term * term :=
  match t with
  | Cmp f args =>
      match args with
      | [h; r] => if name_eqb f dot then (let (l, tl) := lview r in (h :: l, tl)) else ([], t)
      | _ => ([], t)
      end
  | _ => ([], t)
  end.

Definition is_nil (t : term) : bool := match t with Atom s => name_eqb s nil_name | _ => false end.

(* ------------------------------------------------------------------ variables, ground, copy *)
Definition memN (x : N) (l : list N) : bool := existsb (N.eqb x) l.

(* first occurrences, in order; [seen] = what was met before *)
Fixpoint dd (l : list N) (seen : list N) : list N :=
  match l with
  | [] => []
  | x :: r => if memN x seen then dd r seen else x :: dd r (seen ++ [x])
  end.

(* term_variables/2: [vars t] is the depth-first left-to-right sequence of variable occurrences *)
Definition tvars (t : term) : list N := dd (vars t) [].

(* the same by one traversal with an accumulator, as an implementation does it *)
Fixpoint tv (t : term) (acc : list N) : list N :=
  match t with
  | Var x => if memN x acc then acc else acc ++ [x]
  | Cmp _ l => fold_left (fun a u => tv u a) l acc
  | _ => acc
  end.

Fixpoint ground (t : term) : bool :=
  match t with
  | Var _ => false
  | Cmp _ l => forallb ground l
  | _ => true
  end.

Fixpoint index_of (x : N) (l : list N) : N :=
  match l with
  | [] => 0%N
  | y :: r => if N.eqb x y then 0%N else N.succ (index_of x r)
  end.

(* copy_term/2: the k-th distinct variable (in term_variables order) becomes the fresh variable base+k *)
Definition ren (t : term) (base : N) (x : N) : N := (base + index_of x (tvars t))%N.
Definition copy (t : term) (base : N) : term := inst (fun x => Var (ren t base x)) t.
Definition unren (t : term) (base : N) (y : N) : N := nth (N.to_nat (y - base)) (tvars t) 0%N.

Fixpoint fresh_vars (base : N) (n : nat) : list term :=
  match n with O => [] | S k => Var base :: fresh_vars (N.succ base) k end.

(* ------------------------------------------------------------------ subsumes_term/2: one-sided matching *)
(* match [g] against [s], the variables of [s] being constants *)
Fixpoint pmatch (g s : term) (sg : subst) : option subst :=
  match g with
  | Var x => match lookup x sg with
             | Some t => if term_eqb t s then Some sg else None
             | None => Some ((x, s) :: sg)
             end
  | Cmp f l =>
      match s with
      | Cmp f' l' =>
          if name_eqb f f'
          then (fix go (l l' : list term) (sg : subst) : option subst :=
                  match l, l' with
                  | [], [] => Some sg
                  | a :: r, b :: r' => match pmatch a b sg with Some sg' => go r r' sg' | None => None end
                  | _, _ => None
                  end) l l' sg
          else None
      | _ => None
      end
  | _ => if leaf_eqb g s then Some sg else None
  end.

(* the matching substitution must leave [s] itself unchanged (8.2.4: Specific theta = Specific) *)
Definition subsumes (g s : term) : bool :=
  match pmatch g s [] with
  | Some sg => forallb (fun y => match lookup y sg with Some t => term_eqb t (Var y) | None => true end) (vars s)
  | None => false
  end.

(* ------------------------------------------------------------------ the builtins by mode *)
(* the continuation is a thunk: vm_compute is call-by-value and the success branch may be huge (arity 2^70) *)
Definition or_errors (errs : list term) (k : unit -> out) : out := match errs with [] => k tt | _ => OErr errs end.

(* functor(T, N, A); [base] is above every variable of the call *)
Definition m_functor (T Nm A : term) (base : N) : out :=
  match T with
  | Var _ =>
      or_errors
        (when (is_var Nm || is_var A) inst_err ++
         when (negb (is_var A) && negb (is_int A)) (type_err "integer" A) ++
         match A with
         | Int a => when (max_arity <? a)%Z (rep_err "max_arity") ++ when (a <? 0)%Z (dom_err "not_less_than_zero" A)
         | _ => []
         end ++
         when (is_compound Nm) (type_err "atomic" Nm) ++
         match A with
         | Int a => when (is_atomic Nm && negb (is_atom Nm) && (0 <? a)%Z) (type_err "atom" Nm)
         | _ => []
         end)
        (fun _ => match Nm, A with
        | Atom f, Int a => if (a =? 0)%Z then OUnify [(T, Nm)] else OUnify [(T, Cmp f (fresh_vars base (Z.to_nat a)))]
        | _, _ => OUnify [(T, Nm)]
        end)
  | _ =>
      match functor_of T with
      | Some (f, n) => OUnify [(Nm, f); (A, Int n)]
      | None => OFail
      end
  end.

(* arg(N, T, A): no enumeration, an unbound N is an instantiation error (ISO 8.5.2.3 a) *)
Definition m_arg (Nn T A : term) : out :=
  or_errors
    (when (is_var Nn || is_var T) inst_err ++
     when (negb (is_var Nn) && negb (is_int Nn)) (type_err "integer" Nn) ++
     match Nn with Int n => when (n <? 0)%Z (dom_err "not_less_than_zero" Nn) | _ => [] end ++
     when (negb (is_var T) && negb (is_compound T)) (type_err "compound" T))
    (fun _ => match Nn with
    | Int n => match arg_of n T with Some a => OUnify [(A, a)] | None => OFail end
    | _ => OFail
    end).

(* T =.. L *)
Definition m_univ (T L : term) : out :=
  let (items, tail) := lview L in
  let proper := is_nil tail in
  or_errors
    (when (is_var T && is_var tail) inst_err ++
     when (negb (is_var tail) && negb proper) (type_err "list" L) ++
     match items with
     | [] => when (is_var T && proper) (dom_err "non_empty_list" tnil)
     | [h] => when (proper && is_var T && is_var h) inst_err ++ when (proper && is_compound h) (type_err "atomic" h)
     | h :: _ => when (proper && is_var T && is_var h) inst_err ++
                 when (proper && negb (is_var h) && negb (is_atom h)) (type_err "atom" h) ++
                 when (proper && is_var T && (max_arity <? Z.of_nat (List.length items) - 1)%Z) (rep_err "max_arity")
     end)
    (fun _ => match T with
    | Var _ =>
        match items with
        | [h] => OUnify [(T, h)]
        | Atom f :: args => OUnify [(T, Cmp f args)]
        | _ => OFail
        end
    | _ => match univ_of T with Some l => OUnify [(L, tlist l)] | None => OFail end
    end).

Definition m_copy (T C : term) (base : N) : out := OUnify [(C, copy T base)].

Definition m_tvars (T Vs : term) : out :=
  let (_, tail) := lview Vs in
  or_errors (when (negb (is_var tail) && negb (is_nil tail)) (type_err "list" Vs))
            (fun _ => OUnify [(Vs, tlist (map Var (tvars T)))]).

Definition m_ground (T : term) : out := if ground T then OUnify [] else OFail.
Definition m_subsumes (G Sp : term) : out := if subsumes G Sp then OUnify [] else OFail.

(* ------------------------------------------------------------------ calls and the comparison with the implementation *)
Inductive call :=
| CFunctor (T Nm A : term) | CArg (Nn T A : term) | CUniv (T L : term) | CCopy (T C : term)
| CTVars (T Vs : term) | CGround (T : term) | CSubsumes (G Sp : term).

Definition call_terms (c : call) : list term :=
  match c with
  | CFunctor a b d | CArg a b d => [a; b; d]
  | CUniv a b | CCopy a b | CTVars a b | CSubsumes a b => [a; b]
  | CGround a => [a]
  end.

Definition fresh_base (c : call) : N := N.succ (fold_right N.max 0%N (flat_map vars (call_terms c))).

Definition run_call (c : call) : out :=
  match c with
  | CFunctor T Nm A => m_functor T Nm A (fresh_base c)
  | CArg Nn T A => m_arg Nn T A
  | CUniv T L => m_univ T L
  | CCopy T C => m_copy T C (fresh_base c)
  | CTVars T Vs => m_tvars T Vs
  | CGround T => m_ground T
  | CSubsumes G Sp => m_subsumes G Sp
  end.

Inductive impl_out :=
| IFail
| IErr (formal : term)          (* error(Formal, _) *)
| IOk (bs : list term)          (* exactly one solution; the values of the query's variables *)
| ICyclic                       (* succeeded, and the values of the variables are cyclic (too big to report) *)
| IOther.

(* vs = the variables of the query *)
Definition check_call (c : call) (vs : list N) (o : impl_out) : bool :=
  match run_call c with
  | OErr fs => match o with IErr f => existsb (fun g => variant_lists [g] [f]) fs | _ => false end
  | OFail => match o with IFail => true | _ => false end
  | OUnify eqs =>
      match unify_v (S (List.length (eqs_vars eqs))) eqs with
      | Ok s => match o with IOk bs => variant_lists (model_bindings s vs) bs | _ => false end
      | Fail =>
          (* no finite unifier: with the default occurs_check=false the builtin then succeeds with a cyclic
             binding exactly when the equations are solvable over rational trees (C10, C24) *)
          match unify_rt (Cmp [] (map fst eqs)) (Cmp [] (map snd eqs)) with
          | Some true => match o with ICyclic => true | _ => false end
          | Some false => match o with IFail => true | _ => false end
          | None => false
          end
      | OutOfFuel => false
      end
  end.
