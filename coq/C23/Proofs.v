(* C23 -- proofs about the model of the term inspection / construction builtins *)
From Coq Require Import ZArith NArith List Bool Lia String.
From V Require Import Base.Term C10.Model C10.Proofs C23.Model.
Import ListNotations.

(* ------------------------------------------------------------------ syntactic equality test *)
Lemma term_eqb_refl : forall a, term_eqb a a = true.
Proof.
  induction a as [v|z|n d|b|s|h args IH] using term_ind'; simpl.
  - apply N.eqb_refl. - apply Z.eqb_refl. - rewrite !Z.eqb_refl. reflexivity. - apply Z.eqb_refl.
  - apply name_eqb_refl.
  - rewrite name_eqb_refl. simpl. induction IH as [|x r Hx Hr IHr]; auto. rewrite Hx. simpl. auto.
Qed.

Lemma term_eqb_true : forall a b, term_eqb a b = true -> a = b.
Proof.
  induction a as [v|z|n d|bb|s|h args IH] using term_ind'; intros b H; destruct b; simpl in H; try discriminate.
  - apply N.eqb_eq in H. congruence.
  - apply Z.eqb_eq in H. congruence.
  - apply andb_true_iff in H. destruct H as [H1 H2]. apply Z.eqb_eq in H1. apply Z.eqb_eq in H2. congruence.
  - apply Z.eqb_eq in H. congruence.
  - apply name_eqb_eq in H. congruence.
  - apply andb_true_iff in H. destruct H as [H1 H2]. apply name_eqb_eq in H1. subst. f_equal.
    revert args0 H2. induction IH as [|x l Hx Hl IHl]; intros [|y m] H2; try discriminate; auto.
    apply andb_true_iff in H2. destruct H2 as [Ha Hb]. f_equal; auto.
Qed.

Lemma term_eqb_eq : forall a b, term_eqb a b = true <-> a = b.
Proof. intros. split. apply term_eqb_true. intro. subst. apply term_eqb_refl. Qed.

(* ------------------------------------------------------------------ ground *)
Lemma flat_map_nil : forall (A B : Type) (f : A -> list B) l, flat_map f l = [] <-> (forall a, In a l -> f a = []).
Proof.
  induction l as [|x l IH]; simpl; split; intro H; auto.
  - intros a [].
  - apply app_eq_nil in H. destruct H as [H1 H2]. intros a [E|Ha]. subst. auto. apply IH; auto.
  - rewrite (H x); auto. simpl. apply IH. intros. apply H. auto.
Qed.

Lemma ground_iff : forall t, ground t = true <-> vars t = [].
Proof.
  induction t as [v|z|n d|b|s|h args IH] using term_ind'; simpl; try (split; intro; auto; discriminate).
  rewrite forallb_forall, flat_map_nil. rewrite Forall_forall in IH.
  split; intros H a Ha; apply IH; auto.
Qed.

(* ------------------------------------------------------------------ first occurrences *)
Lemma memN_true : forall x l, memN x l = true <-> In x l.
Proof.
  intros. unfold memN. rewrite existsb_exists. split.
  - intros [y [Hy E]]. apply N.eqb_eq in E. subst. auto.
  - intro H. exists x. split; auto. apply N.eqb_refl.
Qed.

Lemma memN_false : forall x l, memN x l = false <-> ~ In x l.
Proof.
  intros. rewrite <- memN_true. destruct (memN x l); split; intro H; try discriminate; auto. exfalso. apply H. reflexivity.
Qed.

Lemma dd_In : forall l seen x, In x (dd l seen) <-> In x l /\ ~ In x seen.
Proof.
  induction l as [|y r IH]; intros seen x; simpl. tauto.
  destruct (memN y seen) eqn:E.
  - apply memN_true in E. rewrite IH. split.
    + intros [H1 H2]. auto.
    + intros [[H|H] H2]; auto. subst. contradiction.
  - apply memN_false in E. simpl. rewrite IH. split.
    + intros [H|[H1 H2]]. subst. auto. split; auto. intro Q. apply H2. apply in_app_iff. auto.
    + intros [[H|H] H2]; auto. destruct (N.eq_dec y x); auto. right. split; auto.
      intro Q. apply in_app_iff in Q. destruct Q as [Q|[Q|[]]]; auto.
Qed.

Lemma dd_NoDup : forall l seen, NoDup (dd l seen).
Proof.
  induction l as [|y r IH]; intros seen; simpl. constructor.
  destruct (memN y seen) eqn:E; auto. constructor; auto.
  rewrite dd_In. intros [_ H]. apply H. apply in_app_iff. simpl. auto.
Qed.

Lemma dd_app : forall l1 l2 seen, dd (l1 ++ l2) seen = dd l1 seen ++ dd l2 (seen ++ dd l1 seen).
Proof.
  induction l1 as [|x r IH]; intros l2 seen; simpl.
  - rewrite app_nil_r. reflexivity.
  - destruct (memN x seen) eqn:E. apply IH.
    simpl. f_equal. rewrite IH. f_equal. f_equal. rewrite <- app_assoc. reflexivity.
Qed.

Lemma tv_spec : forall t acc, tv t acc = acc ++ dd (vars t) acc.
Proof.
  induction t as [v|z|n d|b|s|h args IH] using term_ind'; intro acc; simpl; try (rewrite app_nil_r; reflexivity).
  - destruct (memN v acc); auto. rewrite app_nil_r. reflexivity.
  - revert acc. induction IH as [|u r Hu Hr IHr]; intro acc; simpl.
    + rewrite app_nil_r. reflexivity.
    + rewrite IHr, Hu, dd_app, app_assoc. reflexivity.
Qed.

Lemma tv_is_tvars : forall t, tv t [] = tvars t.
Proof. intro t. rewrite tv_spec. reflexivity. Qed.

Lemma tvars_NoDup : forall t, NoDup (tvars t).
Proof. intro. apply dd_NoDup. Qed.

Lemma tvars_In : forall t x, In x (tvars t) <-> In x (vars t).
Proof. intros. unfold tvars. rewrite dd_In. simpl. tauto. Qed.

(* the variable whose first occurrence is at position |l1| of the occurrence sequence comes right after the
   distinct variables of the occurrences before it: depth-first, left-to-right, first-occurrence order *)
Lemma tvars_order : forall t l1 x l2, vars t = l1 ++ x :: l2 -> ~ In x l1 ->
  tvars t = dd l1 [] ++ x :: dd l2 (dd l1 [] ++ [x]).
Proof.
  intros t l1 x l2 H Hx. unfold tvars. rewrite H, dd_app. f_equal. simpl.
  assert (E : memN x (dd l1 []) = false). { apply memN_false. rewrite dd_In. tauto. }
  rewrite E. reflexivity.
Qed.

Lemma tvars_all : forall t, tvars t = dd (vars t) [] /\ NoDup (tvars t) /\ (forall x, In x (tvars t) <-> In x (vars t)) /\
  (forall l1 x l2, vars t = l1 ++ x :: l2 -> ~ In x l1 -> tvars t = dd l1 [] ++ x :: dd l2 (dd l1 [] ++ [x])).
Proof.
  intro t. split. reflexivity. split. apply tvars_NoDup. split. apply tvars_In. apply tvars_order.
Qed.

(* ------------------------------------------------------------------ copy *)
Lemma index_of_nth : forall x l d, In x l -> nth (N.to_nat (index_of x l)) l d = x.
Proof.
  intros x. induction l as [|y r IH]; intros d H; simpl in *. contradiction.
  destruct (N.eqb_spec x y). subst. reflexivity.
  rewrite N2Nat.inj_succ. simpl. apply IH. destruct H; congruence.
Qed.

Lemma index_of_inj : forall x y l, In x l -> In y l -> index_of x l = index_of y l -> x = y.
Proof.
  intros x y l Hx Hy E. rewrite <- (index_of_nth x l 0%N Hx), <- (index_of_nth y l 0%N Hy), E. reflexivity.
Qed.

Lemma unren_ren : forall t base x, In x (vars t) -> unren t base (ren t base x) = x.
Proof.
  intros t base x H. unfold unren, ren.
  replace (base + index_of x (tvars t) - base)%N with (index_of x (tvars t)) by lia.
  apply index_of_nth. apply tvars_In. auto.
Qed.

Lemma copy_variant : forall t base,
  copy t base = inst (fun x => Var (ren t base x)) t /\
  inst (fun y => Var (unren t base y)) (copy t base) = t /\
  (forall x, In x (vars t) -> unren t base (ren t base x) = x).
Proof.
  intros t base. split. reflexivity. split.
  - unfold copy. rewrite inst_comp. rewrite <- (inst_id t) at 2. apply inst_ext.
    intros x Hx. simpl. rewrite unren_ren; auto.
  - apply unren_ren.
Qed.

Lemma copy_sharing : forall t base x y, In x (vars t) -> In y (vars t) ->
  (ren t base x = ren t base y <-> x = y).
Proof.
  intros t base x y Hx Hy. split; intro E. 2: subst; reflexivity.
  unfold ren in E. apply (index_of_inj x y (tvars t)); try (apply tvars_In; auto). lia.
Qed.

Lemma copy_vars : forall t base y, In y (vars (copy t base)) <-> exists x, In x (vars t) /\ y = ren t base x.
Proof.
  intros t base y. unfold copy. rewrite vars_inst. split; intros [x [Hx Hy]]; exists x; split; auto.
  - simpl in Hy. destruct Hy as [E|[]]. auto.
  - simpl. auto.
Qed.

Lemma copy_fresh_ge : forall t base y, In y (vars (copy t base)) -> (base <= y)%N.
Proof. intros t base y H. apply copy_vars in H. destruct H as [x [_ E]]. subst. unfold ren. lia. Qed.

Lemma copy_fresh_disjoint : forall t base, (forall x, In x (vars t) -> (x < base)%N) ->
  forall y, In y (vars (copy t base)) -> ~ In y (vars t).
Proof. intros t base H y Hy Q. apply copy_fresh_ge in Hy. apply H in Q. lia. Qed.

Lemma fold_max_ge : forall l x, In x l -> (x <= fold_right N.max 0 l)%N.
Proof. induction l as [|a l IH]; simpl; intros x H. contradiction. destruct H as [E|H]. lia. apply IH in H. lia. Qed.

Lemma fresh_base_above : forall c x, In x (flat_map vars (call_terms c)) -> (x < fresh_base c)%N.
Proof. intros c x H. unfold fresh_base. apply fold_max_ge in H. lia. Qed.

(* copy_term(T, C) inside a call: the copy shares no variable with the whole call, in particular not with T *)
Lemma copy_in_call_fresh : forall T C y, In y (vars (copy T (fresh_base (CCopy T C)))) -> ~ In y (vars T) /\ ~ In y (vars C).
Proof.
  intros T C y H. apply copy_fresh_ge in H.
  split; intro Q; assert (L : (y < fresh_base (CCopy T C))%N) by (apply fresh_base_above; simpl; rewrite !in_app_iff; auto); lia.
Qed.

(* functor(T, f, n) with T unbound: n distinct fresh variables *)
Lemma fresh_vars_spec : forall n base, List.length (fresh_vars base n) = n /\
  (forall t, In t (fresh_vars base n) -> exists k, t = Var k /\ (base <= k)%N) /\ NoDup (fresh_vars base n).
Proof.
  induction n as [|k IH]; intro base; simpl. split; auto. split. intros t []. constructor.
  destruct (IH (N.succ base)) as [H1 [H2 H3]]. split; auto. split.
  - intros t [E|H]. exists base. split; auto. lia. apply H2 in H. destruct H as [j [E L]]. exists j. split; auto. lia.
  - constructor; auto. intro Q. apply H2 in Q. destruct Q as [j [E L]]. inversion E. lia.
Qed.

(* ------------------------------------------------------------------ =.. / functor / arg *)
Lemma nth_error_ext : forall (A : Type) (l m : list A), List.length l = List.length m ->
  (forall k, k < List.length l -> nth_error l k = nth_error m k) -> l = m.
Proof.
  induction l as [|a l IH]; intros [|b m] L H; simpl in *; try discriminate; auto.
  f_equal. specialize (H 0 (Nat.lt_0_succ _)). simpl in H. congruence.
  apply IH. lia. intros k Hk. apply (H (S k)). lia.
Qed.

Lemma univ_functor_arg : forall T F Args,
  univ_of T = Some (F :: Args) <->
  (functor_of T = Some (F, Z.of_nat (List.length Args)) /\
   forall i, (1 <= i <= Z.of_nat (List.length Args))%Z -> arg_of i T = nth_error Args (Z.to_nat (i - 1))).
Proof.
  intros T F Args. unfold univ_of, functor_of. destruct T as [v|z|n d|b|s|h args]; simpl;
    try (split; [intro H; inversion H; subst; simpl; split; [reflexivity | intros i Hi; simpl in Hi; lia]
                |intros [H _]; destruct Args as [|a0 Args0]; [inversion H; reflexivity | simpl in H; inversion H; lia]]).
  - split. discriminate. intros [H _]. discriminate.
  - split.
    + intro H. inversion H; subst. split; auto. intros i Hi.
      replace ((1 <=? i)%Z && (i <=? Z.of_nat (List.length Args))%Z) with true; auto.
      symmetry. apply andb_true_iff. split; apply Z.leb_le; lia.
    + intros [H1 H2]. inversion H1 as [[E1 E2]]. apply Nat2Z.inj in E2. f_equal. f_equal.
      apply nth_error_ext; auto. intros k Hk.
      specialize (H2 (Z.of_nat k + 1)%Z).
      replace (Z.to_nat (Z.of_nat k + 1 - 1)) with k in H2 by lia.
      rewrite <- H2 by lia.
      replace ((1 <=? Z.of_nat k + 1)%Z && (Z.of_nat k + 1 <=? Z.of_nat (List.length args))%Z) with true; auto.
      symmetry. apply andb_true_iff. split; apply Z.leb_le; lia.
Qed.

(* the mode tables reduce to the pure functions when the first argument is instantiated *)
Lemma m_functor_inspect : forall T Nm A base F n, functor_of T = Some (F, n) ->
  m_functor T Nm A base = OUnify [(Nm, F); (A, Int n)].
Proof. intros T Nm A base F n H. destruct T; simpl in *; try discriminate; inversion H; reflexivity. Qed.

Lemma m_arg_inspect : forall i f l A, m_arg (Int i) (Cmp f l) A =
  if (i <? 0)%Z then OErr [dom_err "not_less_than_zero"%string (Int i)]
  else match arg_of i (Cmp f l) with Some a => OUnify [(A, a)] | None => OFail end.
Proof. intros. unfold m_arg. simpl. destruct (i <? 0)%Z; reflexivity. Qed.

Lemma lview_tlist_tail : forall l tail, lview tail = ([], tail) -> lview (tlist_tail l tail) = (l, tail).
Proof.
  induction l as [|x r IH]; intros tail H; simpl; auto.
  unfold tcons. simpl. rewrite (IH tail H). reflexivity.
Qed.

Lemma lview_tlist : forall l, lview (tlist l) = (l, tnil).
Proof. intro l. apply lview_tlist_tail. reflexivity. Qed.

(* construction and inspection by =.. are inverse: T =.. [f|Args] with T unbound builds the term whose =.. list is [f|Args] *)
Lemma m_univ_construct : forall v f a args, (Z.of_nat (List.length (a :: args)) <= max_arity)%Z ->
  m_univ (Var v) (tlist (Atom f :: a :: args)) = OUnify [(Var v, Cmp f (a :: args))] /\
  univ_of (Cmp f (a :: args)) = Some (Atom f :: a :: args).
Proof.
  intros v f a args L. split; auto. unfold m_univ. rewrite lview_tlist.
  cbv beta iota. cbn [is_nil tnil]. rewrite name_eqb_refl.
  cbn [is_var is_atom negb andb when app].
  replace (max_arity <? Z.of_nat (List.length (Atom f :: a :: args)) - 1)%Z with false.
  reflexivity.
  symmetry. apply Z.ltb_ge. change (List.length (Atom f :: a :: args)) with (S (List.length (a :: args))). lia.
Qed.

Lemma m_univ_inspect : forall T v l, univ_of T = Some l -> m_univ T (Var v) = OUnify [(Var v, tlist l)].
Proof.
  intros T v l H. destruct T; simpl in *; try discriminate; inversion H; reflexivity.
Qed.

(* ------------------------------------------------------------------ subsumes_term *)
Definition fs (sg : subst) : N -> term := fun x => match lookup x sg with Some t => t | None => Var x end.
Definition agrees (f : N -> term) (sg : subst) : Prop := forall x t, lookup x sg = Some t -> f x = t.
Definition extends (sg sg' : subst) : Prop := forall x t, lookup x sg = Some t -> lookup x sg' = Some t.

Lemma inst_extends : forall sg sg' a, extends sg sg' -> (forall x, In x (vars a) -> lookup x sg <> None) ->
  inst (fs sg') a = inst (fs sg) a.
Proof.
  intros sg sg' a E H. apply inst_ext. intros x Hx. unfold fs.
  destruct (lookup x sg) as [t|] eqn:L. rewrite (E x t L). reflexivity. exfalso. apply (H x Hx). auto.
Qed.

Lemma leaf_eqb_refl_leaf : forall g, is_var g = false -> is_compound g = false -> leaf_eqb g g = true.
Proof.
  intros g H1 H2. destruct g; simpl in *; try discriminate.
  apply Z.eqb_refl. rewrite !Z.eqb_refl. reflexivity. apply Z.eqb_refl. apply name_eqb_refl.
Qed.

Lemma pmatch_sound : forall g s sg sg', pmatch g s sg = Some sg' ->
  extends sg sg' /\ (forall x, In x (vars g) -> lookup x sg' <> None) /\ inst (fs sg') g = s.
Proof.
  induction g as [v|z|n d|b|nm|h args IH] using term_ind'; intros s sg sg' H;
    try (cbn [pmatch] in H; match type of H with (if ?c then _ else _) = _ => destruct c eqn:E; try discriminate end;
         inversion H; subst; apply leaf_eqb_true in E; subst; split; [intros x t Q; exact Q| split; [intros x []|reflexivity]]).
  - simpl in H. destruct (lookup v sg) as [t|] eqn:L.
    + destruct (term_eqb t s) eqn:E; try discriminate. inversion H; subst. apply term_eqb_true in E. subst.
      split. intros x t' Q. exact Q. split.
      * intros x [Q|[]]. subst. congruence.
      * simpl. unfold fs. rewrite L. reflexivity.
    + inversion H; subst. split.
      * intros x t Q. simpl. destruct (N.eqb_spec x v). subst. congruence. exact Q.
      * split. intros x [Q|[]]. subst. simpl. rewrite N.eqb_refl. discriminate.
        simpl. unfold fs. simpl. rewrite N.eqb_refl. reflexivity.
  - simpl in H. destruct s as [| | | | |h' args']; try discriminate.
    destruct (name_eqb h h') eqn:E; try discriminate. apply name_eqb_eq in E. subst h'.
    assert (G : extends sg sg' /\ (forall x, In x (flat_map vars args) -> lookup x sg' <> None) /\
                map (inst (fs sg')) args = args').
    { revert args' sg sg' H. induction IH as [|a r Ha Hr IHr]; intros [|b r'] sg sg' H; try discriminate.
      - inversion H; subst. split. intros x t Q. exact Q. split. intros x []. reflexivity.
      - destruct (pmatch a b sg) as [sg1|] eqn:P; try discriminate.
        apply Ha in P. destruct P as [E1 [D1 I1]].
        apply IHr in H. destruct H as [E2 [D2 I2]].
        split. intros x t Q. apply E2. apply E1. exact Q.
        split.
        + intros x Q. simpl in Q. apply in_app_iff in Q. destruct Q as [Q|Q]; auto.
          specialize (D1 x Q). destruct (lookup x sg1) as [t|] eqn:L; try congruence. rewrite (E2 x t L). discriminate.
        + simpl. f_equal; auto. rewrite (inst_extends sg1 sg' a E2 D1). exact I1. }
    destruct G as [G1 [G2 G3]]. split; auto. split; auto. simpl. congruence.
Qed.

Lemma pmatch_complete : forall g s sg f, agrees f sg -> inst f g = s ->
  exists sg', pmatch g s sg = Some sg' /\ agrees f sg'.
Proof.
  induction g as [v|z|n d|b|nm|h args IH] using term_ind'; intros s sg f A H;
    try (simpl in H; subst s; exists sg; split; auto; simpl;
         rewrite ?Z.eqb_refl, ?name_eqb_refl; reflexivity).
  - simpl in H. simpl. destruct (lookup v sg) as [t|] eqn:L.
    + rewrite (A v t L) in H. subst. rewrite term_eqb_refl. exists sg. auto.
    + exists ((v, s) :: sg). split; auto. intros x t Q. simpl in Q. destruct (N.eqb_spec x v).
      inversion Q; subst. reflexivity. apply A. exact Q.
  - simpl in H. subst s. cbn [pmatch]. rewrite name_eqb_refl.
    revert sg A. induction IH as [|a r Ha Hr IHr]; intros sg A; simpl.
    + exists sg. auto.
    + destruct (Ha (inst f a) sg f A eq_refl) as [sg1 [P1 A1]]. rewrite P1. apply IHr. exact A1.
Qed.

Lemma map_fix : forall (A : Type) (g : A -> A) l, map g l = l -> forall a, In a l -> g a = a.
Proof.
  induction l as [|x l IH]; simpl; intros H a Ha. contradiction.
  injection H as H1 H2. destruct Ha as [E|Ha]. subst. exact H1. apply IH; auto.
Qed.

Lemma inst_fix_vars : forall f s, inst f s = s -> forall y, In y (vars s) -> f y = Var y.
Proof.
  intros f. induction s as [v|z|n d|b|nm|h args IH] using term_ind'; simpl; intros H y Hy; try contradiction.
  - destruct Hy as [E|[]]. subst. exact H.
  - apply in_flat_map in Hy. destruct Hy as [a [Ha Hy]]. rewrite Forall_forall in IH.
    apply (IH a Ha); auto. injection H as H1. apply (map_fix _ (inst f) args H1 a Ha).
Qed.

Lemma subsumes_iff : forall g s, subsumes g s = true <-> exists f, inst f g = s /\ inst f s = s.
Proof.
  intros g s. unfold subsumes. split.
  - destruct (pmatch g s []) as [sg|] eqn:P; try discriminate. intro H.
    apply pmatch_sound in P. destruct P as [_ [_ I]]. exists (fs sg). split; auto.
    rewrite <- (inst_id s) at 2. apply inst_ext. intros y Hy.
    rewrite forallb_forall in H. specialize (H y Hy). unfold fs.
    destruct (lookup y sg) as [t|]; auto. apply term_eqb_true. exact H.
  - intros [f [H1 H2]].
    destruct (pmatch_complete g s [] f) as [sg [P A]]; auto. intros x t Q. discriminate.
    rewrite P. apply forallb_forall. intros y Hy.
    destruct (lookup y sg) as [t|] eqn:L; auto.
    rewrite <- (A y t L). rewrite (inst_fix_vars f s H2 y Hy). apply term_eqb_refl.
Qed.

(* when General and Specific share no variable this is plain matching *)
Lemma subsumes_disjoint : forall g s, (forall x, In x (vars g) -> ~ In x (vars s)) ->
  (subsumes g s = true <-> exists f, inst f g = s).
Proof.
  intros g s D. rewrite subsumes_iff. split.
  - intros [f [H _]]. eauto.
  - intros [f H]. exists (fun x => if memN x (vars g) then f x else Var x). split.
    + rewrite <- H. apply inst_ext. intros x Hx. apply memN_true in Hx. rewrite Hx. reflexivity.
    + rewrite <- (inst_id s) at 2. apply inst_ext. intros x Hx.
      destruct (memN x (vars g)) eqn:E; auto. apply memN_true in E. exfalso. exact (D x E Hx).
Qed.

(* ------------------------------------------------------------------ results of the check *)
Lemma m_ground_iff : forall T, m_ground T = OUnify [] <-> vars T = [].
Proof.
  intro T. unfold m_ground. rewrite <- ground_iff. destruct (ground T); split; intro H; try discriminate; auto.
Qed.

Lemma m_subsumes_iff : forall G Sp, m_subsumes G Sp = OUnify [] <-> exists f, inst f G = Sp /\ inst f Sp = Sp.
Proof.
  intros. unfold m_subsumes. rewrite <- subsumes_iff. destruct (subsumes G Sp); split; intro H; try discriminate; auto.
Qed.
