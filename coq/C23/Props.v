(* C23 -- pinned property theorems (nothing else lives here) *)
From Coq Require Import ZArith NArith List Bool String.
From V Require Import Base.Term C10.Model C23.Model C23.Proofs.
Import ListNotations.

(* T =.. [F|Args] says exactly what functor/3 and arg/3 say: name F, arity |Args|, i-th argument = i-th element *)
Theorem univ_functor_arg_consistent : forall T F Args,
  univ_of T = Some (F :: Args) <->
  (functor_of T = Some (F, Z.of_nat (List.length Args)) /\
   forall i, (1 <= i <= Z.of_nat (List.length Args))%Z -> arg_of i T = nth_error Args (Z.to_nat (i - 1))).
Proof. exact univ_functor_arg. Qed.
Print Assumptions univ_functor_arg_consistent.

(* building by =.. and inspecting by =.. are inverse (arity within max_arity) *)
Theorem univ_construct_inspect_roundtrip : forall v f a args, (Z.of_nat (List.length (a :: args)) <= max_arity)%Z ->
  m_univ (Var v) (tlist (Atom f :: a :: args)) = OUnify [(Var v, Cmp f (a :: args))] /\
  univ_of (Cmp f (a :: args)) = Some (Atom f :: a :: args).
Proof. exact m_univ_construct. Qed.
Print Assumptions univ_construct_inspect_roundtrip.

(* the mode tables of functor/3 and =../2 on an instantiated first argument are the pure functions *)
Theorem functor_inspect_mode : forall T Nm A base F n, functor_of T = Some (F, n) ->
  m_functor T Nm A base = OUnify [(Nm, F); (A, Int n)].
Proof. exact m_functor_inspect. Qed.
Print Assumptions functor_inspect_mode.

Theorem univ_inspect_mode : forall T v l, univ_of T = Some l -> m_univ T (Var v) = OUnify [(Var v, tlist l)].
Proof. exact m_univ_inspect. Qed.
Print Assumptions univ_inspect_mode.

(* functor(T, f, n) with T unbound makes n distinct variables at or above the fresh base *)
Theorem functor_construct_fresh_args : forall n base, List.length (fresh_vars base n) = n /\
  (forall t, In t (fresh_vars base n) -> exists k, t = Var k /\ (base <= k)%N) /\ NoDup (fresh_vars base n).
Proof. exact fresh_vars_spec. Qed.
Print Assumptions functor_construct_fresh_args.

(* the copy is a variant: a renaming r maps the term to the copy, a renaming r' maps it back, r' o r = id on the variables *)
Theorem copy_is_variant : forall t base,
  copy t base = inst (fun x => Var (ren t base x)) t /\
  inst (fun y => Var (unren t base y)) (copy t base) = t /\
  (forall x, In x (vars t) -> unren t base (ren t base x) = x).
Proof. exact copy_variant. Qed.
Print Assumptions copy_is_variant.

(* no variable of the copy occurs in the original when the base is above the original's variables *)
Theorem copy_fresh : forall t base, (forall x, In x (vars t) -> (x < base)%N) ->
  forall y, In y (vars (copy t base)) -> ~ In y (vars t).
Proof. exact copy_fresh_disjoint. Qed.
Print Assumptions copy_fresh.

(* ... which is how the model calls it: the copy made by copy_term(T, C) shares no variable with T or C *)
Theorem copy_fresh_in_call : forall T C y, In y (vars (copy T (fresh_base (CCopy T C)))) -> ~ In y (vars T) /\ ~ In y (vars C).
Proof. exact copy_in_call_fresh. Qed.
Print Assumptions copy_fresh_in_call.

(* sharing is preserved and not invented: two variable occurrences are the same variable in the copy iff they were in the original *)
Theorem copy_preserves_sharing : forall t base x y, In x (vars t) -> In y (vars t) ->
  (ren t base x = ren t base y <-> x = y).
Proof. exact copy_sharing. Qed.
Print Assumptions copy_preserves_sharing.

(* term_variables: no duplicates, exactly the variables, in depth-first left-to-right first-occurrence order
   ([vars t] is the depth-first left-to-right sequence of occurrences; the variable first met after the occurrences l1
   comes right after the distinct variables of l1) *)
Theorem term_variables_dfs_nodup : forall t, tvars t = dd (vars t) [] /\ NoDup (tvars t) /\ (forall x, In x (tvars t) <-> In x (vars t)) /\
  (forall l1 x l2, vars t = l1 ++ x :: l2 -> ~ In x l1 -> tvars t = dd l1 [] ++ x :: dd l2 (dd l1 [] ++ [x])).
Proof. exact tvars_all. Qed.
Print Assumptions term_variables_dfs_nodup.

(* the one-pass traversal with an accumulator (what an implementation does) computes the same list *)
Theorem term_variables_one_pass : forall t, tv t [] = tvars t.
Proof. exact tv_is_tvars. Qed.
Print Assumptions term_variables_one_pass.

Theorem ground_iff_no_vars : forall t, ground t = true <-> vars t = [].
Proof. exact ground_iff. Qed.
Print Assumptions ground_iff_no_vars.

(* ISO 8.2.4: General subsumes Specific iff some substitution makes General equal to Specific and leaves Specific alone *)
Theorem subsumes_spec : forall g s, subsumes g s = true <-> exists f, inst f g = s /\ inst f s = s.
Proof. exact subsumes_iff. Qed.
Print Assumptions subsumes_spec.

(* with no shared variable this is plain one-sided matching *)
Theorem subsumes_spec_disjoint : forall g s, (forall x, In x (vars g) -> ~ In x (vars s)) ->
  (subsumes g s = true <-> exists f, inst f g = s).
Proof. exact subsumes_disjoint. Qed.
Print Assumptions subsumes_spec_disjoint.

(* non-vacuity *)
Definition a1 (c : N) : list N := [c].
Example ex_univ : univ_of (Cmp (a1 102) [Var 0; Int 1]) = Some [Atom (a1 102); Var 0; Int 1].
Proof. reflexivity. Qed.
Example ex_copy : copy (Cmp (a1 102) [Var 3; Var 1; Var 3]) 10 = Cmp (a1 102) [Var 10; Var 11; Var 10].
Proof. vm_compute. reflexivity. Qed.
Example ex_tvars : tvars (Cmp (a1 102) [Var 3; Cmp (a1 103) [Var 1; Var 3]; Var 2]) = [3; 1; 2]%N.
Proof. vm_compute. reflexivity. Qed.
Example ex_subsumes : subsumes (Cmp (a1 102) [Var 0; Var 1]) (Cmp (a1 102) [Var 2; Var 2]) = true
                   /\ subsumes (Cmp (a1 102) [Var 0; Var 0]) (Cmp (a1 102) [Var 1; Var 2]) = false
                   /\ subsumes (Var 0) (Cmp (a1 102) [Var 0]) = false.
Proof. vm_compute. auto. Qed.
Example ex_functor_errors : m_functor (Var 0) (Int 3) (Int 2) 1 = OErr [type_err "atom"%string (Int 3)]
                         /\ m_functor (Var 0) (Atom (a1 102)) (Int 256) 1 = OErr [rep_err "max_arity"%string].
Proof. vm_compute. auto. Qed.
Example ex_check : check_call (CCopy (Cmp (a1 102) [Var 0; Var 0]) (Var 7)) [0; 7]%N (IOk [Var 5; Cmp (a1 102) [Var 9; Var 9]]) = true.
Proof. vm_compute. reflexivity. Qed.
